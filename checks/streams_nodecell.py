"""streams `nodecell_node` / `nodecell_cell`: op sequences against ref_node.c's id state machine and
ref_cell.c's cell store, with oracles that state the abstract map/set model (C14, C13 id clause) directly on
the implementation's own output.  Exported as the list `STREAMS` (appended to checks/c14.py by the integrator).
"""
from collections import Counter

from .common import Stream

# ---------------------------------------------------------------------------------------------
# cell type data used by the generators / oracles (node_per, has id, e2n) -- from ref_cell_initialize
# ---------------------------------------------------------------------------------------------
CELL_TYPES = {
    'edg': (2, True, [(0, 1)]),
    'tri': (3, True, [(0, 1), (1, 2), (2, 0)]),
    'qua': (4, True, [(0, 1), (1, 2), (2, 3), (3, 0)]),
    'tet': (4, False, [(0, 1), (0, 2), (0, 3), (1, 2), (1, 3), (2, 3)]),
    'pyr': (5, False, [(0, 1), (0, 2), (0, 3), (1, 2), (1, 4), (2, 3), (2, 4), (3, 4)]),
    'pri': (6, False, [(0, 1), (0, 2), (0, 3), (1, 2), (1, 4), (2, 5), (3, 4), (3, 5), (4, 5)]),
}


def size_per(t):
    np_, has_id, _ = CELL_TYPES[t]
    return np_ + (1 if has_id else 0)


# ---------------------------------------------------------------------------------------------
# node generator: keeps a small simulation of the slot free list only to produce mostly-valid ops
# ---------------------------------------------------------------------------------------------
class NodeSim:
    def __init__(self):
        self.free = list(range(20))      # head first
        self.max = 20
        self.slot = {}                   # slot -> global
        self.unused = []
        self.new = -1

    def add(self, g):
        if g < 0:
            return None
        for s, gg in self.slot.items():
            if gg == g:
                return s
        if not self.free:
            chunk = max(5000, self.max + self.max // 2)
            self.free = list(range(self.max, self.max + chunk))
            self.max += chunk
        s = self.free.pop(0)
        self.slot[s] = g
        return s

    def remove(self, s, push=True):
        if s in self.slot:
            g = self.slot.pop(s)
            self.free.insert(0, s)
            if push:
                self.unused.append(g)

    def next_global(self):
        if self.unused:
            return self.unused.pop()
        if self.new == -1:
            self.new = len(self.slot)
        self.new += 1
        return self.new - 1


def node_session_refine_like(rng, nops, n0, dump_every=64):
    """initial mesh 0..n0-1 then split-like (next_global, add, sometimes withdrawn) / collapse-like ops"""
    ops = ['reset tri']
    sim = NodeSim()
    ids = list(range(n0))
    rng.shuffle(ids)
    if n0:
        ops.append('add_many ' + ' '.join(map(str, ids)))
        for g in ids:                    # add_many allocates in list order of the survivors
            sim.add(g)
        ops.append('ndump')
    ops.append('init_n_global %d' % n0 if rng.random() < 0.5 else 'nn')
    if ops[-1].startswith('init'):
        sim.new = n0
    k = 0
    while k < nops:
        k += 1
        r = rng.random()
        if r < 0.35:
            g = sim.next_global()
            ops.append('next_global')
            ops.append('add %d' % g)
            s = sim.add(g)
            if rng.random() < 0.5:       # rejected split: withdraw the trial vertex
                ops.append('remove %d' % s)
                sim.remove(s)
                ops.append('local %d' % g)
        elif r < 0.55 and sim.slot:
            s = rng.choice(list(sim.slot))
            ops.append('remove %d' % s)
            sim.remove(s)
        elif r < 0.62 and sim.slot:
            s = rng.choice(list(sim.slot))
            ops.append('remove_wog %d' % s)
            sim.remove(s, push=False)
        elif r < 0.80:
            g = rng.choice(list(sim.slot.values())) if sim.slot and rng.random() < 0.7 else rng.randint(-2, n0 + 40)
            ops.append('local %d' % g)
        elif r < 0.88:
            v = rng.randint(-2, sim.max + 1)
            ops.append(rng.choice(['valid %d', 'glob %d']) % v)
        elif r < 0.92:
            ops.append(rng.choice(['nn', 'stable_compact', 'compact']))
        elif r < 0.95 and sim.slot:
            ops.append('set_part %d %d' % (rng.choice(list(sim.slot)), rng.randint(0, 2)))
        else:
            ops.append('rebuild')
        if k % dump_every == 0:
            ops.append('ndump')
    ops.append('ndump')
    return ops


def node_session_adversarial(rng, nops, span):
    """descending / duplicate / re-added globals, arbitrary ids, pool ops, packs"""
    ops = ['reset tet']
    sim = NodeSim()
    removed = []
    mode = rng.choice(['desc', 'dup', 'rand', 'alt'])
    cur = span
    for k in range(nops):
        r = rng.random()
        if r < 0.45:
            if removed and rng.random() < 0.3:
                g = rng.choice(removed)                 # re-add a removed global
            elif mode == 'desc':
                cur -= rng.randint(1, 3)
                g = cur
            elif mode == 'dup':
                g = rng.randint(0, max(3, span // 8))
            elif mode == 'alt':
                g = (span - k) if k % 2 else k
            else:
                g = rng.choice([rng.randint(0, span), rng.randint(0, 10 ** 15), rng.randint(-3, 3)])
            ops.append('add %d' % g)
            sim.add(g)
        elif r < 0.65 and sim.slot:
            s = rng.choice(list(sim.slot))
            removed.append(sim.slot[s])
            if rng.random() < 0.8:
                ops.append('remove %d' % s)
                sim.remove(s)
            else:
                ops.append('remove_wog %d' % s)
                sim.remove(s, push=False)
        elif r < 0.70:
            ops.append('remove %d' % rng.choice([-1, -2, sim.max, sim.max + 7, rng.randint(0, sim.max)]))
            # outcome depends on validity; resynchronise the simulation lazily: drop it from sim if valid
            v = int(ops[-1].split()[1])
            if v in sim.slot:
                removed.append(sim.slot[v])
                sim.remove(v)
        elif r < 0.78:
            gs = [rng.randint(0, span) for _ in range(rng.randint(0, 12))]
            if rng.random() < 0.3:
                gs += gs[:3] + [-1]
            rng.shuffle(gs)
            ops.append(('add_many ' + ' '.join(map(str, gs))).strip())
            ops.append('ndump')
            for g in gs:                 # approximate (which duplicate survives is heap-order dependent)
                sim.add(g)
        elif r < 0.84:
            ops.append(rng.choice(['next_global', 'pop_unused', 'push_unused %d' % rng.randint(0, span),
                                   'init_n_global %d' % rng.randint(0, span)]))
        elif r < 0.93:
            ops.append('local %d' % rng.choice([rng.randint(-2, span)] + removed[-3:] + list(sim.slot.values())[-3:]))
        elif r < 0.96:
            ops.append(rng.choice(['pack', 'stable_pack', 'compact', 'stable_compact']))
            if 'pack' in ops[-1]:
                ops.append('ndump')
        else:
            v = rng.randint(0, 40)
            ops.append(rng.choice(['valid %d', 'glob %d']) % v)
        if k % 50 == 49:
            ops.append('ndump')
    ops.append('ndump')
    return ops


def node_session_growth(rng, big):
    """cross the 20 -> 5020 -> 12550 slot growth and the 10 -> 1010 -> 2010 unused growth"""
    ops = ['reset tri']
    if big:
        n = 5030 + rng.randint(0, 30)
        ids = list(range(n))
        if rng.random() < 0.5:
            ids.reverse()
        ops.append('add_many ' + ' '.join(map(str, ids)))
        ops += ['nn', 'local 0', 'local %d' % (n - 1), 'local %d' % n, 'valid 5019', 'valid 5020', 'valid 5021',
                'glob 5020', 'add %d' % (n + 5), 'add %d' % (n + 2), 'ndump']
        for _ in range(30):
            ops.append('remove %d' % rng.randint(0, n))
        ops += ['add 999999', 'next_global', 'next_global', 'rebuild', 'ndump']
    else:
        # one at a time over the first boundary, in a seed-dependent order
        n = 20 + rng.randint(1, 8)
        order = list(range(n))
        rng.choice([lambda l: None, l_reverse, rng.shuffle])(order)
        for g in order:
            ops.append('add %d' % g)
        ops.append('ndump')
        # > 1010 removes without a pop: unused list realloc boundaries at 10 and 1010
        m = 1015 + rng.randint(0, 10)
        ops.append('add_many ' + ' '.join(str(1000 + i) for i in range(m)))
        ops += ['nn', 'ndump']
        for v in range(n, n + m):
            ops.append('remove %d' % v)
        ops += ['nn', 'ndump']
        for _ in range(m + 3):
            ops.append('next_global')
        ops += ['nn', 'ndump']
    return ops


def l_reverse(l):
    l.reverse()


def node_session_misuse(rng, nops):
    """the *_invalidates_sorted removals followed by ops before the rebuild, negative / REF_EMPTY ids,
    failing add_many, malformed lines"""
    ops = ['reset edg']
    for g in rng.sample(range(40), 12):
        ops.append('add %d' % g)
    for k in range(nops):
        r = rng.random()
        if r < 0.2:
            ops.append(rng.choice(['remove_inv %d', 'remove_wog_inv %d']) % rng.randint(-1, 22))
        elif r < 0.4:
            ops.append('add %d' % rng.randint(-2, 45))
        elif r < 0.5:
            ops.append(rng.choice(['remove %d', 'remove_wog %d']) % rng.randint(-1, 22))
        elif r < 0.6:
            ops.append('rebuild')
        elif r < 0.7:
            gs = [rng.choice([-1, -1, -5, -2] + list(range(50))) for _ in range(rng.randint(1, 8))]
            ops.append('add_many ' + ' '.join(map(str, gs)))
        elif r < 0.8:
            ops.append('local %d' % rng.randint(-2, 45))
        elif r < 0.9:
            ops.append(rng.choice(['add', 'add 1 2', 'remove', 'frobnicate 3', 'local', 'cadd 1', 'valid', 'reset',
                                   'reset nope', 'next_global 4', 'ndump 1', 'pop_unused', 'next_global']))
        else:
            ops.append('ndump')
    ops.append('ndump')
    return ops


def node_session_pack_full(rng, cap):
    """renumber (pack / compact) a container that is EXACTLY full (n == max: 20, 5020, ...): the branch of
    ref_node_pack / ref_node_compact that re-threads an empty free list"""
    ops = ['reset tet']
    gs = list(range(cap + 5))
    rng.shuffle(gs)
    live = []
    for g in gs[:cap]:
        ops.append('add %d' % (g * 3 + 1))
        live.append(g)
    # churn without changing the count: remove a slot, add a fresh global (slot is reused)
    for k in range(rng.randint(0, 6)):
        sl = rng.randint(0, cap - 1)
        ops.append('remove %d' % sl)
        ops.append('add %d' % (3 * (cap + 10 + k) + 2))
    ops.append('ndump')
    ops.append(rng.choice(['pack', 'stable_pack', 'compact', 'stable_compact']))
    ops.append('ndump')
    ops.append('local %d' % (gs[0] * 3 + 1))
    ops.append('add %d' % (3 * (cap + 100)))
    ops.append('ndump')
    ops.append('pack')
    ops.append('ndump')
    return ops


def gen_node(rng, tier):
    scale = 1 if tier == 'quick' else 6
    ops = []
    for _ in range(4 * scale):
        ops += node_session_refine_like(rng, rng.randint(150, 700), rng.choice([0, 1, 5, 18, 19, 20, 21, 60]))
    ops += node_session_refine_like(rng, 2500, 30, dump_every=400)
    for _ in range(5 * scale):
        ops += node_session_adversarial(rng, rng.randint(100, 500), rng.choice([10, 40, 300, 10 ** 6]))
    for _ in range(2 * scale):
        ops += node_session_growth(rng, False)
    ops += node_session_growth(rng, True)
    for _ in range(3 * scale):
        ops += node_session_pack_full(rng, 20)
    ops += node_session_pack_full(rng, 5020)
    for _ in range(4 * scale):
        ops += node_session_misuse(rng, rng.randint(60, 250))
    return ops


CELL_OPS = {'cadd', 'cremove', 'creplace_whole', 'creplace_node', 'cwith', 'chas_side', 'cdegree_with2', 'clist_with2',
            'cnode_list_around', 'cid_list_around', 'cnodes', 'cvalid', 'cn', 'ccompact', 'cpack', 'cdump'}


# ---------------------------------------------------------------------------------------------
# node oracle
# ---------------------------------------------------------------------------------------------
def parse_sections(line):
    return [[int(x) for x in sec.split()] for sec in line.split('|')]


def check_node_dump(secs):
    """NodeInv stated directly on a dump of the C arrays; returns (errors, slot->global, unused list)"""
    errs = []
    head, glob, sg, sl, unused, part = secs
    n, mx, blank, nun, maxun, old, new = head
    if len(glob) != mx:
        errs.append('global[] length %d != max %d' % (len(glob), mx))
    live = {i: g for i, g in enumerate(glob) if g >= 0}
    if len(live) != n:
        errs.append('n=%d but %d valid slots' % (n, len(live)))
    # free list: acyclic, in range, exactly the invalid slots
    seen = []
    seen_set = set()
    b = blank
    while b != -1:
        i = -b - 2
        if i < 0 or i >= mx or i in seen_set:
            errs.append('free list leaves the array or cycles at link %d' % b)
            break
        if glob[i] >= 0:
            errs.append('free list runs through live slot %d' % i)
            break
        seen.append(i)
        seen_set.add(i)
        b = glob[i]
    if not errs and seen_set != set(range(mx)) - set(live):
        errs.append('free list does not cover exactly the invalid slots')
    if len(unused) != nun or nun > maxun:
        errs.append('unused list length/max inconsistent')
    if len(sg) != n or len(sl) != n or len(part) != n:
        errs.append('sorted arrays not of length n')
    return errs, live, unused, (sg, sl)


def check_sorted(live, sg, sl):
    errs = []
    if any(a >= b for a, b in zip(sg, sg[1:])):
        errs.append('sorted_global not strictly increasing')
    for g, l in zip(sg, sl):
        if live.get(l) != g:
            errs.append('global[sorted_local[i]] != sorted_global[i] at global %d' % g)
            break
    if sorted(sl) != sorted(live):
        errs.append('sorted_local is not a permutation of the valid slots')
    return errs


def oracle_node(ops, impl):
    bad = []
    st = None

    def fresh():
        return {'g2s': {}, 's2g': {}, 'unused': [], 'old': -1, 'new': -1, 'part': {}, 'stale': False,
                'undef': False, 'desync': False}

    st = fresh()
    for i, (o, r) in enumerate(zip(ops, impl)):
        w = o.split()
        op = w[0]
        if r == 'bad-op':
            continue
        if 'fallback' in r:
            bad.append((i, 'heap sort of the implementation/model produced a non-sorting permutation: ' + r))
            continue
        try:
            a = [int(x) for x in w[1:]] if op != 'reset' else []
        except ValueError:
            continue
        if op == 'reset':
            st = fresh()
            continue
        if op in CELL_OPS:
            continue                                      # cell ops: other oracle
        if st['undef']:
            continue
        g2s, s2g = st['g2s'], st['s2g']
        rw = r.split()
        if op == 'ndump':
            errs, live, unused, (sg, sl) = check_node_dump(parse_sections(r))
            if not st['stale']:
                errs += check_sorted(live, sg, sl)
            if not st['desync']:
                exp = {s: g for g, s in g2s.items() if s is not None}
                for s, g in exp.items():
                    if live.get(s) != g:
                        errs.append('slot %d should hold global %d, dump has %s' % (s, g, live.get(s)))
                        break
                if sorted(live.values()) != sorted(g2s):
                    errs.append('live global set differs from the map model')
                if unused != st['unused']:
                    errs.append('unused list %s != model %s' % (unused[-5:], st['unused'][-5:]))
                head = parse_sections(r)[0]
                if (head[5], head[6]) != (st['old'], st['new']):
                    errs.append('old/new_n_global differ from the model')
            for e in errs:
                bad.append((i, 'ndump: ' + e))
            if len(set(live.values())) != len(live):
                st['undef'] = True                         # duplicate live globals (misuse): map model void
                continue
            st['g2s'] = {g: s for s, g in live.items()}
            st['s2g'] = dict(live)
            st['unused'] = list(unused)
            secs = parse_sections(r)
            st['old'], st['new'] = secs[0][5], secs[0][6]
            st['part'] = dict(zip(sorted(live), secs[5]))
            st['desync'] = False
            continue
        if op in ('remove_inv', 'remove_wog_inv') and r == 'ok':
            st['stale'] = True                             # sorted_* are stale until the next rebuild
        if op == 'rebuild':
            st['stale'] = False
        if st['stale'] and op in ('add', 'add_many', 'remove', 'remove_wog'):
            st['undef'] = True                             # these use the stale sorted arrays: map model void
            continue
        if st['desync']:
            continue
        unknown = any(s is None for s in g2s.values())
        if op == 'add':
            g = a[0]
            if g < 0:
                if r != 'invalid':
                    bad.append((i, 'add of a negative global must be invalid, got ' + r))
                continue
            if st['stale']:
                st['undef'] = True
                continue
            if rw[0] != 'ok':
                bad.append((i, 'add failed: ' + r))
                continue
            s = int(rw[1])
            if g in g2s:
                if g2s[g] is not None and g2s[g] != s:
                    bad.append((i, 'add of live global %d returned slot %d, it lives in %d' % (g, s, g2s[g])))
                g2s[g] = s
                s2g[s] = g
            else:
                if s in s2g or s < 0:
                    bad.append((i, 'add gave slot %d which holds live global %s' % (s, s2g.get(s))))
                elif unknown:
                    st['desync'] = True
                g2s[g] = s
                s2g[s] = g
                st['part'][s] = 0
        elif op == 'add_many':
            if st['stale']:
                st['undef'] = True
                continue
            if any(x < -1 for x in a):
                if r != 'invalid':
                    bad.append((i, 'add_many with an id < -1 must be invalid, got ' + r))
                st['desync'] = True
                continue
            if r != 'ok':
                bad.append((i, 'add_many failed: ' + r))
                continue
            for g in a:
                if g >= 0 and g not in g2s:
                    g2s[g] = None
        elif op == 'local':
            if st['stale']:
                continue
            g = a[0]
            if g in g2s:
                if rw[0] != 'ok' or (g2s[g] is not None and int(rw[1]) != g2s[g]):
                    bad.append((i, 'local(%d) = %s, the map model has slot %s' % (g, r, g2s[g])))
                elif g2s[g] is None:
                    s = int(rw[1])
                    if s in s2g:
                        bad.append((i, 'local(%d) = %d but that slot holds %d' % (g, s, s2g[s])))
                    g2s[g] = s
                    s2g[s] = g
            elif r != 'not_found -1':
                bad.append((i, 'local(%d) of a dead global = %s' % (g, r)))
        elif op in ('valid', 'glob'):
            if unknown:
                continue
            v = a[0]
            exp = ('1' if v in s2g else '0') if op == 'valid' else str(s2g.get(v, -1))
            if r != exp:
                bad.append((i, '%s -> %s, map model says %s' % (o, r, exp)))
        elif op in ('remove', 'remove_wog', 'remove_inv', 'remove_wog_inv'):
            v = a[0]
            if unknown and v not in s2g:
                st['desync'] = True
                continue
            if v not in s2g:
                if r != 'invalid':
                    bad.append((i, '%s of a dead slot must be invalid, got %s' % (o, r)))
                continue
            if st['stale'] and op in ('remove', 'remove_wog'):
                st['undef'] = True
                continue
            if r != 'ok':
                bad.append((i, '%s of live slot failed: %s' % (o, r)))
                continue
            g = s2g.pop(v)
            del g2s[g]
            if op in ('remove', 'remove_inv'):
                st['unused'].append(g)
            if op.endswith('_inv'):
                st['stale'] = True
        elif op == 'rebuild':
            st['stale'] = False
        elif op == 'init_n_global':
            st['old'] = st['new'] = a[0]
        elif op == 'push_unused':
            st['unused'].append(a[0])
        elif op == 'pop_unused':
            exp = 'ok %d' % st['unused'].pop() if st['unused'] else 'failure -1'
            if r != exp:
                bad.append((i, 'pop_unused -> %s, model %s' % (r, exp)))
        elif op == 'next_global':
            # pool invariant of the theorem: no live id is in the pool
            eff = len(g2s) if st['new'] == -1 else st['new']
            pool_ok = all(g < eff for g in g2s) and not (set(st['unused']) & set(g2s))
            if st['unused']:
                g = st['unused'].pop()
            else:
                if st['new'] == -1:
                    st['old'] = st['new'] = len(g2s)
                g = st['new']
                st['new'] += 1
            if r != 'ok %d' % g:
                bad.append((i, 'next_global -> %s, pool model gives %d' % (r, g)))
            elif pool_ok and g in g2s:
                bad.append((i, 'next_global returned live id %d' % g))
        elif op == 'set_part':
            if a[0] in s2g and r == 'ok':
                st['part'][a[0]] = a[1]
        elif op == 'nn':
            if int(rw[0]) != len(g2s) or int(rw[2]) != len(st['unused']):
                bad.append((i, 'counts %s differ from model n=%d unused=%d' % (r, len(g2s), len(st['unused']))))
        elif op in ('compact', 'stable_compact', 'pack', 'stable_pack'):
            if unknown:
                if 'pack' in op:
                    st['desync'] = True
                continue
            slots = sorted(s2g)
            if op in ('compact', 'pack'):
                n2o = [s for s in slots if st['part'].get(s, 0) == 0] + [s for s in slots if st['part'].get(s, 0) != 0]
            else:
                n2o = slots
            if 'pack' not in op:
                secs = r.split('|')
                if secs[0].strip() != 'ok':
                    bad.append((i, op + ' failed: ' + r[:40]))
                    continue
                o2n_i = [int(x) for x in secs[1].split()]
                n2o_i = [int(x) for x in secs[2].split()]
                if n2o_i != n2o:
                    bad.append((i, '%s n2o %s != model %s' % (op, n2o_i[:8], n2o[:8])))
                exp_o2n = {s: k for k, s in enumerate(n2o)}
                if any(o2n_i[s] != exp_o2n.get(s, -1) for s in range(len(o2n_i))):
                    bad.append((i, op + ' o2n is not the inverse of n2o / -1 on dead slots'))
            else:
                if r != 'ok':
                    bad.append((i, op + ' failed: ' + r))
                    continue
                # packing renumbers without changing content
                ren = {s: k for k, s in enumerate(n2o)}
                st['g2s'] = {g: ren[s] for g, s in g2s.items()}
                st['s2g'] = {ren[s]: g for s, g in s2g.items()}
                st['part'] = {ren[s]: st['part'].get(s, 0) for s in s2g}
    return bad


# ---------------------------------------------------------------------------------------------
# cell generator
# ---------------------------------------------------------------------------------------------
class CellSim:
    def __init__(self):
        self.free = list(range(100))
        self.max = 100
        self.live = {}

    def add(self, nodes):
        if not self.free:
            chunk = max(5000, self.max + self.max // 2)
            self.free = list(range(self.max, self.max + chunk))
            self.max += chunk
        c = self.free.pop(0)
        self.live[c] = list(nodes)
        return c

    def remove(self, c):
        if c in self.live:
            del self.live[c]
            self.free.insert(0, c)


def rand_cell(rng, t, span, degenerate=0.05):
    np_, has_id, _ = CELL_TYPES[t]
    if rng.random() < degenerate:
        ns = [rng.randint(0, span) for _ in range(np_)]
    else:
        ns = rng.sample(range(span + 1), np_) if span + 1 >= np_ else [rng.randint(0, span) for _ in range(np_)]
    if has_id:
        ns.append(rng.randint(1, 6))
    return ns


def cell_session(rng, t, nops, span, dump_every=64, grow_to=0, neg=0.0):
    np_, has_id, _ = CELL_TYPES[t]
    sp = size_per(t)
    ops = ['reset ' + t]
    sim = CellSim()
    for _ in range(grow_to):
        ns = rand_cell(rng, t, span, 0.0)
        ops.append('cadd ' + ' '.join(map(str, ns)))
        sim.add(ns)
    if grow_to:
        ops += ['cn', 'cdump']
    for k in range(nops):
        r = rng.random()
        if r < 0.30:
            ns = rand_cell(rng, t, span)
            if rng.random() < neg:
                ns[rng.randrange(len(ns))] = rng.choice([-1, -2, -7])
            ops.append('cadd ' + ' '.join(map(str, ns)))
            if min(ns[:np_]) >= 0:
                sim.add(ns)
        elif r < 0.45 and sim.live:
            c = rng.choice(list(sim.live))
            ops.append('cremove %d' % c)
            sim.remove(c)
            if rng.random() < 0.5:                       # remove then add: slot reuse
                ns = rand_cell(rng, t, span)
                ops.append('cadd ' + ' '.join(map(str, ns)))
                sim.add(ns)
        elif r < 0.49:
            ops.append('cremove %d' % rng.choice([-1, -3, sim.max, sim.max + 3, rng.randint(0, sim.max - 1)]))
            sim.remove(int(ops[-1].split()[1]))
        elif r < 0.56 and sim.live:
            c = rng.choice(list(sim.live) + [rng.randint(0, sim.max)])
            ns = rand_cell(rng, t, span)
            if rng.random() < neg:
                ns[rng.randrange(np_)] = -1
            ops.append('creplace_whole %d %s' % (c, ' '.join(map(str, ns))))
            if c in sim.live and min(ns[:np_]) >= 0:
                sim.live[c] = ns
        elif r < 0.64:
            old = rng.randint(-1, span)
            new = rng.randint(0, span + 3) if rng.random() > neg else -1
            ops.append('creplace_node %d %d' % (old, new))
            for c in sim.live:
                sim.live[c] = [new if (v == old and j < np_) else v for j, v in enumerate(sim.live[c])]
        elif r < 0.74:
            if sim.live and rng.random() < 0.7:
                ns = list(rng.choice(list(sim.live.values()))[:np_])
                rng.shuffle(ns)
                if rng.random() < 0.2:
                    ns[rng.randrange(np_)] = rng.randint(0, span)
            else:
                ns = [rng.randint(-1, span) for _ in range(np_)]
            ops.append('cwith ' + ' '.join(map(str, ns)))
        elif r < 0.80:
            ops.append('chas_side %d %d' % (rng.randint(-1, span), rng.randint(-1, span)))
        elif r < 0.85:
            ops.append('cdegree_with2 %d %d' % (rng.randint(0, span), rng.randint(0, span)))
        elif r < 0.89:
            ops.append('clist_with2 %d %d %d' % (rng.randint(0, span), rng.randint(0, span), rng.choice([0, 1, 2, 50])))
        elif r < 0.93:
            ops.append('cnode_list_around %d %d' % (rng.randint(-1, span), rng.choice([0, 2, 5, 200])))
        elif r < 0.95:
            ops.append('cid_list_around %d %d' % (rng.randint(0, span), rng.choice([0, 1, 3, 50])))
        elif r < 0.97:
            ops.append(rng.choice(['cnodes %d', 'cvalid %d']) % rng.randint(-1, sim.max))
        elif r < 0.985:
            ops.append(rng.choice(['cn', 'ccompact']))
        elif r < 0.995:
            ops.append('cpack %d' % (span + 5))
            ops.append('cdump')
            sim2 = CellSim()
            for c in sorted(sim.live):
                sim2.add(sim.live[c])
            sim = sim2                                      # ids approximate afterwards (order by min node)
        else:
            ops.append(rng.choice(['cadd', 'cadd 1 2', 'cwith 1', 'cremove', 'creplace_node 1', 'cpack 0', 'cpack',
                                   'clist_with2 1 2 5000', 'cnode_list_around 1 -1', 'zap']))
        if k % dump_every == dump_every - 1:
            ops.append('cdump')
    ops.append('cdump')
    return ops


def gen_cell(rng, tier):
    scale = 1 if tier == 'quick' else 6
    ops = []
    for _ in range(2 * scale):
        for t in ['tri', 'tet', 'edg', 'qua', 'pyr', 'pri']:
            ops += cell_session(rng, t, rng.randint(150, 500), rng.choice([6, 12, 30]))
    ops += cell_session(rng, 'tet', 300, 40, grow_to=98 + rng.randint(0, 6), dump_every=100)   # 100-row boundary
    ops += cell_session(rng, 'tri', 200, 400, grow_to=5095 + rng.randint(0, 10), dump_every=100)  # 5100 boundary
    ops += cell_session(rng, 'tri', 200, 20000, dump_every=100)                                # ref_adj nnode growth
    ops += cell_session(rng, 'tet', 1500, 25, dump_every=300)
    for _ in range(3 * scale):
        ops += cell_session(rng, rng.choice(['tri', 'tet', 'edg']), rng.randint(60, 200), 10, neg=0.15)
    return ops


# ---------------------------------------------------------------------------------------------
# cell oracle
# ---------------------------------------------------------------------------------------------
def check_cell_dump(line, np_, sp):
    errs = []
    secs = line.split('|')
    n, mx, blank, nnode = [int(x) for x in secs[0].split()]
    rows = [[int(x) for x in rr.split(',')] for rr in secs[1].split()]
    adj = {}
    for ent in secs[2].split():
        v, cs = ent.split(':')
        adj[int(v)] = [int(x) for x in cs.split(',')]
    if len(rows) != mx:
        errs.append('rows %d != max %d' % (len(rows), mx))
    live = {c: rr for c, rr in enumerate(rows) if rr[0] != -1}
    if len(live) != n:
        errs.append('n=%d but %d valid rows' % (n, len(live)))
    seen = set()
    b = blank
    while b != -1:
        if b < 0 or b >= mx or b in seen or rows[b][0] != -1:
            errs.append('free list broken at %d' % b)
            break
        seen.add(b)
        b = rows[b][1]
    if not errs and seen != set(range(mx)) - set(live):
        errs.append('free list does not cover exactly the invalid rows')
    # derived adjacency exact, as multisets
    exp = {}
    for c, rr in live.items():
        for v in rr[:np_]:
            exp.setdefault(v, Counter())[c] += 1
    got = {v: Counter(cs) for v, cs in adj.items()}
    if exp != got:
        errs.append('adjacency is not exactly {cells containing v} (multiset) for some vertex')
    if any(v >= nnode for v in adj):
        errs.append('adjacency entry beyond nnode')
    return errs, live


def oracle_cell(ops, impl):
    bad = []
    t = 'tet'
    live = {}
    undef = False
    pending = None
    for i, (o, r) in enumerate(zip(ops, impl)):
        w = o.split()
        op = w[0]
        if op == 'reset':
            if r == 'ok':
                t = w[1] if w[1] in CELL_TYPES else None
                live = {}
                undef = False
                pending = None
            continue
        if op not in CELL_OPS or r == 'bad-op' or t is None or undef:
            continue
        if pending is not None and op != 'cdump':
            continue                                      # ids are unknown between a pack and the next dump
        np_, has_id, e2n = CELL_TYPES[t]
        sp = size_per(t)
        try:
            a = [int(x) for x in w[1:]]
        except ValueError:
            continue
        rw = r.split()

        def around(v):
            return [c for c, ns in live.items() for x in ns[:np_] if x == v]

        if op == 'cadd':
            if min(a[:np_]) < 0:
                if r != 'invalid':
                    bad.append((i, 'cadd with a negative node must be invalid: ' + r))
                undef = True
                continue
            if rw[0] != 'ok':
                bad.append((i, 'cadd failed: ' + r))
                continue
            c = int(rw[1])
            if c in live or c < 0:
                bad.append((i, 'cadd returned cell %d which is live' % c))
            live[c] = a
        elif op == 'cremove':
            exp = 'ok' if a[0] in live else 'invalid'
            if r != exp:
                bad.append((i, '%s -> %s, model %s' % (o, r, exp)))
            live.pop(a[0], None)
        elif op == 'creplace_whole':
            c, ns = a[0], a[1:]
            if c not in live:
                if r != 'failure':
                    bad.append((i, 'replace_whole of a dead cell -> ' + r))
                continue
            if min(ns[:np_]) < 0:
                undef = True
                continue
            if r != 'ok':
                bad.append((i, 'replace_whole failed: ' + r))
            live[c] = ns
        elif op == 'creplace_node':
            old, new = a
            touched = [c for c, ns in live.items() if old in ns[:np_]]
            if old == new or not touched:
                if r != 'ok':
                    bad.append((i, 'replace_node no-op -> ' + r))
                continue
            if new < 0:
                undef = True
                continue
            if r != 'ok':
                bad.append((i, 'replace_node failed: ' + r))
            for c in touched:
                live[c] = [new if (v == old and j < np_) else v for j, v in enumerate(live[c])]
        elif op == 'cwith':
            want = set(a)
            cands = {c for c, ns in live.items() if set(ns[:np_]) == want}
            if cands:
                if rw[0] != 'ok' or int(rw[1]) not in cands:
                    bad.append((i, 'with(%s) -> %s, cells with that vertex set: %s' % (a, r, sorted(cands)[:5])))
            elif r != 'not_found -1':
                bad.append((i, 'with(%s) -> %s but no live cell has that vertex set' % (a, r)))
        elif op == 'chas_side':
            n0, n1 = a
            exp = any((ns[x] == n0 and ns[y] == n1) or (ns[x] == n1 and ns[y] == n0)
                      for ns in live.values() if n0 in ns[:np_] for x, y in e2n)
            if r != ('1' if exp else '0'):
                bad.append((i, '%s -> %s' % (o, r)))
        elif op in ('cdegree_with2', 'clist_with2'):
            n0, n1 = a[0], a[1]
            exp = [c for c in around(n0) for x in live[c][:np_] if x == n1]
            if op == 'cdegree_with2':
                if int(r) != len(exp):
                    bad.append((i, '%s -> %s, model %d' % (o, r, len(exp))))
            elif len(exp) > a[2]:
                if r != 'increase_limit':
                    bad.append((i, '%s -> %s, %d cells exceed the limit' % (o, r, len(exp))))
            elif rw[0] != 'ok' or sorted(int(x) for x in rw[2:]) != sorted(exp):
                bad.append((i, '%s -> %s, model %s' % (o, r, sorted(exp))))
        elif op == 'cnode_list_around':
            v = a[0]
            exp = {x for c in set(around(v)) for x in live[c][:np_]} - {v}
            if len(exp) > a[1]:
                if r != 'increase_limit':
                    bad.append((i, '%s -> %s' % (o, r)))
            else:
                got = [int(x) for x in rw[2:]]
                if rw[0] != 'ok' or set(got) != exp or len(got) != len(exp):
                    bad.append((i, '%s -> %s, model %s' % (o, r, sorted(exp))))
        elif op == 'cid_list_around':
            v = a[0]
            exp = {live[c][np_] for c in around(v)}
            if len(exp) > a[1]:
                if r != 'increase_limit':
                    bad.append((i, '%s -> %s' % (o, r)))
            else:
                got = [int(x) for x in rw[2:]]
                if rw[0] != 'ok' or set(got) != exp or len(got) != len(exp):
                    bad.append((i, '%s -> %s, model %s' % (o, r, sorted(exp))))
        elif op == 'cnodes':
            exp = 'ok ' + ' '.join(map(str, live[a[0]])) if a[0] in live else 'invalid'
            if r != exp:
                bad.append((i, '%s -> %s, model %s' % (o, r, exp)))
        elif op == 'cvalid':
            if r != ('1' if a[0] in live else '0'):
                bad.append((i, '%s -> %s' % (o, r)))
        elif op == 'cn':
            if int(rw[0]) != len(live):
                bad.append((i, 'n = %s, model has %d live cells' % (rw[0], len(live))))
        elif op == 'ccompact':
            secs = r.split('|')
            n2o = [int(x) for x in secs[2].split()]
            o2n = [int(x) for x in secs[1].split()]
            if n2o != sorted(live) or any(o2n[c] != (n2o.index(c) if c in live else -1) for c in range(len(o2n))):
                bad.append((i, 'ccompact maps are not the order-preserving renumbering of the live cells'))
        elif op == 'cpack':
            k = a[0]
            if r != 'ok':
                bad.append((i, 'cpack failed: ' + r))
                continue
            # packing renumbers without changing content: remember the expected multiset, adopt ids at next dump
            pending = Counter(tuple([k - 1 - v for v in ns[:np_]] + ns[np_:]) for ns in live.values())
        elif op == 'cdump':
            errs, dl = check_cell_dump(r, np_, sp)
            if pending is not None:
                if pending != Counter(tuple(x) for x in dl.values()):
                    errs.append('pack changed the multiset of cells')
                if sorted(dl) != list(range(len(dl))):
                    errs.append('pack did not renumber the cells to 0..n-1')
                keys = [min(dl[c][:np_]) for c in sorted(dl)]
                if keys != sorted(keys):
                    errs.append('pack order is not by smallest node')
            elif {c: list(ns) for c, ns in live.items()} != dl:
                errs.append('live rows differ from the map model')
            for e in errs:
                bad.append((i, 'cdump: ' + e))
            live = dl
            pending = None
    return bad


def nontrivial(op, out):
    return not (out.startswith('bad-op') or out in ('ok', 'invalid', '0', 'not_found -1'))


NODE = Stream('nodecell_node', 'h_nodecell', 'nodecell', gen_node, oracle=oracle_node, nontrivial=nontrivial)
CELL = Stream('nodecell_cell', 'h_nodecell', 'nodecell', gen_cell, oracle=oracle_cell, nontrivial=nontrivial)
STREAMS = [NODE, CELL]
