"""Direct, implementation-independent statements of the high-level properties, evaluated on files that the
real `ref` / `refmpi` binaries wrote (end-to-end streams).  Pure Python, exact where it matters (Fractions)."""
from fractions import Fraction
import math

TET_FACES = [(1, 3, 2), (0, 2, 3), (0, 3, 1), (0, 1, 2)]


def fvol(a, b, c, d):
    m11 = (a[0] - d[0]) * ((b[1] - d[1]) * (c[2] - d[2]) - (c[1] - d[1]) * (b[2] - d[2]))
    m12 = (a[1] - d[1]) * ((b[0] - d[0]) * (c[2] - d[2]) - (c[0] - d[0]) * (b[2] - d[2]))
    m13 = (a[2] - d[2]) * ((b[0] - d[0]) * (c[1] - d[1]) - (c[0] - d[0]) * (b[1] - d[1]))
    return -(m11 - m12 + m13) / 6


def exact_vol(a, b, c, d):
    F = Fraction
    return fvol([F(x) for x in a], [F(x) for x in b], [F(x) for x in c], [F(x) for x in d])


def tri_area_vec(a, b, c):
    u = [b[i] - a[i] for i in range(3)]
    v = [c[i] - a[i] for i in range(3)]
    return (0.5 * (u[1] * v[2] - u[2] * v[1]), 0.5 * (u[2] * v[0] - u[0] * v[2]), 0.5 * (u[0] * v[1] - u[1] * v[0]))


def area2d(a, b, c):
    return 0.5 * ((b[0] - a[0]) * (c[1] - a[1]) - (c[0] - a[0]) * (b[1] - a[1]))


def valid3d(m):
    """C01 statement for a 3-D tet mesh dict from pyio.read_meshb -> list of failure strings"""
    bad = []
    v = m['verts']
    nv = len(v)
    tets = m['cells'].get('tet', [])
    tris = m['cells'].get('tri', [])
    used = [False] * nv
    faces = {}
    for ti, t in enumerate(tets):
        n = t[:4]
        if any(x < 0 or x >= nv for x in n):
            bad.append('tet %d index out of range %s' % (ti, n))
            continue
        if len(set(n)) != 4:
            bad.append('tet %d degenerate %s' % (ti, n))
            continue
        for x in n:
            used[x] = True
        vol = fvol(v[n[0]], v[n[1]], v[n[2]], v[n[3]])
        if not vol > 1e-300:
            if exact_vol(v[n[0]], v[n[1]], v[n[2]], v[n[3]]) <= 0:
                bad.append('tet %d %s has non-positive volume %.3e' % (ti, n, vol))
        for f in TET_FACES:
            tri = (n[f[0]], n[f[1]], n[f[2]])
            faces.setdefault(tuple(sorted(tri)), []).append(tri)
    trikeys = {}
    for si, s in enumerate(tris):
        n = s[:3]
        if any(x < 0 or x >= nv for x in n) or len(set(n)) != 3:
            bad.append('tri %d bad nodes %s' % (si, n))
            continue
        trikeys.setdefault(tuple(sorted(n)), []).append(s)
    for key, lst in faces.items():
        if len(lst) > 2:
            bad.append('face %s shared by %d tets' % (key, len(lst)))
        elif len(lst) == 2:
            if parity(lst[0], key) == parity(lst[1], key):
                bad.append('interior face %s seen with the same orientation from both tets' % (key,))
            if key in trikeys:
                bad.append('interior face %s also has a boundary triangle' % (key,))
        else:
            k = len(trikeys.get(key, []))
            if k != 1:
                bad.append('boundary face %s matched by %d boundary triangles' % (key, k))
    for key in trikeys:
        if key not in faces:
            bad.append('boundary triangle %s is not a face of any tet' % (key,))
        elif len(faces[key]) != 1:
            pass  # reported above
    # boundary closed and manifold: each edge of the boundary triangulation in exactly two triangles
    be = {}
    for key in trikeys:
        for e in ((key[0], key[1]), (key[0], key[2]), (key[1], key[2])):
            be[e] = be.get(e, 0) + 1
    for e, c in be.items():
        if c != 2:
            bad.append('boundary edge %s in %d boundary triangles (not closed/manifold)' % (e, c))
            break
    if nv and not all(used):
        bad.append('%d vertices unused by any tet (first %d)' % (used.count(False), used.index(False)))
    return bad[:10]


def parity(tri, key):
    """parity of the permutation taking sorted key to tri"""
    idx = [key.index(x) for x in tri]
    inv = sum(1 for i in range(3) for j in range(i + 1, 3) if idx[i] > idx[j])
    return inv % 2


def valid2d(m):
    bad = []
    v = m['verts']
    nv = len(v)
    tris = m['cells'].get('tri', [])
    edgs = m['cells'].get('edg', [])
    used = [False] * nv
    sides = {}
    for ti, t in enumerate(tris):
        n = t[:3]
        if any(x < 0 or x >= nv for x in n) or len(set(n)) != 3:
            bad.append('tri %d bad nodes %s' % (ti, n))
            continue
        for x in n:
            used[x] = True
        a = area2d(v[n[0]], v[n[1]], v[n[2]])
        if not a > 0:
            bad.append('tri %d %s has non-positive area %.3e' % (ti, n, a))
        for e in ((n[0], n[1]), (n[1], n[2]), (n[2], n[0])):
            sides.setdefault(tuple(sorted(e)), []).append(e)
    ek = {}
    for e in edgs:
        ek.setdefault(tuple(sorted(e[:2])), []).append(e)
    for key, lst in sides.items():
        if len(lst) > 2:
            bad.append('edge %s in %d triangles' % (key, len(lst)))
        elif len(lst) == 2:
            if lst[0] == lst[1]:
                bad.append('interior edge %s same orientation from both triangles' % (key,))
            if key in ek:
                bad.append('interior edge %s also has a boundary segment' % (key,))
        elif len(ek.get(key, [])) != 1:
            bad.append('boundary edge %s matched by %d boundary segments' % (key, len(ek.get(key, []))))
    for key in ek:
        if key not in sides:
            bad.append('boundary segment %s is not a side of any triangle' % (key,))
    deg = {}
    for key in ek:
        for x in key:
            deg[x] = deg.get(x, 0) + 1
    for x, c in deg.items():
        if c != 2:
            bad.append('boundary vertex %d has %d boundary segments' % (x, c))
            break
    if nv and not all(used):
        bad.append('%d vertices unused (first %d)' % (used.count(False), used.index(False)))
    return bad[:10]


def measures3d(m):
    v = m['verts']
    vol = sum(fvol(v[t[0]], v[t[1]], v[t[2]], v[t[3]]) for t in m['cells'].get('tet', []))
    per = {}
    for s in m['cells'].get('tri', []):
        a = tri_area_vec(v[s[0]], v[s[1]], v[s[2]])
        d = per.setdefault(s[3], {'area': 0.0, 'vec': [0.0, 0.0, 0.0], 'lo': [1e300] * 3, 'hi': [-1e300] * 3})
        d['area'] += math.sqrt(a[0] ** 2 + a[1] ** 2 + a[2] ** 2)
        for i in range(3):
            d['vec'][i] += a[i]
            for n in s[:3]:
                d['lo'][i] = min(d['lo'][i], v[n][i])
                d['hi'][i] = max(d['hi'][i], v[n][i])
    return vol, per


def measures2d(m):
    v = m['verts']
    area = sum(area2d(v[t[0]], v[t[1]], v[t[2]]) for t in m['cells'].get('tri', []))
    per = {}
    for s in m['cells'].get('edg', []):
        a, b = v[s[0]], v[s[1]]
        d = per.setdefault(s[2], {'area': 0.0, 'lo': [1e300] * 2, 'hi': [-1e300] * 2})
        d['area'] += math.hypot(b[0] - a[0], b[1] - a[1])
        for i in range(2):
            d['lo'][i] = min(d['lo'][i], a[i], b[i])
            d['hi'][i] = max(d['hi'][i], a[i], b[i])
    return area, per


def same_domain(min_, mout, dim, tol=1e-9, curved_ids=()):
    """C02 statement: volume, per-patch area + bounding box, id set; planar patches to `tol` relative"""
    bad = []
    a0, p0 = (measures3d if dim == 3 else measures2d)(min_)
    a1, p1 = (measures3d if dim == 3 else measures2d)(mout)
    scale = max(abs(a0), 1e-300)
    vtol = tol if not curved_ids else 5e-2
    if abs(a1 - a0) > vtol * scale:
        bad.append('total %s changed: %.12e -> %.12e' % ('volume' if dim == 3 else 'area', a0, a1))
    if set(p0) != set(p1):
        bad.append('patch id set changed: %s -> %s' % (sorted(p0), sorted(p1)))
    for i in set(p0) & set(p1):
        t = 5e-2 if i in curved_ids else tol
        if abs(p1[i]['area'] - p0[i]['area']) > t * max(p0[i]['area'], 1e-300):
            bad.append('patch %d measure changed: %.12e -> %.12e' % (i, p0[i]['area'], p1[i]['area']))
        L = max(max(p0[i]['hi'][k] - p0[i]['lo'][k] for k in range(dim)), 1e-300)
        for k in range(dim):
            if abs(p1[i]['lo'][k] - p0[i]['lo'][k]) > 1e-9 * L + (2e-2 * L if i in curved_ids else 0) or \
               abs(p1[i]['hi'][k] - p0[i]['hi'][k]) > 1e-9 * L + (2e-2 * L if i in curved_ids else 0):
                bad.append('patch %d bounding box changed on axis %d: [%.6e,%.6e] -> [%.6e,%.6e]' %
                           (i, k, p0[i]['lo'][k], p0[i]['hi'][k], p1[i]['lo'][k], p1[i]['hi'][k]))
    if dim == 2:
        pass
    return bad[:10]


# ---- point / triangle / segment distance (independent routine: Ericson, Real-Time Collision Detection) ------
def sub(a, b):
    return (a[0] - b[0], a[1] - b[1], a[2] - b[2])


def dot(a, b):
    return a[0] * b[0] + a[1] * b[1] + a[2] * b[2]


def dist_point_segment(p, a, b):
    ab = sub(b, a)
    t = dot(sub(p, a), ab)
    den = dot(ab, ab)
    if den <= 0:
        return math.sqrt(dot(sub(p, a), sub(p, a)))
    t = max(0.0, min(1.0, t / den))
    q = (a[0] + t * ab[0], a[1] + t * ab[1], a[2] + t * ab[2])
    return math.sqrt(dot(sub(p, q), sub(p, q)))


def closest_point_triangle(p, a, b, c):
    ab, ac, ap = sub(b, a), sub(c, a), sub(p, a)
    d1, d2 = dot(ab, ap), dot(ac, ap)
    if d1 <= 0 and d2 <= 0:
        return a
    bp = sub(p, b)
    d3, d4 = dot(ab, bp), dot(ac, bp)
    if d3 >= 0 and d4 <= d3:
        return b
    vc = d1 * d4 - d3 * d2
    if vc <= 0 and d1 >= 0 and d3 <= 0:
        v = d1 / (d1 - d3)
        return (a[0] + v * ab[0], a[1] + v * ab[1], a[2] + v * ab[2])
    cp = sub(p, c)
    d5, d6 = dot(ab, cp), dot(ac, cp)
    if d6 >= 0 and d5 <= d6:
        return c
    vb = d5 * d2 - d1 * d6
    if vb <= 0 and d2 >= 0 and d6 <= 0:
        w = d2 / (d2 - d6)
        return (a[0] + w * ac[0], a[1] + w * ac[1], a[2] + w * ac[2])
    va = d3 * d6 - d5 * d4
    if va <= 0 and (d4 - d3) >= 0 and (d5 - d6) >= 0:
        w = (d4 - d3) / ((d4 - d3) + (d5 - d6))
        return (b[0] + w * (c[0] - b[0]), b[1] + w * (c[1] - b[1]), b[2] + w * (c[2] - b[2]))
    den = 1.0 / (va + vb + vc)
    v, w = vb * den, vc * den
    return (a[0] + ab[0] * v + ac[0] * w, a[1] + ab[1] * v + ac[1] * w, a[2] + ab[2] * v + ac[2] * w)


def dist_point_triangle(p, a, b, c):
    q = closest_point_triangle(p, a, b, c)
    d = math.sqrt(dot(sub(p, q), sub(p, q)))
    # guard the independent routine itself against cancellation: never larger than the edge distances
    return min(d, dist_point_segment(p, a, b), dist_point_segment(p, b, c), dist_point_segment(p, c, a))


def det6(m):
    m11, m12, m13, m22, m23, m33 = m
    return m11 * (m22 * m33 - m23 * m23) - m12 * (m12 * m33 - m23 * m13) + m13 * (m12 * m23 - m22 * m13)


def complexity3d(mesh, metric):
    """continuous complexity, vertex quadrature: sum_cells sum_{v in cell} sqrt(det m_v) vol / 4"""
    v = mesh['verts']
    tot = 0.0
    for t in mesh['cells'].get('tet', []):
        vol = fvol(v[t[0]], v[t[1]], v[t[2]], v[t[3]])
        for n in t[:4]:
            d = det6(metric[n])
            if d > 0:
                tot += math.sqrt(d) * vol / 4.0
    return tot


def complexity2d(mesh, metric):
    v = mesh['verts']
    tot = 0.0
    for t in mesh['cells'].get('tri', []):
        a = area2d(v[t[0]], v[t[1]], v[t[2]])
        for n in t[:3]:
            d = det6(metric[n])
            if d > 0:
                tot += math.sqrt(d) * a / 3.0
    return tot


def eig_sym3(m, sweeps=60):
    """cyclic Jacobi on a symmetric 3x3 (independent of refine's QL): returns eigenvalues"""
    a = [[m[0], m[1], m[2]], [m[1], m[3], m[4]], [m[2], m[4], m[5]]]
    for _ in range(sweeps):
        off = abs(a[0][1]) + abs(a[0][2]) + abs(a[1][2])
        if off < 1e-300:
            break
        for p, q in ((0, 1), (0, 2), (1, 2)):
            if a[p][q] == 0:
                continue
            theta = (a[q][q] - a[p][p]) / (2 * a[p][q])
            t = (1 if theta >= 0 else -1) / (abs(theta) + math.sqrt(theta * theta + 1))
            c = 1 / math.sqrt(t * t + 1)
            s = t * c
            for k in range(3):
                akp, akq = a[k][p], a[k][q]
                a[k][p], a[k][q] = c * akp - s * akq, s * akp + c * akq
            for k in range(3):
                apk, aqk = a[p][k], a[q][k]
                a[p][k], a[q][k] = c * apk - s * aqk, s * apk + c * aqk
    return sorted([a[0][0], a[1][1], a[2][2]])
