import os
import re

from . import streams_codec, streams_ugrid
from . import streams_partmeshb
from .common import LEAN

ID = 'C20'
PROPS_MODULE = ['Refine.Props.C20', 'Refine.Props.C20Ugrid', 'Refine.Props.C20PartMeshb']
STREAMS = [streams_codec.C20_MESHB, streams_codec.C20_SOLB, streams_codec.C20_ROBUST,
           streams_codec.C20_HANG, streams_codec.C20_INDEX, streams_codec.C20_COUNT, streams_codec.C20_NAMES,
           streams_ugrid.C20_MUT, streams_ugrid.C20_ROBUST, streams_ugrid.C20_INDEX, streams_ugrid.C20_COUNT,
           streams_ugrid.C20_SWEEP, streams_partmeshb.C20, streams_partmeshb.READ]
EXPLANATION = (
    'Obligations on the reader models (Refine/Props/C20.lean): totality; accepted_counts_fit; header_progress + '
    'header_scan_returns (every hop of the keyword scan moves strictly forward, so the scan returns on every byte '
    'string), accepted_indices_in_range (every vertex index of every accepted cell / geometry record is in '
    '[0,nnode)), solb_alloc_bounded (what the scalar reader allocates is covered by bytes present in the file): '
    'proved for the reader variant Cfg.fixed, which is the reader /repo has since the fix: commits 084384d, 92cf05c, '
    'ee7a30e (Cfg.current = Cfg.fixed).  The *_counterexample theorems keep the Lean proofs that the three '
    'obligations are FALSE of the reader as it was before those commits (Cfg.faithful) on concrete 20..92-byte '
    'files.  Tie: for every mutant (bit flips, truncation at record boundaries, count/index/offset substitution, '
    'section duplication/reorder) on which the selected model (Cfg.current) predicts a return, the C status and the '
    'dump of the accepted grid equal the model\'s (c20_meshb_mut, c20_solb_mut, ASan+UBSan), and the user-level '
    'entry points ref_import_by_extension+ref_export_by_extension / ref_part_scalar / ref_part_metric return '
    '(c20_robust).  Streams c20_hang, c20_index, c20_count replay the Lean witnesses and the mutants of those classes '
    'against the real readers in a forked child (alarm, allocator cap, peak-RSS check); if /repo loses one of the '
    'checks they fail deterministically (timeout / sanitizer abort / >300 MB touched) with sites '
    'meshb-header-no-progress, meshb-vertex-index-unchecked, solb-declared-count-trusted.  Stream c20_names '
    'drives the suffix dispatch of ref_import_by_extension / ref_export_by_extension / ref_part_metric with file '
    'names shorter than the longest suffix (site by-extension-short-file-name; the out-of-bounds read before the '
    'string was fixed in /repo by commit cdfd7e9, the stream is the regression guard); no Lean obligation is '
    'attached to it.  '
    'BINARY UGRID (Refine/Props/C20Ugrid.lean; decodeUgrid = ref_import_bin_ugrid and partRead = ref_part_bin_ugrid as they are '
    'since /repo commit 6682479): decode_total; accepted_counts_fit (header, nnode coordinate triples and per kind count x '
    'node_per (+ count tags) integers fit in the bytes present: every fread is checked, sections with count <= 0 are skipped, '
    'negative nnode is REF_FAILURE); accepted_indices_in_range (serial) and part_accepted_indices_in_range (parallel, every '
    'rank count and chunk size): every node index of every accepted cell is in 1..nnode; part_rows_checked_before_routing '
    '(ref_part_implicit is only evaluated on rows that passed the test); index_witnesses_refused (the four files of the '
    'finding are REF_INVALID in both readers); checked_reader_roundtrip (the check keeps C08).  History: '
    'legacy_accepted_indices_in_range_counterexample / legacy_part_index_unchecked_counterexample keep the proofs that the '
    'readers before 6682479 (ugridCfgLegacy) accepted vertex 6 / 50000001 of 4 and had no status for a first vertex 5 of 4 '
    'or nnode = 0.  Since /repo commit 10247dc the parallel reader tests its seven counts against the file size right after '
    'the header (expression regenerated into Gen/UgridOffsets.counts_fit): part_accepted_counts_fit, '
    'part_counts_no_overflow_partial (for files below 2^33 bytes none of nnode + nproc, the offset sums, size_per * chunk '
    'overflows; residual: a VALID file with more than 2^31/size_per cells per rank), count_witnesses_refused; '
    'legacy_part_count_overflow_counterexample keeps the history.  Tie: c20_ugrid_mut — truncation at every section '
    'boundary, counts := {-1,0,2^31-1,...}, indices := {0, nnode+1, huge, INT_MIN,...}, tags, bit flips, trailing bytes on all '
    'six names: C status and dump == model for the static serial reader and for ref_part_by_extension at one rank wherever '
    'the model predicts a status; c20_ugrid_robust — the same mutants through ref_import_by_extension, import+export, '
    'ref_part_by_extension must return (10 s, 1 GiB, 300 MB touched); c20_ugrid_index — regression guard of the repaired '
    'finding ugrid-vertex-index-unchecked: the witness files must be refused with REF_INVALID (exact status, both readers), the '
    'entry points must return, and the ASCII .ugrid reader must refuse vertex index 0 / nnode+1 / huge and accept the valid '
    'file (oracle: independent parse of the text; no model of the ASCII reader); c20_ugrid_count — regression guard of the '
    'repaired finding ugrid-part-count-overflow (exact status failure; oracle: a file whose counts need more bytes than it '
    'has is never accepted).  Stream c20_ugrid_sweep replays the Lean witness and currently FAILS in the real writer: '
    'KNOWN-FINDING site ugrid-export-faceid-range-sweep (findings/<site>/ has the file, the ops and the proposed repair).  '
    'PARALLEL READER (work package partmeshb; Refine/Model/PartMeshb.lean, Props/C20PartMeshb.lean): '
    'ref_part_by_extension -> ref_part_meshb is modelled with its own validation (rank 0 reads; one checked fread per '
    'chunk of MAX(1000000, ncell/np) records, then the range check `c2n < 1 || nnode < c2n` on the 1-based values, then '
    'the decrement).  Proved for every np >= 1, chunk constant and byte string: partCell_accepted_in_range (accepted => '
    'every vertex of every cell handed to the routing is in [0, nnode) and ref_part_implicit of it is a rank < np), '
    'partCell_route_in_bounds (so dest never indexes elements_to_send[] / start_to_send[] out of range: the model\'s '
    '`undefined` outcome of the routing is unreachable), routeChunk_eq_coded (the counting sort as coded equals the '
    'routing the driver executes, on every input).  Tie: streams partmeshb_c20 (np 1,2,3: index 0, -1, nnode+1, nnode+2, '
    '2^31-1, 2^32+1 in first / later position of tet / tri / edge records, counts, truncation, dimension / version / '
    'next-position substitutions, bit flips; C status and, when accepted, the per-rank dump == model) and partmeshb_read '
    '(np 1..5, valid files).  Declared counts (reader of /repo since 4474557, ref_part_meshb_count_fits modelled as '
    'countFits right after the count is read, on rank 0): partCell_count_fits (accepted => every declared cell / '
    'geometry count is in [0, INT_MAX] and <= bytes left / 4), partCell_loop_progress (chunk >= 1, section_size >= 1 '
    'while records remain, and parseWith Cfg.current never returns the model\'s diverge: the read loops return on '
    'every byte string), partCell_no_int_overflow (size_per*chunk and (node_per+1)*chunk stay below 2^31 for files of '
    'at most 306783376 bytes per rank).  The two *_counterexample theorems keep the history: the legacy reader '
    '(parseCellsLegacy) diverges / overflows on the witness files of findings/partmeshb-count-2pow32-hang and '
    'findings/partmeshb-count-int-overflow, the reader of today refuses them with REF_FAILURE on 1, 2, 3 ranks; '
    'the stream generates counts 2^31-1, 2^32, 2^32+k, -1, one above what the file holds at np 1,2,3 and replays '
    'the four witness files.')
ASSUMPTIONS = [
    'the binary libMeshb readers (.meshb, .solb scalar and metric) and the binary UGRID readers (serial, parallel at one '
    'rank) are modelled; ascii ugrid, r8.ugrid, mapbc, text formats are not; file-name handling of *_by_extension is '
    'exercised (c20_names) but not modelled; a malformed file at np >= 2 (rank 0 returns an error while the other ranks '
    'wait for its scatter) is not exercised',
    'malloc above 1 GiB returns NULL (harness: ASan allocator cap; model: Cfg.allocCap); ref_adj growth is '
    'modelled by its request size only',
    'signed-overflow points of the C (ref_adj_add chunk, nodes[i]--, ldim*chunk) are modelled as `ub`; mutants '
    'reaching them are routed to the hazard streams',
    'metric payload doubles are not mutated (ref_node_metric_set status is the matrix kernel\'s)',
    'serial readers: Props/C20.lean; the parallel meshb reader: Props/C20PartMeshb.lean (the parallel solb / ugrid '
    'readers are not modelled)',
    'parallel meshb reader: when rank 0 returns an error from a rank-0-only section the other ranks are blocked in a '
    'receive; the harness then prints the status and calls MPI_Abort (what a refmpi main does by returning without '
    'MPI_Finalize) - "rejected cleanly" means: non-zero status on rank 0, no sanitizer report, no timeout',
    'parallel meshb reader: only a CAD byte count (keyword 126) outside [0, 2^30] is kept out of the generated '
    'mutants (it sizes one malloc; the model returns REF_NULL above its allocator cap of 2^30, the real malloc succeeds '
    'lazily); cell and geometry counts are mutated freely since /repo 4474557; the vertex count is not checked by '
    'the C (rank 0 reads until the file ends); ref_grid_inward_boundary_orientation, which runs after the reader '
    'inside ref_part_meshb, is outside the model (the harness dumps the state just before it, by interposing that one '
    'call in the white-box include of ref_part.c)',
]
TRUSTED = ['harness/h_codec.c child isolation (fork, alarm, wait4 peak RSS)', 'checks/meshio_ref.py mutant factory']


def WITNESS(ctx, a):
    """the byte strings of the *_counterexample theorems, as replayable inputs"""
    return ['%s %s' % (k, v) for k, v in sorted(streams_codec.WITNESS.items())]


def _witnesses_in_sync():
    text = open(os.path.join(LEAN, 'Refine', 'Props', 'C20.lean')).read()
    lean = set(re.findall(r'ofHex\s*"([0-9a-f]+)"', text))
    missing = [k for k, v in streams_codec.WITNESS.items() if v not in lean]
    if missing:
        raise RuntimeError('witness bytes of checks/streams_codec.py not found in Props/C20.lean: %s' % missing)
    text = open(os.path.join(LEAN, 'Refine', 'Props', 'C20Ugrid.lean')).read()
    lean = set(re.findall(r'ofHex\s*"([0-9a-f]+)"', text))
    missing = [k for k, v in streams_ugrid.WITNESS.items() if v not in lean and k != 'sweep']
    if missing:
        raise RuntimeError('witness bytes of checks/streams_ugrid.py not found in Props/C20Ugrid.lean: %s' % missing)


_witnesses_in_sync()
