import os
import re

from . import streams_codec, streams_ugrid
from . import streams_partmeshb
from . import streams_formats
from .common import LEAN

ID = 'C20'
PROPS_MODULE = ['Refine.Props.C20', 'Refine.Props.C20Ugrid', 'Refine.Props.C20PartMeshb', 'Refine.Props.C20Formats']
STREAMS = [streams_codec.C20_MESHB, streams_codec.C20_SOLB, streams_codec.C20_ROBUST,
           streams_codec.C20_HANG, streams_codec.C20_INDEX, streams_codec.C20_COUNT, streams_codec.C20_NAMES,
           streams_ugrid.C20_MUT, streams_ugrid.C20_ROBUST, streams_ugrid.C20_INDEX, streams_ugrid.C20_COUNT,
           streams_ugrid.C20_SWEEP, streams_partmeshb.C20, streams_partmeshb.READ,
           streams_formats.C20_MUT, streams_formats.C20_ROBUST, streams_formats.C20_FIELDS, streams_formats.MAPBC,
           streams_formats.C20_INDEX, streams_formats.C20_TOKEN, streams_formats.C20_PREALLOC, streams_formats.C20_R8,
           streams_formats.C20_RST, streams_formats.C20_SNAP, streams_formats.C20_PLT, streams_formats.C08_SU2_NOBND]
EXPLANATION = (
    'Obligations on the reader models (Refine/Props/C20.lean): totality; accepted_counts_fit; header_progress + '
    'header_scan_returns (every hop of the keyword scan moves strictly forward, so the scan returns on every byte '
    'string), accepted_indices_in_range (every vertex index of every accepted cell / geometry record is in '
    '[0,nnode)), solb_alloc_bounded (what the scalar reader allocates is covered by bytes present in the file): '
    'proved for the reader variant Cfg.fixed, which is the reader /repo has since the fix: commits 084384d, 92cf05c, '
    'ee7a30e (Cfg.current = Cfg.fixed).  The *_counterexample theorems keep the Lean proofs that the three '
    'obligations are FALSE of the reader as it was before those commits (Cfg.faithful) on concrete 20..92-byte '
    'files.  Tie: for every mutant (bit flips, truncation at record boundaries, count/index/offset substitution, '
    'section duplication/reorder) on which the selected model (Cfg.current) predicts a return, the C status and the '
    'dump of the accepted grid equal the model\'s (c20_meshb_mut, c20_solb_mut, ASan+UBSan), and the user-level '
    'entry points ref_import_by_extension+ref_export_by_extension / ref_part_scalar / ref_part_metric return '
    '(c20_robust).  Streams c20_hang, c20_index, c20_count replay the Lean witnesses and the mutants of those classes '
    'against the real readers in a forked child (alarm, allocator cap, peak-RSS check); if /repo loses one of the '
    'checks they fail deterministically (timeout / sanitizer abort / >300 MB touched) with sites '
    'meshb-header-no-progress, meshb-vertex-index-unchecked, solb-declared-count-trusted.  Stream c20_names '
    'drives the suffix dispatch of ref_import_by_extension / ref_export_by_extension / ref_part_metric with file '
    'names shorter than the longest suffix (site by-extension-short-file-name; the out-of-bounds read before the '
    'string was fixed in /repo by commit cdfd7e9, the stream is the regression guard); no Lean obligation is '
    'attached to it.  '
    'BINARY UGRID (Refine/Props/C20Ugrid.lean; decodeUgrid = ref_import_bin_ugrid and partRead = ref_part_bin_ugrid as they are '
    'since /repo commit 6682479): decode_total; accepted_counts_fit (header, nnode coordinate triples and per kind count x '
    'node_per (+ count tags) integers fit in the bytes present: every fread is checked, sections with count <= 0 are skipped, '
    'negative nnode is REF_FAILURE); accepted_indices_in_range (serial) and part_accepted_indices_in_range (parallel, every '
    'rank count and chunk size): every node index of every accepted cell is in 1..nnode; part_rows_checked_before_routing '
    '(ref_part_implicit is only evaluated on rows that passed the test); index_witnesses_refused (the four files of the '
    'finding are REF_INVALID in both readers); checked_reader_roundtrip (the check keeps C08).  History: '
    'legacy_accepted_indices_in_range_counterexample / legacy_part_index_unchecked_counterexample keep the proofs that the '
    'readers before 6682479 (ugridCfgLegacy) accepted vertex 6 / 50000001 of 4 and had no status for a first vertex 5 of 4 '
    'or nnode = 0.  Since /repo commit 10247dc the parallel reader tests its seven counts against the file size right after '
    'the header (expression regenerated into Gen/UgridOffsets.counts_fit): part_accepted_counts_fit, '
    'part_counts_no_overflow_partial (for files below 2^33 bytes none of nnode + nproc, the offset sums, size_per * chunk '
    'overflows; residual: a VALID file with more than 2^31/size_per cells per rank), count_witnesses_refused; '
    'legacy_part_count_overflow_counterexample keeps the history.  Tie: c20_ugrid_mut — truncation at every section '
    'boundary, counts := {-1,0,2^31-1,...}, indices := {0, nnode+1, huge, INT_MIN,...}, tags, bit flips, trailing bytes on all '
    'six names: C status and dump == model for the static serial reader and for ref_part_by_extension at one rank wherever '
    'the model predicts a status; c20_ugrid_robust — the same mutants through ref_import_by_extension, import+export, '
    'ref_part_by_extension must return (10 s, 1 GiB, 300 MB touched); c20_ugrid_index — regression guard of the repaired '
    'finding ugrid-vertex-index-unchecked: the witness files must be refused with REF_INVALID (exact status, both readers), the '
    'entry points must return, and the ASCII .ugrid reader must refuse vertex index 0 / nnode+1 / huge and accept the valid '
    'file (oracle: independent parse of the text; no model of the ASCII reader); c20_ugrid_count — regression guard of the '
    'repaired finding ugrid-part-count-overflow (exact status failure; oracle: a file whose counts need more bytes than it '
    'has is never accepted).  Stream c20_ugrid_sweep replays the Lean witness and currently FAILS in the real writer: '
    'KNOWN-FINDING site ugrid-export-faceid-range-sweep (findings/<site>/ has the file, the ops and the proposed repair).  '
    'PARALLEL READER (work package partmeshb; Refine/Model/PartMeshb.lean, Props/C20PartMeshb.lean): '
    'ref_part_by_extension -> ref_part_meshb is modelled with its own validation (rank 0 reads; one checked fread per '
    'chunk of MAX(1000000, ncell/np) records, then the range check `c2n < 1 || nnode < c2n` on the 1-based values, then '
    'the decrement).  Proved for every np >= 1, chunk constant and byte string: partCell_accepted_in_range (accepted => '
    'every vertex of every cell handed to the routing is in [0, nnode) and ref_part_implicit of it is a rank < np), '
    'partCell_route_in_bounds (so dest never indexes elements_to_send[] / start_to_send[] out of range: the model\'s '
    '`undefined` outcome of the routing is unreachable), routeChunk_eq_coded (the counting sort as coded equals the '
    'routing the driver executes, on every input).  Tie: streams partmeshb_c20 (np 1,2,3: index 0, -1, nnode+1, nnode+2, '
    '2^31-1, 2^32+1 in first / later position of tet / tri / edge records, counts, truncation, dimension / version / '
    'next-position substitutions, bit flips; C status and, when accepted, the per-rank dump == model) and partmeshb_read '
    '(np 1..5, valid files).  Declared counts (reader of /repo since 4474557, ref_part_meshb_count_fits modelled as '
    'countFits right after the count is read, on rank 0): partCell_count_fits (accepted => every declared cell / '
    'geometry count is in [0, INT_MAX] and <= bytes left / 4), partCell_loop_progress (chunk >= 1, section_size >= 1 '
    'while records remain, and parseWith Cfg.current never returns the model\'s diverge: the read loops return on '
    'every byte string), partCell_no_int_overflow (size_per*chunk and (node_per+1)*chunk stay below 2^31 for files of '
    'at most 306783376 bytes per rank).  The two *_counterexample theorems keep the history: the legacy reader '
    '(parseCellsLegacy) diverges / overflows on the witness files of findings/partmeshb-count-2pow32-hang and '
    'findings/partmeshb-count-int-overflow, the reader of today refuses them with REF_FAILURE on 1, 2, 3 ranks; '
    'the stream generates counts 2^31-1, 2^32, 2^32+k, -1, one above what the file holds at np 1,2,3 and replays '
    'the four witness files.  '
    'TEXT MESH READERS, .r8.ugrid, FIELD READERS, MAPBC (work package formats; Refine/Model/Formats.lean, FormatsBin.lean, '
    'FormatsMapbc.lean, Props/C20Formats.lean; harness h_formats = every call in a forked child with alarm, allocator cap and '
    'peak-RSS check; driver formats): the validation logic of ref_import_ugrid (ASCII), _tri, _surf, _fgrid, _su2, _msh, '
    '_i_like_cfd_grid at TOKEN level (what one fscanf("%d" | "%lf" | "%s") or one fgets + sscanf consumes; a number is the '
    'bit pattern strtod returns, the harness writes %.17g), of ref_import_r8_ugrid, ref_part_scalar_rst / _snap / _plt at byte '
    'level, and of ref_phys_read_mapbc / _mapbc_token.  Proved: *_decode_total; ASCII .ugrid (index test in /repo since 6682479): '
    'ugrid_accepted_counts_fit (the accepted mesh has exactly the declared numbers of vertices and cells, each converted by a '
    'checked fscanf) and ugrid_accepted_indices_in_range at full strength; mapbc_accepted_counts_fit, mapbc_no_hazard (5000-'
    'character names, counts of 2^31-1 or 10^10, missing lines: REF_FAILURE or outside the token abstraction, never a hazard), '
    'mapbc_walls_spec (the wall set C12 measures from = the ids whose last line carries a viscous code).  The other readers '
    'FAIL the obligations on the faithful model; Lean proves the negation on concrete small files (*_counterexample, the same '
    'tokens / bytes are replayed against the real readers by the c20_formats_* / c20_fields_* streams and end in a sanitizer '
    'abort, a timeout or > 300 MB touched) and proves the obligation for the variant with the proposed repair '
    '(findings/<site>/proposed.patch; Fix / BFix flags of the models; the repaired C and the Fix.all / BFix.all models agree on '
    '2282 generated ops): tri/fgrid/surf/r8_fixed_accepted_indices_in_range, msh_fixed_token_safe, '
    'rst_fixed_accepted_counts_fit, snap_fixed_fields_fit.  KNOWN FINDINGS (sites): import-vertex-index-unchecked (.tri .fgrid '
    '.surf .su2 .msh .grid .r8.ugrid .node accept any vertex index; `translate` SEGV), msh-token-buffer-overflow (fscanf "%s" '
    'into line[1024]), tri-fgrid-vertices-allocated-before-read, r8-ugrid-record-size-overflow, rst-header-counts-trusted '
    '(800 MB from a 36-byte file, int overflows, 8.6e9 idle iterations), snap-field-count-trusted, plt-zone-size-trusted, '
    'su2-export-no-marker-overflow (translate of a .su2 without markers).  Tie: c20_formats_mut (token deletion / duplication, '
    'counts := {-1,0,1,n+1,2^31-1,2^31,10^10}, indices := {0,-1,n+1,n+2,2^31-1,-2^31,..}, wrong element types, NaN / inf / 1e999 / '
    'hex-float / words for numbers, 5000-character pieces, 30-digit integers, truncation with and without final newline, CR LF; '
    'C status and dump == model wherever the model gives a status), c20_formats_robust (the same mutants through '
    'ref_import_by_extension and import + export), c20_fields_mut (.rst / .snap / .plt header fields := {-1,0,1,2^30,2^31-1,10^8,'
    '2^63-1,..}, truncation, bit flips; values of accepted files == independent parse), formats_mapbc.')
ASSUMPTIONS = [
    'the binary libMeshb readers (.meshb, .solb scalar and metric), the binary UGRID readers (serial, parallel at one '
    'rank), the text mesh readers (.ugrid .tri .surf .fgrid .su2 .msh .grid), .r8.ugrid, .rst / .snap / .plt and .mapbc are '
    'modelled; NOT modelled: .avm (ref_part_avm), tetgen .node/.face, .restart_sol, .csv, the usm3d mapbc reader '
    '(ref_inflate_read_usm3d_mapbc: fgets(1024) + sscanf "%s" into a 1024-byte buffer, read only), .plt VALUES (placed by a '
    'nearest-vertex search: only header / zone validation and ldim are modelled); file-name handling of *_by_extension is '
    'exercised (c20_names) but not modelled; a malformed file at np >= 2 (rank 0 returns an error while the other ranks '
    'wait for its scatter) is not exercised',
    'malloc above 1 GiB returns NULL (harness: ASan allocator cap; model: Cfg.allocCap); ref_adj growth is '
    'modelled by its request size only',
    'signed-overflow points of the C (ref_adj_add chunk, nodes[i]--, ldim*chunk) are modelled as `ub`; mutants '
    'reaching them are routed to the hazard streams',
    'metric payload doubles are not mutated (ref_node_metric_set status is the matrix kernel\'s)',
    'serial readers: Props/C20.lean; the parallel meshb reader: Props/C20PartMeshb.lean (the parallel solb / ugrid '
    'readers are not modelled)',
    'parallel meshb reader: when rank 0 returns an error from a rank-0-only section the other ranks are blocked in a '
    'receive; the harness then prints the status and calls MPI_Abort (what a refmpi main does by returning without '
    'MPI_Finalize) - "rejected cleanly" means: non-zero status on rank 0, no sanitizer report, no timeout',
    'parallel meshb reader: only a CAD byte count (keyword 126) outside [0, 2^30] is kept out of the generated '
    'mutants (it sizes one malloc; the model returns REF_NULL above its allocator cap of 2^30, the real malloc succeeds '
    'lazily); cell and geometry counts are mutated freely since /repo 4474557; the vertex count is not checked by '
    'the C (rank 0 reads until the file ends); ref_grid_inward_boundary_orientation, which runs after the reader '
    'inside ref_part_meshb, is outside the model (the harness dumps the state just before it, by interposing that one '
    'call in the white-box include of ref_part.c)',
]
ASSUMPTIONS += [
    'text formats (package formats): a file is a list of pieces (tokens); the decimal conversion of the C library is not modelled: '
    'the harness writes a number with %.17g / as an integer and the model carries the value; inputs that leave the abstraction '
    '(%d applied to a %.17g text, a number-like word under %lf, a lone sign, more than 18 digits, an fgets line that may exceed '
    '1000 characters, a second vertex block, SU2 lines naming two keywords) are answered `unmodelled` by the model: the exact-'
    'status stream skips them, the robustness stream still runs them; integers beyond int are what glibc stores (the long '
    'truncated); `bloat` = more than 300 MB touched (model: a count-sized allocation that is initialised, or more than 10^6 '
    'declared vertices in .tri / .fgrid), `hang` = more than 10^7 iterations decided by the header alone; the generators keep '
    'away from the thresholds by a factor >= 2.5',
    'finding streams (c20_formats_index / _token / _prealloc / _r8, c20_fields_rst / _snap / _plt, formats_su2_nomarker): ops '
    '`hazard*` are answered `hazard` | `clean` by harness (child crashed / timed out / bloated) and model (prediction ub / hang / '
    'bloat, or an accepted vertex index >= 10^6 for translate); the oracle flags every `hazard` and every accepted out-of-range '
    'index with the site of the finding, so the runs end with KNOWN-FINDING lines until /repo is repaired',
]
TRUSTED = ['harness/h_codec.c child isolation (fork, alarm, wait4 peak RSS)', 'checks/meshio_ref.py mutant factory',
           'harness/h_formats.c child isolation and token writer', 'checks/streams_formats.py independent writers / parsers']


def WITNESS(ctx, a):
    """the byte strings of the *_counterexample theorems, as replayable inputs"""
    return ['%s %s' % (k, v) for k, v in sorted(streams_codec.WITNESS.items())]


def _witnesses_in_sync():
    text = open(os.path.join(LEAN, 'Refine', 'Props', 'C20.lean')).read()
    lean = set(re.findall(r'ofHex\s*"([0-9a-f]+)"', text))
    missing = [k for k, v in streams_codec.WITNESS.items() if v not in lean]
    if missing:
        raise RuntimeError('witness bytes of checks/streams_codec.py not found in Props/C20.lean: %s' % missing)
    text = open(os.path.join(LEAN, 'Refine', 'Props', 'C20Ugrid.lean')).read()
    lean = set(re.findall(r'ofHex\s*"([0-9a-f]+)"', text))
    missing = [k for k, v in streams_ugrid.WITNESS.items() if v not in lean and k != 'sweep']
    if missing:
        raise RuntimeError('witness bytes of checks/streams_ugrid.py not found in Props/C20Ugrid.lean: %s' % missing)


def _formats_witnesses_in_sync():
    text = open(os.path.join(LEAN, 'Refine', 'Props', 'C20Formats.lean')).read()
    missing = [k for k, v in streams_formats.lean_witness_text().items()
               if ':= ' + v not in text and k not in ('tri_index_far', 'fgrid_index_far', 'su2_index_far', 'r8_index_far')]
    if missing:
        raise RuntimeError('witnesses of checks/streams_formats.py not found in Props/C20Formats.lean: %s' % missing)


_witnesses_in_sync()
_formats_witnesses_in_sync()
