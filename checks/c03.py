"""C03 — quasi-unit mesh: PARTIAL claim.  Proved: the band logic (parameter relations, guard-band invariants over
operation histories, selection soundness).  Only oracled: that the heuristic search reaches the band."""
from . import streams_unit, streams_quasiunit

ID = 'C03'
PROPS_MODULE = ['Refine.Props.C03']
STREAMS = list(streams_unit.STREAMS) + list(streams_quasiunit.STREAMS)
EXPLANATION = (
    'PARTIAL. The property says that `ref adapt`, run to its default termination on a planar-patch domain with a '
    'smooth resolvable metric, REACHES a mesh with almost all edge lengths near one, cell quality above a floor and '
    'a vertex count proportional to the metric complexity, and that adapting again stays there. Reaching the band is '
    'the fixed point of a floating-point heuristic search: there is NO theorem for it; it is only ORACLED (stream '
    'cli_quasiunit: the real CLI on boxes and squares with uniform / linear-h / rotated anisotropic metrics, default '
    'termination, then adapt again; an independent python edge-length integrator on the exported metric; bounds '
    'calibrated on the unchanged tree with margin: empirical, testing in support, not part of the proof claim). '
    'What IS proved (Lean 4, Refine.Props.C03, about the executable model Refine.Model.Unit whose Float instance is '
    'compared with the C): (1) parameter relations of ref_adapt_parameter for ALL inputs (adaptParameter_band, '
    'adaptParameter_band_pos, collapse_lt_split, floor_after_parameter): post_min_ratio <= min(measured min_ratio, '
    'collapse_ratio), post_max_ratio >= max(measured max_ratio, previous split_ratio), collapse_ratio untouched and '
    '< split_ratio, min(sqrt2,max_ratio) <= split_ratio <= max(sqrt2,max_ratio), quality floors in [1e-3, 0.1], both '
    'rescaling branches only lower post_min_ratio and keep it positive; the two natural relations that FAIL for some '
    'inputs are stated with their exact condition and a witness: 1 < split_ratio needs max_ratio > 2-sqrt2 '
    '(one_lt_split, split_below_one_example: a too-fine mesh with max_ratio 0.5 gets split_ratio 0.957), split_ratio <= '
    'post_max_ratio needs the previous split_ratio >= sqrt2 (split_le_postMax, split_above_postMax_example); (2) every '
    'ratio guard keeps what it accepts inside the band and measures every edge the operation changes: '
    'split_accept_band + split_reject_iff + splitTested_complete (new edges are exactly the ones at the new vertex), '
    'collapse_accept_band (band WIDENED by the extremes of the edges at the removed vertex: the "not worse than '
    'before" clause of ref_collapse_edge_ratio can accept an edge outside [post_min,post_max]) + '
    'collapse_accept_band_inv + collapseNew_complete, smooth_accept_band, swap_accept_band (strict), '
    'cavity_accept_band; ref_node_ratio depends on the two end points only (nodeRatio_local); (3) by induction over '
    'operation histories, for a fixed band: ops_preserve_band (all edges in the band stay in the band under accepted '
    'splits, collapses, vertex moves), band_mono (widening), quality_floor_preserved (no cell below the floor, for '
    'any vertex-local quality function); (4) selection_sound / selection_complete / selection_disjoint: only edges '
    'longer than split_ratio reach a split trial, only vertices with an incident edge shorter than collapse_ratio are '
    'collapse targets, no edge is both. Tie: unit_fn - the real ref_split_edge_ratio, ref_collapse_edge_ratio, '
    'ref_smooth_tri/tet_ratio_around, ref_swap_ratio, ref_node_ratio and the work list of ref_split_pass on generated '
    'edge/vertex stars with per-vertex anisotropic metrics, band limits placed exactly on and 1e-13..1 around a '
    'measured edge length, decisions and values compared bit for bit with the Float model; unit_param - white-box '
    'ref_adapt_parameter on real grids in sessions (previous split_ratio / last_* carried), the harness measuring the '
    'grid itself through the public API, the model must reproduce all 11 derived parameters and all_done bit for bit; '
    'the decisions of ref_split_edge_tet/tri_quality and ref_collapse_edge_tet/tri_quality against the model on the '
    'quality values the C computed; unit_run - hooked real ref_adapt_pass / split / collapse / swap / smooth passes '
    '(2-D, 3-D, iso, aniso, graded, with and without background interpolation): at every split trial the selection '
    'rule, at every ref_split_edge / ref_collapse_edge begin the modelled ratio guard re-evaluated on the pre-state, '
    'after every accept the lengths of the edges at the touched vertex against the band in force, every vertex move '
    'against the smoother acceptance rule, every swap and every cavity replacement against their ratio guard.')
ASSUMPTIONS = [
    'NOT PROVED, only oracled (cli_quasiunit, calibrated bounds): that adaptation reaches the band, the fraction of '
    'edges in [0.5, 2], the minimum quality and the vertex-count/complexity factor of the final mesh, and that a second '
    'adaptation stays inside the same bounds',
    'theorems hold in exact real arithmetic; IEEE rounding is modelled (Float instance, bit-compared), not verified',
    'the history theorems are about an abstract mesh (per-vertex coordinates+metric, list of simplices) with split / '
    'collapse in their specification form (C13 proves the list models of ref_split_edge / ref_collapse_edge equal to '
    'that form up to permutation); swap and cavity operations are not part of the history type (their guards are '
    'proved separately and checked on real runs)',
    'the band is fixed along a history: ref_adapt_pass narrows post_max_ratio to sqrt2 around two collapse passes and '
    'ref_adapt_parameter re-derives the band every pass from the measured range, so edges outside a narrowed band can '
    'exist; nothing is claimed across a narrowing',
    'quality values are inputs of the modelled quality decisions (the kernels ref_node_tet/tri_quality belong to C15); '
    'quality_floor_preserved assumes only that a cell quality depends on the cell\'s own vertices',
    'no CAD geometry: with geometry support a failed split guard falls through to a cavity operation that may skip '
    'the ratio guard on geometry edges (ref_split.c valid_cavity = (allowed_cavity_ratio || has_edge) ...); not modelled',
    'the pass drivers (ordering by ref_sort_heap_dbl, the 8-try back-off loops, age counters) are not modelled; '
    'their effect is observed through the hooks',
    'serial runs only in the unit_* streams',
    'FINDING (not a violation of the band property): on planar (twod) grids ref_collapse_pass resets the work-list '
    'entries of the neighbours of a finished collapse through ref_grid_tet (empty there; the pass picks tri only for '
    'ref_grid_surf), so a vertex chosen at the start of the pass can be processed after it lost its short edge and an '
    'edge that is not short is collapsed; all guards still apply. The run-level selection check is therefore strict in '
    '3-D (every removal attempt, observed white-box) and reported as "stale-2d" on planar grids',
]
