"""streams for C11 (donor-cell search of ref_interp.c): per-cell search spheres, candidate lists, best-candidate selection,
the tree path of ref_interp_locate, the neighbour walk, ref_interp_locate_node.

Donor grids are built in process from the op lines: 2-D triangulated boxes and 3-D boxes cut into Kuhn tets, isotropic and
stretched (aspect 5..100 along one or two axes: needles with ONE far vertex, and plates), interior nodes jittered, random
diagonal (2-D), random vertex order inside every cell (all 24 / 6 permutations, so the far vertex of a needle sits in each
of the local positions), removed-and-re-added cells (non-contiguous cell ids), missing boundary triangles.

Oracle = the property stated on the implementation's own output, with exact rational barycentric weights:
  sphere : every vertex of the cell lies inside the stored search sphere
  touch  : every donor cell that contains the query point (min exact weight >= 0) is among the candidates
  tree / inlist / locnode / walk(enclosing) / locate : if the point lies in the donor domain (some cell has exact
           min weight >= 0) the returned cell contains it: exact min weight >= -1e-12 (walk: >= -1e-11), and the
           returned weights are the exact ones to 1e-9
  locate : the interpolated linear field equals a + g.x to 1e-10 (relative to the field's size over the grid) for
           points in the domain; for every point the value is the convex combination sum clip(w)_i f_i of the located
           cell's vertex values: inside [min f, max f]
  self   : (oracle-only stream; receptor = shrunk copy of the donor with its boundary, so geometry nodes seed the WALK):
           same statements; with s = 1 the field is returned unchanged to 1e-12
"""
import math
import struct
from fractions import Fraction

from .common import Stream


def fh(x):
    return struct.pack('>d', float(x)).hex()


def hf(s):
    return struct.unpack('>d', bytes.fromhex(s))[0]


def H(*xs):
    out = []
    for x in xs:
        if isinstance(x, (list, tuple)):
            out.extend(fh(v) for v in x)
        else:
            out.append(fh(x))
    return ' '.join(out)


# ------------------------------------------------------------------------------------------------ donor grids
PERM3 = [(0, 1, 2), (1, 2, 0), (2, 0, 1), (0, 2, 1), (2, 1, 0), (1, 0, 2)]
KUHN = [(0, 1, 2), (0, 2, 1), (1, 0, 2), (1, 2, 0), (2, 0, 1), (2, 1, 0)]


def perm_of(rng, k):
    p = list(range(k))
    rng.shuffle(p)
    return p


class Grid:
    def __init__(self, twod):
        self.twod = twod
        self.xyz = []
        self.cells = []   # node tuples in the order they are sent
        self.bnd = []     # (nodes, id)
        self.h = (1.0, 1.0, 1.0)
        self.box = None


def make_grid2(rng, nx, ny, hx, hy, jitter, z0=0.0):
    g = Grid(True)
    g.h = (hx, hy, min(hx, hy))
    g.box = ((0.0, nx * hx), (0.0, ny * hy), (z0, z0))
    idx = {}
    for j in range(ny + 1):
        for i in range(nx + 1):
            x, y = i * hx, j * hy
            if 0 < i < nx and 0 < j < ny and jitter > 0:
                x += jitter * hx * rng.uniform(-1, 1)
                y += jitter * hy * rng.uniform(-1, 1)
            idx[(i, j)] = len(g.xyz)
            g.xyz.append((x, y, z0))
    for j in range(ny):
        for i in range(nx):
            a, b, c, d = idx[(i, j)], idx[(i + 1, j)], idx[(i + 1, j + 1)], idx[(i, j + 1)]
            tris = [(a, b, c), (a, c, d)] if rng.random() < 0.5 else [(a, b, d), (b, c, d)]
            for t in tris:
                p = rng.choice(PERM3)
                g.cells.append(tuple(t[k] for k in p))
    for i in range(nx):
        g.bnd.append(((idx[(i, 0)], idx[(i + 1, 0)]), 1))
        g.bnd.append(((idx[(i, ny)], idx[(i + 1, ny)]), 3))
    for j in range(ny):
        g.bnd.append(((idx[(nx, j)], idx[(nx, j + 1)]), 2))
        g.bnd.append(((idx[(0, j)], idx[(0, j + 1)]), 4))
    return g


def make_grid3(rng, n, h, jitter):
    g = Grid(False)
    g.h = tuple(h)
    g.box = tuple((0.0, n[k] * h[k]) for k in range(3))
    idx = {}
    for k in range(n[2] + 1):
        for j in range(n[1] + 1):
            for i in range(n[0] + 1):
                p = [i * h[0], j * h[1], k * h[2]]
                if 0 < i < n[0] and 0 < j < n[1] and 0 < k < n[2] and jitter > 0:
                    p = [p[c] + jitter * h[c] * rng.uniform(-1, 1) for c in range(3)]
                idx[(i, j, k)] = len(g.xyz)
                g.xyz.append(tuple(p))
    faces = {}
    for k in range(n[2]):
        for j in range(n[1]):
            for i in range(n[0]):
                for order in KUHN:
                    v = [i, j, k]
                    t = [idx[tuple(v)]]
                    for ax in order:
                        v[ax] += 1
                        t.append(idx[tuple(v)])
                    p = perm_of(rng, 4)
                    g.cells.append(tuple(t[q] for q in p))
                    for f in ((t[0], t[1], t[2]), (t[0], t[1], t[3]), (t[0], t[2], t[3]), (t[1], t[2], t[3])):
                        faces.setdefault(tuple(sorted(f)), []).append(f)
    for key, fs in faces.items():
        if len(fs) == 1:
            f = fs[0]
            fid = 0
            for c in range(3):
                lo, hi = g.box[c]
                if all(abs(g.xyz[v][c] - lo) < 1e-14 for v in f):
                    fid = 1 + 2 * c
                if all(abs(g.xyz[v][c] - hi) < 1e-14 for v in f):
                    fid = 2 + 2 * c
            g.bnd.append((f, max(fid, 1)))
    return g


def grid_ops(rng, g, drop_bnd=0.0, churn=True):
    ops = ['reset %d' % (1 if g.twod else 0)]
    for p in g.xyz:
        ops.append('node ' + H(p))
    cells = list(g.cells)
    final = []  # (id, nodes) as the harness will number them
    free, hi = [], 0
    pending = list(cells)
    while pending:
        c = pending.pop(0)
        if free:
            cid = free.pop(0)
        else:
            cid = hi
            hi += 1
        ops.append('cell ' + ' '.join(str(v) for v in c))
        final.append([cid, c])
        if churn and rng.random() < 0.04 and final:
            k = rng.randrange(len(final))
            rid, rc = final.pop(k)
            ops.append('rmcell %d' % rid)
            free.insert(0, rid)
            if rng.random() < 0.8:
                pending.append(rc)   # comes back later under a recycled id
    for f, fid in g.bnd:
        if rng.random() < drop_bnd:
            continue
        ops.append(('bedg ' if g.twod else 'btri ') + ' '.join(str(v) for v in f) + ' %d' % fid)
    return ops


ASPECTS = [1.0, 5.0, 20.0, 100.0]


def random_grid(rng, twod, small=False):
    a = rng.choice(ASPECTS)
    jit = rng.choice([0.0, 0.15, 0.3])
    if twod:
        nx, ny = rng.randint(2, 4 if small else 7), rng.randint(2, 4 if small else 7)
        hx, hy = (a, 1.0) if rng.random() < 0.5 else (1.0, a)
        s = 2.0 ** rng.randint(-3, 2)
        return make_grid2(rng, nx, ny, hx * s, hy * s, jit, rng.choice([0.0, 0.0, 0.25]))
    n = [rng.randint(1, 2 if small else 3) for _ in range(3)]
    kind = rng.choice(['iso', 'needle', 'plate'])
    h = [1.0, 1.0, 1.0]
    if kind == 'needle':
        h[rng.randrange(3)] = a
    elif kind == 'plate':
        k = rng.randrange(3)
        h = [a, a, a]
        h[k] = 1.0
    s = 2.0 ** rng.randint(-3, 1)
    return make_grid3(rng, n, [v * s for v in h], jit)


# ------------------------------------------------------------------------------------------------ query points
def comb(g, nodes, w):
    return tuple(sum(w[i] * g.xyz[nodes[i]][c] for i in range(len(nodes))) for c in range(3))


def weights(rng, k, kind):
    if kind == 'interior':
        w = [rng.uniform(0.05, 1.0) for _ in range(k)]
    elif kind == 'face':
        w = [rng.uniform(0.05, 1.0) for _ in range(k)]
        w[rng.randrange(k)] = 0.0
    elif kind == 'edge':
        w = [0.0] * k
        i, j = rng.sample(range(k), 2)
        w[i], w[j] = rng.uniform(0.05, 1), rng.uniform(0.05, 1)
    elif kind == 'vertex':
        w = [0.0] * k
        w[rng.randrange(k)] = 1.0
    else:  # near one vertex (the far end of a needle, a quarter of the time)
        w = [rng.uniform(0.0, 0.01) for _ in range(k)]
        w[rng.randrange(k)] = 1.0
    s = sum(w)
    return [v / s for v in w]


def query(rng, g):
    """(point, kind)"""
    t = rng.random()
    c = rng.choice(g.cells)
    k = len(c)
    if t < 0.40:
        return comb(g, c, weights(rng, k, 'interior'))
    if t < 0.52:
        return comb(g, c, weights(rng, k, 'near'))
    if t < 0.64:
        return comb(g, c, weights(rng, k, 'face'))
    if t < 0.70:
        return comb(g, c, weights(rng, k, 'edge'))
    if t < 0.76:
        return comb(g, c, weights(rng, k, 'vertex'))
    # outside the box, next to it
    p = list(comb(g, c, weights(rng, k, 'interior')))
    ax = rng.randrange(2 if g.twod else 3)
    lo, hi = g.box[ax]
    eps = g.h[ax] * 10.0 ** rng.uniform(-11, -1.5)
    p[ax] = lo - eps if rng.random() < 0.5 else hi + eps
    if t > 0.97:  # far away: no candidate even after 12 fuzz increases
        p[ax] = hi + 1.0 + 3.0 * max(g.h)
    elif t > 0.91:  # beyond the scaled spheres: candidates appear only after some fuzz increases, if at all
        p[ax] = hi + g.h[ax] * rng.uniform(0.3, 3.0) + 10.0 ** rng.uniform(-6, -1)
    return tuple(p)


def session(rng, twod, tier):
    g = random_grid(rng, twod)
    ops = grid_ops(rng, g, drop_bnd=rng.choice([0.0, 0.0, 0.3]))
    scale = rng.choice([None, None, 2.0, 1.0, 1.5, 3.0])
    ops.append('build' if scale is None else 'build ' + fh(scale))
    ops.append('dump')
    ncell = len(g.cells) + 3
    for c in rng.sample(range(ncell), min(ncell, 12)):
        ops.append('sphere %d' % c)
    nq = 14 if tier == 'quick' else 30
    for _ in range(nq):
        ops.append('touch ' + H(query(rng, g), rng.choice([0.0, 1e-12, 1e-12, 1e-6, 0.1 * max(g.h)])))
    for _ in range(nq):
        p = query(rng, g)
        k = rng.randint(0, 8)
        lst = [rng.randrange(ncell) for _ in range(k)]
        if rng.random() < 0.1:
            lst.append(rng.choice([-1, 99999, -7]))
        ops.append('inlist ' + H(p) + ''.join(' %d' % c for c in lst))
    for _ in range(nq):
        ops.append('tree ' + H(query(rng, g)))
    for _ in range(nq):
        seed = rng.randrange(ncell) if rng.random() < 0.95 else rng.choice([-1, 99999])
        step0 = 0 if rng.random() < 0.85 else rng.choice([150, 205, 212, 213, 214, 215, 216, 300])
        ops.append('walk %d %d ' % (seed, step0) + H(query(rng, g)))
    for _ in range(nq):
        ops.append('locnode %d ' % rng.randrange(ncell) + H(query(rng, g)))
    for rep in range(2):
        pts = [query(rng, g) for _ in range(rng.randint(0, 12))]
        if rep == 0:
            pts = [p for p in pts if all(g.box[c][0] - 0.05 * max(g.h) <= p[c] <= g.box[c][1] + 0.05 * max(g.h)
                                         for c in range(3))]
        a = rng.uniform(-2, 2)
        gr = [rng.uniform(-2, 2) for _ in range(3)]
        ops.append('locate ' + H(a, gr) + ''.join(' ' + H(p) for p in pts))
        if rep == 0:
            ops.append('fuzz ' + fh(rng.choice([0.0, 1e-9, 1e-3, 1e-12])))
            for _ in range(3):
                ops.append('tree ' + H(query(rng, g)))
    return ops


def degenerate_session(rng, twod):
    """donor with a zero-measure cell and a cell far away from the rest: REF_DIV_ZERO candidates, walk on them"""
    g = random_grid(rng, twod, small=True)
    n0 = len(g.xyz)
    if twod:
        g.xyz += [(-5.0, 0.0, 0.0), (-4.0, 0.0, 0.0), (-3.0, 0.0, 0.0), (-5.0, 2.0, 0.0), (-4.0, 2.0, 0.0), (-4.5, 3.0, 0.0)]
        g.cells += [(n0, n0 + 1, n0 + 2), (n0 + 3, n0 + 4, n0 + 5)]
    else:
        g.xyz += [(-5.0, 0.0, 0.0), (-4.0, 0.0, 0.0), (-4.0, 1.0, 0.0), (-5.0, 1.0, 0.0),
                  (-5.0, 3.0, 0.0), (-4.0, 3.0, 0.0), (-4.0, 4.0, 0.0), (-4.5, 3.5, 1.0)]
        g.cells += [(n0, n0 + 1, n0 + 2, n0 + 3), (n0 + 4, n0 + 5, n0 + 6, n0 + 7)]
    ops = grid_ops(rng, g, churn=False)
    ops.append('build')
    nc = len(g.cells)
    for c in (nc - 2, nc - 1):
        ops.append('sphere %d' % c)
    for _ in range(12):
        c = rng.choice([nc - 2, nc - 1])
        cell = g.cells[c]
        p = comb(g, cell, weights(rng, len(cell), rng.choice(['interior', 'face', 'near'])))
        ops.append('touch ' + H(p, 1e-12))
        ops.append('tree ' + H(p))
        ops.append('inlist ' + H(p) + ' %d %d %d' % (nc - 2, rng.randrange(nc), nc - 1))
        ops.append('walk %d 0 ' % c + H(p))
        ops.append('locnode %d ' % rng.choice([c, rng.randrange(nc)]) + H(p))
        ops.append('locate ' + H(0.5, [1.0, -1.0, 0.25]) + ' ' + H(p))
    return ops


def malformed_session(rng):
    ops = ['node ' + H([0, 0, 0]), 'build', 'reset 2', 'reset 1', 'node ' + H([0, 0, 0]), 'node ' + H([1, 0, 0]),
           'node ' + H([0, 1, 0]), 'cell 0 1', 'cell 0 1 1', 'cell 0 1 7', 'cell 0 1 2 0', 'build', 'tree ' + H([0, 0, 0]),
           'btri 0 1 2 1', 'bedg 0 0 1', 'bedg 0 1 0', 'bedg 0 1 1', 'rmcell 0', 'cell 0 1 2', 'rmcell 0', 'rmcell 0',
           'cell 2 1 0', 'sphere 0', 'build zz', 'build ' + fh(2.0), 'build', 'node ' + H([0, 0, 0]), 'cell 0 1 2',
           'sphere 0', 'sphere 5', 'sphere x', 'touch ' + H([0, 0, 0]), 'touch ' + H([0.2, 0.2, 0, 1e-12]),
           'inlist ' + H([0.2, 0.2, 0]), 'inlist ' + H([0.2, 0.2, 0]) + ' 0 0', 'inlist ' + H([0.2, 0.2, 0]) + ' 1',
           'walk 0 0 ' + H([0.2, 0.2, 0]), 'walk 0 -1 ' + H([0.2, 0.2, 0]), 'walk 0 301 ' + H([0.2, 0.2, 0]),
           'walk 0 0 ' + H([2.0, 2.0, 0]), 'walk 3 0 ' + H([0.2, 0.2, 0]), 'locnode -1 ' + H([0.2, 0.2, 0]),
           'locnode 0 ' + H([0.2, 0.2, 0]), 'locnode 0 ' + H([7.0, 7.0, 0]), 'locnode 4 ' + H([0.2, 0.2, 0]),
           'locate ' + H(1.0, [1, 1, 1]), 'locate ' + H(1.0, [1, 1, 1]) + ' ' + H([0.2, 0.2]), 'fuzz', 'fuzz ' + fh(1e-3),
           'tree ' + H([1.0005, 0.0, 0.0]), 'tree ' + H([float('nan'), 0.0, 0.0]), 'locate ' + H(1.0, [1, 1, 1], [float('nan'), 0, 0]),
           'walk 0 0 ' + H([float('nan'), 0.2, 0]), 'frobnicate', 'reset 0', 'cell 0 1 2 3', 'build']
    return ops


def gen_search(rng, tier):
    ops = []
    reps = 6 if tier == 'quick' else 16
    for _ in range(reps):
        ops += session(rng, True, tier)
        ops += session(rng, False, tier)
    ops += degenerate_session(rng, True)
    ops += degenerate_session(rng, False)
    ops += malformed_session(rng)
    return ops


def gen_self(rng, tier):
    """oracle-only: receptor = shrunk copy of the donor (with cells and boundary ids): geometry nodes seed the walk"""
    ops = []
    reps = 4 if tier == 'quick' else 12
    for r in range(reps):
        for twod in (True, False):
            g = random_grid(rng, twod)
            ops += grid_ops(rng, g, churn=False)
            ops.append('build')
            for s in (1.0, rng.choice([0.999, 0.9, 0.5]), rng.choice([1.0 + 1e-9, 1.0 + 1e-4])):
                ops.append('self ' + H(rng.uniform(-2, 2), [rng.uniform(-2, 2) for _ in range(3)], s))
    return ops


# ------------------------------------------------------------------------------------------------ oracle
def F(x):
    return Fraction(x)


def det3(a, b, c):
    return (a[0] * (b[1] * c[2] - b[2] * c[1]) - a[1] * (b[0] * c[2] - b[2] * c[0]) + a[2] * (b[0] * c[1] - b[1] * c[0]))


def exact_bary(twod, P, x):
    """exact barycentric weights (Fractions) of x in the cell with vertex list P (floats); None if degenerate"""
    if twod:
        def area(a, b, c):
            return (F(b[0]) - F(a[0])) * (F(c[1]) - F(a[1])) - (F(b[1]) - F(a[1])) * (F(c[0]) - F(a[0]))
        t = area(P[0], P[1], P[2])
        if t == 0:
            return None
        return [area(x, P[1], P[2]) / t, area(P[0], x, P[2]) / t, area(P[0], P[1], x) / t]
    Q = [[F(v) for v in p] for p in P]
    X = [F(v) for v in x]

    def vol(a, b, c, d):
        return det3([a[i] - d[i] for i in range(3)], [b[i] - d[i] for i in range(3)], [c[i] - d[i] for i in range(3)])
    t = vol(Q[0], Q[1], Q[2], Q[3])
    if t == 0:
        return None
    return [vol(X, Q[1], Q[2], Q[3]) / t, vol(Q[0], X, Q[2], Q[3]) / t, vol(Q[0], Q[1], X, Q[3]) / t,
            vol(Q[0], Q[1], Q[2], X) / t]


def float_minbary(twod, P, x):
    if twod:
        def area(a, b, c):
            return (b[0] - a[0]) * (c[1] - a[1]) - (b[1] - a[1]) * (c[0] - a[0])
        t = area(P[0], P[1], P[2])
        if t == 0:
            return None
        return min(area(x, P[1], P[2]) / t, area(P[0], x, P[2]) / t, area(P[0], P[1], x) / t)

    def vol(a, b, c, d):
        return det3([a[i] - d[i] for i in range(3)], [b[i] - d[i] for i in range(3)], [c[i] - d[i] for i in range(3)])
    t = vol(P[0], P[1], P[2], P[3])
    if t == 0:
        return None
    return min(vol(x, P[1], P[2], P[3]) / t, vol(P[0], x, P[2], P[3]) / t, vol(P[0], P[1], x, P[3]) / t,
               vol(P[0], P[1], P[2], x) / t)


class Sess:
    def __init__(self, twod):
        self.twod = twod
        self.xyz = []
        self.cells = {}
        self.free = []
        self.hi = 0
        self.built = False
        self.scale = 2.0
        self.fuzz = 1e-12
        self.cache = {}

    def pts(self, cid):
        return [self.xyz[v] for v in self.cells[cid]]

    def containing(self, x):
        """(cells whose exact min weight >= 0, any degenerate cell nearby?)"""
        key = tuple(x)
        if key in self.cache:
            return self.cache[key]
        if not all(math.isfinite(v) for v in x):
            self.cache[key] = ([], True)
            return self.cache[key]
        out = []
        degenerate = False
        for cid, nodes in self.cells.items():
            P = [self.xyz[v] for v in nodes]
            m = float_minbary(self.twod, P, x)
            if m is None:
                degenerate = True
                continue
            if m < -1e-6:
                continue
            b = exact_bary(self.twod, P, x)
            if b is not None and min(b) >= 0:
                out.append(cid)
        self.cache[key] = (out, degenerate)
        return self.cache[key]


TOL_IN = 1e-12


def check_located(s, x, cid, bary, where, walk=False):
    """the statement for a point located in cell cid with weights bary"""
    msgs = []
    if cid not in s.cells:
        return ['%s: returned cell %d is not a donor cell' % (where, cid)]
    if not all(math.isfinite(v) for v in x):
        return []
    inside, degenerate = s.containing(x)
    P = s.pts(cid)
    eb = exact_bary(s.twod, P, x)
    if eb is None:
        return [] if degenerate else ['%s: degenerate cell returned' % where]
    k = len(eb)
    for i in range(k):
        if not math.isfinite(bary[i]) or abs(F(bary[i]) - eb[i]) > Fraction(1, 10 ** 9) * (1 + abs(eb[i])):
            msgs.append('%s: weight %d of cell %d is %r, exact %r' % (where, i, cid, bary[i], float(eb[i])))
            break
    if inside and not degenerate:
        tol = Fraction(1, 10 ** 11) if walk else Fraction(1, 10 ** 12)
        if min(eb) < -tol:
            msgs.append('%s: point lies in donor cell(s) %s but cell %d was returned, exact min weight %.3e'
                        % (where, inside[:3], cid, float(min(eb))))
    return msgs


def clip(b):
    c = [max(0.0, v) for v in b]
    t = sum(c)
    return [v / t for v in c] if t > 0 else None


def oracle_search(ops, impl):
    bad = []
    s = None
    for i, (op, out) in enumerate(zip(ops, impl)):
        w = op.split()
        o = out.split()
        if not o:
            bad.append((i, 'empty output line'))
            continue
        if w[0] == 'reset' and out == 'ok':
            s = Sess(w[1] == '1')
            continue
        if s is None or o[0] == 'bad-op':
            continue
        try:
            if w[0] == 'node' and out == 'ok':
                s.xyz.append(tuple(hf(v) for v in w[1:4]))
            elif w[0] == 'cell' and o[0] == 'ok':
                s.cells[int(o[1])] = tuple(int(v) for v in w[1:])
                s.cache = {}
            elif w[0] == 'rmcell' and out == 'ok':
                s.cells.pop(int(w[1]), None)
                s.cache = {}
            elif w[0] == 'build' and o[0] == 'ok':
                s.built = True
                if len(w) == 2:
                    s.scale = hf(w[1])
                if int(o[1]) != len(s.cells) or int(o[2]) != len(s.cells):
                    bad.append((i, 'search tree holds %s of %d donor cells' % (o[2], len(s.cells))))
            elif w[0] == 'fuzz' and out == 'ok':
                s.fuzz = hf(w[1])
            elif w[0] == 'sphere' and o[0] == 'ok':
                cid = int(w[1])
                c = [hf(v) for v in o[1:4]]
                r = hf(o[4])
                for p in s.pts(cid):
                    d2 = sum((F(p[k]) - F(c[k])) ** 2 for k in range(3))
                    if d2 > (F(r) * (1 + Fraction(1, 10 ** 12))) ** 2:
                        bad.append((i, 'vertex %r of cell %d outside its search sphere (r=%r)' % (p, cid, r)))
                        break
            elif w[0] == 'touch' and o[0] == 'ok':
                x = tuple(hf(v) for v in w[1:4])
                rho = hf(w[4])
                got = set(int(v) for v in o[2:])
                inside, _ = s.containing(x)
                if rho >= 0 and s.scale >= 1.0:
                    for cid in inside:
                        if cid not in got:
                            bad.append((i, 'cell %d contains the query point but is not a candidate' % cid))
                            break
            elif w[0] == 'inlist' and o[0] == 'ok':
                x = tuple(hf(v) for v in w[1:4])
                lst = [int(v) for v in w[4:]]
                cid = int(o[1])
                b = [hf(v) for v in o[2:6]]
                if cid not in lst:
                    bad.append((i, 'returned cell %d is not in the list' % cid))
                    continue
                inside, degenerate = s.containing(x)
                # the statement only applies if an enclosing cell was offered
                if any(c in inside for c in lst):
                    for m in check_located(s, x, cid, b, 'inlist'):
                        bad.append((i, m))
            elif w[0] == 'tree' and o[0] == 'ok':
                x = tuple(hf(v) for v in w[1:4])
                cid = int(o[2])
                inside, degenerate = s.containing(x)
                if cid == -1:
                    if inside and s.fuzz >= 0 and s.scale >= 1.0:
                        bad.append((i, 'point lies in donor cell %d but the tree found no candidate' % inside[0]))
                    continue
                for m in check_located(s, x, cid, [hf(v) for v in o[3:7]], 'tree'):
                    bad.append((i, m))
            elif w[0] == 'walk' and o[0] == 'ok' and o[1] == 'enclosing':
                x = tuple(hf(v) for v in w[3:6])
                for m in check_located(s, x, int(o[2]), [hf(v) for v in o[4:8]], 'walk', walk=True):
                    bad.append((i, m))
                if int(o[3]) > 215:
                    bad.append((i, 'walk took %s steps' % o[3]))
            elif w[0] == 'locnode' and o[0] == 'ok':
                x = tuple(hf(v) for v in w[2:5])
                for m in check_located(s, x, int(o[1]), [hf(v) for v in o[2:6]], 'locnode', walk=True):
                    bad.append((i, m))
            elif w[0] in ('locate', 'self') and o[0] == 'ok':
                bad += [(i, m) for m in check_locate(s, w, out)]
        except (ValueError, IndexError, KeyError) as ex:
            bad.append((i, 'unparsable output %r for %r: %r' % (out[:80], op[:60], ex)))
    return bad


def check_locate(s, w, out):
    msgs = []
    a = hf(w[1])
    g = [hf(v) for v in w[2:5]]
    parts = [p.split() for p in out.split('|')]
    head = parts[0]
    isself = w[0] == 'self'
    ist = head[1] if isself else head[2]
    if ist != 'ok':
        return ['ref_interp_scalar returned %s after a successful locate' % ist]
    if isself:
        xs = None
    else:
        xs = [tuple(hf(v) for v in w[5 + 3 * k:8 + 3 * k]) for k in range((len(w) - 5) // 3)]
        if len(xs) != len(parts) - 1:
            return ['locate printed %d nodes for %d receptor points' % (len(parts) - 1, len(xs))]
    span = max([abs(v) for p in s.xyz for v in p] + [1e-300])
    fscale = abs(a) + sum(abs(v) for v in g) * span
    sfac = hf(w[5]) if isself else None
    for k, p in enumerate(parts[1:]):
        if isself:
            x = tuple(hf(v) for v in p[0:3])
            p = p[3:]
        else:
            x = xs[k]
        cid = int(p[0])
        b = [hf(v) for v in p[1:5]]
        val = hf(p[5])
        where = '%s node %d' % (w[0], k)
        m = check_located(s, x, cid, b, where, walk=isself)
        if m:
            msgs += m
            continue
        if cid not in s.cells:
            continue
        nodes = s.cells[cid]
        f = [a + g[0] * s.xyz[v][0] + g[1] * s.xyz[v][1] + g[2] * s.xyz[v][2] for v in nodes]
        cw = clip(b[:len(nodes)] + ([0.0] if s.twod else []))
        if cw is None:
            msgs.append('%s: no positive weight' % where)
            continue
        conv = sum(cw[i] * f[i] for i in range(len(nodes)))
        tol = 1e-12 * max(fscale, 1e-300)
        if not (min(f) - tol <= val <= max(f) + tol):
            msgs.append('%s: value %r leaves the range [%r, %r] of the donor cell' % (where, val, min(f), max(f)))
        elif abs(val - conv) > 1e-10 * fscale:
            msgs.append('%s: value %r is not the clipped combination %r' % (where, val, conv))
        inside, degenerate = s.containing(x)
        if inside and not degenerate:
            exact = a + g[0] * x[0] + g[1] * x[1] + g[2] * x[2]
            if abs(val - exact) > 1e-10 * fscale:
                msgs.append('%s: linear field %r at a point inside donor cell %d interpolated as %r'
                            % (where, exact, inside[0], val))
        if isself and sfac == 1.0 and cid in s.cells and k < len(s.xyz):
            exact = a + g[0] * s.xyz[k][0] + g[1] * s.xyz[k][1] + g[2] * s.xyz[k][2]
            if abs(val - exact) > 1e-12 * fscale:
                msgs.append('%s: identity interpolation changed the field: %r -> %r' % (where, exact, val))
    return msgs


def _nontriv(op, out):
    return not (out.startswith('bad-op') or out == 'ok')


SEARCH = Stream('interp_search', 'h_interp', 'interp', gen_search, oracle=oracle_search, whitebox=['ref_interp'],
                nontrivial=_nontriv, session='reset')
SELF = Stream('interp_self', 'h_interp', None, gen_self, oracle=oracle_search, kind='oracle', whitebox=['ref_interp'],
              nontrivial=lambda op, out: op.startswith('self') and out.startswith('ok'), session='reset')
