"""streams for C12: sphere tree (ref_search.c), distance kernels, bounding sphere, the ref_phys wall-distance loop.

Oracles are the property stated directly on the implementation's own output lines, in exact integer/rational
arithmetic (every double is a dyadic rational, so a whole session is scaled to integers):
  * dump      : BallInv on the dumped C arrays (every descendant sphere inside the ancestor's children_ball)
  * touching  : the returned list contains every overlapping sphere and nothing that misses by more than the tolerance
  * nearest2/3: |d - min(d0, brute-force min over all elements)| <= 1e-12 L with an independent point-segment /
                point-triangle routine (2x2 Gram solve + edge clamps; not the C's barycentric-by-cross-products)
  * d2/d3     : the same routine on single elements; bsphere: every vertex within radius(1+1e-14) of the centre
"""
import math
import struct
from fractions import Fraction

from .common import Stream

REF_DBL_MAX = 1.0e200
TOL = 1e-12
FLOOR = 1e-140  # below this squares underflow in double; not a scale the property talks about


def tol_of(L):
    return max(TOL * L, FLOOR)


def fh(x):
    return struct.pack('>d', float(x)).hex()


def hf(s):
    return struct.unpack('>d', bytes.fromhex(s))[0]


def fhs(xs):
    return ' '.join(fh(x) for x in xs)


# ---------------------------------------------------------------------------
# exact geometry on integer-scaled coordinates
# ---------------------------------------------------------------------------
def sub(a, b):
    return (a[0] - b[0], a[1] - b[1], a[2] - b[2])


def dot(a, b):
    return a[0] * b[0] + a[1] * b[1] + a[2] * b[2]


def seg_d2(p0, p1, x):
    """squared distance point-segment, exact (int or Fraction inputs)"""
    d = sub(p1, p0)
    ap = sub(x, p0)
    l2 = dot(d, d)
    pr = dot(ap, d)
    if l2 == 0 or pr <= 0:
        return Fraction(dot(ap, ap))
    if pr >= l2:
        bp = sub(x, p1)
        return Fraction(dot(bp, bp))
    return Fraction(dot(ap, ap) * l2 - pr * pr, l2)


def tri_d2(a, b, c, x):
    """squared distance point-triangle, exact: interior foot by the 2x2 Gram system, else the three edges"""
    ab, ac, ap = sub(b, a), sub(c, a), sub(x, a)
    d00, d01, d11 = dot(ab, ab), dot(ab, ac), dot(ac, ac)
    b0, b1 = dot(ab, ap), dot(ac, ap)
    det = d00 * d11 - d01 * d01
    best = None
    if det > 0:
        un = d11 * b0 - d01 * b1
        vn = d00 * b1 - d01 * b0
        if un >= 0 and vn >= 0 and un + vn <= det:
            best = Fraction(dot(ap, ap) * det - (un * b0 + vn * b1), det)
    if best is None:
        best = min(seg_d2(a, b, x), seg_d2(b, c, x), seg_d2(c, a, x))
    return best


class Scaler:
    """common power-of-two scale turning every finite double of a session into an int"""

    def __init__(self, values):
        self.ok = all(math.isfinite(v) and abs(v) < 1e60 for v in values)
        self.L = max([abs(v) for v in values] + [0.0]) if self.ok else 0.0
        k = 0
        if self.ok:
            for v in values:
                if v != 0.0:
                    m, e = math.frexp(v)  # v = m 2^e, m has <= 53 bits
                    k = max(k, 53 - e)
            self.ok = k < 1500
        self.k = max(k, 0)

    def i(self, v):
        f = Fraction(v) * (1 << self.k)
        assert f.denominator == 1
        return f.numerator

    def p(self, xyz):
        return (self.i(xyz[0]), self.i(xyz[1]), self.i(xyz[2]))


def within(d_impl, true2, scaler, tol):
    """|d_impl - sqrt(true2)/2^k| <= tol, decided on squares, exactly"""
    s = 1 << scaler.k
    lo = max(Fraction(0), (Fraction(d_impl) - Fraction(tol)) * s)
    hi = (Fraction(d_impl) + Fraction(tol)) * s
    if hi < 0:
        return False
    return lo * lo <= true2 <= hi * hi


# ---------------------------------------------------------------------------
# generators: point clouds / spheres
# ---------------------------------------------------------------------------
def grid(v, bits=10):
    q = float(1 << bits)
    return round(v * q) / q


def cloud(rng, n, kind):
    pts = []
    if kind == 'random':
        for _ in range(n):
            pts.append([rng.uniform(-1, 1) for _ in range(3)])
    elif kind == 'clustered':
        cs = [[rng.uniform(-10, 10) for _ in range(3)] for _ in range(rng.randint(1, 4))]
        for _ in range(n):
            c = rng.choice(cs)
            pts.append([c[k] + rng.gauss(0, 1e-3) for k in range(3)])
    elif kind == 'collinear':
        a = [rng.uniform(-1, 1) for _ in range(3)]
        d = [rng.uniform(-1, 1) for _ in range(3)]
        for _ in range(n):
            t = rng.uniform(-5, 5)
            pts.append([a[k] + t * d[k] for k in range(3)])
    elif kind == 'axis':  # integer points on one axis: exact distances, many ties
        ax = rng.randrange(3)
        for _ in range(n):
            p = [0.0, 0.0, 0.0]
            p[ax] = float(rng.randint(-12, 12))
            pts.append(p)
    elif kind == 'lattice':  # small integer lattice: duplicates, equidistant children, pythagorean distances
        for _ in range(n):
            pts.append([float(rng.randint(-3, 3)) * rng.choice([1.0, 1.0, 3.0, 4.0]) for _ in range(3)])
    elif kind == 'duplicate':
        base = [[rng.uniform(-1, 1) for _ in range(3)] for _ in range(max(1, n // 4))]
        for _ in range(n):
            pts.append(list(rng.choice(base)))
    elif kind == 'sorted':  # monotone insertion order: deep, unbalanced tree
        for i in range(n):
            pts.append([i * 0.37, math.sin(i) * 1e-3, 0.0])
    elif kind == 'scaled':  # very small or very large overall scale
        s = rng.choice([1e-30, 1e-9, 1e9, 1e30])
        for _ in range(n):
            pts.append([rng.uniform(-1, 1) * s for _ in range(3)])
    else:
        raise ValueError(kind)
    return pts


CLOUDS = ['random', 'clustered', 'collinear', 'axis', 'lattice', 'duplicate', 'sorted', 'scaled']


def radii(rng, pts, kind):
    n = len(pts)
    span = max([abs(c) for p in pts for c in p] + [1e-300])
    m = rng.random()
    if kind in ('axis', 'lattice'):
        return [float(rng.choice([0, 0, 1, 1, 2, 3, 5])) for _ in range(n)]
    if m < 0.15:
        return [0.0] * n
    if m < 0.3:
        return [rng.choice([0.0, span * 1e3, span * rng.uniform(0, 2)]) for _ in range(n)]  # some huge
    if m < 0.4:
        return [rng.uniform(-0.1, 0.3) * span for _ in range(n)]  # a few negative radii (the C accepts them)
    return [rng.uniform(0, 0.3) * span * rng.choice([1.0, 1e-3]) for _ in range(n)]


def tie_query(rng, pts, rad):
    """query sphere that exactly touches one stored sphere along an axis direction (exact in doubles on lattices)"""
    i = rng.randrange(len(pts))
    ax = rng.randrange(3)
    off = float(rng.randint(1, 30)) * rng.choice([1.0, -1.0])
    x = list(pts[i])
    x[ax] += off
    rho = abs(off) - rad[i]
    return x, rho


def gen_tree(rng, tier):
    ops = []
    nsess = 60 if tier == 'quick' else 400
    for s in range(nsess):
        ops.append('reset')
        kind = CLOUDS[s % len(CLOUDS)] if s < 2 * len(CLOUDS) else rng.choice(CLOUDS)
        m = rng.random()
        n = rng.randint(1, 9) if m < 0.4 else rng.randint(10, 60) if m < 0.85 else rng.randint(100, 400 if tier == 'quick' else 1500)
        pts = cloud(rng, n, kind)
        rad = radii(rng, pts, kind)
        order = list(range(n))
        rng.shuffle(order)
        cap = n + rng.choice([0, 0, 0, 1, 5])
        c = rng.random()
        if c < 0.06:
            cap = max(0, n - rng.randint(1, 3))  # increase_limit branch
        elif c < 0.08:
            cap = 0
        elif c < 0.1:
            ops.append('create -%d' % rng.randint(1, 5))  # REF_FAILURE from ref_malloc
            ops.append('dump')
        ops.append('create %d' % cap)
        if rng.random() < 0.3:
            ops.append('touching %s' % fhs([0.0, 0.0, 0.0, 1.0]))  # empty tree
            ops.append('dump')
        small = n <= 12
        for j, i in enumerate(order):
            item = i
            if rng.random() < 0.03:
                item = -rng.randint(1, 9)  # REF_INVALID, slot not consumed
            elif rng.random() < 0.03:
                item = rng.choice(order)  # repeated item id
            ops.append('insert %d %s %s' % (item, fhs(pts[i]), fh(rad[i])))
            if small or j == n - 1 or rng.random() < 0.02:
                ops.append('dump')
        span = max([abs(c) for p in pts for c in p] + [1e-300])
        nq = 6 if n > 100 else 12
        for _ in range(nq):
            q = rng.random()
            if kind in ('axis', 'lattice') and q < 0.7:
                x, rho = tie_query(rng, pts, rad)
            elif q < 0.3:
                x = list(rng.choice(pts))
                rho = rng.choice([0.0, span * 1e-3, span * 0.1])
            elif q < 0.4:
                x = [rng.uniform(-1, 1) * span * 100 for _ in range(3)]
                rho = span * rng.choice([0.0, 1.0, 99.0, 150.0])
            else:
                x = [rng.uniform(-1.5, 1.5) * span for _ in range(3)]
                rho = span * rng.choice([0.0, 1e-6, 0.05, 0.3, 3.0, -0.01])
            ops.append('touching %s %s' % (fhs(x), fh(rho)))
            r2 = rng.random()
            if r2 < 0.35:
                ops.append('trim %s' % fhs(x))
                ops.append('cand %s' % fhs(x))
            elif r2 < 0.6:
                ops.append('candlt %s %s' % (fhs(x), fh(abs(rho) * rng.choice([0.5, 1.0, 2.0, 10.0]))))
    # malformed share
    ops += ['reset', 'insert 1 %s' % fhs([0, 0, 0, 1]), 'dump', 'touching %s' % fhs([0, 0, 0, 1]), 'create x',
            'create 3', 'insert 1 zz 0 0 0', 'insert 1 %s' % fhs([0, 0, 0]), 'touching 0 0 0 0', 'frobnicate',
            'insert 0 %s' % fhs([float('nan'), 0, 0, 1]), 'insert 1 %s' % fhs([0, 0, 0, float('inf')]),
            'insert 2 %s' % fhs([1e200, -1e200, 0, 1]), 'dump', 'touching %s' % fhs([0, 0, 0, 1]),
            'touching %s' % fhs([0, 0, 0, float('nan')]), 'trim %s' % fhs([1, 1, 1]), 'cand %s' % fhs([1, 1, 1])]
    return ops


class TreeMirror:
    """what the oracle knows about a session from the ops and the implementation's own status lines"""

    def __init__(self):
        self.reset()

    def reset(self):
        self.have = False
        self.spheres = []  # (item, (x,y,z), r) in slot order
        self.segs = []
        self.tris = []


def _floats(ws):
    if any(len(w) != 16 for w in ws):
        return None
    try:
        return [hf(w) for w in ws]
    except ValueError:
        return None


def check_ballinv(n, empty, item, left, right, ball, pos, rad):
    """BallInv on the C arrays + basic shape; returns an error string or None"""
    if empty == 0:
        return None
    vals = [v for v in pos + rad + ball[:empty]]
    sc = Scaler(vals)
    if not sc.ok:
        return None
    P = [sc.p(pos[3 * i:3 * i + 3]) for i in range(empty)]
    seen = set()

    def desc(i):
        out = []
        stack = [i]
        while stack:
            j = stack.pop()
            for ch in (left[j], right[j]):
                if ch != -1:
                    if not (0 < ch < empty) or ch in seen:
                        raise ValueError('child index %d of slot %d is not a fresh filled slot' % (ch, j))
                    seen.add(ch)
                    out.append(ch)
                    stack.append(ch)
        return out

    try:
        all_desc = desc(0)
    except ValueError as ex:
        return str(ex)
    if len(all_desc) != empty - 1:
        return 'only %d of %d filled slots reachable from the root' % (len(all_desc) + 1, empty)
    # per node: descendants (recomputed; sizes are small enough)
    for p in range(empty):
        seen = set()
        for q in desc(p):
            # dist(p,q) + r_q <= ball_p (+ a few ulps of the operands)
            slack = Fraction(1, 2 ** 48) * (abs(Fraction(ball[p])) + abs(Fraction(rad[q])) + Fraction(sc.L))
            rhs = Fraction(ball[p]) - Fraction(rad[q]) + slack
            d = sub(P[p], P[q])
            if rhs < 0 or dot(d, d) > (rhs * (1 << sc.k)) ** 2:
                return 'BallInv fails: slot %d ball %r does not contain descendant slot %d' % (p, ball[p], q)
    return None


def parse_dump(line):
    w = line.split()
    if w[0] != 'ok':
        return None
    n, empty = int(w[1]), int(w[2])
    k = 3
    assert w[k] == 'I'
    item = [int(v) for v in w[k + 1:k + 1 + n]]
    k += 1 + n
    assert w[k] == 'L'
    left = [int(v) for v in w[k + 1:k + 1 + n]]
    k += 1 + n
    assert w[k] == 'R'
    right = [int(v) for v in w[k + 1:k + 1 + n]]
    k += 1 + n
    assert w[k] == 'B'
    ball = [hf(v) if v != 'nan' else float('nan') for v in w[k + 1:k + 1 + n]]
    k += 1 + n
    assert w[k] == 'P'
    pos = [hf(v) if v != 'nan' else float('nan') for v in w[k + 1:k + 1 + 3 * empty]]
    k += 1 + 3 * empty
    assert w[k] == 'Q'
    rad = [hf(v) if v != 'nan' else float('nan') for v in w[k + 1:k + 1 + empty]]
    return n, empty, item, left, right, ball, pos, rad


def overlap_check(spheres, x, rho, got, what):
    """got must contain every sphere with dist <= r + rho - tol and none with dist > r + rho + tol"""
    vals = [v for (_, p, r) in spheres for v in list(p) + [r]] + list(x) + [rho]
    sc = Scaler(vals)
    if not sc.ok:
        return None
    tol = Fraction(tol_of(sc.L))
    if all(float(v).is_integer() and abs(v) <= 2 ** 20 for v in vals):
        tol = Fraction(0)  # integer lattice: the C's squares, sums and the comparison are exact, ties included
    X = sc.p(x)
    s = 1 << sc.k
    gotc = {}
    for g in got:
        gotc[g] = gotc.get(g, 0) + 1
    must = {}
    may = {}
    for (item, p, r) in spheres:
        d = sub(sc.p(p), X)
        d2 = dot(d, d)
        reach = Fraction(r) + Fraction(rho)
        lo = (reach - tol) * s
        hi = (reach + tol) * s
        if lo >= 0 and d2 <= lo * lo:
            must[item] = must.get(item, 0) + 1
        if hi >= 0 and d2 <= hi * hi:
            may[item] = may.get(item, 0) + 1
    for it, c in must.items():
        if gotc.get(it, 0) < c:
            return '%s misses item %d whose sphere overlaps the query' % (what, it)
    for it, c in gotc.items():
        if c > may.get(it, 0):
            return '%s returns item %d whose sphere does not touch the query' % (what, it)
    return None


def oracle_tree(ops, impl):
    bad = []
    m = TreeMirror()
    for i, (o, r) in enumerate(zip(ops, impl)):
        w = o.split()
        op = w[0]
        if op == 'reset':
            m.reset()
        elif op == 'create' and r in ('ok', 'failure'):
            m.have = r == 'ok'
            m.spheres = []
        elif op == 'wallbuild' and r != 'bad-op':
            m.have = True
            m.spheres = None  # centre/radius computed by the implementation: read them from the next dump
        elif op == 'insert' and r == 'ok':
            f = _floats(w[2:6])
            if m.spheres is not None:
                m.spheres.append((int(w[1]), tuple(f[:3]), f[3]))
        elif op == 'dump' and r.startswith('ok'):
            try:
                n, empty, item, left, right, ball, pos, rad = parse_dump(r)
            except Exception as ex:
                bad.append((i, 'unparsable dump: %r' % (ex,)))
                continue
            if m.spheres is None:
                m.spheres = [(item[k], tuple(pos[3 * k:3 * k + 3]), rad[k]) for k in range(empty)]
            else:
                want = [(it, p, rr) for (it, p, rr) in m.spheres]
                gotrows = [(item[k], tuple(pos[3 * k:3 * k + 3]), rad[k]) for k in range(empty)]
                if [fh_row(x) for x in want] != [fh_row(x) for x in gotrows]:
                    bad.append((i, 'slots do not hold the inserted spheres in insertion order'))
            if empty <= 400:
                e = check_ballinv(n, empty, item, left, right, ball, pos, rad)
                if e:
                    bad.append((i, e))
        elif op in ('touching', 'candlt', 'cand') and r.startswith('ok') and m.spheres is not None:
            f = _floats(w[1:])
            got = [int(v) for v in r.split()[2:]]
            if int(r.split()[1]) != len(got):
                bad.append((i, 'list length field wrong'))
            if op == 'touching':
                e = overlap_check(m.spheres, f[:3], f[3], got, 'touching')
                if e:
                    bad.append((i, e))
            else:
                # candidates: must contain every sphere that can hold the nearest point:
                # dist_i - r_i <= T where T = min(start, min_j dist_j + r_j); checked via touching radius T
                if all(s[2] >= 0 for s in m.spheres) and m.spheres:
                    e = cand_check(m.spheres, f[:3], f[3] if op == 'candlt' else REF_DBL_MAX, got)
                    if e:
                        bad.append((i, e))
    return bad


def fh_row(row):
    it, p, r = row
    return (it, fh(p[0]), fh(p[1]), fh(p[2]), fh(r))


def cand_check(spheres, x, start, got):
    vals = [v for (_, p, r) in spheres for v in list(p) + [r]] + list(x)
    if not all(math.isfinite(v) and abs(v) < 1e60 for v in vals):
        return None
    # T in floating point is enough here: the check below uses a tolerance
    T = start
    for (_, p, r) in spheres:
        T = min(T, math.dist(p, x) + r)
    L = max([abs(v) for v in vals] + [0.0])
    must = [it for (it, p, r) in spheres if math.dist(p, x) - r <= T - 1e-9 * L - 1e-9 * abs(T)]
    for it in must:
        if it not in got:
            return 'nearest candidates miss item %d (its sphere reaches inside the trim radius)' % it
    return None


# ---------------------------------------------------------------------------
# elements: segments and triangles
# ---------------------------------------------------------------------------
def elements(rng, n, per, kind):
    els = []
    if kind == 'patch':  # small elements scattered over a surface-like sheet
        h = rng.choice([0.02, 0.1, 0.5])
        for _ in range(n):
            c = [rng.uniform(-1, 1), rng.uniform(-1, 1), rng.uniform(-0.05, 0.05)]
            els.append([[c[k] + rng.uniform(-h, h) for k in range(3)] for _ in range(per)])
    elif kind == 'random':
        for _ in range(n):
            els.append([[rng.uniform(-1, 1) for _ in range(3)] for _ in range(per)])
    elif kind == 'needle':  # stretched: one long direction, tiny width
        for _ in range(n):
            a = [rng.uniform(-1, 1) for _ in range(3)]
            d = [rng.uniform(-1, 1) for _ in range(3)]
            e = [rng.uniform(-1, 1) * rng.choice([1e-2, 1e-3]) for _ in range(3)]  # aspect ratio up to ~1e3
            v = [a, [a[k] + d[k] for k in range(3)], [a[k] + 0.5 * d[k] + e[k] for k in range(3)]]
            els.append(v[:per])
    elif kind == 'degenerate':  # zero-length segments, collinear / repeated-vertex triangles
        for _ in range(n):
            a = [grid(rng.uniform(-1, 1)) for _ in range(3)]
            d = [grid(rng.uniform(-1, 1)) for _ in range(3)]
            m = rng.random()
            if per == 2:
                v = [a, list(a)] if m < 0.6 else [a, [a[k] + d[k] for k in range(3)]]
            elif m < 0.3:
                v = [a, list(a), list(a)]
            elif m < 0.6:
                v = [a, [a[k] + d[k] for k in range(3)], [a[k] + 2 * d[k] for k in range(3)]]
            elif m < 0.8:
                v = [a, [a[k] + d[k] for k in range(3)], list(a)]
            else:
                v = [a, [a[k] + d[k] for k in range(3)], [a[k] - 0.5 * d[k] for k in range(3)]]
            rng.shuffle(v)
            els.append(v)
    elif kind == 'planar2d':  # 2-D style: z = 0 (segments of a 2-D boundary / in-plane triangles)
        for _ in range(n):
            c = [rng.uniform(-1, 1), rng.uniform(-1, 1), 0.0]
            els.append([[c[0] + rng.uniform(-0.2, 0.2), c[1] + rng.uniform(-0.2, 0.2), 0.0] for _ in range(per)])
    elif kind == 'lattice':
        for _ in range(n):
            els.append([[float(rng.randint(-4, 4)) for _ in range(3)] for _ in range(per)])
    elif kind == 'strip':  # connected strip sharing vertices (like a real boundary)
        p = [[i * 0.1, math.sin(i * 0.3) * 0.2, (i % 2) * 0.1] for i in range(n + per)]
        for i in range(n):
            els.append([list(p[i + k]) for k in range(per)])
    else:
        raise ValueError(kind)
    return els


ELEMS = ['patch', 'random', 'needle', 'degenerate', 'planar2d', 'lattice', 'strip']


def element_queries(rng, els, per, k):
    qs = []
    for _ in range(k):
        e = rng.choice(els)
        m = rng.random()
        if m < 0.15:
            x = list(rng.choice(e))  # a vertex: distance zero
        elif m < 0.3:
            t = rng.random()
            a, b = e[0], e[1]
            x = [a[j] + t * (b[j] - a[j]) for j in range(3)]  # on an edge
        elif m < 0.45 and per == 3:
            w = [rng.random() for _ in range(3)]
            s = sum(w)
            x = [sum(w[i] / s * e[i][j] for i in range(3)) for j in range(3)]  # in the face
        elif m < 0.55 and per == 3:
            w = [rng.uniform(-1, 2) for _ in range(3)]
            s = sum(w) or 1.0
            x = [sum(w[i] / s * e[i][j] for i in range(3)) for j in range(3)]  # in the plane, maybe outside
        elif m < 0.65:
            x = [rng.uniform(-50, 50) for _ in range(3)]  # far away
        else:
            x = [rng.uniform(-1.3, 1.3) for _ in range(3)]
        qs.append(x)
    return qs


def wall_quads(rng, n):
    """n convex quads, most of them exactly planar (one coordinate constant, so the independent oracle can treat the
    quad as a surface whatever diagonal splits it), skewed so that the two diagonals differ; and query points
    whose closest wall point lies inside a quad (all four quarters) at small and large normal offsets"""
    quads, queries = [], []
    for _ in range(n):
        ax = rng.randrange(3)
        h = rng.choice([0.0, rng.uniform(-2, 2)])
        o = [rng.uniform(-1, 1), rng.uniform(-1, 1)]
        a, b = rng.uniform(0.3, 2.0), rng.uniform(0.3, 2.0)
        sk = rng.uniform(-0.8, 0.8)
        tp = rng.uniform(0.5, 1.0)   # trapezoid factor of the top side
        uv = [(0.0, 0.0), (a, 0.0), (sk + a * tp, b), (sk, b)]
        planar = rng.random() < 0.8
        quad = []
        for k, (u, v) in enumerate(uv):
            w = h if planar else h + rng.uniform(-0.2, 0.2)
            pt = [o[0] + u, o[1] + v]
            pt.insert(ax, w)
            quad.append(pt)
        if rng.random() < 0.5:
            quad = [quad[0], quad[3], quad[2], quad[1]]   # opposite orientation
        if rng.random() < 0.5:
            quad = quad[1:] + quad[:1]                    # other diagonal becomes (0,2)
        quads.append(quad)
        for _q in range(3):
            s_, t_ = rng.random(), rng.random()
            p = [(1 - s_) * (1 - t_) * quad[0][i] + s_ * (1 - t_) * quad[1][i] + s_ * t_ * quad[2][i] +
                 (1 - s_) * t_ * quad[3][i] for i in range(3)]
            p[ax] += rng.choice([0.0, 1e-3, 0.05, 0.3, -0.05])
            queries.append(p)
    return quads, queries


def _planar_convex(quad):
    """exactly planar (a constant coordinate) and strictly convex in that plane"""
    for ax in range(3):
        if all(v[ax] == quad[0][ax] for v in quad):
            pts = [[Fraction(c) for k, c in enumerate(v) if k != ax] for v in quad]
            sgn = []
            for k in range(4):
                p, q, r = pts[k], pts[(k + 1) % 4], pts[(k + 2) % 4]
                sgn.append((q[0] - p[0]) * (r[1] - q[1]) - (q[1] - p[1]) * (r[0] - q[0]))
            return all(x > 0 for x in sgn) or all(x < 0 for x in sgn)
    return False


def gen_nearest(rng, tier):
    ops = []
    nsess = 40 if tier == 'quick' else 300
    for s in range(nsess):
        ops.append('reset')
        per = 2 + (s % 2)
        kind = ELEMS[(s // 2) % len(ELEMS)] if s < 2 * len(ELEMS) else rng.choice(ELEMS)
        m = rng.random()
        n = rng.randint(1, 8) if m < 0.3 else rng.randint(9, 60) if m < 0.9 else rng.randint(100, 300)
        els = elements(rng, n, per, kind)
        for e in els:
            ops.append('%s %s' % ('seg' if per == 2 else 'tri', fhs([c for v in e for c in v])))
        perm = list(range(n))
        rng.shuffle(perm)
        c = rng.random()
        if c < 0.05:
            perm = perm + [rng.randrange(n)]  # one insert too many: increase_limit, tree stays usable
        elif c < 0.1 and n > 2:
            perm = perm[:n - 1]  # one element never inserted: the answer is the minimum over the inserted ones
        elif c < 0.15:
            # manual build with deliberately loose spheres (first vertex as centre)
            ops.append('create %d' % n)
            for i in perm:
                e = els[i]
                r = max(math.dist(e[0], v) for v in e) * 1.001 + 1e-9
                ops.append('insert %d %s %s' % (i, fhs(e[0]), fh(r)))
            perm = None
        if perm is not None:
            ops.append('wallbuild %d %s' % (per, ' '.join(str(i) for i in perm)))
        if n <= 60 or rng.random() < 0.3:
            ops.append('dump')
        for x in element_queries(rng, els, per, 10 if n > 100 else 16):
            d0 = REF_DBL_MAX if rng.random() < 0.8 else rng.choice([0.0, 1e-3, 0.1, 1.0, 10.0])
            ops.append('nearest%d %s %s' % (per, fhs(x), fh(d0)))
        if rng.random() < 0.3:
            x = [rng.uniform(-1, 1) for _ in range(3)]
            ops.append('touching %s %s' % (fhs(x), fh(rng.choice([0.0, 0.1, 1.0]))))
        # the real ref_phys_wall_distance (serial, its own rand() permutation) on a grid made of these elements;
        # face id of element i is 1+i%3, `mask` picks the non-empty or empty subset of ids that are walls
        mask = 7 if rng.random() < 0.5 else rng.randint(1, 7)
        qs = element_queries(rng, els, per, 8)
        ops.append('walldist %d %d %s' % (per, mask, fhs([c for q in qs for c in q])))
        if per == 3 and rng.random() < 0.8:
            # wall QUADS (hex / prism / pyramid boundary faces): ref_phys_local_wall splits each into two triangles
            quads, qq = wall_quads(rng, rng.randint(1, 6))
            ops.append('walldistq %d %d %s %s' % (rng.choice([7, 7, rng.randint(1, 7)]), len(quads),
                                                  fhs([c for q in quads for v in q for c in v]),
                                                  fhs([c for q in qq for c in q])))
    ops += ['reset', 'nearest2 %s' % fhs([0, 0, 0, 1]), 'wallbuild 2', 'walldist 2 7 %s' % fhs([1, 2, 3]),
            'walldist 3 0', 'walldist 3 9 %s' % fhs([1, 2, 3]), 'walldist 3 1 %s' % fhs([1, 2]), 'nearest2 %s' % fhs([0, 0, 0, 1]), 'dump',
            'wallbuild 3 0', 'wallbuild 4', 'seg %s' % fhs([0] * 5), 'tri %s' % fhs([0] * 9), 'wallbuild 3 0 0',
            'nearest3 %s' % fhs([1, 2, 2, REF_DBL_MAX]), 'nearest2 %s' % fhs([1, 2, 2, REF_DBL_MAX]),
            'create 2', 'insert 5 %s' % fhs([0, 0, 0, 1]), 'nearest3 %s' % fhs([1, 2, 2, REF_DBL_MAX])]
    return ops


def oracle_nearest(ops, impl):
    bad = []
    segs, tris = [], []
    inserted = None  # items in the tree
    pending = []
    for i, (o, r) in enumerate(zip(ops, impl)):
        w = o.split()
        op = w[0]
        if op == 'reset':
            segs, tris, inserted = [], [], None
        elif op == 'seg' and r == 'ok':
            f = _floats(w[1:])
            segs.append((f[0:3], f[3:6]))
        elif op == 'tri' and r == 'ok':
            f = _floats(w[1:])
            tris.append((f[0:3], f[3:6], f[6:9]))
        elif op == 'create':
            inserted = [] if r == 'ok' else None
        elif op == 'insert' and r == 'ok' and inserted is not None:
            inserted.append(int(w[1]))
        elif op == 'wallbuild' and r != 'bad-op':
            if r == 'failure':
                inserted = None
            else:
                ncell = len(segs) if w[1] == '2' else len(tris)
                inserted = [int(v) for v in w[2:]][:ncell]
        elif op == 'walldist' and r.startswith('ok'):
            f = _floats(w[3:])
            els = segs if w[1] == '2' else tris
            mask = int(w[2])
            walls = [e for k, e in enumerate(els) if (mask >> (k % 3)) & 1]
            out = r.split()[1:]
            if len(out) != len(f) // 3:
                bad.append((i, 'walldist printed %d distances for %d query nodes' % (len(out), len(f) // 3)))
                continue
            for q in range(len(out)):
                x = f[3 * q:3 * q + 3]
                if out[q] == 'nan':
                    bad.append((i, 'wall distance NaN'))
                    break
                d = hf(out[q])
                if not walls:
                    if d != REF_DBL_MAX:
                        bad.append((i, 'no wall element but distance %r' % d))
                        break
                    continue
                sc = Scaler([c for e in walls for v in e for c in v] + list(x))
                if not sc.ok:
                    continue
                X = sc.p(x)
                best = None
                for e in walls:
                    vs = [sc.p(v) for v in e]
                    t2 = seg_d2(vs[0], vs[1], X) if len(vs) == 2 else tri_d2(vs[0], vs[1], vs[2], X)
                    if best is None or t2 < best:
                        best = t2
                if not within(d, best, sc, tol_of(sc.L)):
                    bad.append((i, 'ref_phys_wall_distance gives %r for query %d, brute-force minimum over the wall '
                                'elements is %r' % (d, q, math.sqrt(float(best)) / (1 << sc.k))))
                    break
        elif op == 'walldistq' and r.startswith('ok'):
            mask, nquad = int(w[1]), int(w[2])
            f = _floats(w[3:])
            quads = [[f[12 * j + 3 * v:12 * j + 3 * v + 3] for v in range(4)] for j in range(nquad)]
            f = f[12 * nquad:]
            wt = [e for k, e in enumerate(tris) if (mask >> (k % 3)) & 1]
            wq = [e for k, e in enumerate(quads) if (mask >> (k % 3)) & 1]
            out = r.split()[1:]
            if len(out) != len(f) // 3:
                bad.append((i, 'walldistq printed %d distances for %d query nodes' % (len(out), len(f) // 3)))
                continue
            if not all(_planar_convex(q) for q in wq):
                continue  # a non-planar quad is not a surface: only the model comparison applies
            for q in range(len(out)):
                x = f[3 * q:3 * q + 3]
                if out[q] == 'nan':
                    bad.append((i, 'wall distance NaN'))
                    break
                d = hf(out[q])
                if not wt and not wq:
                    if d != REF_DBL_MAX:
                        bad.append((i, 'no wall element but distance %r' % d))
                        break
                    continue
                sc = Scaler([c for e in wt for v in e for c in v] + [c for e in wq for v in e for c in v] + list(x))
                if not sc.ok:
                    continue
                X = sc.p(x)
                best = None
                for e in wt:
                    vs = [sc.p(v) for v in e]
                    t2 = tri_d2(vs[0], vs[1], vs[2], X)
                    best = t2 if best is None or t2 < best else best
                for e in wq:
                    vs = [sc.p(v) for v in e]
                    # a planar convex quad is the union of the triangles of BOTH diagonals: independent of the split
                    for (a_, b_, c_) in ((0, 1, 2), (0, 2, 3), (0, 1, 3), (1, 2, 3)):
                        t2 = tri_d2(vs[a_], vs[b_], vs[c_], X)
                        best = t2 if best is None or t2 < best else best
                if not within(d, best, sc, tol_of(sc.L)):
                    bad.append((i, 'ref_phys_wall_distance gives %r for query %d, brute-force minimum over the wall '
                                   'triangles and planar wall quads is %r' % (d, q, math.sqrt(float(best)) / (1 << sc.k))))
                    break
        elif op in ('nearest2', 'nearest3') and r.startswith('ok') and inserted is not None:
            f = _floats(w[1:])
            els = segs if op == 'nearest2' else tris
            x, d0 = f[:3], f[3]
            d = r.split()[1]
            if d == 'nan':
                bad.append((i, 'nearest returned NaN'))
                continue
            d = hf(d)
            vals = [c for it in set(inserted) for v in els[it] for c in v] + list(x)
            sc = Scaler(vals)
            if not sc.ok or not math.isfinite(d0):
                continue
            X = sc.p(x)
            best = None
            for it in set(inserted):
                vs = [sc.p(v) for v in els[it]]
                t2 = seg_d2(vs[0], vs[1], X) if len(vs) == 2 else tri_d2(vs[0], vs[1], vs[2], X)
                if best is None or t2 < best:
                    best = t2
            tol = tol_of(sc.L)
            s = 1 << sc.k
            # expected = min(d0, sqrt(best)/s)
            if best is None or Fraction(d0) * s <= 0 or (Fraction(d0) * s) ** 2 <= best:
                # the start value is the minimum (or ties it within rounding)
                if best is not None and d0 > 0 and within(d, best, sc, tol):
                    continue
                if abs(d - d0) > tol:
                    bad.append((i, 'nearest %r but start distance %r is already <= every element distance' % (d, d0)))
            elif not within(d, best, sc, tol):
                bad.append((i, 'nearest element distance %r differs from brute-force minimum %r by more than 1e-12 L'
                            % (d, math.sqrt(float(best)) / s)))
    return bad


# ---------------------------------------------------------------------------
# kernels
# ---------------------------------------------------------------------------
def adversarial_tri(rng):
    m = rng.random()
    a = [grid(rng.uniform(-2, 2)) for _ in range(3)]
    d = [grid(rng.uniform(-2, 2)) for _ in range(3)]
    e = [grid(rng.uniform(-2, 2)) for _ in range(3)]
    if m < 0.15:
        t = [a, list(a), list(a)]
    elif m < 0.3:
        t = [a, [a[k] + d[k] for k in range(3)], [a[k] + rng.choice([2.0, -1.0, 0.5]) * d[k] for k in range(3)]]
    elif m < 0.4:
        t = [a, [a[k] + d[k] for k in range(3)], list(a)]
    elif m < 0.6:
        w = rng.choice([1e-1, 1e-2, 1e-3])  # sharper needles / larger scales: stream search_scale
        t = [a, [a[k] + d[k] for k in range(3)], [a[k] + 0.5 * d[k] + w * e[k] for k in range(3)]]
    elif m < 0.7:
        s = rng.choice([1e-20, 1e-8, 1e-3, 0.5])
        t = [[s * v for v in a], [s * (a[k] + d[k]) for k in range(3)], [s * (a[k] + e[k]) for k in range(3)]]
    else:
        t = [a, [a[k] + d[k] for k in range(3)], [a[k] + e[k] for k in range(3)]]
    rng.shuffle(t)
    return t


def adversarial_point(rng, t):
    m = rng.random()
    span = max([abs(c) for v in t for c in v] + [1e-300])
    if m < 0.12:
        return list(rng.choice(t))
    if m < 0.3:
        i = rng.randrange(len(t))
        a, b = t[i], t[(i + 1) % len(t)]
        s = rng.choice([0.0, 1.0, 0.5, 0.25, rng.random(), -0.5, 1.5])
        return [a[k] + s * (b[k] - a[k]) for k in range(3)]
    if m < 0.5 and len(t) == 3:
        w = [rng.choice([0.0, 0.25, 0.5, rng.uniform(-1, 2)]) for _ in range(3)]
        s = sum(w) or 1.0
        return [sum(w[i] / s * t[i][k] for i in range(3)) for k in range(3)]
    if m < 0.6:
        return [rng.uniform(-1, 1) * span * 1e6 for _ in range(3)]
    if m < 0.64:
        return [rng.uniform(-1, 1) * span * rng.choice([1e19, 1e20, 1e21, 1e25]) for _ in range(3)]  # divisible guard
    return [rng.uniform(-2, 2) * span for _ in range(3)]


def gen_kernel(rng, tier):
    ops = []
    n = 2500 if tier == 'quick' else 30000
    for _ in range(n):
        t = adversarial_tri(rng)
        x = adversarial_point(rng, t)
        ops.append('d3 %s %s' % (fhs([c for v in t for c in v]), fhs(x)))
        s = t[:2] if rng.random() < 0.7 else [t[0], list(t[0])]
        x = adversarial_point(rng, s)
        ops.append('d2 %s %s' % (fhs([c for v in s for c in v]), fhs(x)))
        if rng.random() < 0.3:
            k = rng.choice([1, 2, 2, 3, 3, 4, 6])
            pts = (t + [x, list(x), s[0]])[:k]
            if rng.random() < 0.1:
                pts = [[-0.0, -0.0, -0.0]] * k
            ops.append('%s %s' % (rng.choice(['bsphere', 'bspheren']), fhs([c for v in pts for c in v])))
    ops += ['d2 %s' % fhs([0] * 8), 'd3 %s' % fhs([0] * 11), 'bsphere', 'bsphere %s' % fhs([1, 2]), 'bspheren',
            'bspheren %s' % fhs([1, 2, 3, 4]), 'bspheren %s' % fhs([0.5] * 84),
            'd2 %s' % fhs([float('nan')] + [0] * 8), 'd3 %s' % fhs([float('inf')] + [1] * 11),
            'd2 %s' % fhs([0, 0, 0, 1, 0, 0, 1e20, 0, 0]), 'd2 %s' % fhs([0, 0, 0, 1, 0, 0, 1e20, 1, 0]),
            'd3 %s' % fhs([0, 0, 0, 1, 0, 0, 0, 1, 0, 1e21, 1e21, 0])]
    return ops


def oracle_kernel(ops, impl):
    bad = []
    for i, (o, r) in enumerate(zip(ops, impl)):
        w = o.split()
        if w[0] in ('d2', 'd3') and r not in ('bad-op', 'failure'):
            f = _floats(w[1:])
            sc = Scaler(f)
            if r == 'nan':
                if sc.ok and sc.L < 1e60:
                    bad.append((i, 'kernel returned NaN on finite input'))
                continue
            if not sc.ok:
                continue
            d = hf(r)
            P = [sc.p(f[3 * k:3 * k + 3]) for k in range(len(f) // 3)]
            t2 = seg_d2(P[0], P[1], P[2]) if w[0] == 'd2' else tri_d2(P[0], P[1], P[2], P[3])
            if not within(d, t2, sc, tol_of(sc.L)):
                bad.append((i, '%s = %r but the exact distance is %r (more than 1e-12 L apart)'
                            % (w[0], d, math.sqrt(float(t2)) / (1 << sc.k))))
        elif w[0] in ('bsphere', 'bspheren') and r != 'bad-op':
            f = _floats(w[1:])
            out = r.split()
            if 'nan' in out:
                continue
            c = [hf(v) for v in out[:3]]
            rad = hf(out[3])
            sc = Scaler(f + c + [rad])
            if not sc.ok:
                continue
            C = sc.p(c)
            R = Fraction(rad) * (1 + Fraction(1, 10 ** 14)) * (1 << sc.k)
            for k in range(len(f) // 3):
                d = sub(sc.p(f[3 * k:3 * k + 3]), C)
                if dot(d, d) > R * R:
                    bad.append((i, 'bounding sphere does not contain vertex %d' % k))
                    break
    return bad


# ---------------------------------------------------------------------------
# scale stream: ref_search_distance3 over element sizes 1e-6 .. 1e8 and needle aspect ratios up to 1e4
# ---------------------------------------------------------------------------
SITE_D3 = 'ref_search_distance3:unnormalised-normal-projection'
D3_REPAIRED = True  # flip together with `tri3FootRepo` in lean/Refine/Model/Search.lean when the repair lands


def py_distance2(p0, p1, x):
    """ref_search_distance2 transcribed operation by operation (python float = IEEE double, no FMA)"""
    dl = [p1[0] - p0[0], p1[1] - p0[1], p1[2] - p0[2]]
    dx = [x[0] - p0[0], x[1] - p0[1], x[2] - p0[2]]
    len2 = dl[0] * dl[0] + dl[1] * dl[1] + dl[2] * dl[2]
    proj2 = dx[0] * dl[0] + dx[1] * dl[1] + dx[2] * dl[2]
    if abs(1.0e20 * len2) > abs(proj2):
        t = proj2 / len2
        t = t if t > 0.0 else 0.0
        t = t if t < 1.0 else 1.0
        dx = [x[0] - (p0[0] + t * dl[0]), x[1] - (p0[1] + t * dl[1]), x[2] - (p0[2] + t * dl[2])]
    return math.sqrt(dx[0] * dx[0] + dx[1] * dx[1] + dx[2] * dx[2])


def _nrm(a, b, c):
    e1 = [b[0] - a[0], b[1] - a[1], b[2] - a[2]]
    e2 = [c[0] - a[0], c[1] - a[1], c[2] - a[2]]
    return [e1[1] * e2[2] - e1[2] * e2[1], e1[2] * e2[0] - e1[0] * e2[2], e1[0] * e2[1] - e1[1] * e2[0]]


def _dot(a, b):
    return a[0] * b[0] + a[1] * b[1] + a[2] * b[2]


def py_distance3(p0, p1, p2, x):
    """ref_search_distance3 as in /repo today, transcribed operation by operation"""
    N = _nrm(p0, p1, p2)
    q = [x[0] - p0[0], x[1] - p0[1], x[2] - p0[2]]
    total = _dot(q, N)
    if D3_REPAIRED and abs(1.0e20 * _dot(N, N)) > abs(total):
        total /= _dot(N, N)
    q = [q[0] - N[0] * total, q[1] - N[1] * total, q[2] - N[2] * total]
    xp = [q[0] + p0[0], q[1] + p0[1], q[2] + p0[2]]
    b = [_dot(_nrm(xp, p1, p2), N), _dot(_nrm(p0, xp, p2), N), _dot(_nrm(p0, p1, xp), N)]
    total = b[0] + b[1] + b[2]
    if all(abs(1.0e20 * total) > abs(v) for v in b):
        b = [b[0] / total, b[1] / total, b[2] / total]
        if b[0] >= 0.0 and b[1] >= 0.0 and b[2] >= 0.0:
            d = [b[0] * p0[k] + b[1] * p1[k] + b[2] * p2[k] - x[k] for k in range(3)]
            return math.sqrt(_dot(d, d))
    d = py_distance2(p0, p1, x)
    e = py_distance2(p1, p2, x)
    d = d if d < e else e
    e = py_distance2(p2, p0, x)
    return d if d < e else e


def explained_by_projection_defect(f, impl_hex):
    """the inaccurate value is exactly what today's algorithm produces in doubles (independent transcription
    agrees bit for bit) and the triangle's |N|^2 is large, so that `xyzp -= N*(N.q)` overshoots the plane by
    |N|^2 and the barycentric numerators cancel catastrophically"""
    try:
        p0, p1, p2, x = f[0:3], f[3:6], f[6:9], f[9:12]
        N = _nrm(p0, p1, p2)
        n2 = _dot(N, N)
        v = py_distance3(p0, p1, p2, x)
    except (OverflowError, ZeroDivisionError, ValueError):
        return False
    return fh(v) == impl_hex and n2 > 1e2


def scaled_tri(rng):
    m = rng.random()
    if m < 0.5:
        s = 10.0 ** rng.uniform(-6, 8)
        t = [[rng.uniform(-1, 1) * s for _ in range(3)] for _ in range(3)]
        x = [rng.uniform(-2, 2) * s for _ in range(3)]
    elif m < 0.85:
        w = 10.0 ** rng.uniform(-4, -1)  # aspect ratio <= 1e4; sharper needles are ill-conditioned for any
        # barycentric formula (measured: 2x tol at 1e5, 30x at 1e6, 3e3x at 1e8, with or without the repair)
        a = [rng.uniform(-1, 1) for _ in range(3)]
        d = [rng.uniform(-1, 1) for _ in range(3)]
        e = [rng.uniform(-1, 1) * w for _ in range(3)]
        t = [a, [a[k] + d[k] for k in range(3)], [a[k] + 0.5 * d[k] + e[k] for k in range(3)]]
        if rng.random() < 0.5:
            ww = [rng.random() for _ in range(3)]
            sm = sum(ww)
            x = [sum(ww[i] / sm * t[i][k] for i in range(3)) + rng.choice([0, 1e-3, 1e-1]) * rng.uniform(-1, 1)
                 for k in range(3)]
        else:
            x = [rng.uniform(-1.5, 1.5) for _ in range(3)]
    else:  # unit-size triangle far from the origin / far query
        o = 10.0 ** rng.uniform(0, 6)
        t = [[o + rng.uniform(-1, 1) for _ in range(3)] for _ in range(3)]
        x = [o + rng.uniform(-2, 2) * rng.choice([1.0, 100.0]) for _ in range(3)]
    return t, x


def gen_scale(rng, tier):
    ops = []
    for _ in range(1500 if tier == 'quick' else 15000):
        t, x = scaled_tri(rng)
        ops.append('d3 %s %s' % (fhs([c for v in t for c in v]), fhs(x)))
    # small wall-distance sessions over scaled meshes: tree result must be the minimum of the kernel values
    for _ in range(12 if tier == 'quick' else 100):
        ops.append('reset')
        s = 10.0 ** rng.uniform(-6, 8)
        n = rng.randint(2, 10)
        tris = []
        for _ in range(n):
            c = [rng.uniform(-1, 1) * s for _ in range(3)]
            tris.append([[c[k] + rng.uniform(-0.3, 0.3) * s for k in range(3)] for _ in range(3)])
        for t in tris:
            ops.append('tri %s' % fhs([c for v in t for c in v]))
        perm = list(range(n))
        rng.shuffle(perm)
        ops.append('wallbuild 3 %s' % ' '.join(str(i) for i in perm))
        for _ in range(4):
            x = [rng.uniform(-1.5, 1.5) * s for _ in range(3)]
            ops.append('nearest3 %s %s' % (fhs(x), fh(REF_DBL_MAX)))
            for t in tris:
                ops.append('d3 %s %s' % (fhs([c for v in t for c in v]), fhs(x)))
    return ops


class ScaleOracle:
    """accuracy of every d3 evaluation (1e-12 L) + nearest3 == min of the d3 values of the same session.
    Failures explained by the known projection defect carry its site id; if a run also shows an unexplained
    failure only the unexplained ones are returned (also while shrinking), so the known finding cannot mask it."""

    def __init__(self):
        self.strict = None

    def __call__(self, ops, impl):
        unexplained, explained = [], []
        tris = []          # hex words of the session's triangles
        inserted = None    # set of triangle word tuples in the tree
        pending = None     # [index, value hex, x words, {tri words: d3 hex}]

        def close():
            nonlocal pending
            if pending is not None and inserted and set(pending[3]) >= inserted:
                m = min((pending[3][t] for t in inserted), key=hf)
                if hf(m) != hf(pending[1]):
                    unexplained.append((pending[0], 'nearest3 returned %s but the minimum of the kernel values of '
                                        'the inserted triangles is %s' % (pending[1], m)))
            pending = None

        for i, (o, r) in enumerate(zip(ops, impl)):
            w = o.split()
            if w[0] == 'd3' and pending is not None and w[10:13] == pending[2] and r not in ('bad-op', 'failure', 'nan'):
                pending[3][tuple(w[1:10])] = r
            elif w[0] != 'd3' or pending is None or w[10:13] != pending[2]:
                close()
            if w[0] == 'reset':
                tris, inserted = [], None
            elif w[0] == 'tri' and r == 'ok':
                tris.append(tuple(w[1:10]))
            elif w[0] == 'wallbuild':
                inserted = None
                if r == 'ok' and w[1] == '3' and all(v.isdigit() and int(v) < len(tris) for v in w[2:]):
                    inserted = set(tris[int(v)] for v in w[2:])
            elif w[0] in ('create', 'insert'):
                inserted = None
            elif w[0] == 'nearest3' and r.startswith('ok') and len(w) == 5 and w[4] == fh(REF_DBL_MAX):
                pending = [i, r.split()[1], w[1:4], {}]
            if w[0] == 'd3' and r not in ('bad-op', 'failure'):
                f = _floats(w[1:])
                if f is None or len(f) != 12:
                    continue
                sc = Scaler(f)
                if not sc.ok:
                    continue
                if r == 'nan':
                    unexplained.append((i, 'd3 returned NaN on finite input'))
                    continue
                d = hf(r)
                P = [sc.p(f[3 * k:3 * k + 3]) for k in range(4)]
                t2 = tri_d2(P[0], P[1], P[2], P[3])
                if not within(d, t2, sc, tol_of(sc.L)):
                    exact = math.sqrt(float(t2)) / (1 << sc.k)
                    msg = 'd3 = %r but the exact distance is %r: off by %.3g = %.3g x 1e-12 L' % (
                        d, exact, abs(d - exact), abs(d - exact) / tol_of(sc.L))
                    if explained_by_projection_defect(f, r):
                        explained.append((i, msg, SITE_D3))
                    else:
                        unexplained.append((i, msg))
        close()
        if self.strict is None:
            self.strict = bool(unexplained)
        return unexplained if self.strict else unexplained + explained


TREE = Stream('search_tree', 'h_search', 'search', gen_tree, oracle=oracle_tree,
              nontrivial=lambda op, out: out not in ('ok', 'bad-op', 'ok 0'))
NEAREST = Stream('search_nearest', 'h_search', 'search', gen_nearest,
                 oracle=lambda ops, impl: oracle_nearest(ops, impl) + oracle_tree(ops, impl),
                 nontrivial=lambda op, out: out not in ('ok', 'bad-op'))
KERNEL = Stream('search_kernel', 'h_search', 'search', gen_kernel, oracle=oracle_kernel,
                nontrivial=lambda op, out: out not in ('bad-op',))
# the accuracy statement over all scales has no model side (kind='oracle'): its known failure can then never
# swallow a model-vs-C difference, which the twin stream search_scale_tie checks on the same distribution
SCALE = Stream('search_scale', 'h_search', 'search', gen_scale, oracle=ScaleOracle(), kind='oracle',
               nontrivial=lambda op, out: out not in ('ok', 'bad-op'))
SCALE_TIE = Stream('search_scale_tie', 'h_search', 'search', gen_scale,
                   nontrivial=lambda op, out: out not in ('ok', 'bad-op'))
