"""streams for the symmetric-matrix kernel (C16): harness h_matrix vs driver `matrix`.

Generators build M = R diag(l) R^T (random / axis-aligned / permutation / nearly aligned rotations,
l over 1e-12..1e12, condition <= 1e10, repeated and nearly repeated eigenvalues, 2-D embedded,
diagonal, singular, indefinite, small integers, zero, NaN/+-Inf entries).

Oracles state the property directly on the implementation's own outputs: exact residuals in
`fractions.Fraction`, reference spectra / matrix functions from an independent cyclic Jacobi
solver in 50-digit `decimal` arithmetic.  Tolerances are c * eps_eff * cond-scaled bounds where
eps_eff = eps + 1e-14/|M| in the main streams (the absolute convergence threshold of
ref_matrix_diag_m is part of the implementation) and eps_eff = eps in the strict stream.
"""
import math
import struct
import subprocess
from decimal import Decimal, getcontext
from fractions import Fraction

from .common import Stream, REFDRV

getcontext().prec = 50
EPS = 2.0 ** -52
SITE_ABS = 'ref_matrix_diag_m:absolute-1e-14-convergence-test'
SITE_UNDERFLOW = 'ref_matrix_diag_m:first-rotation-underflow'
D0 = Decimal(0)
D1 = Decimal(1)


# ----------------------------------------------------------------------------------------------
# encoding
# ----------------------------------------------------------------------------------------------
def hx(x):
    return struct.pack('>d', float(x)).hex()


def unhx(s):
    if s == 'nan':
        return float('nan')
    return struct.unpack('>d', bytes.fromhex(s))[0]


def line(op, *vals):
    return op + ' ' + ' '.join(hx(v) for v in vals)


def parse_out(s):
    w = s.split()
    if not w:
        return '', []
    if w[0] != 'ok':
        return w[0], []
    return 'ok', [unhx(t) for t in w[1:]]


def finite(xs):
    return all(math.isfinite(x) for x in xs)


# ----------------------------------------------------------------------------------------------
# small dense helpers (3x3 / 2x2 as lists of lists), generic over Fraction / Decimal / float
# ----------------------------------------------------------------------------------------------
def full(m):
    return [[m[0], m[1], m[2]], [m[1], m[3], m[4]], [m[2], m[4], m[5]]]


def full2(m):
    return [[m[0], m[1]], [m[1], m[2]]]


def mmul(a, b):
    n = len(a)
    return [[sum(a[i][k] * b[k][j] for k in range(n)) for j in range(n)] for i in range(n)]


def mT(a):
    n = len(a)
    return [[a[j][i] for j in range(n)] for i in range(n)]


def msub(a, b):
    n = len(a)
    return [[a[i][j] - b[i][j] for j in range(n)] for i in range(n)]


def ident(n, one=1, zero=0):
    return [[one if i == j else zero for j in range(n)] for i in range(n)]


def maxabs(a):
    return max(abs(x) for r in a for x in r)


def frac(a):
    return [[Fraction(x) for x in r] for r in a]


def dec(a):
    return [[Decimal(x) for x in r] for r in a]


def vecs_of(d, n=3):
    """columns = eigenvectors: V[i][k] = component i of vector k"""
    return [[d[n + n * k + i] for k in range(n)] for i in range(n)]


def recon(vals, V):
    n = len(vals)
    return [[sum(V[i][k] * vals[k] * V[j][k] for k in range(n)) for j in range(n)] for i in range(n)]


# ----------------------------------------------------------------------------------------------
# independent reference: cyclic Jacobi in 50-digit decimal arithmetic
# ----------------------------------------------------------------------------------------------
def jacobi(a):
    """a: symmetric n x n of Decimal -> (eigenvalues list, V columns) unsorted"""
    n = len(a)
    a = [r[:] for r in a]
    V = ident(n, D1, D0)
    scale = maxabs(a)
    if scale == 0:
        return [D0] * n, V
    tiny = scale * Decimal(10) ** -46
    for _ in range(80):
        off = max(abs(a[p][q]) for p in range(n) for q in range(p + 1, n))
        if off <= tiny:
            break
        for p in range(n):
            for q in range(p + 1, n):
                apq = a[p][q]
                if abs(apq) <= tiny * Decimal(10) ** -4:
                    continue
                theta = (a[q][q] - a[p][p]) / (2 * apq)
                t = D1 / (abs(theta) + (theta * theta + 1).sqrt())
                if theta < 0:
                    t = -t
                c = D1 / (t * t + 1).sqrt()
                s = t * c
                for k in range(n):
                    akp, akq = a[k][p], a[k][q]
                    a[k][p] = c * akp - s * akq
                    a[k][q] = s * akp + c * akq
                for k in range(n):
                    apk, aqk = a[p][k], a[q][k]
                    a[p][k] = c * apk - s * aqk
                    a[q][k] = s * apk + c * aqk
                for k in range(n):
                    vkp, vkq = V[k][p], V[k][q]
                    V[k][p] = c * vkp - s * vkq
                    V[k][q] = s * vkp + c * vkq
    return [a[i][i] for i in range(n)], V


_cache = {}


def spectrum(mkey, mat):
    """cached reference eigen system of a float matrix (list of lists)"""
    r = _cache.get(mkey)
    if r is None:
        if len(_cache) > 20000:
            _cache.clear()
        r = jacobi(dec(mat))
        _cache[mkey] = r
    return r


def fun_of(vals, V, f):
    return recon([f(x) for x in vals], V)


def dln(x):
    return x.ln()


def dexp(x):
    return x.exp()


class Info:
    """reference facts about one symmetric float matrix"""

    def __init__(self, m, n=3):
        self.m = m
        self.n = n
        self.mat = full(m) if n == 3 else full2(m)
        self.scale = max(abs(x) for x in m)
        vals, V = spectrum((n,) + tuple(m), self.mat)
        self.vals, self.V = vals, V
        self.lmin = float(min(vals))
        self.lmax = float(max(vals))
        self.amax = max(abs(self.lmin), abs(self.lmax))
        self.spd = self.lmin > 0
        self.cond = (self.lmax / self.lmin) if self.spd else float('inf')

    def eps_eff(self, strict=False):
        if strict or self.scale == 0:
            return EPS
        return EPS + 1.0e-14 / self.scale


# ----------------------------------------------------------------------------------------------
# oracle pieces; each returns a list of messages (empty = fine)
# ----------------------------------------------------------------------------------------------
C_ORTH = 64.0      # |V^T V - I|           <= C_ORTH  * eps
C_RECON = 256.0    # |V L V^T - M|         <= C_RECON * eps_eff * |M|
C_FUN = 4096.0     # matrix functions, inverse, intersect: c * eps_eff * cond-scaled
RATIOS = {}        # op -> worst observed residual / bound (for tuning and the evidence text)


def note(op, ratio):
    if ratio > RATIOS.get(op, 0.0):
        RATIOS[op] = ratio


def chk(op, what, resid, bound, out):
    resid = float(resid)
    if bound > 0:
        note(op + ':' + what, resid / bound)
    if not (resid <= bound):
        out.append('%s: %s residual %.3e > bound %.3e' % (op, what, resid, bound))


def check_eigsys(op, info, d, strict, out):
    n = info.n
    vals = d[:n]
    V = vecs_of(d, n)
    Vf = frac(V)
    orth = maxabs(msub(mmul(mT(Vf), Vf), ident(n, Fraction(1), Fraction(0))))
    chk(op, 'orthonormality', orth, C_ORTH * EPS, out)
    rec = maxabs(msub(recon([Fraction(x) for x in vals], Vf), frac(info.mat)))
    chk(op, 'reconstruction', rec, C_RECON * info.eps_eff(strict) * info.scale, out)
    ref = sorted(float(x) for x in info.vals)
    got = sorted(vals)
    ev = max(abs(a - b) for a, b in zip(ref, got))
    chk(op, 'eigenvalues', ev, C_RECON * info.eps_eff(strict) * info.scale, out)


def o_diag_m(op, args, st, outv, strict=False):
    out = []
    n = 3 if op == 'diag_m' else 2
    m = args
    if not finite(m):
        if st != 'invalid':
            out.append('%s: non-finite input not rejected (status %s)' % (op, st))
        return out
    if max(abs(x) for x in m) > 1e100:
        return out
    if st != 'ok':
        out.append('%s: no decomposition returned for a finite matrix (status %s)' % (op, st))
        return out
    if not finite(outv):
        out.append('%s: non-finite output for a finite matrix' % op)
        return out
    check_eigsys(op, Info(m, n), outv, strict, out)
    return out


def sym_from(outv):
    return full(outv[:6])


def o_fun(op, args, st, outv):
    """log_m / exp_m / sqrt_m / inv_m / det_m / jacob_m / healthy_m on one matrix"""
    out = []
    m = args
    if not finite(m):
        if op in ('det_m',):
            return out   # ref_matrix_det_gen has no finite check (returns 0.0): not part of the claim
        if st == 'ok':
            out.append('%s: non-finite input not rejected' % op)
        return out
    info = Info(m)
    if info.scale > 1e100:
        return out
    ee = info.eps_eff()
    good = info.spd and info.cond <= 1e11 and info.lmin > 1e-38   # sqrt_m's own guard: sqrt(l)*1e20 > 1
    if op == 'healthy_m':
        margin = C_RECON * ee * info.scale
        if info.lmin > margin and st != 'ok':
            out.append('healthy_m: SPD matrix reported %s' % st)
        if info.lmin < -margin - 1e-15 and st == 'ok':
            out.append('healthy_m: matrix with eigenvalue %.3e reported ok' % info.lmin)
        return out
    if op == 'inv_m':
        small = abs(min(info.vals, key=abs))
        if info.amax == 0 or small == 0:
            return out
        c = info.amax / float(small)
        # ref_matrix_inv_gen tests its elimination guards against the already normalised pivot (1.0):
        # entries >= 1e20 (or eigenvalues <= 1e-20) give DIV_ZERO whatever the conditioning
        # (outside the metric range 1e-12..1e12; tie only)
        if c > 1e11 or info.scale >= 1e19 or float(small) <= 1e-18:
            return out
        if st != 'ok':
            out.append('inv_m: well conditioned matrix (cond %.2e) not inverted: %s' % (c, st))
            return out
        ref = fun_of(info.vals, info.V, lambda x: D1 / x)
        chk(op, 'inv-ref', maxabs(msub(dec(sym_from(outv)), ref)), C_FUN * EPS * c * float(maxabs(ref)), out)
        r = maxabs(msub(mmul(frac(info.mat), frac(sym_from(outv))), ident(3, Fraction(1), Fraction(0))))
        chk(op, 'M*inv-I', r, C_FUN * EPS * c * max(1.0, info.scale * float(maxabs(ref))), out)
        return out
    if op == 'det_m':
        if not good:
            return out
        a = frac(info.mat)
        det = (a[0][0] * (a[1][1] * a[2][2] - a[1][2] * a[2][1]) - a[0][1] * (a[1][0] * a[2][2] - a[1][2] * a[2][0])
               + a[0][2] * (a[1][0] * a[2][1] - a[1][1] * a[2][0]))
        chk(op, 'det', abs(Fraction(outv[0]) - det), C_FUN * EPS * info.cond * float(abs(det)), out)
        return out
    if not good:
        return out   # indefinite / singular / ill-conditioned beyond 1e10: tie only
    if st != 'ok':
        out.append('%s: SPD matrix (cond %.2e) rejected with %s' % (op, info.cond, st))
        return out
    if not finite(outv):
        out.append('%s: non-finite output on SPD input' % op)
        return out
    if op == 'log_m':
        lg = max(abs(math.log(info.lmin)), abs(math.log(info.lmax)), 1.0)
        ref = fun_of(info.vals, info.V, dln)
        chk(op, 'log-ref', maxabs(msub(dec(sym_from(outv)), ref)), C_FUN * ee * info.cond * lg, out)
        vals, V = jacobi(dec(sym_from(outv)))
        back = fun_of(vals, V, dexp)
        chk(op, 'exp(log M)-M', maxabs(msub(back, dec(info.mat))), C_FUN * ee * lg * info.scale, out)
    elif op == 'sqrt_m':
        s, i = frac(sym_from(outv)), frac(full(outv[6:12]))
        chk(op, 'S*S-M', maxabs(msub(mmul(s, s), frac(info.mat))), C_RECON * ee * info.scale, out)
        chk(op, 'S*IS-I', maxabs(msub(mmul(s, i), ident(3, Fraction(1), Fraction(0)))),
            C_FUN * ee * math.sqrt(info.cond), out)
    elif op == 'jacob_m':
        # j[i+3k] = sqrt(l_k) v_k[i]  =>  sum_k j[i+3k] j[i'+3k] = M
        J = [[Fraction(outv[i + 3 * k]) for k in range(3)] for i in range(3)]
        chk(op, 'J*J^T-M', maxabs(msub(mmul(J, mT(J)), frac(info.mat))), C_RECON * ee * info.scale, out)
    return out


def o_exp(op, args, st, outv):
    out = []
    m = args
    if not finite(m):
        if st == 'ok':
            out.append('exp_m: non-finite input not rejected')
        return out
    info = Info(m)
    if info.amax > 40:
        return out
    if st != 'ok' or not finite(outv):
        out.append('exp_m: status %s / non-finite output on a moderate matrix' % st)
        return out
    ref = fun_of(info.vals, info.V, dexp)
    big = math.exp(info.lmax)
    ee = info.eps_eff()
    chk(op, 'exp-ref', maxabs(msub(dec(sym_from(outv)), ref)), C_FUN * ee * (1 + info.amax) * big, out)
    spread = math.exp(info.lmax - info.lmin)
    if spread <= 1e11:
        vals, V = jacobi(dec(sym_from(outv)))
        if min(vals) > 0:
            back = fun_of(vals, V, dln)
            chk(op, 'log(exp M)-M', maxabs(msub(back, dec(info.mat))), C_FUN * ee * spread * (1 + info.amax), out)
        else:
            out.append('exp_m: result not positive definite')
    return out


def min_eig(a):
    vals, _ = jacobi(a)
    return float(min(vals))


def o_pair(op, args, st, outv):
    """intersect / bound"""
    out = []
    a, b = args[:6], args[6:]
    if not finite(a) or not finite(b):
        if st == 'ok':
            out.append('%s: non-finite input not rejected' % op)
        return out
    ia, ib = Info(a), Info(b)
    if ia.scale > 1e100 or ib.scale > 1e100:
        return out
    # exact singular first argument on the axes: the div_zero branch returns the second argument
    if ia.lmin == 0.0 and a[1] == 0 and a[2] == 0 and a[4] == 0 and ia.lmax >= 0:
        if st != 'ok' or [hx(x) for x in outv] != [hx(x) for x in b]:
            out.append('%s: singular diagonal first argument must return the second argument' % op)
        return out
    if not (ia.spd and ib.spd and ia.cond <= 1e11 and ib.cond <= 1e11):
        return out
    if st != 'ok' or not finite(outv):
        out.append('%s: SPD arguments rejected / non-finite result (%s)' % (op, st))
        return out
    c = dec(sym_from(outv))
    cs = max(abs(x) for x in outv)
    ee = ia.eps_eff() + ib.eps_eff()
    # relative spread of the pencil: errors of m2bar are amplified by cond(A)
    tol = C_FUN * ee * ia.cond * max(cs, ia.scale, ib.scale)
    sgn = 1 if op == 'intersect' else -1
    da = [[sgn * x for x in r] for r in msub(c, dec(ia.mat))]
    db = [[sgn * x for x in r] for r in msub(c, dec(ib.mat))]
    word = '>=' if sgn == 1 else '<='
    chk(op, 'Loewner %s first' % word, max(0.0, -min_eig(da)), tol, out)
    chk(op, 'Loewner %s second' % word, max(0.0, -min_eig(db)), tol, out)
    if op == 'intersect':
        # the exact result dominates both arguments, so its smallest eigenvalue is >= max(lmin(A), lmin(B));
        # strict positivity is required whenever the cond-scaled error bound is below that value
        me = min_eig(c)
        if tol < max(ia.lmin, ib.lmin):
            if not (me > 0):
                out.append('intersect: result is not positive definite')
        else:
            chk(op, 'positive semi-definite', max(0.0, -me), tol, out)
    else:
        # the dual bound is only claimed to be below both arguments; its small eigenvalues can be
        # lost to rounding amplified by cond(A), so positivity is required up to the same tolerance
        chk(op, 'positive semi-definite', max(0.0, -min_eig(c)), tol, out)
    if [hx(x) for x in a] == [hx(x) for x in b]:
        chk(op, 'idempotent', maxabs(msub(c, dec(ia.mat))), tol, out)
    # reference: A^{1/2} V clamp(mu) V^T A^{1/2} with (mu,V) the spectrum of A^{-1/2} B A^{-1/2}
    h = fun_of(ia.vals, ia.V, lambda x: x.sqrt())
    nh = fun_of(ia.vals, ia.V, lambda x: D1 / x.sqrt())
    bar = mmul(mmul(nh, dec(ib.mat)), nh)
    bar = [[(bar[i][j] + bar[j][i]) / 2 for j in range(3)] for i in range(3)]
    mu, W = jacobi(bar)
    clamp = (lambda x: max(D1, x)) if op == 'intersect' else (lambda x: min(D1, x))
    ref = mmul(mmul(h, fun_of(mu, W, clamp)), h)
    chk(op, 'reference', maxabs(msub(c, ref)), tol, out)
    return out


def o_exact(op, args, st, outv):
    """cheap closed forms: compare with exact rational evaluation, relative to the sum of |terms|"""
    out = []
    if not finite(args) or st != 'ok':
        return out
    F = [Fraction(x) for x in args]
    A = [abs(x) for x in F]

    def cmp(what, got, ref, mag, c=16.0):
        if not math.isfinite(got):
            if float(mag) < 1e300:
                out.append('%s: %s non-finite' % (op, what))
            return
        chk(op, what, abs(Fraction(got) - ref), c * EPS * float(mag) + 5e-324, out)

    if op == 'form_m':
        l, V = F[:3], vecs_of(F)
        la, Va = A[:3], vecs_of(A)
        ref = recon(l, V)
        mag = recon(la, Va)
        idx = [(0, 0), (0, 1), (0, 2), (1, 1), (1, 2), (2, 2)]
        for k, (i, j) in enumerate(idx):
            cmp('m[%d]' % k, outv[k], ref[i][j], mag[i][j])
    elif op == 'form_m2':
        l, V = F[:2], vecs_of(F, 2)
        la, Va = A[:2], vecs_of(A, 2)
        ref, mag = recon(l, V), recon(la, Va)
        for k, (i, j) in enumerate([(0, 0), (0, 1), (1, 1)]):
            cmp('m[%d]' % k, outv[k], ref[i][j], mag[i][j])
    elif op == 'det_m2':
        cmp('det', outv[0], F[0] * F[2] - F[1] * F[1], A[0] * A[2] + A[1] * A[1])
    elif op in ('vt_m_v', 'sqrt_vt_m_v'):
        M, v = full(F[:6]), F[6:9]
        Ma, va = full(A[:6]), A[6:9]
        q = sum(v[i] * M[i][j] * v[j] for i in range(3) for j in range(3))
        qa = sum(va[i] * Ma[i][j] * va[j] for i in range(3) for j in range(3))
        if op == 'vt_m_v':
            cmp('v^T M v', outv[0], q, qa)
        elif q > 0 and qa < 8 * q:
            if math.isfinite(outv[0]):
                chk(op, 'sqrt', abs(Fraction(outv[0]) ** 2 - q), 64 * EPS * float(qa), out)
    elif op == 'mult_m0m1m0':
        a, b = full(F[:6]), full(F[6:12])
        aa, ba = full(A[:6]), full(A[6:12])
        ref, mag = mmul(mmul(a, b), a), mmul(mmul(aa, ba), aa)
        for k, (i, j) in enumerate([(0, 0), (0, 1), (0, 2), (1, 1), (1, 2), (2, 2)]):
            cmp('m[%d]' % k, outv[k], ref[i][j], mag[i][j])
    elif op == 'weight_m':
        w = F[12]
        for k in range(6):
            cmp('m[%d]' % k, outv[k], (1 - w) * F[k] + w * F[6 + k], (1 + abs(w)) * A[k] + abs(w) * A[6 + k])
    return out


def o_descending(op, args, st, outv):
    out = []
    if st != 'ok':
        if op == 'descending_eig' or finite(args):
            out.append('%s: status %s' % (op, st))
        return out
    cols_in = sorted((hx(args[k]),) + tuple(hx(args[3 + 3 * k + i]) for i in range(3)) for k in range(3))
    cols_out = sorted((hx(outv[k]),) + tuple(hx(outv[3 + 3 * k + i]) for i in range(3)) for k in range(3))
    if cols_in != cols_out:
        out.append('%s: output is not a permutation of the (value, vector) pairs' % op)
        return out
    if not finite(args):
        return out
    if op == 'descending_eig':
        if not (outv[0] >= outv[1] >= outv[2]):
            out.append('descending_eig: eigenvalues not in descending order')
    else:
        zs = [abs(args[3 + 3 * k + 2]) for k in range(3)]
        if abs(outv[3 + 3 * 2 + 2]) != max(zs):
            out.append('descending_eig_twod: last vector is not the one closest to z')
        if not (outv[0] >= outv[1]):
            out.append('descending_eig_twod: first two eigenvalues not descending')
    return out


def run_model_lines(lines):
    try:
        p = subprocess.run([REFDRV, 'matrix'], input='\n'.join(lines) + '\n', capture_output=True, text=True, timeout=30)
        return p.stdout.splitlines() if p.returncode == 0 else []
    except Exception:
        return []


def model_agrees(op_line, impl_line):
    r = run_model_lines([op_line])
    return len(r) == 1 and r[0].strip() == impl_line.strip()


def explained_by_abs_threshold(op, args, op_line, impl_line):
    """the C output equals the Float model's bit for bit, and the same model run on the matrix scaled
    by an exact power of two (scale ~ 2^60, where the absolute 1e-14 test is harmless) meets the strict
    bound: then the strict failure is the modelled absolute threshold and nothing else"""
    scale = max(abs(x) for x in args)
    if not (0 < scale < 1.0):
        return False
    k = 60 - math.frexp(scale)[1]
    big = [math.ldexp(x, k) for x in args]
    r = run_model_lines([op_line, line(op, *big)])
    if len(r) != 2 or r[0].strip() != impl_line.strip():
        return False
    st, outv = parse_out(r[1])
    return not o_diag_m(op, big, st, outv, True)


def make_oracle(strict=False):
    def oracle(ops, impl):
        bad = []
        for i, (o, r) in enumerate(zip(ops, impl)):
            w = o.split()
            op = w[0]
            try:
                args = [unhx(t) for t in w[1:]]
            except Exception:
                continue
            st, outv = parse_out(r)
            if op in ('diag_m', 'diag_m2'):
                msgs = o_diag_m(op, args, st, outv, strict)
                if msgs and strict and finite(args) and st == 'ok' \
                        and not o_diag_m(op, args, st, outv, False) and explained_by_abs_threshold(op, args, o, r):
                    # relaxed bound (eps + 1e-14/|M|) holds, model = C bit for bit, rescaled model run is accurate
                    bad.extend((i, m, SITE_ABS) for m in msgs)
                    continue
                if msgs and op == 'diag_m' and finite(args) and st == 'ok' and \
                        0 < args[1] * args[1] + args[2] * args[2] < 1e-290 and model_agrees(o, r):
                    # explained by the modelled first rotation: m12^2 + m13^2 is (nearly) subnormal
                    bad.extend((i, m, SITE_UNDERFLOW) for m in msgs)
                    continue
            elif op in ('log_m', 'sqrt_m', 'inv_m', 'det_m', 'jacob_m', 'healthy_m'):
                msgs = o_fun(op, args, st, outv)
            elif op == 'exp_m':
                msgs = o_exp(op, args, st, outv)
            elif op in ('intersect', 'bound'):
                msgs = o_pair(op, args, st, outv)
            elif op in ('form_m', 'form_m2', 'det_m2', 'vt_m_v', 'sqrt_vt_m_v', 'mult_m0m1m0', 'weight_m'):
                msgs = o_exact(op, args, st, outv)
            elif op in ('descending_eig', 'descending_eig_twod'):
                msgs = o_descending(op, args, st, outv)
            else:
                msgs = []
            bad.extend((i, m) for m in msgs)
        return bad
    return oracle


# ----------------------------------------------------------------------------------------------
# generators
# ----------------------------------------------------------------------------------------------
def rot_quat(rng):
    while True:
        q = [rng.gauss(0, 1) for _ in range(4)]
        n = math.sqrt(sum(t * t for t in q))
        if n > 1e-3:
            break
    w, x, y, z = [t / n for t in q]
    return [[1 - 2 * (y * y + z * z), 2 * (x * y - z * w), 2 * (x * z + y * w)],
            [2 * (x * y + z * w), 1 - 2 * (x * x + z * z), 2 * (y * z - x * w)],
            [2 * (x * z - y * w), 2 * (y * z + x * w), 1 - 2 * (x * x + y * y)]]


def rot_axis(axis, ang):
    c, s = math.cos(ang), math.sin(ang)
    i, j = [(1, 2), (0, 2), (0, 1)][axis]
    R = [[1.0 if a == b else 0.0 for b in range(3)] for a in range(3)]
    R[i][i], R[i][j], R[j][i], R[j][j] = c, -s, s, c
    return R


def rot_perm(rng):
    p = [0, 1, 2]
    rng.shuffle(p)
    R = [[0.0] * 3 for _ in range(3)]
    for i in range(3):
        R[i][p[i]] = rng.choice([1.0, -1.0])
    return R


def rotation(rng):
    k = rng.random()
    if k < 0.5:
        return rot_quat(rng)
    if k < 0.6:
        return [[1.0 if a == b else 0.0 for b in range(3)] for a in range(3)]
    if k < 0.7:
        return rot_perm(rng)
    if k < 0.85:
        return rot_axis(rng.randrange(3), rng.uniform(-math.pi, math.pi))
    # nearly aligned: a tiny rotation (times a permutation half of the time)
    R = rot_axis(rng.randrange(3), rng.choice([1, -1]) * 10 ** rng.uniform(-9, -2))
    if rng.random() < 0.5:
        P = rot_perm(rng)
        R = [[sum(R[i][k] * P[k][j] for k in range(3)) for j in range(3)] for i in range(3)]
    return R


def spectrum_pd(rng, lo=-12.0, hi=12.0, maxcond=10.0):
    """three positive eigenvalues in [10^lo, 10^hi], condition <= 10^maxcond"""
    cond = 10 ** rng.uniform(0, maxcond) if rng.random() < 0.8 else rng.choice([1.0, 10.0, 1e5, 10 ** maxcond])
    emax = rng.uniform(lo + math.log10(cond), hi) if lo + math.log10(cond) < hi else hi
    lmax = 10 ** emax
    lmin = lmax / cond
    k = rng.random()
    if k < 0.45:
        mid = math.exp(rng.uniform(math.log(lmin), math.log(lmax)))
    elif k < 0.55:
        mid = lmax                                   # repeated top pair
    elif k < 0.65:
        mid = lmin                                   # repeated bottom pair
    elif k < 0.8:
        mid = lmax * (1 - 10 ** rng.uniform(-15.5, -5))   # nearly repeated
    elif k < 0.95:
        mid = lmin * (1 + 10 ** rng.uniform(-15.5, -5))
    else:
        lmin = mid = lmax                            # triple
    l = [lmax, mid, lmin]
    rng.shuffle(l)
    return l


def build(R, l):
    M = [[sum(R[i][k] * l[k] * R[j][k] for k in range(3)) for j in range(3)] for i in range(3)]
    return [M[0][0], M[0][1], M[0][2], M[1][1], M[1][2], M[2][2]]


def spd(rng, lo=-12.0, hi=12.0, maxcond=10.0):
    return build(rotation(rng), spectrum_pd(rng, lo, hi, maxcond))


def twod(rng):
    l = spectrum_pd(rng)[:2]
    a = rng.uniform(-math.pi, math.pi) if rng.random() < 0.8 else rng.choice([0.0, math.pi / 2, 1e-9])
    c, s = math.cos(a), math.sin(a)
    m2 = [c * c * l[0] + s * s * l[1], c * s * (l[0] - l[1]), s * s * l[0] + c * c * l[1]]
    return m2


SPECIAL = [float('nan'), float('inf'), float('-inf')]


def nonfinite(rng, m):
    m = list(m)
    for _ in range(rng.choice([1, 1, 1, 2, len(m)])):
        m[rng.randrange(len(m))] = rng.choice(SPECIAL)
    return m


def odd_matrix(rng):
    """matrices outside the SPD family: tie only for most ops"""
    k = rng.random()
    if k < 0.12:
        return [0.0] * 6
    if k < 0.3:
        return [float(rng.randint(-3, 3)) for _ in range(6)]
    if k < 0.45:                                                      # singular, axis aligned
        l = [0.0, 10 ** rng.uniform(-6, 6), 10 ** rng.uniform(-6, 6)]
        rng.shuffle(l)
        return [l[0], 0.0, 0.0, l[1], 0.0, l[2]]
    if k < 0.55:                                                      # singular, rotated
        return build(rot_quat(rng), [0.0, 10 ** rng.uniform(-3, 3), 10 ** rng.uniform(-3, 3)])
    if k < 0.75:                                                      # indefinite
        return build(rotation(rng), [rng.choice([1, -1]) * 10 ** rng.uniform(-6, 6) for _ in range(3)])
    if k < 0.85:                                                      # tiny / zero off-diagonals
        m = spd(rng, -3, 3, 3)
        for j in (1, 2, 4):
            r = rng.random()
            if r < 0.3:
                m[j] = 0.0
            elif r < 0.6:
                m[j] = rng.choice([1, -1]) * 10 ** rng.uniform(-140, -20)
        return m
    if k < 0.93:                                                      # far outside the metric range, still < 1e100
        s = 10 ** rng.uniform(-90, 90)
        return [x * s for x in spd(rng, -3, 3, 6)]
    return [rng.uniform(-1, 1) * 10 ** rng.uniform(-3, 3) for _ in range(6)]


def rand_vec(rng):
    k = rng.random()
    if k < 0.7:
        return [rng.gauss(0, 1) * 10 ** rng.uniform(-3, 3) for _ in range(3)]
    if k < 0.85:
        v = [0.0, 0.0, 0.0]
        v[rng.randrange(3)] = rng.choice([1.0, -1.0])
        return v
    return [float(rng.randint(-2, 2)) for _ in range(3)]


def eig_system(rng):
    """a 12-vector for form_m / descending_eig: orthonormal-ish vectors, values with ties"""
    R = rotation(rng)
    k = rng.random()
    if k < 0.6:
        l = spectrum_pd(rng)
    elif k < 0.8:
        l = [float(rng.randint(-2, 2)) for _ in range(3)]
    else:
        l = [rng.gauss(0, 1) for _ in range(3)]
    if rng.random() < 0.05:
        l[rng.randrange(3)] = rng.choice(SPECIAL)
    return l + [R[i][k] for k in range(3) for i in range(3)]


ONE_OPS = ['diag_m', 'log_m', 'sqrt_m', 'inv_m', 'det_m', 'jacob_m', 'healthy_m']


def ops_for(rng, m, out, p=0.7):
    for op in ONE_OPS:
        if rng.random() < p:
            out.append(line(op, *m))


def gen_main(rng, tier):
    n = 1200 if tier == 'quick' else 6000
    ops = []
    # finite entries whose squares / sums overflow (>= ~1e154): the small-sub-diagonal search of ref_matrix_diag_m then
    # sees NaN differences and falls through; since the repair in /repo it returns REF_FAILURE there (before: an
    # out-of-bounds store e[3], UBSan abort).  The model must agree op for op; a sanitizer abort is a violation.
    for _ in range(12 if tier == 'quick' else 60):
        mag = 10.0 ** rng.uniform(150.0, 308.0)
        base = spd(rng, -1, 1, 2)
        m = [x * mag if rng.random() < 0.7 else x for x in base]
        m = [x if x == x and abs(x) != float('inf') else 1.0e308 for x in m]
        ops.append(line('diag_m', *m))
    for _ in range(n):
        k = rng.random()
        if k < 0.62:
            m = spd(rng)
        elif k < 0.72:
            m2 = twod(rng)
            m = [m2[0], m2[1], 0.0, m2[2], 0.0, 1.0]
            ops.append(line('diag_m2', *m2))
            ops.append(line('det_m2', *m2))
            ops.append(line('twod_m', *spd(rng)))
        elif k < 0.92:
            m = odd_matrix(rng)
        else:
            m = nonfinite(rng, spd(rng, -3, 3, 3))
        ops_for(rng, m, ops)
        if rng.random() < 0.5:
            ops.append(line(rng.choice(['vt_m_v', 'sqrt_vt_m_v', 'vt_m_v_deriv', 'sqrt_vt_m_v_deriv']), *(m + rand_vec(rng))))
        if rng.random() < 0.5:
            # a symmetric matrix with moderate spectrum for exp_m (logs of metrics live in [-28, 28])
            lo = rng.uniform(-27.6, 4.0)
            l = [lo + rng.uniform(0, 23.0) for _ in range(3)]
            if rng.random() < 0.3:
                l[1] = l[0]
            if rng.random() < 0.1:
                l = [x * rng.choice([1e-3, 1e-8, 0.0]) for x in l]
            e = build(rotation(rng), l)
            if rng.random() < 0.05:
                e = nonfinite(rng, e)
            ops.append(line('exp_m', *e))
        if rng.random() < 0.3:
            d = eig_system(rng)
            ops.append(line(rng.choice(['form_m', 'descending_eig', 'descending_eig_twod']), *d))
            if rng.random() < 0.3:
                ops.append(line('form_m2', *(d[:2] + [d[3], d[4], d[6], d[7]])))
        if rng.random() < 0.25:
            a = [rng.gauss(0, 1) * 10 ** rng.uniform(-2, 2) for _ in range(9)]
            if rng.random() < 0.3:
                a = [float(rng.randint(-2, 2)) for _ in range(9)]
            ops.append(line(rng.choice(['inv_gen3', 'det_gen3']), *a))
        if rng.random() < 0.15:
            ops.append(line('weight_m', *(m + spd(rng) + [rng.choice([0.0, 1.0, 0.5, rng.random(), rng.uniform(-1, 2)])])))
        if rng.random() < 0.15:
            ops.append(line(rng.choice(['mult_m0m1m0', 'mult_m']), *(m + spd(rng, -3, 3, 6))))
    ops.append('diag_m 0 1 2')          # malformed: wrong arity / not hex
    ops.append('frobnicate')
    return ops


def gen_pair(rng, tier):
    """intersect / bound: same matrix, scaled copies, commuting pairs, general pairs, degenerate first argument"""
    n = 500 if tier == 'quick' else 2500
    ops = []
    for _ in range(n):
        k = rng.random()
        a = spd(rng)
        if k < 0.12:
            b = list(a)
        elif k < 0.24:
            s = 10 ** rng.uniform(-3, 3)
            b = [x * s for x in a]
        elif k < 0.40:                                 # commuting: same rotation
            R = rotation(rng)
            la = spectrum_pd(rng, -6, 6, 8)
            lb = [x * 10 ** rng.uniform(-2, 2) for x in la]
            a, b = build(R, la), build(R, lb)
        elif k < 0.80:                                 # general, comparable scales
            e = rng.uniform(-9, 9)
            a = spd(rng, e - 3, e + 3, 6)
            b = spd(rng, e - 3, e + 3, 6)
        elif k < 0.88:                                 # general, any scales
            b = spd(rng)
        elif k < 0.94:
            a = odd_matrix(rng)
            b = spd(rng, -3, 3, 3) if rng.random() < 0.7 else odd_matrix(rng)
        else:
            b = spd(rng, -3, 3, 3)
            if rng.random() < 0.5:
                a = nonfinite(rng, a)
            else:
                b = nonfinite(rng, b)
        for op in ('intersect', 'bound'):
            if rng.random() < 0.8:
                ops.append(line(op, *(a + b)))
        if rng.random() < 0.2:
            ops.append(line('intersect', *(b + a)))
    return ops


def gen_strict(rng, tier):
    """exactly the family of the property text: l in 1e-12..1e12, cond <= 1e10; diag_m / diag_m2 only"""
    n = 400 if tier == 'quick' else 3000
    ops = []
    for _ in range(n):
        if rng.random() < 0.85:
            ops.append(line('diag_m', *spd(rng)))
        else:
            ops.append(line('diag_m2', *twod(rng)))
    return ops


def gen_underflow(rng, tier):
    """off-diagonals whose squares are subnormal: L = sqrt(m12^2 + m13^2) loses precision in the first rotation"""
    n = 40 if tier == 'quick' else 400
    ops = []
    for _ in range(n):
        m = spd(rng, -3, 3, 3)
        e = rng.uniform(-161.5, -154)
        m[1] = rng.choice([1, -1]) * 10 ** (e + rng.uniform(-0.5, 0))
        m[2] = rng.choice([1, -1]) * 10 ** (e + rng.uniform(-0.5, 0)) if rng.random() < 0.8 else 0.0
        ops.append(line('diag_m', *m))
    return ops


def nontrivial(op, out):
    return out.startswith('ok ') or out in ('failure', 'div_zero', 'invalid')


MAIN = Stream('matrix_main', 'h_matrix', 'matrix', gen_main, oracle=make_oracle(False), nontrivial=nontrivial)
PAIR = Stream('matrix_pair', 'h_matrix', 'matrix', gen_pair, oracle=make_oracle(False), nontrivial=nontrivial)
STRICT = Stream('matrix_strict', 'h_matrix', 'matrix', gen_strict, oracle=make_oracle(True), nontrivial=nontrivial)
UNDERFLOW = Stream('matrix_underflow', 'h_matrix', 'matrix', gen_underflow, oracle=make_oracle(False), nontrivial=nontrivial)
