"""C03 streams of the `unit` package: harness/h_unit.c against `refdrv unit` (Refine.Model.Unit).

unit_fn     (diff)      the real ratio guards on generated edge / vertex stars with prescribed per-vertex metrics; the
                        band limits are placed relative to the ratio of one measured edge: exactly on it (decides
                        `<` against `<=`) and off by 1e-13 .. 1 on either side
unit_param  (validate)  white-box ref_adapt_parameter on small real grids (sessions, so that the dependence on the
                        previous split_ratio / last_*_ratio is exercised) + the quality guards' decisions
unit_run    (validate)  hooked real passes: selection, guard on the pre-state of every accepted op, band after it
"""
import math
import struct

from .common import Stream


def hx(d):
    return '%016x' % struct.unpack('<Q', struct.pack('<d', d))[0]


def unhx(s):
    return struct.unpack('<d', struct.pack('<Q', int(s, 16)))[0]


# ---------------------------------------------------------------- python replica of ref_node_ratio (geometric)
def vtmv(m, v):
    return (v[0] * (m[0] * v[0] + m[1] * v[1] + m[2] * v[2]) + v[1] * (m[1] * v[0] + m[3] * v[1] + m[4] * v[2]) +
            v[2] * (m[2] * v[0] + m[4] * v[1] + m[5] * v[2]))


def divisible(n, d):
    return abs(1e20 * d) > abs(n)


def ratio(v0, v1):
    d = [v1[0][k] - v0[0][k] for k in range(3)]
    length = math.sqrt(d[0] * d[0] + d[1] * d[1] + d[2] * d[2])
    if not (divisible(d[0], length) and divisible(d[1], length) and divisible(d[2], length)):
        return 0.0
    r0 = math.sqrt(vtmv(v0[1], d))
    r1 = math.sqrt(vtmv(v1[1], d))
    if r0 < 1e-12 or r1 < 1e-12:
        return min(r0, r1)
    rmin, rmax = min(r0, r1), max(r0, r1)
    r = rmin / rmax
    if abs(r - 1.0) < 1e-12:
        return 0.5 * (r0 + r1)
    return rmin * (r - 1.0) / (r * math.log(r))


# ---------------------------------------------------------------- configurations
def spd(rng, h, aniso, planar):
    """metric with sizes h..h*aniso, rotated about z (and x in 3-D)"""
    hx_, hy_, hz_ = h, h * rng.uniform(1, aniso), h * rng.uniform(1, aniso)
    th = rng.uniform(0, math.pi)
    c, s = math.cos(th), math.sin(th)
    lx, ly, lz = 1 / hx_ ** 2, 1 / hy_ ** 2, 1 / hz_ ** 2
    if planar:
        return [c * c * lx + s * s * ly, c * s * (lx - ly), 0.0, s * s * lx + c * c * ly, 0.0, 1.0]
    return [c * c * lx + s * s * ly, c * s * (lx - ly), 0.0, s * s * lx + c * c * ly, 0.0, lz]


class Cfgen:
    def __init__(self, rng, planar):
        self.rng, self.planar, self.v, self.cells = rng, planar, [], []
        self.h = 10 ** rng.uniform(-1.5, 0.5)
        self.aniso = rng.choice([1.0, 1.0, 3.0, 10.0])
        self.grade = rng.choice([0.0, 0.3, 1.0])

    def node(self, x, y, z=0.0):
        h = self.h * math.exp(self.grade * self.rng.uniform(-1, 1))
        self.v.append(((x, y, 0.0 if self.planar else z), spd(self.rng, h, self.aniso, self.planar)))
        return len(self.v) - 1

    def line(self, op, n0, n1, nw, pmin, pmax):
        w = [op, str(n0), str(n1), str(nw), hx(pmin), hx(pmax), str(len(self.v))]
        for p, m in self.v:
            w += [hx(x) for x in p] + [hx(x) for x in m]
        for c in self.cells:
            w += ['tri' if len(c) == 3 else 'tet'] + [str(x) for x in c]
        return ' '.join(w)


def tet_vol(a, b, c, d):
    m11 = (a[0] - d[0]) * ((b[1] - d[1]) * (c[2] - d[2]) - (c[1] - d[1]) * (b[2] - d[2]))
    m12 = (a[1] - d[1]) * ((b[0] - d[0]) * (c[2] - d[2]) - (c[0] - d[0]) * (b[2] - d[2]))
    m13 = (a[2] - d[2]) * ((b[0] - d[0]) * (c[1] - d[1]) - (c[0] - d[0]) * (b[1] - d[1]))
    return -(m11 - m12 + m13) / 6.0


def orient(g):
    """positive volume / counter-clockwise area for every cell (the quality kernels and the smoother need it)"""
    out = []
    for c in g.cells:
        p = [g.v[i][0] for i in c]
        if len(c) == 4 and tet_vol(*p) < 0:
            c = (c[1], c[0], c[2], c[3])
        if len(c) == 3 and g.planar and (p[1][0] - p[0][0]) * (p[2][1] - p[0][1]) - (p[2][0] - p[0][0]) * (p[1][1] - p[0][1]) < 0:
            c = (c[1], c[0], c[2])
        out.append(c)
    g.cells = out


def edge_star(rng, planar):
    """edge 0-1 with its cells; vertex 2.. ring; the last vertex is the split vertex"""
    g = Cfgen(rng, planar)
    a = g.node(0, 0, 0)
    b = g.node(1 + rng.uniform(-0.2, 0.2), rng.uniform(-0.1, 0.1), rng.uniform(-0.1, 0.1))
    if planar:
        k = rng.choice([1, 2, 2, 2])
        up = g.node(rng.uniform(0.2, 0.8), rng.uniform(0.3, 1.2))
        g.cells.append((a, b, up))
        if k == 2:
            dn = g.node(rng.uniform(0.2, 0.8), -rng.uniform(0.3, 1.2))
            g.cells.append((b, a, dn))
    else:
        k = rng.randint(3, 7)
        closed = rng.random() < 0.6
        ring = []
        for i in range(k):
            th = 2 * math.pi * i / k * (1.0 if closed else 0.6) + rng.uniform(-0.1, 0.1)
            r = rng.uniform(0.4, 1.1)
            ring.append(g.node(rng.uniform(0.3, 0.7), r * math.cos(th), r * math.sin(th)))
        for i in range(k if closed else k - 1):
            g.cells.append((a, b, ring[i], ring[(i + 1) % k]))
        if not closed and rng.random() < 0.5:
            g.cells.append((a, b, ring[0]))       # boundary triangles ride along (the guard looks at tets only)
            g.cells.append((b, a, ring[k - 1]))
    w = rng.uniform(0.05, 0.95)
    pa, pb = g.v[a][0], g.v[b][0]
    nw = g.node(*[(1 - w) * pa[i] + w * pb[i] for i in range(3)])
    orient(g)
    return g, a, b, nw


def vertex_star(rng, planar):
    """vertex 1 (to be removed / moved) with a closed or open fan; vertex 0 = a neighbour (the survivor)"""
    g = Cfgen(rng, planar)
    n0 = g.node(1 + rng.uniform(-0.3, 0.3), rng.uniform(-0.1, 0.1), rng.uniform(-0.1, 0.1))
    n1 = g.node(rng.uniform(-0.1, 0.1), rng.uniform(-0.1, 0.1), rng.uniform(-0.1, 0.1))
    k = rng.randint(4, 8)
    closed = rng.random() < 0.7
    ring = [n0]
    for i in range(1, k):
        th = 2 * math.pi * i / k * (1.0 if closed else 0.55) + rng.uniform(-0.15, 0.15)
        r = rng.uniform(0.5, 1.6)
        ring.append(g.node(r * math.cos(th), r * math.sin(th), rng.uniform(-0.1, 0.1)))
    last = k if closed else k - 1
    if planar:
        for i in range(last):
            g.cells.append((n1, ring[i], ring[(i + 1) % k]))
    else:
        top = g.node(rng.uniform(-0.2, 0.2), rng.uniform(-0.2, 0.2), rng.uniform(0.5, 1.3))
        bot = g.node(rng.uniform(-0.2, 0.2), rng.uniform(-0.2, 0.2), -rng.uniform(0.5, 1.3))
        for i in range(last):
            g.cells.append((n1, ring[i], ring[(i + 1) % k], top))
            if rng.random() < 0.8:
                g.cells.append((n1, ring[(i + 1) % k], ring[i], bot))
    orient(g)
    return g, n0, n1


def place(rng, r):
    """a band limit relative to the measured ratio r: exactly on it, or off by 1e-13..1"""
    u = rng.random()
    if u < 0.25:
        return r
    d = 10 ** rng.uniform(-13, 0)
    return r * (1 + d) if rng.random() < 0.5 else r * (1 - d)


def main_cells(g):
    np_ = 4 if any(len(c) == 4 for c in g.cells) else 3
    return [c for c in g.cells if len(c) == np_]


def split_tested(g, n0, n1, nw):
    out = []
    for c in main_cells(g):
        if n0 in c and n1 in c:
            for old in (n0, n1):
                cc = [nw if x == old else x for x in c]
                out += [(nw, x) for x in cc if x != nw]
    return out


def collapse_lists(g, n0, n1):
    olds, news = [], []
    for c in main_cells(g):
        if n1 in c:
            olds += [(n1, x) for x in c if x != n1]
            if n0 not in c:
                news += [(n0, x) for x in c if x != n1]
    return olds, news


def band_for(rng, rs):
    """band limits around the measured ratios rs: one limit is placed on/near one of them"""
    if not rs:
        return 0.1, 10.0
    lo, hi = min(rs), max(rs)
    u = rng.random()
    if u < 0.4:
        return lo * rng.uniform(0.3, 0.9), place(rng, rng.choice(rs + [hi, hi]))
    if u < 0.8:
        return place(rng, rng.choice(rs + [lo, lo])), hi * rng.uniform(1.1, 3.0)
    return lo * rng.uniform(0.5, 1.5), hi * rng.uniform(0.7, 1.5)


def gen_fn(rng, tier):
    ops = []
    n = 400 if tier == 'quick' else 3000
    for _ in range(n):
        planar = rng.random() < 0.5
        kind = rng.choice(['split', 'split', 'collapse', 'collapse', 'around', 'swap', 'ratio', 'selsplit'])
        if kind == 'split':
            g, a, b, nw = edge_star(rng, planar)
            rs = [ratio(g.v[p], g.v[q]) for p, q in split_tested(g, a, b, nw)]
            pmin, pmax = band_for(rng, rs)
            ops.append(g.line('split', a, b, nw, pmin, pmax))
        elif kind == 'collapse':
            g, n0, n1 = vertex_star(rng, planar)
            olds, news = collapse_lists(g, n0, n1)
            rn = [ratio(g.v[p], g.v[q]) for p, q in news]
            ro = [ratio(g.v[p], g.v[q]) for p, q in olds]
            u = rng.random()
            if u < 0.5:
                pmin, pmax = band_for(rng, rn)
            elif u < 0.75:      # band refuses: the "not worse than before" clause decides
                pmin, pmax = (max(rn) * 2, max(rn) * 3) if rn else (1.0, 2.0)
            else:               # old extremes exactly at the new ones: node0 := a copy of node1's neighbour geometry
                pmin, pmax = band_for(rng, ro)
            ops.append(g.line('collapse', n0, n1, 0, pmin, pmax))
        elif kind == 'around':
            g, n0, n1 = vertex_star(rng, planar)
            ops.append(g.line('around', n1, n0, 0, 0.1, 10.0))
            if rng.random() < 0.1:
                iso = g.node(5, 5, 5)     # a vertex without cells: the C throws
                ops.append(g.line('around', iso, n0, 0, 0.1, 10.0))
        elif kind == 'swap':
            g, a, b, nw = edge_star(rng, True)
            if len(g.cells) == 2:
                r = ratio(g.v[2], g.v[3])
                if rng.random() < 0.5:
                    pmin, pmax = r * rng.uniform(0.2, 0.9), place(rng, r)
                else:
                    pmin, pmax = place(rng, r), r * rng.uniform(1.1, 4)
                ops.append(g.line('swap', a, b, nw, pmin, pmax))
            else:
                ops.append(g.line('swap', a, b, nw, 0.1, 10.0))   # one triangle only: refused as bad-op on both sides
        elif kind == 'ratio':
            g, a, b, nw = edge_star(rng, planar)
            ops.append(g.line('ratio', rng.randrange(len(g.v)), rng.randrange(len(g.v)), 0, 0.1, 10.0))
        else:
            g, n0, n1 = vertex_star(rng, planar)
            cells = main_cells(g)
            es = sorted({(min(p, q), max(p, q)) for c in cells for p in c for q in c if p != q})
            rs = [ratio(g.v[p], g.v[q]) for p, q in es]
            ops.append(g.line('selsplit', n0, n1, 0, 0.1, place(rng, rng.choice(rs))))
    # malformed share
    g, a, b, nw = edge_star(rng, True)
    good = g.line('split', a, b, nw, 0.5, 2.0).split()
    ops.append(' '.join(good[:-1]))                       # truncated cell
    ops.append(' '.join(good[:6] + ['999'] + good[7:]))   # vertex count beyond the limit
    ops.append(' '.join(good[:1] + ['77'] + good[2:]))    # end point out of range
    ops.append(' '.join(good + ['tri', '0', '0', '1']))   # repeated vertex in a cell
    ops.append(' '.join(['frobnicate'] + good[1:]))
    ops.append('split 0 1')
    return ops


def parse_cfg(op):
    w = op.split()
    nn = int(w[6])
    v = []
    for i in range(nn):
        f = [unhx(x) for x in w[7 + 9 * i: 16 + 9 * i]]
        v.append((f[:3], f[3:]))
    cells, c = [], 7 + 9 * nn
    while c < len(w):
        np_ = 3 if w[c] == 'tri' else 4
        cells.append(tuple(int(x) for x in w[c + 1: c + 1 + np_]))
        c += 1 + np_
    g = type('G', (), {})()
    g.v, g.cells = v, cells
    return w[0], int(w[1]), int(w[2]), int(w[3]), unhx(w[4]), unhx(w[5]), g


def oracle_fn(ops, impl):
    """the guards stated directly: accepted <=> every measured edge inside the band (split), <=> inside the band or
    not worse than the old extremes (collapse), strict band (swap); ratios by the python replica of the formula"""
    bad = []
    for i, (op, line) in enumerate(zip(ops, impl)):
        if not line.startswith('ok'):
            continue
        try:
            kind, n0, n1, nw, pmin, pmax, g = parse_cfg(op)
        except Exception:
            continue
        out = line.split()
        if kind == 'split':
            rs = [ratio(g.v[p], g.v[q]) for p, q in split_tested(g, n0, n1, nw)]
            want = all(pmin <= r <= pmax for r in rs)
            if out[1] != ('1' if want else '0'):
                bad.append((i, 'C03 split ratio guard answers %s but the edges at the new vertex have ratios in [%.17g, %.17g] '
                               'and the band is [%.17g, %.17g]' % (out[1], min(rs), max(rs), pmin, pmax)))
        elif kind == 'collapse':
            olds, news = collapse_lists(g, n0, n1)
            rn = [ratio(g.v[p], g.v[q]) for p, q in news]
            ro = [ratio(g.v[p], g.v[q]) for p, q in olds]
            nmin, nmax = min(rn + [1.7976931348623157e308]), max(rn + [-1.0])
            omin, omax = min(ro + [1.7976931348623157e308]), max(ro + [-1.0])
            want = (nmin >= pmin and nmax <= pmax) or (nmin >= omin and nmax <= omax)
            if out[1] != ('1' if want else '0'):
                bad.append((i, 'C03 collapse ratio guard answers %s: new [%.17g, %.17g] old [%.17g, %.17g] band [%.17g, %.17g]'
                            % (out[1], nmin, nmax, omin, omax, pmin, pmax)))
        elif kind == 'swap':
            r = ratio(g.v[2], g.v[3])
            want = pmin < r < pmax
            if out[1] != ('1' if want else '0'):
                bad.append((i, 'C03 swap ratio guard answers %s for a new edge of ratio %.17g and band (%.17g, %.17g)'
                            % (out[1], r, pmin, pmax)))
        elif kind == 'selsplit':
            cells = main_cells(g)
            es = sorted({(min(p, q), max(p, q)) for c in cells for p in c for q in c if p != q})
            want = ['%d-%d' % e for e in es if ratio(g.v[e[0]], g.v[e[1]]) > pmax]
            if out[1:] != want:
                bad.append((i, 'C03 split pass tried the edges %s but the edges longer than split_ratio %.17g are %s'
                            % (out[1:], pmax, want)))
    return bad


FN = Stream('unit_fn', 'h_unit', 'unit', gen_fn, oracle=oracle_fn, whitebox=['ref_adapt', 'ref_collapse'], harness_args=('fn',),
            session='split', nontrivial=lambda op, out: out.startswith('ok'))


# ---------------------------------------------------------------- ref_adapt_parameter + quality decisions
def gen_param(rng, tier):
    ops = []
    nsess = 40 if tier == 'quick' else 300
    for s in range(nsess):
        dim = 3 if s % 3 else 2
        ops.append('reset %d' % dim)
        mixed = 1 if (dim == 3 and rng.random() < 0.2) else 0
        for _ in range(rng.randint(3, 8)):
            mode = rng.choice(['wide', 'conv', 'big', 'mid', 'fine'])
            if mode == 'wide':
                abc = [10 ** rng.uniform(-2, 2) for _ in range(3)]
            elif mode == 'conv':    # all ratios near one
                t = rng.uniform(0.5, 2.0) if dim == 3 else rng.uniform(2.0, 8.0)
                abc = [t * rng.uniform(0.8, 1.25) for _ in range(3)]
            elif mode == 'big':     # post_max > 4 with post_min > 0.4
                abc = [rng.uniform(16, 60) * (1 if dim == 3 else 4), rng.uniform(0.17, 0.5) * (1 if dim == 3 else 4),
                       rng.uniform(0.17, 0.5)]
                rng.shuffle(abc)
            elif mode == 'mid':     # 1.6 < post_max < 3.5
                t = rng.uniform(1.3, 6.0) * (1 if dim == 3 else 4)
                abc = [t * rng.uniform(0.7, 1.4) for _ in range(3)]
            else:                   # very fine or very coarse
                t = 10 ** rng.choice([-3, -2, 2, 3])
                abc = [t * rng.uniform(0.5, 2) for _ in range(3)]
            sp = rng.choice([1.0, 1.0, 1.3, 3.0])
            sc = [rng.uniform(1.0, sp) for _ in range(4)]
            ops.append('param %s %s %d %d' % (' '.join(hx(x) for x in sc), ' '.join(hx(x) for x in abc),
                                              rng.choice([0, 0, 49, 50, 80]), mixed))
            if rng.random() < 0.3:  # the same again: last_* equal -> the termination clauses
                ops.append(ops[-1])
    nq = 150 if tier == 'quick' else 1200
    ops.append('reset 3')
    for _ in range(nq):
        planar = rng.random() < 0.5
        if rng.random() < 0.5:
            g, a, b, nw = edge_star(rng, planar)
            ops.append(g.line('qsplit', a, b, nw, 10 ** rng.uniform(-3, -0.05), rng.choice([0.1, 0.5, 0.9, 1.0])))
        else:
            g, n0, n1 = vertex_star(rng, planar)
            ops.append(g.line('qcollapse', n0, n1, 0, 10 ** rng.uniform(-3, -0.05), 0.1))
    for _ in range(120 if tier == 'quick' else 1000):
        # the real interior smoother under a band placed around the present edge lengths at the vertex: with
        # post_max below them every one of its 8 tries must be refused
        g, n0, n1 = vertex_star(rng, False)
        rs = [ratio(g.v[n1], g.v[x]) for c in g.cells if n1 in c for x in c if x != n1]
        u = rng.random()
        if u < 0.4:
            pmin, pmax = min(rs) * 0.5, max(rs) * rng.choice([0.5, 0.9, 0.99, 1.0, 1.01])
        elif u < 0.7:
            pmin, pmax = min(rs) * rng.choice([0.99, 1.0, 1.01, 1.5]), max(rs) * 2
        else:
            pmin, pmax = min(rs) * 0.3, max(rs) * 3
        ops.append(g.line('qsmooth', n0, n1, 0, pmin, pmax))
    ops += ['param 0 0', 'bogus']
    return ops


def oracle_param(ops, impl):
    """relations every derived parameter set must satisfy (the statement of adaptParameter_band, on the C's values)"""
    bad = []
    for i, line in enumerate(impl):
        w = line.split()
        if not w or w[0] != 'P' or len(w) != 34:
            continue
        m = [unhx(x) for x in w[13:18]]
        a = [unhx(x) for x in w[21:32]]
        split, cr, cq, sq, pmin, pmax = a[0], a[3], a[4], a[5], a[7], a[8]
        if not (pmin <= cr < split):
            bad.append((i, 'C03 derived parameters out of order: post_min %.17g collapse %.17g split %.17g' % (pmin, cr, split)))
        if not (pmin <= m[0] and m[1] <= pmax):
            bad.append((i, 'C03 band [%.17g, %.17g] does not contain the measured ratios [%.17g, %.17g]' % (pmin, pmax, m[0], m[1])))
        if not (1e-3 <= cq <= 0.1 and cq == sq):
            bad.append((i, 'C03 quality floor %.17g / %.17g outside [1e-3, 0.1]' % (cq, sq)))
    return bad


PARAM = Stream('unit_param', 'h_unit', 'unit', gen_param, oracle=oracle_param, kind='validate', whitebox=['ref_adapt', 'ref_collapse'],
               harness_args=('param',), driver_args=('validate',), session='reset',
               nontrivial=lambda op, out: out.startswith('P') or out.startswith('Q'))
# (a qsmooth op prints two record lines, `QM MB ...` and `QM ME ...`)


# ---------------------------------------------------------------- hooked real passes
def gen_run(rng, tier):
    ops = []
    reps = 1 if tier == 'quick' else 4
    for _ in range(reps):
        ops.append('run 2 %d %d iso %s %s' % (rng.randrange(3, 6), rng.randrange(1, 99), hx(rng.uniform(0.12, 0.25)), 'aaa'))
        ops.append('run 2 %d %d iso %s %s' % (rng.randrange(6, 9), rng.randrange(1, 99), hx(rng.uniform(0.35, 0.6)), 'aa'))
        ops.append('run 2 %d %d aniso %s %s' % (rng.randrange(4, 7), rng.randrange(0, 99), hx(rng.uniform(0.08, 0.15)), 'aaa'))
        ops.append('run 2 %d %d %s %s %s' % (rng.randrange(5, 8), rng.randrange(1, 99), rng.choice(['bl', 'lin']),
                                             hx(rng.uniform(0.15, 0.3)), 'a' + ''.join(rng.choice('scwma') for _ in range(4))))
        ops.append('run 3 3 %d iso %s %s' % (rng.randrange(1, 99), hx(rng.uniform(0.25, 0.35)), 'aa'))
        ops.append('run 3 4 %d iso %s %s' % (rng.randrange(1, 99), hx(rng.uniform(0.6, 0.9)), 'aa'))
        ops.append('run 3 3 %d aniso %s %s' % (rng.randrange(0, 99), hx(rng.uniform(0.15, 0.25)), 'aa'))
        # every edge a little longer than collapse_ratio (axis edges 0.72..0.83): hardly any legitimate target
        ops.append('run 3 4 %d iso %s %s' % (rng.randrange(0, 99), hx(rng.uniform(0.40, 0.46)), 'ca'))
        ops.append('run 3 3 %d %s %s %s' % (rng.randrange(1, 99), rng.choice(['lin', 'bl']), hx(rng.uniform(0.2, 0.3)),
                                            'a' + ''.join(rng.choice('scma') for _ in range(3))))
    ops += ['run 4 3 1 iso %s a' % hx(0.3), 'run 2 3 1 iso 0 a', 'bogus']
    return ops


def oracle_run(ops, impl):
    """stated directly on the records: a split trial only on an edge longer than split_ratio; after an accepted split
    every edge at the new vertex is inside the band in force; a swapped-in edge strictly inside; every replaced
    cavity has its new edges inside"""
    bad = []
    for i, line in enumerate(impl):
        w = line.split()
        if not w:
            continue
        if w[0] == 'T':
            r, s = unhx(w[1]), unhx(w[2])
            if not r > s:
                bad.append((0, 'C03 record %d: split trial on an edge of ratio %.17g, split_ratio %.17g' % (i, r, s)))
        elif w[0] == 'SA':
            pmin, pmax = unhx(w[1]), unhx(w[2])
            rs = [unhx(x) for x in w[5:]]
            if any(r < pmin or r > pmax for r in rs):
                bad.append((0, 'C03 record %d: accepted split left an edge of ratio outside [%.17g, %.17g]: %s' % (i, pmin, pmax, rs)))
        elif w[0] == 'W':
            r, pmin, pmax = unhx(w[1]), unhx(w[2]), unhx(w[3])
            if not pmin < r < pmax:
                bad.append((0, 'C03 record %d: swap created an edge of ratio %.17g, band (%.17g, %.17g)' % (i, r, pmin, pmax)))
        elif w[0] == 'V':
            pmin, pmax = unhx(w[2]), unhx(w[3])
            rs = [unhx(x) for x in w[6:]]
            if any(r < pmin or r > pmax for r in rs):
                bad.append((0, 'C03 record %d: replaced cavity has a new edge outside [%.17g, %.17g]' % (i, pmin, pmax)))
        elif w[0] == 'ME' and w[2] == '1':
            pmin, pmax = unhx(w[5]), unhx(w[6])
            k = int(w[11])
            rs = [unhx(x) for x in w[12:12 + k]] + [unhx(x) for x in w[12 + k + 2:]]
            if any(r < pmin or r > pmax for r in rs):
                bad.append((0, 'C03 record %d: %s moved a vertex and left an incident edge outside [%.17g, %.17g]' % (i, w[1], pmin, pmax)))
    return bad[:20]


RUN = Stream('unit_run', 'h_unit', 'unit', gen_run, oracle=oracle_run, kind='validate', whitebox=['ref_adapt', 'ref_collapse'],
             harness_args=('run',), driver_args=('validate',), session='run',
             nontrivial=lambda op, out: out[:2] in ('SA', 'CA', 'ME', 'W ', 'V ', 'T '))

STREAMS = [FN, PARAM, RUN]
