"""streams of the codec work package (C08 mesh files, C09 solution/metric files, C20 malformed input).

Harness `h_codec` (real refine writers/readers) vs driver `codec` (Lean model).  The oracles use the
independent libMeshb reader/writer in checks/meshio_ref.py and never the Lean model.
"""
import os
import struct
import subprocess

from .common import Stream, REFDRV
from . import meshio_ref as M

GROUPS = ['edg', 'ed2', 'ed3', 'tri', 'tr2', 'tr3', 'qua', 'qu2', 'tet', 'pyr', 'pri', 'hex', 'te2', 'py2', 'pr2', 'he2']
NODE_PER = {'edg': 2, 'ed2': 3, 'ed3': 4, 'tri': 3, 'tr2': 6, 'tr3': 10, 'qua': 4, 'qu2': 9, 'tet': 4, 'pyr': 5,
            'pri': 6, 'hex': 8, 'te2': 10, 'py2': 14, 'pr2': 18, 'he2': 27}
HAS_ID = {'edg', 'ed2', 'ed3', 'tri', 'tr2', 'tr3', 'qua', 'qu2'}
# refine (UGRID) pyramid: quad base 0-3-4-1, apex 2 ; libMeshb pyramid: base 0-1-2-3, apex 4
PYR_TO_FILE = [0, 3, 4, 1, 2]
SPECIAL = ['0000000000000000', '8000000000000000', '3ff0000000000000', 'bff0000000000000', '7ff0000000000000',
           'fff0000000000000', '0000000000000001', '7fefffffffffffff', '0010000000000000', '3fb999999999999a',
           '4340000000000000', 'c1e0000000000000']
IDS = [0, 1, 2, 3, 7, -1, -7, 1000, 2 ** 31 - 1, -2 ** 31, 65536, 123456789]


def dbits(rng, nan=True):
    r = rng.random()
    if r < 0.25:
        return struct.pack('>d', float(rng.randint(-50, 50)) / rng.choice([1, 2, 4, 8, 3])).hex()
    if r < 0.4:
        return rng.choice(SPECIAL)
    if r < 0.42 and nan:
        return rng.choice(['7ff8000000000000', '7ff0000000000001', 'fff8000000000123'])
    b = rng.getrandbits(64)
    if (b >> 52) & 0x7ff == 0x7ff and (b & ((1 << 52) - 1)) and not nan:
        b &= ~(1 << 62)
    return '%016x' % b


def is_nan_hex(h):
    b = int(h, 16)
    return (b >> 52) & 0x7ff == 0x7ff and (b & ((1 << 52) - 1)) != 0


def fmt(h):
    return 'nan' if is_nan_hex(h) else h


def le_hex(h):
    """16 hex digits (big-endian print of the bit pattern) -> 8 little-endian bytes"""
    return bytes.fromhex(h)[::-1]


def hex_le(b):
    return b[::-1].hex()


# ------------------------------------------------------------------------------------------------
# mesh descriptions
# ------------------------------------------------------------------------------------------------
def gen_mesh(rng, nslots=None, ncell_scale=1.0, kinds=None, geoms=True, cad=True, holes=True, twod=None):
    ns = nslots if nslots is not None else rng.choice([1, 2, 3, 5, 8, 12, 20, 33])
    twod = rng.random() < 0.3 if twod is None else twod
    slots = []
    for _ in range(ns):
        if holes and rng.random() < 0.15:
            slots.append(None)
        else:
            z = '0000000000000000' if twod else dbits(rng)
            slots.append((dbits(rng), dbits(rng), z))
    live = [i for i, s in enumerate(slots) if s is not None]
    if not live:
        slots[0] = (dbits(rng), dbits(rng), '0000000000000000' if twod else dbits(rng))
        live = [0]
    cells = []
    if kinds is None:
        kinds = [g for g in GROUPS if rng.random() < 0.3]
        if rng.random() < 0.6 and 'pyr' not in kinds:
            kinds.append('pyr')
        rng.shuffle(kinds)
    for g in kinds:
        nc = max(1, int(rng.choice([1, 1, 2, 3, 5, 9]) * ncell_scale))
        rows = []
        for _ in range(nc):
            r = [rng.choice(live) for _ in range(NODE_PER[g])]
            if g in HAS_ID:
                r.append(rng.choice(IDS) if rng.random() < 0.5 else rng.randint(1, 40))
            rows.append(r)
        cells.append((g, rows))
    gs = []
    if geoms and rng.random() < 0.7:
        for _ in range(int(rng.choice([1, 2, 4, 8, 15]) * ncell_scale)):
            t = rng.randint(0, 2)
            gid = rng.choice(IDS) if rng.random() < 0.3 else rng.randint(1, 12)
            gs.append((t, gid, rng.choice(IDS) if rng.random() < 0.5 else rng.randint(1, 30), rng.choice(live),
                       dbits(rng), dbits(rng)))
        if gs and rng.random() < 0.3:   # duplicate (node,type,id): ref_geom_add updates in place
            t, gid, _, nd, _, _ = rng.choice(gs)
            gs.append((t, gid, rng.randint(1, 30), nd, dbits(rng), dbits(rng)))
    blob = b''
    if cad and rng.random() < 0.5:
        blob = bytes(range(256)) if rng.random() < 0.3 else bytes(rng.getrandbits(8) for _ in range(rng.choice([1, 3, 17, 64])))
    return {'twod': twod, 'slots': slots, 'cells': cells, 'geoms': gs, 'cad': blob}


def mesh_words(m):
    w = ['%d' % (1 if m['twod'] else 0), 'n', '%d' % len(m['slots'])]
    for s in m['slots']:
        if s is None:
            w.append('-')
        else:
            w.extend(s)
    for g, rows in m['cells']:
        w += ['c', g, '%d' % len(rows)]
        for r in rows:
            w += ['%d' % x for x in r]
    if m['geoms']:
        w += ['g', '%d' % len(m['geoms'])]
        for t, gid, gref, nd, p0, p1 in m['geoms']:
            w += ['%d' % t, '%d' % gid, '%d' % gref, '%d' % nd, p0, p1]
    if m['cad']:
        w += ['b', m['cad'].hex()]
    return w


def parse_mesh_words(w):
    """inverse of mesh_words (+ version in front): the oracle's own reading of a write_meshb/rt_meshb line"""
    ver, twod = int(w[0]), int(w[1]) == 1
    assert w[2] == 'n'
    ns = int(w[3])
    k = 4
    slots = []
    for _ in range(ns):
        if w[k] == '-':
            slots.append(None)
            k += 1
        else:
            slots.append((w[k], w[k + 1], w[k + 2]))
            k += 3
    cells, geoms, cad = [], [], b''
    while k < len(w):
        if w[k] == 'c':
            g, nc = w[k + 1], int(w[k + 2])
            sp = NODE_PER[g] + (1 if g in HAS_ID else 0)
            k += 3
            rows = []
            for _ in range(nc):
                rows.append([int(x) for x in w[k:k + sp]])
                k += sp
            cells.append((g, rows))
        elif w[k] == 'g':
            ng = int(w[k + 1])
            k += 2
            for _ in range(ng):
                geoms.append((int(w[k]), int(w[k + 1]), int(w[k + 2]), int(w[k + 3]), w[k + 4], w[k + 5]))
                k += 6
        elif w[k] == 'b':
            cad = bytes.fromhex(w[k + 1]) if w[k + 1] != '-' else b''
            k += 2
        else:
            raise ValueError('token %r' % w[k])
    return ver, {'twod': twod, 'slots': slots, 'cells': cells, 'geoms': geoms, 'cad': cad}


def canonical(m):
    """what refine holds after building the grid from the description: compacted vertex numbering, cells per
    group (appended in order), geometry records with ref_geom_add's update-in-place rule"""
    o2n, nodes = {}, []
    for i, s in enumerate(m['slots']):
        if s is not None:
            o2n[i] = len(nodes)
            nodes.append(s)
    groups = {g: [] for g in GROUPS}
    for g, rows in m['cells']:
        for r in rows:
            np_ = NODE_PER[g]
            groups[g].append([o2n[x] for x in r[:np_]] + r[np_:])
    geoms = []
    for t, gid, gref, nd, p0, p1 in m['geoms']:
        z = '0000000000000000'
        if not 0 <= t <= 2:
            raise ValueError('geometry type %d' % t)
        for g in geoms:
            if g['node'] == o2n[nd] and g['type'] == t and g['id'] == gid:
                if t > 0:
                    g['p0'] = p0
                    g['gref'] = gref
                if t > 1:
                    g['p1'] = p1
                break
        else:
            geoms.append({'type': t, 'id': gid, 'gref': gref if t > 0 else gid, 'node': o2n[nd],
                          'p0': p0 if t > 0 else z, 'p1': p1 if t > 1 else z})
    return {'twod': m['twod'], 'nodes': nodes, 'groups': groups, 'geoms': geoms, 'cad': m['cad']}


def dump_of(c):
    """the harness' dump line for a canonical mesh"""
    w = ['ok', 'd', '2' if c['twod'] else '3', 'n', '%d' % len(c['nodes'])]
    for x, y, z in c['nodes']:
        w += [fmt(x), fmt(y), fmt(z)]
    for g in GROUPS:
        rows = c['groups'][g]
        if rows:
            w += ['c', g, '%d' % len(rows)]
            for r in rows:
                w += ['%d' % x for x in r]
    if c['geoms']:
        w += ['g', '%d' % len(c['geoms'])]
        for g in c['geoms']:
            w += ['%d' % g['type'], '%d' % g['id'], '%d' % g['gref'], '%d' % g['node'], fmt(g['p0']), fmt(g['p1'])]
    if c['cad']:
        w += ['b', c['cad'].hex()]
    return ' '.join(w)


def canonical_of_parsed(p):
    """what a reader must recover from an (independently parsed) file"""
    dim = p['dim']
    sec = p['sections']
    nodes = []
    for coords, _ in sec[4]['rows']:
        h = [hex_le(c) for c in coords]
        nodes.append((h[0], h[1], h[2] if dim == 3 else '0000000000000000'))
    groups = {g: [] for g in GROUPS}
    for kw, s in sec.items():
        if kw in M.ELEMENTS:
            g = M.ELEMENTS[kw][0]
            for r in s['rows']:
                n = [x - 1 for x in r[:-1]]
                if g == 'pyr':   # libMeshb base 0-1-2-3 apex 4 -> refine base 0-3-4-1 apex 2
                    n = [n[0], n[3], n[4], n[1], n[2]]
                groups[g].append(n + ([r[-1]] if g in HAS_ID else []))
    geoms = []
    for t in (0, 1, 2):
        for v, gid, ps, gref in sec.get(40 + t, {'rows': []})['rows']:
            z = '0000000000000000'
            p0 = hex_le(ps[0]) if t > 0 else z
            p1 = hex_le(ps[1]) if t > 1 else z
            for g in geoms:
                if g['node'] == v - 1 and g['type'] == t and g['id'] == gid:
                    if t > 0:
                        g['p0'], g['gref'] = p0, int(gref)
                    if t > 1:
                        g['p1'] = p1
                    break
            else:
                geoms.append({'type': t, 'id': gid, 'gref': int(gref) if t > 0 else gid, 'node': v - 1, 'p0': p0, 'p1': p1})
    return {'twod': dim == 2, 'nodes': nodes, 'groups': groups, 'geoms': geoms, 'cad': sec.get(126, {'bytes': b''})['bytes']}


def file_of(rng, c, version, shuffle=False, extras=False, end=True, vref=1, volref=0):
    """independent writer: canonical mesh -> libMeshb bytes (+ the Writer, for mutation)"""
    w = M.Writer(version)
    dim = 2 if c['twod'] else 3
    w.dimension(dim)
    parts = [('v', None)]
    parts += [('c', g) for g in GROUPS if c['groups'][g]]
    parts += [('g', t) for t in (0, 1, 2) if any(x['type'] == t for x in c['geoms'])]
    if c['cad']:
        parts.append(('b', None))
    if extras:
        parts.append(('x', rng.choice([1, 2, 14, 60, 155, 156, 200, -5])))
    if shuffle:
        rng.shuffle(parts)
    for kind, arg in parts:
        if kind == 'v':
            w.vertices(dim, [tuple(le_hex(h) for h in n) for n in c['nodes']], ref=vref)
        elif kind == 'c':
            rows = []
            for r in c['groups'][arg]:
                np_ = NODE_PER[arg]
                n = [x + 1 for x in r[:np_]]
                if arg == 'pyr':
                    n = [n[i] for i in PYR_TO_FILE]
                rows.append(n + [r[np_] if arg in HAS_ID else volref])
            w.elements(arg, rows)
        elif kind == 'g':
            rows = []
            for g in c['geoms']:
                if g['type'] == arg:
                    ps = [le_hex(g['p0'])][:arg] + ([le_hex(g['p1'])] if arg > 1 else [])
                    rows.append((g['node'] + 1, g['id'], ps, float(g['gref'])))
            w.geometry(arg, rows)
        elif kind == 'b':
            w.byteflow(c['cad'])
        else:
            w.unknown(arg, bytes(rng.getrandbits(8) for _ in range(rng.choice([0, 4, 9]))))
    return w.finish(end_keyword=end), w


# ------------------------------------------------------------------------------------------------
# C08 streams
# ------------------------------------------------------------------------------------------------
def sizes(tier):
    return (40, 3) if tier == 'quick' else (200, 10)


def gen_meshb_write(rng, tier):
    nsmall, nmed = sizes(tier)
    ops = []
    for i in range(nsmall):
        v = rng.choice([2, 3, 4, 2, 3, 4, 0, 1, 5])
        ops.append(' '.join(['write_meshb', '%d' % v] + mesh_words(gen_mesh(rng))))
    # every cell kind once, each meshb version
    for v in (2, 3, 4):
        ops.append(' '.join(['write_meshb', '%d' % v] + mesh_words(gen_mesh(rng, nslots=40, kinds=list(GROUPS)))))
    for i in range(nmed):
        m = gen_mesh(rng, nslots=rng.choice([150, 700, 1300]), ncell_scale=rng.choice([30, 120]), holes=True)
        ops.append(' '.join(['write_meshb', '%d' % rng.choice([2, 3, 4])] + mesh_words(m)))
    if tier == 'thorough':   # cross ref_node / ref_cell chunk (5000) and ref_geom chunk (1000)
        # (the harness splits at most 65536 words per line: keep the description below that)
        m = gen_mesh(rng, nslots=5600, kinds=[], geoms=False)
        live = [i for i, sl in enumerate(m['slots']) if sl is not None]
        m['cells'] = [('tet', [[rng.choice(live) for _ in range(4)] for _ in range(5200)]),
                      ('pyr', [[rng.choice(live) for _ in range(5)] for _ in range(300)]),
                      ('tri', [[rng.choice(live) for _ in range(3)] + [rng.randint(1, 9)] for _ in range(300)])]
        m['geoms'] = [(rng.randint(0, 2), k, rng.randint(1, 30), rng.choice(live), dbits(rng), dbits(rng)) for k in range(1100)]
        assert len(mesh_words(m)) < 60000
        ops.append(' '.join(['write_meshb', '3'] + mesh_words(m)))
    # malformed descriptions: both sides must say bad-op
    ops.append('write_meshb 2 0 n 2 0000000000000000 0000000000000000 0000000000000000 - c tri 1 0 1 0 5')
    ops.append('write_meshb 9 0 n 0')
    ops.append('write_meshb 2 0 n 0')
    ops.append('write_meshb 2 1 n 1 3ff0000000000000 3ff0000000000000 0000000000000000 g 1 3 1 1 0 0000000000000000 0000000000000000')
    return ops


def check_file_against(c, ver, data):
    """independent parse of a written file == canonical mesh; returns message or None"""
    try:
        p = M.parse(data)
    except M.FormatError as ex:
        return 'independent parser rejects the file: %s' % ex
    want_v = ver if ver > 1 else 2
    if want_v <= 4 and p['version'] != want_v:
        return 'file version %d, requested %d' % (p['version'], want_v)
    if p['dim'] != (2 if c['twod'] else 3):
        return 'dimension %r' % p['dim']
    if not c['nodes']:
        return None if 4 not in p['sections'] else 'vertices written for an empty grid'
    if 4 not in p['sections']:
        return 'no Vertices keyword'
    dim = p['dim']
    got = [tuple(hex_le(x) for x in co) for co, _ in p['sections'][4]['rows']]
    want = [n[:dim] for n in c['nodes']]
    if got != want:
        k = next((i for i in range(min(len(got), len(want))) if got[i] != want[i]), min(len(got), len(want)))
        return 'vertex %d: stored %s, file has %s' % (k, want[k] if k < len(want) else None, got[k] if k < len(got) else None)
    got_c = canonical_of_parsed(p)
    for g in GROUPS:
        w = [r[:NODE_PER[g]] + (r[NODE_PER[g]:] if g in HAS_ID else []) for r in c['groups'][g]]
        if got_c['groups'][g] != w:
            return '%s cells differ: stored %s, file has %s' % (g, w[:3], got_c['groups'][g][:3])
    if got_c['geoms'] != sorted(c['geoms'], key=lambda g: g['type']):
        return 'geometry records differ: stored %s, file has %s' % (c['geoms'][:3], got_c['geoms'][:3])
    if got_c['cad'] != c['cad']:
        return 'CAD bytes differ'
    present = [k for k in p['order'] if k not in (3, 54)]
    want_kw = ([4] + [M.KW_OF[g] for g in GROUPS if c['groups'][g]] +
               [40 + t for t in (0, 1, 2) if any(x['type'] == t for x in c['geoms'])] + ([126] if c['cad'] else []))
    if present != want_kw:
        return 'keywords in file %s, expected %s' % (present, want_kw)
    return None


def oracle_meshb_write(ops, impl):
    bad = []
    for i, (o, r) in enumerate(zip(ops, impl)):
        w = o.split()
        if w[0] not in ('write_meshb', 'rt_meshb'):
            continue
        try:
            ver, m = parse_mesh_words(w[1:])
            c = canonical(m)
        except Exception:
            if r != 'bad-op':
                bad.append((i, 'malformed description accepted: %s' % r[:60]))
            continue
        if not (0 <= ver <= 4):
            continue   # meshb_version > 4 is not a libMeshb version; only the model comparison applies
        if w[0] == 'rt_meshb':
            if not c['nodes'] or ver > 4:
                continue   # an empty grid has no Vertices keyword: the reader refuses such a file
            c['geoms'] = sorted(c['geoms'], key=lambda g: g['type'])
            want = dump_of(c)
            if r != want:
                bad.append((i, 'read(write(M)) differs from M: got %s want %s' % (diff_at(r, want), '')))
            continue
        if not r.startswith('ok '):
            bad.append((i, 'writer returned %s' % r[:40]))
            continue
        msg = check_file_against(c, ver, bytes.fromhex(r[3:]) if r[3:] != '-' else b'')
        if msg:
            bad.append((i, msg))
    return bad


def diff_at(a, b):
    aw, bw = a.split(), b.split()
    for k in range(min(len(aw), len(bw))):
        if aw[k] != bw[k]:
            return 'word %d: %s vs %s' % (k, aw[k], bw[k])
    return 'length %d vs %d' % (len(aw), len(bw))


def valid_file(rng, **kw):
    m = gen_mesh(rng, **kw)
    c = canonical(m)
    c['geoms'] = sorted(c['geoms'], key=lambda g: g['type'])
    return c


def gen_meshb_read(rng, tier):
    nsmall, nmed = sizes(tier)
    ops = []
    for i in range(nsmall):
        c = valid_file(rng)
        v = rng.choice([1, 2, 3, 4, 2, 3, 4])
        data, _ = file_of(rng, c, v, shuffle=rng.random() < 0.5, extras=rng.random() < 0.3, end=rng.random() < 0.85,
                          vref=rng.choice([1, 0, 7, -3]), volref=rng.choice([0, 0, 5]))
        ops.append('read_meshb ' + data.hex())
    for v in (1, 2, 3, 4):
        data, _ = file_of(rng, valid_file(rng, nslots=40, kinds=list(GROUPS)), v)
        ops.append('read_meshb ' + data.hex())
    for i in range(nsmall // 2):
        ops.append(' '.join(['rt_meshb', '%d' % rng.choice([2, 3, 4, 0])] + mesh_words(gen_mesh(rng))))
    for v in (2, 3, 4):
        ops.append(' '.join(['rt_meshb', '%d' % v] + mesh_words(gen_mesh(rng, nslots=40, kinds=list(GROUPS)))))
    for i in range(nmed):
        c = valid_file(rng, nslots=rng.choice([150, 700, 1300]), ncell_scale=rng.choice([30, 120]))
        data, _ = file_of(rng, c, rng.choice([2, 3, 4]), shuffle=True)
        ops.append('read_meshb ' + data.hex())
    ops.append('read_meshb -')
    ops.append('read_meshb 0100000002000000')
    return ops


def oracle_meshb_read(ops, impl):
    bad = oracle_meshb_write(ops, impl)
    for i, (o, r) in enumerate(zip(ops, impl)):
        w = o.split()
        if w[0] != 'read_meshb':
            continue
        data = bytes.fromhex(w[1]) if w[1] != '-' else b''
        try:
            p = M.parse(data)
            if 4 not in p['sections'] or p['dim'] not in (2, 3):
                raise M.FormatError('no vertices')
        except M.FormatError:
            if r.startswith('ok'):
                pass   # acceptance of malformed files is C20's subject, not C08's
            continue
        want = dump_of(canonical_of_parsed(p))
        if r != want:
            bad.append((i, 'reader did not recover what the file stores: %s' % diff_at(r, want)))
    return bad


MESHB_WRITE = Stream('meshb_write', 'h_codec', 'codec', gen_meshb_write, oracle=oracle_meshb_write,
                     whitebox=['ref_import'], nontrivial=lambda op, out: out.startswith('ok '))
MESHB_READ = Stream('meshb_read', 'h_codec', 'codec', gen_meshb_read, oracle=oracle_meshb_read,
                    whitebox=['ref_import'], nontrivial=lambda op, out: out.startswith('ok '))


# ------------------------------------------------------------------------------------------------
# C09 streams
# ------------------------------------------------------------------------------------------------
def tagged_rows(rng, nn, ldim):
    """position-tagged values: row g, component j carries (g, j) in its bits, so any permutation shows"""
    rows = []
    for g in range(nn):
        row = []
        for j in range(ldim):
            if rng.random() < 0.1:
                row.append(dbits(rng, nan=False))
            else:
                row.append(struct.pack('>d', (g + 1) * 1000.0 + j + rng.choice([0.0, 0.25, 0.5])).hex())
        rows.append(row)
    return rows


def spd_rows(rng, nn, twod):
    rows = []
    for g in range(nn):
        a, b, c = (1.0 + g + rng.random() for _ in range(3))
        off = [rng.uniform(-0.3, 0.3) for _ in range(3)]
        m = [a, off[0], 0.0 if twod else off[1], b, 0.0 if twod else off[2], 1.0 if twod else c]
        rows.append([struct.pack('>d', x).hex() for x in m])
    return rows


def gen_solb_write(rng, tier):
    n = 40 if tier == 'quick' else 200
    ops = []
    for ldim in list(range(0, 21)) + [rng.randint(1, 20) for _ in range(n)]:
        nn = rng.choice([1, 2, 3, 7, 20, 64])
        perm = list(range(nn))
        if rng.random() < 0.7:
            rng.shuffle(perm)
        rows = tagged_rows(rng, nn, ldim)
        ops.append(' '.join(['write_solb', '%d' % rng.choice([2, 3, 4, 0]), '%d' % rng.randint(0, 1), '%d' % nn] +
                            ['%d' % g for g in perm] + ['%d' % ldim] + [x for r in rows for x in r]))
    for _ in range(n):
        nn = rng.choice([1, 2, 5, 16, 50])
        perm = list(range(nn))
        rng.shuffle(perm)
        twod = rng.randint(0, 1)
        rows = tagged_rows(rng, nn, 6) if rng.random() < 0.5 else spd_rows(rng, nn, twod)
        ops.append(' '.join(['write_metric', '%d' % rng.choice([2, 3, 4]), '%d' % twod, '%d' % nn] +
                            ['%d' % g for g in perm] + [x for r in rows for x in r]))
    ops.append('write_solb 2 0 2 0 0 1 0000000000000000 0000000000000000')
    ops.append('write_metric 2 0 1 0 0000000000000000')
    return ops


def oracle_solb_write(ops, impl):
    bad = []
    for i, (o, r) in enumerate(zip(ops, impl)):
        w = o.split()
        if w[0] not in ('write_solb', 'write_metric'):
            continue
        try:
            ver, twod, nn = int(w[1]), int(w[2]), int(w[3])
            perm = [int(x) for x in w[4:4 + nn]]
            assert sorted(perm) == list(range(nn))
            k = 4 + nn
            if w[0] == 'write_solb':
                ldim = int(w[k])
                k += 1
            else:
                ldim = 6
            vals = w[k:]
            assert len(vals) == nn * ldim and all(len(x) == 16 for x in vals)
        except Exception:
            if r != 'bad-op':
                bad.append((i, 'malformed description accepted'))
            continue
        if not r.startswith('ok '):
            bad.append((i, 'writer returned %s' % r[:40]))
            continue
        try:
            p = M.parse(bytes.fromhex(r[3:]))
        except M.FormatError as ex:
            bad.append((i, 'independent parser rejects the file: %s' % ex))
            continue
        s = p['sections'].get(62)
        dim = 2 if twod else 3
        if p['version'] != (ver if ver > 1 else 2) or p['dim'] != dim or s is None or p['order'] != [3, 62, 54]:
            bad.append((i, 'header: version %s dim %s keywords %s' % (p['version'], p['dim'], p['order'])))
            continue
        local_of = {g: l for l, g in enumerate(perm)}   # entry g of the file belongs to the vertex with global id g
        for g in range(nn):
            mem = vals[local_of[g] * ldim:(local_of[g] + 1) * ldim]
            if w[0] == 'write_metric':
                # memory (m11,m12,m13,m22,m23,m33); libMeshb symmetric matrix xx,xy,yy[,xz,yz,zz]
                want = [mem[0], mem[1], mem[3]] + ([] if twod else [mem[2], mem[4], mem[5]])
                types = [3]
            else:
                want = mem
                types = [1] * ldim
            got = [hex_le(x) for x in s['rows'][g]] if g < len(s['rows']) else None
            if s['types'] != types or len(s['rows']) != nn or got != want:
                bad.append((i, 'entry %d: stored %s file has %s (types %s)' % (g, want, got, s['types'])))
                break
    return bad


def sol_file(version, dim, types, rows, nnode=None, shuffle=False, end=True):
    w = M.Writer(version)
    parts = ['d', 's']
    if shuffle:
        parts = ['s', 'd']
    for pt in parts:
        if pt == 'd':
            w.dimension(dim)
        else:
            w.solution(types, [[le_hex(x) for x in r] for r in rows])
    return w.finish(end_keyword=end), w


def gen_solb_read(rng, tier):
    n = 60 if tier == 'quick' else 300
    ops = []
    for k in range(n):
        dim = rng.choice([2, 3])
        nn = rng.choice([1, 2, 3, 9, 33])
        types = [rng.choice([1, 1, 2]) for _ in range(rng.randint(0, 8))] if k >= 21 else [1] * k
        ldim = sum(1 if t == 1 else dim for t in types)
        mult = rng.choice([1, 1, 1, 2]) if k % 5 == 0 else 1     # legacy: twice the vertices in the file
        extra = rng.choice([0, 0, 0, 1, 5]) if mult == 1 else rng.choice([0, 1])
        rows = tagged_rows(rng, nn * mult + extra, ldim)
        data, _ = sol_file(rng.choice([2, 3, 4]), dim, types, rows, shuffle=rng.random() < 0.3, end=rng.random() < 0.9)
        ops.append('read_solb %d %s' % (nn, data.hex()))
    for k in range(n):
        dim = rng.choice([2, 3])
        nn = rng.choice([1, 2, 3, 9, 33])
        mult = 2 if rng.random() < 0.15 else 1
        types = [3] if rng.random() < 0.7 else ([1] * (3 if dim == 2 else 6))
        w = 3 if dim == 2 else 6
        full = spd_rows(rng, nn * mult + (1 if mult == 2 and rng.random() < 0.5 else 0), dim == 2)
        rows = [[m[0], m[1], m[3]] + ([] if dim == 2 else [m[2], m[4], m[5]]) for m in full]
        data, _ = sol_file(rng.choice([2, 3, 4]), dim, types, rows, shuffle=rng.random() < 0.3)
        ops.append('read_metric %d %s' % (nn, data.hex()))
    return ops


def oracle_solb_read(ops, impl):
    bad = []
    for i, (o, r) in enumerate(zip(ops, impl)):
        w = o.split()
        if w[0] not in ('read_solb', 'read_metric') or len(w) != 3:
            continue
        nn = int(w[1])
        try:
            p = M.parse(bytes.fromhex(w[2]))
            s = p['sections'][62]
        except (M.FormatError, KeyError, ValueError):
            continue
        dim = p['dim']
        nfile = len(s['rows'])
        if w[0] == 'read_solb':
            if any(t not in (1, 2) for t in s['types']):
                continue
            ldim = sum(1 if t == 1 else dim for t in s['types'])
            if nfile < nn:
                if r.startswith('ok'):
                    bad.append((i, 'file with %d vertices accepted for a grid of %d' % (nfile, nn)))
                continue
            want = 'ok %d' % ldim + ''.join(' ' + fmt(hex_le(x)) for g in range(nn) for x in s['rows'][g])
            if r != want:
                bad.append((i, 'field not recovered: %s' % diff_at(r, want)))
        else:
            width = sum({1: 1, 2: 0, 3: (3 if dim == 2 else 6)}.get(t, 99) for t in s['types'])
            if width != (3 if dim == 2 else 6) or (nfile != nn and nfile // 2 != nn):
                if r.startswith('ok'):
                    bad.append((i, 'metric file (width %d, %d vertices) accepted for a %d-vertex grid' % (width, nfile, nn)))
                continue
            words = ['ok']
            for g in range(nn):
                f = [hex_le(x) for x in s['rows'][g]]
                one, zero = '3ff0000000000000', '0000000000000000'
                mem = [f[0], f[1], zero, f[2], zero, one] if dim == 2 else [f[0], f[1], f[3], f[2], f[4], f[5]]
                words += [fmt(x) for x in mem]
            if r != ' '.join(words):
                bad.append((i, 'metric not recovered: %s' % diff_at(r, ' '.join(words))))
    return bad


SOLB_WRITE = Stream('solb_write', 'h_codec', 'codec', gen_solb_write, oracle=oracle_solb_write,
                    whitebox=['ref_import'], nontrivial=lambda op, out: out.startswith('ok '))
SOLB_READ = Stream('solb_read', 'h_codec', 'codec', gen_solb_read, oracle=oracle_solb_read,
                   whitebox=['ref_import'], nontrivial=lambda op, out: out.startswith('ok'))


# ------------------------------------------------------------------------------------------------
# C20: mutation engine
# ------------------------------------------------------------------------------------------------
SUBST = [-1, 0, 1, 2 ** 31 - 1, 2 ** 63 - 1]


def put(data, off, width, value):
    b = bytearray(data)
    b[off:off + width] = (value % (1 << (8 * width))).to_bytes(width, 'little')
    return bytes(b)


def mutants(rng, data, w, nflip=6, nsub=10, ntrunc=8, payload_ok=True):
    """yield (label, bytes) for one valid file `data` produced by Writer `w`"""
    out = []
    n = len(data)
    for _ in range(nflip):
        if payload_ok and rng.random() < 0.5:
            off = rng.randrange(n)
        else:
            kind, off0, width = rng.choice(w.fields)
            off = off0 + rng.randrange(width)
        b = bytearray(data)
        b[off] ^= 1 << rng.randrange(8)
        out.append(('flip@%d' % off, bytes(b)))
    bounds = sorted(set(w.bounds + [n]))
    cuts = bounds if len(bounds) <= ntrunc else rng.sample(bounds, ntrunc)
    for c in cuts:
        out.append(('trunc@%d' % c, data[:c]))
        if rng.random() < 0.3 and c + 1 < n:
            out.append(('trunc@%d' % (c + 1), data[:c + rng.randint(1, 3)]))
    structural = [f for f in w.fields if f[0] in ('count', 'next', 'index', 'keyword', 'version', 'dim', 'ntype', 'type', 'code')]
    for _ in range(nsub):
        kind, off, width = rng.choice(structural)
        val = rng.choice(SUBST)
        if kind == 'next' and rng.random() < 0.5:
            val = rng.choice([s[1] for s in w.sections] + [off - 4, 8, n, n - 1, n + 1])
        out.append(('%s@%d:=%d' % (kind, off, val), put(data, off, width, val)))
    # boundary values of the range-checked fields: version 1..4, dim 2..3, solution types 1..3
    for kind, off, width in w.fields:
        if kind in ('version', 'dim', 'type'):
            for val in {'version': (0, 5, rng.choice([1, 2, 3, 4])), 'dim': (1, 4, rng.choice([2, 3])),
                        'type': (0, 3, 4, rng.choice([1, 2]))}[kind]:
                if rng.random() < 0.5:
                    out.append(('%s@%d:=%d' % (kind, off, val), put(data, off, width, val)))
    # section duplication / reorder on the byte level (positions are then stale on purpose) ...
    if len(w.sections) >= 2:
        a, b_ = rng.sample(w.sections, 2)
        out.append(('dup', data[:a[2]] + data[b_[1]:b_[2]] + data[a[2]:]))
        (k1, s1, e1), (k2, s2, e2) = sorted([a, b_], key=lambda s: s[1])
        out.append(('swap', data[:s1] + data[s2:e2] + data[e1:s2] + data[s1:e1] + data[e2:]))
    return out


def classify(ops):
    """ask the Lean model which of the *known* hazards of the faithful reader an input runs into"""
    p = subprocess.run([REFDRV, 'codec'], input='\n'.join(ops) + '\n', capture_output=True, text=True, timeout=600)
    lines = p.stdout.splitlines()
    if p.returncode != 0 or len(lines) != len(ops):
        raise RuntimeError('refdrv codec classify failed: %s' % p.stderr[-300:])
    return lines


def meshb_mutants(rng, tier):
    nfiles = 12 if tier == 'quick' else 60
    out = []
    for k in range(nfiles):
        c = valid_file(rng, nslots=rng.choice([2, 4, 6, 9]), geoms=rng.random() < 0.6, cad=rng.random() < 0.5)
        v = rng.choice([2, 3, 4, 2, 3, 4, 1])
        data, w = file_of(rng, c, v, shuffle=rng.random() < 0.3)
        out += [(lab, d) for lab, d in mutants(rng, data, w)]
        # well-formed structure, semantic edits
        c2 = valid_file(rng, nslots=4)
        for g in GROUPS:
            for r in c2['groups'][g]:
                if rng.random() < 0.5:
                    r[rng.randrange(NODE_PER[g])] = rng.choice([-1, -2, 4, 5, 17, 999, 10 ** 5, 10 ** 7, 2 ** 31 - 2])
        out.append(('index', file_of(rng, c2, rng.choice([2, 3, 4]))[0]))
    return out


# The Lean witnesses of Props/C20.lean (`*_counterexample` theorems); checks/c20.py verifies that the
# property file contains exactly these byte strings.
WITNESS = {
    # code=1 version=2 | keyword 3, next_position 8 (its own offset) | dim 3
    'hang': '0100000002000000030000000800000003000000',
    # one vertex, one edge (1, 3): vertex index 2 of 1 is accepted
    'index_small': '0100000002000000030000001400000003000000040000003c000000010000000000000000000000000000000000000000000000'
                   '00000000010000000500000054000000010000000100000003000000010000003600000000000000',
    # the same file with edge (1, 50000002): the replay that crashes consumers of the grid
    'index_crash': '0100000002000000030000001400000003000000040000003c000000010000000000000000000000000000000000000000000000'
                   '000000000100000005000000540000000100000001000000' '82f0fa02' '010000003600000000000000',
    # edge (1, 2^31-1): `100 + (node - orig)` overflows in ref_adj_add, then first[node] is written out of bounds
    'index_ub': '0100000002000000030000001400000003000000040000003c000000010000000000000000000000000000000000000000000000'
                '000000000100000005000000540000000100000001000000' 'ffffff7f' '010000003600000000000000',
    # .solb, version 2, 60 000 000 vertices declared, one value present: 480 MB allocated and initialised first
    'solb_alloc': '01000000020000000300000014000000030000003e00000030000000008793030100000001000000000000000000f03f'
                  '3600000000000000',
    # .solb, version 4, 2^32 vertices declared: chunk = (REF_INT)2^32 = 0, the read loop never advances
    'solb_loop': '0100000004000000030000001800000000000000030000003e0000003c00000000000000000000000100000001000000'
                 '01000000000000000000f03f360000000000000000000000',
}


def split_by_class(pairs):
    """pairs: (label, bytes) -> dict(class -> [bytes]) using the faithful model's classification"""
    ops = ['classify_meshb ' + (d.hex() or '-') for _, d in pairs]
    cls = classify(ops)
    out = {'clean': [], 'hang': [], 'index_small': [], 'index_big': []}
    for (lab, d), c in zip(pairs, cls):
        if c == 'hang':
            out['hang'].append(d)
        elif c.startswith('index'):
            out['index_small' if int(c.split()[1]) < 10 ** 6 else 'index_big'].append(d)
        else:
            out['clean'].append(d)
    return out


def gen_c20_meshb(rng, tier):
    """exact status + dump of the reader on mutants, except those on which the faithful model predicts a hang
    or a vertex index large enough to make `ref_adj_add` allocate by the index"""
    cl = split_by_class(meshb_mutants(rng, tier))
    return ['read_meshb ' + (d.hex() or '-') for d in cl['clean'] + cl['index_small']]


def oracle_returns(ops, impl):
    """the property, stated directly: the reader came back with a status"""
    bad = []
    for i, (o, r) in enumerate(zip(ops, impl)):
        first = r.split()[0] if r.split() else ''
        if first in ('crash', 'timeout', 'bloat'):
            bad.append((i, 'reader did not return on a %d-byte input: %s' % (len(o.split()[-1]) // 2, r)))
    return bad


def solb_mutants(rng, tier):
    nfiles = 10 if tier == 'quick' else 50
    out = []
    for k in range(nfiles):
        dim = rng.choice([2, 3])
        nn = rng.choice([1, 2, 5])
        metric = rng.random() < 0.4
        v = rng.choice([2, 3, 4])
        if metric:
            full = spd_rows(rng, nn, dim == 2)
            rows = [[m[0], m[1], m[3]] + ([] if dim == 2 else [m[2], m[4], m[5]]) for m in full]
            data, w = sol_file(v, dim, [3], rows)
        else:
            types = [rng.choice([1, 1, 2]) for _ in range(rng.randint(0, 4))]
            ldim = sum(1 if t == 1 else dim for t in types)
            data, w = sol_file(v, dim, types, tagged_rows(rng, nn + rng.choice([0, 0, 2]), ldim))
        # the doubles of a metric file are not mutated: ref_node_metric_set's log_m status is the matrix kernel's
        for lab, d in mutants(rng, data, w, payload_ok=not metric):
            out.append(('metric' if metric else 'solb', nn, d))
        if not metric and v == 4:
            kind, off, width = [f for f in w.fields if f[0] == 'count'][0]
            for val in (2 ** 32, 2 ** 32 + 3, 2 ** 31, 2 ** 40, 3 * 2 ** 32):
                out.append(('solb', nn, put(data, off, width, val)))
        if not metric and types:
            # two cooperating fields: the keyword's own next-keyword link points past the end of the file (the header scan
            # stops there without an error) AND the declared count is one whose product with ldim wraps or simply does not
            # fit: whatever the reader measures the count against, it must be the bytes really present
            sec = [x for x in w.sections if x[1] <= [f for f in w.fields if f[0] == 'count'][0][1] < x[2]]
            cnt = [f for f in w.fields if f[0] == 'count'][0]
            nxt = [f for f in w.fields if f[0] == 'next' and sec and sec[0][1] <= f[1] < sec[0][2]]
            if nxt:
                ldim = sum(1 if t == 1 else dim for t in types)
                wrap = [(2 ** 32 * k + r) // ldim for k in (1, 2) for r in (ldim, 2 * ldim) if (2 ** 32 * k + r) % ldim == 0]
                counts = [c for c in wrap + [2 ** 30 + 1, 2 ** 31 - 1, nn + 1, 3 * nn + 7] if 0 < c < 2 ** (8 * cnt[2] - 1)]
                for link in ([2 ** 40, 2 ** 62] if nxt[0][2] == 8 else []) + [len(data) + 1000, 2 ** 31 - 1]:
                    for c in rng.sample(counts, min(3, len(counts))):
                        out.append(('solb', nn, put(put(data, nxt[0][1], nxt[0][2], link), cnt[1], cnt[2], c)))
    return out


def split_solb(triples):
    ops = ['classify_%s %d %s' % (k, nn, d.hex() or '-') for k, nn, d in triples]
    cls = classify(ops)
    out = {'clean': [], 'hang': [], 'alloc': [], 'ub': [], 'slow': []}
    for t, c in zip(triples, cls):
        out[c.split()[0] if c.split()[0] in out else 'clean'].append(t)
    return out


def gen_c20_solb(rng, tier):
    cl = split_solb(solb_mutants(rng, tier))
    return ['read_%s %d %s' % (k, nn, d.hex() or '-') for k, nn, d in cl['clean']]


def gen_c20_robust(rng, tier):
    """all mutants on which the model predicts a clean return, through the user-facing entry points"""
    cl = split_by_class(meshb_mutants(rng, tier))
    ops = ['robust_translate ' + (d.hex() or '-') for d in cl['clean']]
    cs = split_solb(solb_mutants(rng, tier))
    ops += ['robust_%s %d %s' % (k, nn, d.hex() or '-') for k, nn, d in cs['clean']]
    return ops


C20_MESHB = Stream('c20_meshb_mut', 'h_codec', 'codec', gen_c20_meshb, oracle=oracle_returns, whitebox=['ref_import'],
                   nontrivial=lambda op, out: True, harness_args=['4'])
C20_SOLB = Stream('c20_solb_mut', 'h_codec', 'codec', gen_c20_solb, oracle=oracle_returns, whitebox=['ref_import'],
                  nontrivial=lambda op, out: True, harness_args=['4'])
def _some(rng, xs, k):
    xs = list(xs)
    return xs if len(xs) <= k else rng.sample(xs, k)


def gen_c20_hang(rng, tier):
    """inputs on which the selected reader model predicts that the header scan does not return"""
    ops = ['robust_meshb ' + WITNESS['hang'], 'robust_solb 1 ' + WITNESS['hang']]
    if tier == 'quick':      # quick tier: the Lean witnesses only, so the replay is the same for every seed
        return ops
    cl = split_by_class(meshb_mutants(rng, tier))
    ops += ['robust_translate ' + WITNESS['hang']]
    ops += ['robust_meshb ' + d.hex() for d in _some(rng, cl['hang'], 10)]
    return ops


def gen_c20_index(rng, tier):
    """inputs the selected reader model accepts although a vertex index is >= the number of vertices"""
    ops = ['robust_translate ' + WITNESS['index_crash'], 'robust_translate ' + WITNESS['index_ub'],
           'robust_meshb ' + WITNESS['index_ub']]
    if tier == 'quick':
        return ops
    cl = split_by_class(meshb_mutants(rng, tier))
    ops += ['robust_translate ' + d.hex() for d in _some(rng, cl['index_big'], 12)]
    ops += ['robust_translate ' + d.hex() for d in _some(rng, cl['index_small'], 30)]
    return ops


def gen_c20_count(rng, tier):
    """.solb inputs whose declared vertex count alone sizes an allocation or drives a loop"""
    ops = ['robust_solb 1 ' + WITNESS['solb_alloc'], 'robust_solb 1 ' + WITNESS['solb_loop']]
    if tier == 'quick':
        return ops
    cs = split_solb(solb_mutants(rng, tier))
    for cls, k in (('alloc', 8), ('hang', 4), ('slow', 4), ('ub', 12)):
        ops += ['robust_%s %d %s' % (kd, nn, d.hex() or '-') for kd, nn, d in _some(rng, cs[cls], k)]
    return ops


def gen_c20_names(rng, tier):
    """file names shorter than the longest suffix the *_by_extension dispatchers compare against"""
    ops = ['robust_name 0 hcn_a.b', 'robust_name 0 hcn_.meshb', 'robust_name 1 hcn_a.tec', 'robust_name 2 hcn_',
           'robust_name 0 hcn_long_enough_name.meshb', 'robust_name 1 hcn_long_enough_name.meshb',
           'robust_name 2 hcn_long_enough_name.solb']
    if tier == 'quick':
        return ops
    sufs = ['.meshb', '.ugrid', '.lb8.ugrid', '.b8.ugrid64', '.su2', '.msh', '.solb', '.met', '.tec', '.x', '']
    for _ in range(40):
        stem = ''.join(rng.choice('abcxyz_0') for _ in range(rng.randint(0, 9)))
        which = rng.randint(0, 2)
        # the exporters behind the dispatch run on an empty grid here: only the ones that accept one are named
        # (ref_export_su2 overflows `max_id - min_id` on a grid without boundary faces - outside this package)
        suf = rng.choice(['.meshb', '.tec', '.x', '']) if which == 1 else rng.choice(sufs)
        ops.append('robust_name %d hcn_%s%s' % (which, stem, suf))
    return ops


C20_NAMES = Stream('c20_names', 'h_codec', 'codec', gen_c20_names, oracle=oracle_returns, whitebox=['ref_import'],
                   nontrivial=lambda op, out: True, harness_args=['4'], site='by-extension-short-file-name')
C20_HANG = Stream('c20_hang', 'h_codec', 'codec', gen_c20_hang, oracle=oracle_returns, whitebox=['ref_import'],
                  nontrivial=lambda op, out: True, harness_args=['1'], site='meshb-header-no-progress')
C20_INDEX = Stream('c20_index', 'h_codec', 'codec', gen_c20_index, oracle=oracle_returns, whitebox=['ref_import'],
                   nontrivial=lambda op, out: True, harness_args=['4'], site='meshb-vertex-index-unchecked')
C20_COUNT = Stream('c20_count', 'h_codec', 'codec', gen_c20_count, oracle=oracle_returns, whitebox=['ref_import'],
                   nontrivial=lambda op, out: True, harness_args=['1'], site='solb-declared-count-trusted')
C20_ROBUST = Stream('c20_robust', 'h_codec', 'codec', gen_c20_robust, oracle=oracle_returns, whitebox=['ref_import'],
                    nontrivial=lambda op, out: True, harness_args=['4'])
