"""streams `comm_*`: the communication primitives of ref_mpi.c (+ ref_search_selection) under mpiexec.

One op line carries the arguments of all ranks (`op np header | rank0 | rank1 | ...`); the harness broadcasts it,
every rank calls the real function, the per-rank results come back as `res0 | res1 | ...`.
The oracles compute the sequential specification directly from the op line (no Lean model involved).
"""
import struct

from .common import Stream

INT_MAX = 2147483647
INT_MIN = -2147483648
TYPES = ['int', 'long', 'dbl', 'byte', 'unk']
MOVE_TYPES = ['int', 'long', 'dbl']


def dhex(x):
    return struct.pack('>d', float(x)).hex()


def hexd(s):
    return struct.unpack('>d', bytes.fromhex(s))[0]


def tok(ty, v):
    """a value token of type ty from a small non-negative integer id v"""
    if ty == 'dbl':
        return dhex(v + 0.5)
    if ty == 'byte':
        return str(v % 256)
    if ty == 'long':
        return str(v + (1 << 40))
    return str(v)


def zero(ty):
    return '0000000000000000' if ty == 'dbl' else '0'


def pick_type(rng, movement=True):
    r = rng.random()
    if r < 0.8:
        return rng.choice(MOVE_TYPES)
    if r < 0.93:
        return 'byte'
    return 'unk'


def line(op, np, hdr, groups):
    return ' '.join([op, str(np)] + [str(h) for h in hdr] + [x for g in groups for x in (['|'] + [str(t) for t in g])])


# ---------------------------------------------------------------------------------------------------------
# count patterns
# ---------------------------------------------------------------------------------------------------------
def count_matrix(rng, np, cmax):
    """np x np matrix of item counts: random and structured"""
    kind = rng.choice(['random', 'random', 'random', 'sparse', 'all_to_one', 'one_to_all', 'empty', 'single',
                       'diagonal', 'empty_rank', 'big_one'])
    m = [[0] * np for _ in range(np)]
    if kind == 'random':
        hi = rng.choice([1, 2, cmax])
        m = [[rng.randint(0, hi) for _ in range(np)] for _ in range(np)]
    elif kind == 'sparse':
        for _ in range(rng.randint(1, np + 1)):
            m[rng.randrange(np)][rng.randrange(np)] = rng.randint(1, cmax)
    elif kind == 'all_to_one':
        d = rng.randrange(np)
        for s in range(np):
            m[s][d] = rng.randint(0, cmax)
    elif kind == 'one_to_all':
        s = rng.randrange(np)
        for d in range(np):
            m[s][d] = rng.randint(0, cmax)
    elif kind == 'single':
        m[rng.randrange(np)][rng.randrange(np)] = 1
    elif kind == 'diagonal':
        for s in range(np):
            m[s][s] = rng.randint(0, cmax)
    elif kind == 'empty_rank':
        m = [[rng.randint(0, cmax) for _ in range(np)] for _ in range(np)]
        e = rng.randrange(np)
        for k in range(np):
            m[e][k] = 0
            m[k][e] = 0
    elif kind == 'big_one':
        m[rng.randrange(np)][rng.randrange(np)] = 50
    return m


def count_vector(rng, np, cmax=50):
    kind = rng.choice(['random', 'random', 'one', 'empty', 'single', 'empty_rank', 'small'])
    if kind == 'random':
        return [rng.randint(0, cmax) for _ in range(np)]
    if kind == 'small':
        return [rng.randint(0, 2) for _ in range(np)]
    v = [0] * np
    if kind == 'one':
        v[rng.randrange(np)] = rng.randint(1, cmax)
    elif kind == 'single':
        v[rng.randrange(np)] = 1
    elif kind == 'empty_rank':
        v = [rng.randint(1, cmax) for _ in range(np)]
        v[rng.randrange(np)] = 0
    return v


def cmax_for(np, ldim, budget=9000):
    """largest per-pair count so that the line stays below `budget` value tokens"""
    return max(1, min(50, budget // (np * np * max(1, ldim))))


# ---------------------------------------------------------------------------------------------------------
# predicted guards of ref_mpi_alltoallv (independent arithmetic)
# ---------------------------------------------------------------------------------------------------------
def in_int(v):
    return INT_MIN <= v <= INT_MAX


def sizes_bad(ldim, sz):
    if any(c < 0 or not in_int(ldim * c) for c in sz):
        return True
    disp = 0
    for p in range(1, len(sz)):
        if not in_int(disp + ldim * sz[p - 1]):
            return True
        disp += ldim * sz[p - 1]
    return False


# ---------------------------------------------------------------------------------------------------------
# exchange stream: alltoall, alltoallv (MPI and native), blindsend, balance, find_destination
# ---------------------------------------------------------------------------------------------------------
def gen_alltoallv(rng, np, force=None):
    ty = pick_type(rng)
    native = rng.randint(0, 1)
    ldim = rng.choice([0, 1, 1, 2, 3, 4, 5, 6, 7])
    r = rng.random()
    maxtag = -1
    if r < 0.12:
        maxtag = np * np + rng.choice([-2, -1, 0, 1, 5])
        if maxtag < 0:
            maxtag = 0
    m = count_matrix(rng, np, cmax_for(np, ldim))
    groups = []
    for s in range(np):
        vals = []
        for d in range(np):
            for i in range(m[s][d]):
                for l in range(ldim):
                    vals.append(tok(ty, ((s * 53 + d) * 64 + i) * 8 + l))
        groups.append(m[s] + [':'] + vals)
    return line('alltoallv', np, [ty, native, maxtag, ldim], groups)


def gen_alltoallv_guard(rng, np):
    """every rank fails the overflow / sign guard before any MPI call (uniform matrix)"""
    ty = rng.choice(MOVE_TYPES + ['unk'])
    for _ in range(50):
        kind = rng.choice(['mult', 'disp', 'neg', 'edge'])
        if kind == 'mult':
            ldim, c = 1 << rng.randint(28, 30), rng.choice([2, 4, 8, 16])
        elif kind == 'disp':
            ldim, c = rng.choice([1 << 29, 1 << 28, (1 << 30) - 1, 715827883, 536870912]), rng.choice([1, 1, 2, 3])
        elif kind == 'neg':
            ldim, c = rng.randint(0, 7), -rng.randint(1, 3)
        else:
            ldim, c = rng.choice([INT_MAX, INT_MAX - 1, (INT_MAX // 2) + 1, INT_MAX // 2]), rng.choice([1, 2])
        if sizes_bad(ldim, [c] * np):
            return line('alltoallv', np, [ty, 0, -1, ldim], [[c] * np + [':'] for _ in range(np)])
    return line('alltoallv', np, [ty, 0, -1, 1], [[-1] * np + [':'] for _ in range(np)])


def gen_blindsend(rng, np):
    ty = pick_type(rng)
    native = rng.randint(0, 1)
    ldim = rng.randint(1, 7)
    maxtag = -1
    if rng.random() < 0.08:
        maxtag = max(0, np * np + rng.choice([-1, 0, 1]))
    counts = count_vector(rng, np, 50 if np * ldim <= 24 else max(2, 1200 // (np * ldim)))
    dkind = rng.choice(['random', 'random', 'to_one', 'round', 'self', 'sorted', 'reverse', 'two'])
    tgt = rng.randrange(np)
    two = [rng.randrange(np), rng.randrange(np)]
    groups = []
    for s in range(np):
        g = [counts[s]]
        ds = []
        for i in range(counts[s]):
            if dkind == 'random':
                d = rng.randrange(np)
            elif dkind == 'to_one':
                d = tgt
            elif dkind == 'round':
                d = (s + i) % np
            elif dkind == 'self':
                d = s
            elif dkind == 'two':
                d = rng.choice(two)
            else:
                d = rng.randrange(np)
            ds.append(d)
        if dkind == 'sorted':
            ds.sort()
        if dkind == 'reverse':
            ds.sort(reverse=True)
        for i, d in enumerate(ds):
            g.append(d)
            g += [tok(ty, (s * 64 + i) * 8 + l) for l in range(ldim)]
        groups.append(g)
    return line('blindsend', np, [ty, native, maxtag, ldim], groups)


def gen_balance(rng, np):
    ty = pick_type(rng)
    native = rng.randint(0, 1)
    ldim = rng.randint(1, 7)
    counts = count_vector(rng, np, 50 if np * ldim <= 24 else max(2, 1200 // (np * ldim)))
    r = rng.random()
    if r < 0.35:
        first, last = 0, np - 1
    elif r < 0.8:
        first = rng.randrange(np)
        last = rng.randrange(first, np)
    elif r < 0.88:
        first = last = rng.randrange(np)
    else:  # ranges the callers never pass: empty, or sticking out of [0, np)
        first, last = rng.choice([(1, 0), (np, np + 1), (-1, np - 1), (0, np), (-2, 0), (np - 1, 0)])
    groups = []
    for s in range(np):
        groups.append([counts[s]] + [tok(ty, (s * 64 + i) * 8 + l) for i in range(counts[s]) for l in range(ldim)])
    return line('balance', np, [ty, native, ldim, first, last], groups)


def gen_finddest(rng):
    n = rng.randint(1, 12)
    shares = [rng.choice([0, 0, 1, 2, rng.randint(0, 50)]) for _ in range(n)]
    tot = sum(shares)
    gid = rng.choice([0, tot - 1, tot, tot + 3, -1, rng.randint(0, max(0, tot))])
    return 'finddest %d %d %s' % (n, gid, ' '.join(map(str, shares)))


def gen_alltoall(rng, np):
    ty = pick_type(rng)
    return line('alltoall', np, [ty], [[tok(ty, s * 16 + d) for d in range(np)] for s in range(np)])


def gen_exchange(rng, tier, np):
    n = 36 if tier == 'quick' else 140
    ops = []
    # fixed corner cases first: a 3-rank style world with an empty rank, single item, everything to one
    ops.append(line('blindsend', np, ['int', 0, -1, 2],
                    [[2, (s + 1) % np, s * 10, s * 10 + 1, s, s * 10 + 2, s * 10 + 3] if s != 1 else [0]
                     for s in range(np)]))
    ops.append(line('balance', np, ['int', 0, 1, 0, np - 1], [[7, 1, 2, 3, 4, 5, 6, 7]] + [[0]] * (np - 1)))
    for _ in range(n):
        ops.append(gen_alltoallv(rng, np))
        ops.append(gen_blindsend(rng, np))
        ops.append(gen_balance(rng, np))
        if rng.random() < 0.25:
            ops.append(gen_alltoallv_guard(rng, np))
        if rng.random() < 0.2:
            ops.append(gen_alltoall(rng, np))
        if rng.random() < 0.5:
            ops.append(gen_finddest(rng))
        if rng.random() < 0.04:  # malformed share
            ops.append(rng.choice(['blindsend %d int 0 -1 1 | 1 %d 5' % (np, np), 'balance %d int 0 1 0' % np,
                                   'alltoallv %d int 0 -1 -1 | 0 :' % np, 'frobnicate %d | 1' % np,
                                   'blindsend %d int 0 -1 0 | 0' % np]))
    return ops


def parse_line(o):
    w = o.split()
    op, np = w[0], int(w[1])
    rest = w[2:]
    if '|' in rest:
        k = rest.index('|')
        hdr, body = rest[:k], rest[k:]
    else:
        hdr, body = rest, []
    groups, cur = [], None
    for t in body:
        if t == '|':
            if cur is not None:
                groups.append(cur)
            cur = []
        else:
            cur.append(t)
    if cur is not None:
        groups.append(cur)
    return op, np, hdr, groups


def split_res(r):
    return [x.split() for x in r.split(' | ')] if r not in ('bad-op', 'hang') else None


def expect_eq(bad, i, what, got, exp):
    if got != exp:
        bad.append((i, '%s: got %s expected %s' % (what, ' '.join(got)[:200], ' '.join(exp)[:200])))


def oracle_exchange(ops, impl):
    bad = []
    for i, (o, r) in enumerate(zip(ops, impl)):
        w = o.split()
        if w[0] == 'finddest':
            if r == 'bad-op':
                continue
            n, gid, shares = int(w[1]), int(w[2]), list(map(int, w[3:]))
            exp, acc = n - 1, 0
            for p in range(n):
                if gid < acc + shares[p]:
                    exp = p
                    break
                acc += shares[p]
            if int(r) != exp:
                bad.append((i, 'find_destination(%s, gid=%d) = %s, prefix-sum owner is %d' % (shares, gid, r, exp)))
            continue
        res = split_res(r)
        if res is None:
            continue
        op, np, hdr, groups = parse_line(o)
        if len(res) != np:
            bad.append((i, 'expected %d per-rank results' % np))
            continue
        if op == 'alltoall':
            if hdr[0] == 'unk':
                continue
            for q in range(np):
                expect_eq(bad, i, 'alltoall recv[%d]' % q, res[q], ['ok'] + [groups[s][q] for s in range(np)])
        elif op == 'alltoallv':
            ty, native, maxtag, ldim = hdr[0], int(hdr[1]), int(hdr[2]), int(hdr[3])
            m = [list(map(int, g[:np])) for g in groups]
            vals = [g[np + 1:] for g in groups]
            guard = any(sizes_bad(ldim, m[s]) or sizes_bad(ldim, [m[k][s] for k in range(np)]) for s in range(np))
            if ty == 'unk':
                exp_status = ['implement'] * np
            elif native and maxtag >= 0 and np * np > maxtag:
                exp_status = ['implement'] * np
            elif native and ty == 'byte':
                exp_status = ['implement' if any(m[s]) or any(m[k][s] for k in range(np)) else 'ok' for s in range(np)]
            elif guard:
                exp_status = ['failure'] * np
            else:
                exp_status = ['ok'] * np
            for q in range(np):
                if res[q][0] != exp_status[q]:
                    bad.append((i, 'alltoallv status of rank %d is %s, specification says %s' % (q, res[q][0], exp_status[q])))
                elif res[q][0] == 'ok':
                    exp = []
                    for s in range(np):
                        off = ldim * sum(m[s][:q])
                        exp += vals[s][off:off + ldim * m[s][q]]
                    expect_eq(bad, i, 'alltoallv recv[%d]' % q, res[q][1:], exp)
        elif op == 'blindsend':
            ty, ldim = hdr[0], int(hdr[3])
            native, maxtag = int(hdr[1]), int(hdr[2])
            if ty in ('byte', 'unk'):
                for q in range(np):
                    if res[q] != ['implement']:
                        bad.append((i, 'blindsend of an unsupported type did not return implement'))
                continue
            if native and maxtag >= 0 and np * np > maxtag and np > 1:
                for q in range(np):
                    if res[q] != ['implement']:
                        bad.append((i, 'native blindsend above the tag bound did not return implement'))
                continue
            exp = [[] for _ in range(np)]
            for s in range(np):
                g = groups[s]
                for k in range(int(g[0])):
                    base = 1 + k * (ldim + 1)
                    d = int(g[base]) if np > 1 else s
                    exp[d].append(g[base + 1:base + 1 + ldim])
            for q in range(np):
                flat = [x for it in exp[q] for x in it]
                expect_eq(bad, i, 'blindsend recv[%d]' % q, res[q], ['ok', str(len(exp[q]))] + flat)
        elif op == 'balance':
            ty, ldim, first, last = hdr[0], int(hdr[2]), int(hdr[3]), int(hdr[4])
            if ty in ('byte', 'unk'):
                for q in range(np):
                    if res[q] != ['implement']:
                        bad.append((i, 'balance of an unsupported type did not return implement'))
                continue
            if not (0 <= first <= last < np):
                continue  # outside the contract: only the model correspondence is checked
            items = []
            for s in range(np):
                g = groups[s]
                for k in range(int(g[0])):
                    items.append(g[1 + k * ldim:1 + (k + 1) * ldim])
            total, active = len(items), last - first + 1
            got = []
            shares = []
            for q in range(np):
                if res[q][0] != 'ok':
                    bad.append((i, 'balance status %s on rank %d' % (res[q][0], q)))
                    break
                nb = int(res[q][1])
                shares.append(nb)
                if len(res[q]) - 2 != nb * ldim:
                    bad.append((i, 'balance payload length on rank %d' % q))
                    break
                got += [res[q][2 + k * ldim:2 + (k + 1) * ldim] for k in range(nb)]
            else:
                if got != items:
                    bad.append((i, 'balance does not preserve the concatenation (order / payload)'))
                if sum(shares) != total:
                    bad.append((i, 'balance shares %s do not sum to %d' % (shares, total)))
                for q in range(np):
                    if (q < first or q > last) and shares[q] != 0:
                        bad.append((i, 'inactive rank %d received %d items' % (q, shares[q])))
                act = shares[first:last + 1]
                if max(act) - min(act) > 1:
                    bad.append((i, 'active shares %s differ by more than one' % act))
                exps = [total // active + (1 if k < total % active else 0) for k in range(active)]
                if act != exps:
                    bad.append((i, 'active shares %s, expected %s' % (act, exps)))
    return bad


# ---------------------------------------------------------------------------------------------------------
# gather / reduce stream
# ---------------------------------------------------------------------------------------------------------
def num_tok(ty, v):
    if ty == 'dbl':
        return dhex(v)
    if ty == 'byte':
        return str(v % 256)
    return str(v)


def gen_collect(rng, tier, np):
    n_rounds = 30 if tier == 'quick' else 120
    ops = []
    for _ in range(n_rounds):
        ty = pick_type(rng)
        ops.append(line('allgather', np, [ty], [[tok(ty, rng.randint(0, 9999))] for _ in range(np)]))
        ty = pick_type(rng)
        counts = count_vector(rng, np)
        ops.append(line('allgatherv', np, [ty], [[tok(ty, s * 64 + i) for i in range(counts[s])] for s in range(np)]))
        ty = rng.choice(['int', 'dbl', 'int', 'dbl', 'long', 'byte', 'unk'])
        ldim = rng.randint(1, 7)
        counts = count_vector(rng, np, 50 if np * ldim <= 24 else max(2, 1200 // (np * ldim)))
        ops.append(line('allconcat', np, [ty, ldim],
                        [[counts[s]] + [tok(ty, (s * 64 + i) * 8 + l) for i in range(counts[s]) for l in range(ldim)]
                         for s in range(np)]))
        # reductions: values small enough for exact sums in every type (doubles are integer valued)
        ty = rng.choice(['int', 'long', 'dbl', 'int', 'long', 'dbl', 'byte', 'unk'])
        n = rng.choice([0, 1, 1, 2, 5, 17, 41])
        lim = 10 if ty == 'byte' else (1 << 40 if ty in ('long', 'dbl') and rng.random() < 0.3 else 100000)
        lo = 0 if ty == 'byte' else -lim
        vals = [[rng.randint(lo, lim) for _ in range(n)] for _ in range(np)]
        op = rng.choice(['sum', 'allsum'])
        ops.append(line(op, np, [ty, n], [[num_tok(ty, v) for v in row] for row in vals]))
        ty = rng.choice(['int', 'dbl', 'long', 'byte', 'int', 'dbl', 'unk'])
        lo = 0 if ty == 'byte' else -1000
        pool = [rng.randint(lo, 200) for _ in range(3)]
        ops.append(line(rng.choice(['min', 'max']), np, [ty],
                        [[num_tok(ty, rng.choice(pool + [rng.randint(lo, 200)]))] for _ in range(np)]))
        n = rng.choice([0, 1, 2, 6, 11, 40])
        pool = [rng.randint(-50, 50) + 0.25 for _ in range(2)]
        ops.append(line('allminwho', np, [n], [[dhex(rng.choice(pool + [rng.randint(-50, 50) + 0.25])) for _ in range(n)]
                                                for _ in range(np)]))
        ty = pick_type(rng)
        n = rng.randint(0, 6)
        ops.append(line('bcast', np, [ty, n], [[tok(ty, s * 64 + i) for i in range(n + rng.randint(0, 3))]
                                               for s in range(np)]))
        ty = pick_type(rng)
        counts = count_vector(rng, np, 20)
        ops.append(line(rng.choice(['scatter', 'gather']), np, [ty],
                        [[tok(ty, s * 64 + i) for i in range(counts[s])] for s in range(np)]))
    return ops


def oracle_collect(ops, impl):
    bad = []
    for i, (o, r) in enumerate(zip(ops, impl)):
        res = split_res(r)
        if res is None:
            continue
        op, np, hdr, groups = parse_line(o)
        if len(res) != np:
            bad.append((i, 'expected %d per-rank results' % np))
            continue
        ty = hdr[0]
        oks = all(x[0] == 'ok' for x in res)
        if op == 'allgather':
            ok_ty = ty in MOVE_TYPES or (np > 1 and ty == 'byte')
            for q in range(np):
                exp = ['ok'] + [g[0] for g in groups] if ok_ty else ['implement']
                expect_eq(bad, i, 'allgather[%d]' % q, res[q], exp)
        elif op == 'allgatherv':
            ok_ty = ty in MOVE_TYPES or (np > 1 and ty == 'byte')
            for q in range(np):
                exp = ['ok'] + [x for g in groups for x in g] if ok_ty else ['implement']
                expect_eq(bad, i, 'allgatherv[%d]' % q, res[q], exp)
        elif op == 'allconcat':
            ldim = int(hdr[1])
            if ty not in ('int', 'dbl'):
                for q in range(np):
                    expect_eq(bad, i, 'allconcat[%d]' % q, res[q], ['implement'])
                continue
            counts = [int(g[0]) for g in groups]
            src = [str(p) for p in range(np) for _ in range(counts[p])]
            exp = ['ok', str(sum(counts))] + src + [';'] + [x for g in groups for x in g[1:]]
            for q in range(np):
                expect_eq(bad, i, 'allconcat[%d]' % q, res[q], exp)
        elif op in ('sum', 'allsum'):
            n = int(hdr[1])
            ok_ty = ty in MOVE_TYPES or (op == 'sum' and np > 1 and ty == 'byte')
            if not ok_ty:
                for q in range(np):
                    expect_eq(bad, i, '%s[%d]' % (op, q), res[q], ['implement'])
                continue
            if ty == 'dbl':
                tot = [dhex(sum(hexd(g[k]) for g in groups)) for k in range(n)]
            elif ty == 'byte':
                tot = [str(sum(int(g[k]) for g in groups) % 256) for k in range(n)]
            else:
                tot = [str(sum(int(g[k]) for g in groups)) for k in range(n)]
            for q in range(np):
                exp = ['ok'] + (tot if (q == 0 or op == 'allsum') else [zero(ty)] * n)
                expect_eq(bad, i, '%s[%d]' % (op, q), res[q], exp)
        elif op in ('min', 'max'):
            ok_ty = ty in ('int', 'dbl') or (np > 1 and ty in ('long', 'byte'))
            if not ok_ty:
                for q in range(np):
                    expect_eq(bad, i, '%s[%d]' % (op, q), res[q], ['implement'])
                continue
            f = min if op == 'min' else max
            if ty == 'dbl':
                v = dhex(f(hexd(g[0]) for g in groups))
            else:
                v = str(f(int(g[0]) for g in groups))
            for q in range(np):
                expect_eq(bad, i, '%s[%d]' % (op, q), res[q], ['ok', v if q == 0 else zero(ty)])
        elif op == 'allminwho':
            n = int(hdr[0])
            vals = [[hexd(x) for x in g] for g in groups]
            mv, mw = [], []
            for k in range(n):
                col = [vals[s][k] for s in range(np)]
                mv.append(dhex(min(col)))
                mw.append(str(col.index(min(col))))
            for q in range(np):
                expect_eq(bad, i, 'allminwho[%d]' % q, res[q], ['ok'] + mv + [';'] + mw)
        elif op == 'bcast':
            n = int(hdr[1])
            if np > 1 and ty == 'unk':
                for q in range(np):
                    expect_eq(bad, i, 'bcast[%d]' % q, res[q], ['implement'])
                continue
            for q in range(np):
                expect_eq(bad, i, 'bcast[%d]' % q, res[q], ['ok'] + groups[0][:n] + groups[q][n:])
        elif op == 'scatter':
            if ty == 'unk' and np > 1:
                continue
            for q in range(np):
                expect_eq(bad, i, 'scatter[%d]' % q, res[q], ['ok'] + groups[q])
        elif op == 'gather':
            if ty == 'unk' and np > 1:
                continue
            expect_eq(bad, i, 'gather[0]', res[0], ['ok'] + [x for g in groups for x in g])
    return bad


# ---------------------------------------------------------------------------------------------------------
# selection stream
# ---------------------------------------------------------------------------------------------------------
def gen_selection(rng, tier, np):
    n_cases = 40 if tier == 'quick' else 200
    ops = []
    for _ in range(n_cases):
        counts = count_vector(rng, np)
        kind = rng.choice(['ints', 'reals', 'dups', 'neg', 'wide'])
        vals = []
        for s in range(np):
            row = []
            for _ in range(counts[s]):
                if kind == 'ints':
                    x = float(rng.randint(0, 100))
                elif kind == 'reals':
                    x = rng.uniform(-10.0, 10.0)
                elif kind == 'dups':
                    x = float(rng.choice([1, 2, 2, 2, 3]))
                elif kind == 'neg':
                    x = -rng.uniform(0.5, 1000.0)
                else:
                    x = rng.uniform(-1.0, 1.0) * 10.0 ** rng.randint(-5, 12)
                row.append(x)
            vals.append(row)
        total = sum(counts)
        for pos in sorted({0, total - 1, total // 2, rng.randint(0, max(0, total)), rng.randint(-2, total + 2), 1,
                           total - 2}):
            ops.append(line('selection', np, [pos], [[dhex(x) for x in row] for row in vals]))
    return ops


def oracle_selection(ops, impl):
    bad = []
    for i, (o, r) in enumerate(zip(ops, impl)):
        res = split_res(r)
        if res is None:
            continue
        op, np, hdr, groups = parse_line(o)
        pos = int(hdr[0])
        xs = sorted(hexd(x) for g in groups for x in g)
        n = len(xs)
        if any(x[0] != 'ok' for x in res) or len({tuple(x) for x in res}) != 1:
            bad.append((i, 'selection: ranks disagree or a rank failed: %s' % r[:200]))
            continue
        v = hexd(res[0][1])
        lo = min(xs + [1.0e200])
        hi = max(xs + [-1.0e200])
        if pos <= 0:
            if v != lo:
                bad.append((i, 'selection(position<=0) = %r, minimum is %r' % (v, lo)))
        elif pos >= n - 1:
            if v != hi:
                bad.append((i, 'selection(position>=N-1) = %r, maximum is %r' % (v, hi)))
        else:
            kth = xs[pos]
            tol = (hi - lo) * 2.0 ** -39 + 1e-12 * max(abs(lo), abs(hi))
            if abs(v - kth) > tol:
                bad.append((i, 'selection(%d) = %r, k-th element is %r (tolerance %g)' % (pos, v, kth, tol)))
    return bad


NP_QUICK = [1, 2, 3, 4, 5, 8]
NP_MORE = [6, 7, 9, 10, 11, 12]


def _nontrivial(op, out):
    return out not in ('bad-op', 'hang') and 'ok ' in out


def _mk(name, gen, oracle, nps, thorough_only=False):
    s = Stream(name, 'h_comm', 'comm', gen, oracle=oracle, np=nps, whitebox=('ref_mpi',), timeout=240,
               nontrivial=_nontrivial, session='\x00none', batches={'quick': 1, 'thorough': 3})
    s.thorough_only = thorough_only
    s.ops_file = True  # see run_impl in common.py: mpiexec's stdin forwarding is unreliable for large inputs
    return s


EXCHANGE = _mk('comm_exchange', gen_exchange, oracle_exchange, NP_QUICK)
COLLECT = _mk('comm_collect', gen_collect, oracle_collect, NP_QUICK)
SELECTION = _mk('comm_selection', gen_selection, oracle_selection, NP_QUICK)
EXCHANGE_MORE = _mk('comm_exchange_more', gen_exchange, oracle_exchange, NP_MORE, True)
COLLECT_MORE = _mk('comm_collect_more', gen_collect, oracle_collect, NP_MORE, True)
SELECTION_MORE = _mk('comm_selection_more', gen_selection, oracle_selection, NP_MORE, True)
STREAMS = [EXCHANGE, COLLECT, SELECTION, EXCHANGE_MORE, COLLECT_MORE, SELECTION_MORE]
