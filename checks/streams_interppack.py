"""streams `interppack_pack` (diff + oracle) / `interppack_gridpack` (oracle): the donor records of ref_interp follow their
vertices through ref_node_pack + ref_interp_pack (harness h_interppack.c, driver `refdrv interppack`).

Every op is one stateless `pack ...` line (see the harness header).  Generated patterns: nothing dead, everything dead,
holes at the start / end / middle / random, recycled slots (deletions followed by additions: LIFO free list), a brick
with exactly n = max = 20 vertices (2x2x5), additions that outgrow the interp arrays (the `oob` guard), interp arrays
resized below / above the vertex count, ghosts (owned-first renumbering of ref_node_compact: a NON-monotone map), hired
agents (REIS failure), ref_interp_remove'd and stale records of deleted vertices."""
from .common import Stream

BRICKS = [(2, 2, 2), (2, 2, 3), (3, 2, 2), (2, 3, 3), (2, 2, 5), (5, 2, 2), (3, 3, 3), (4, 3, 2)]


def one_op(rng, modes, allow_bad=True):
    l, m, n = rng.choice(BRICKS)
    N = l * m * n
    mode = rng.choice(modes)
    seed = rng.randint(0, 9)
    rm = rng.randint(0, 1)
    pat = rng.choice(['none', 'start', 'end', 'middle', 'random', 'random', 'all', 'most'])
    if pat == 'none':
        kills = []
    elif pat == 'start':
        kills = list(range(rng.randint(1, N // 2)))
    elif pat == 'end':
        kills = list(range(N - rng.randint(1, N // 2), N))
    elif pat == 'middle':
        a = rng.randint(1, N - 2)
        kills = list(range(a, min(N - 1, a + rng.randint(1, N // 2))))
    elif pat == 'all':
        kills = list(range(N))
    elif pat == 'most':
        kills = rng.sample(range(N), N - rng.randint(1, 2))
    else:
        kills = rng.sample(range(N), rng.randint(1, N - 1))
    if rng.random() < 0.5:
        rng.shuffle(kills)
    adds = []
    r = rng.random()
    if r < 0.45:
        na = rng.randint(1, max(1, len(kills)))              # recycle slots only
        adds = rng.sample(range(N, N + 60), na)
    elif r < 0.55:
        na = len(kills) + rng.randint(1, 4)                  # outgrow the brick (n > max when N = 20: oob)
        adds = rng.sample(range(N, N + 80), na)
    resize = 0
    if rng.random() < 0.2:
        nlive = N - len(kills) + len(adds)
        resize = max(1, rng.choice([nlive, nlive + 1, nlive - 1, 20, 21, 40, N, N + 7]))
    # slots that are live after the edits: the brick slots not killed + recycled ones (LIFO) - approximated by the set
    # of brick slots (an invalid ghost slot gives `bad-op`, which is a legal, compared outcome)
    live = [v for v in range(N) if v not in kills]
    recycled = list(reversed(kills))[:len(adds)]
    ghosts = []
    if mode in ('compact',) or rng.random() < 0.2:
        pool = live + recycled
        if pool and rng.random() < 0.85:
            ghosts = rng.sample(pool, rng.randint(1, len(pool)))
    hired = []
    if rng.random() < 0.08:
        hired = [rng.randint(0, 19)]
    if allow_bad and rng.random() < 0.03:
        ghosts = ghosts + [N + 3]                            # malformed share: invalid slot
    def L(xs):
        return '%d %s' % (len(xs), ' '.join(str(x) for x in xs)) if xs else '0'
    return 'pack %s %d %d %d %d %d %d %s %s %s %s' % (mode, l, m, n, seed, rm, resize, L(kills), L(adds), L(ghosts), L(hired))


def gen_pack(rng, tier):
    k = 140 if tier == 'quick' else 700
    ops = [
        'pack stable 2 2 2 1 0 0 0 0 0 0',
        'pack compact 2 2 5 2 1 0 2 0 19 2 77 78 3 1 19 5 0',
        'pack stable 2 2 5 3 0 0 20 ' + ' '.join(str(i) for i in range(20)) + ' 0 0 0',
        'pack stable 2 2 5 1 0 0 2 3 4 3 50 51 52 0 0',
    ]
    ops += [one_op(rng, ['stable', 'compact']) for _ in range(k)]
    return ops


def gen_grid(rng, tier):
    k = 60 if tier == 'quick' else 300
    ops = ['pack grid 2 2 3 2 0 0 2 3 4 0 0 0', 'pack gstable 2 2 3 2 1 0 2 3 4 1 50 0 0']
    ops += [one_op(rng, ['grid', 'gstable', 'grid', 'stable', 'compact'], allow_bad=False) for _ in range(k)]
    return ops


def parse(line):
    """-> (status, n, max, pre, post, dead); pre/post: list of (g, xyz(3 words), rec(6 words))"""
    w = line.split()
    st, n, mx = w[0], int(w[2]), int(w[4])
    if st != 'ok':
        return st, n, mx, None, None, None
    i = 5
    tabs = []
    for tag in ('pre', 'post'):
        assert w[i] == tag, line[:80]
        c = int(w[i + 1])
        i += 2
        rows = []
        for _ in range(c):
            rows.append((int(w[i]), tuple(w[i + 1:i + 4]), tuple(w[i + 4:i + 10])))
            i += 10
        tabs.append(rows)
    assert w[i] == 'dead'
    return st, n, mx, tabs[0], tabs[1], int(w[i + 1])


def oracle(ops, impl):
    """the property, on the implementation's own output: the record travels with its VERTEX (identified by its
    position; in the modes that do not renumber globals also by its global id); reset beyond n"""
    bad = []
    for i, (op, line) in enumerate(zip(ops, impl)):
        if not line.startswith('ok '):
            continue
        try:
            st, n, mx, pre, post, dead = parse(line)
        except Exception as e:  # malformed harness line
            bad.append((i, 'unparsable harness line: %s' % e))
            continue
        mode = op.split()[1]
        a = {r[1]: r[2] for r in pre}
        b = {r[1]: r[2] for r in post}
        if len(a) != len(pre) or len(b) != len(post):
            bad.append((i, 'two vertices share a position: generator defect'))
            continue
        if set(a) != set(b) or len(post) != n:
            bad.append((i, 'the pack changed the set of vertices'))
            continue
        for x in a:
            if a[x] != b[x]:
                bad.append((i, 'vertex at %s carried donor record %s before the pack and %s after it '
                               '(ref_interp_pack mis-aligned cell/part/bary with the vertex)' % (' '.join(x), ' '.join(a[x]), ' '.join(b[x]))))
                break
        if mode in ('stable', 'compact'):
            ga = {r[0]: r[2] for r in pre}
            gb = {r[0]: r[2] for r in post}
            if ga != gb:
                bad.append((i, 'record by global id changed across ref_node_pack + ref_interp_pack'))
        if dead != 0:
            bad.append((i, '%d slots beyond n keep a donor record (cell/part not REF_EMPTY) after ref_interp_pack' % dead))
    return bad


def nontrivial(op, out):
    return out.startswith('ok ') and ' pre 0 ' not in out


PACK = Stream('interppack_pack', 'h_interppack', 'interppack', gen_pack, oracle=oracle, kind='diff', session='pack',
              nontrivial=nontrivial, timeout=900)
GRIDPACK = Stream('interppack_gridpack', 'h_interppack', None, gen_grid, oracle=oracle, kind='oracle', session='pack',
                  nontrivial=nontrivial, timeout=900)



# ------------------------------------------------------------------ ref_interp_from_part on distributed grids (MPI, oracle)
FP_BRICKS = [(2, 2, 2), (3, 2, 2), (3, 3, 2), (3, 3, 3), (4, 3, 3), (5, 4, 3)]


def part_array(rng, np, l, m, n, prev):
    N = l * m * n
    kind = rng.choice(['random', 'random', 'one', 'slab', 'same', 'rotate', 'few'])
    if kind == 'one':
        r = rng.randrange(np)
        return [r] * N
    if kind == 'slab':
        per = (N + np - 1) // np
        off = rng.randrange(np)
        return [((g // per) + off) % np for g in range(N)]
    if kind == 'same' and prev is not None:
        return list(prev)
    if kind == 'rotate' and prev is not None:
        return [(p + 1) % np for p in prev]
    if kind == 'few':
        base = rng.randrange(np)
        a = [base] * N
        for g in rng.sample(range(N), min(N, rng.randint(1, 3))):
            a[g] = rng.randrange(np)
        return a
    return [rng.randrange(np) for _ in range(N)]


def gen_frompart(rng, tier, np):
    ops = []
    for k in range(10 if tier == 'quick' else 50):
        l, m, n = rng.choice(FP_BRICKS[:5] if tier == 'quick' else FP_BRICKS)
        R = rng.randint(1, 3)
        arrays, prev = [], None
        for r in range(R + 1):
            prev = part_array(rng, np, l, m, n, prev)
            arrays += prev
        ops.append('frompart %d %d %d %d %d %s' % (np, l, m, n, R, ' '.join(str(p) for p in arrays)))
    return ops


def fp_groups(line):
    w = line.split()
    R = int(w[1])
    i = 2
    groups = []
    for _ in range(R + 1):
        assert w[i] == 'D'
        c = int(w[i + 1])
        i += 2
        recs = {}
        for _ in range(c):
            g, p = int(w[i]), int(w[i + 1])
            d = [int(x) for x in w[i + 2:i + 6]]
            b = w[i + 6:i + 10]
            if g in recs:
                raise ValueError('vertex %d owned twice' % g)
            recs[g] = (p, d, b)
            i += 10
        assert w[i] == 'U'
        u = int(w[i + 1])
        un = [int(x) for x in w[i + 2:i + 2 + u]]
        i += 2 + u
        groups.append((recs, un))
    return groups


def hexf(s):
    import struct
    return struct.unpack('>d', bytes.fromhex(s))[0]


def oracle_frompart(ops, impl):
    """records follow their vertices: after every ref_interp_from_part every vertex is owned once, has a record, the
    record names - by GLOBAL donor vertex ids, as stored by the rank the record points to - the same donor cell with the
    same weights as before, and the weights reproduce the vertex position from the donor positions"""
    bad = []
    for i, (op, line) in enumerate(zip(ops, impl)):
        if line.startswith('bad-op'):
            continue
        if not line.startswith('ok '):
            bad.append((i, 'ref_interp_from_part run failed: %s' % line[:80]))
            continue
        w = op.split()
        l, m, n = int(w[2]), int(w[3]), int(w[4])
        N = l * m * n

        def xyz(g):
            return ((g % l) / (l - 1.0), ((g // l) % m) / (m - 1.0), (g // (l * m)) / (n - 1.0))
        try:
            groups = fp_groups(line)
        except Exception as e:
            bad.append((i, 'unparsable harness line: %s' % e))
            continue
        ref = None
        for r, (recs, un) in enumerate(groups):
            where = 'after caching' if r == 0 else 'after round %d' % r
            if un or sorted(recs) != list(range(N)):
                bad.append((i, '%s: vertices without a donor record %s (owned vertices with a record: %d of %d)' % (where, un[:5], len(recs), N)))
                break
            msg = None
            for g in range(N):
                p, d, b = recs[g]
                if min(d) < 0:
                    msg = '%s: vertex %d points to cell of rank %d that is not a valid donor cell there' % (where, g, p)
                    break
                bw = [hexf(x) for x in b]
                x = xyz(g)
                y = [sum(bw[k] * xyz(d[k])[c] for k in range(4)) for c in range(3)]
                if abs(sum(bw) - 1.0) > 1e-12 or max(abs(x[c] - y[c]) for c in range(3)) > 1e-12:
                    msg = ('%s: vertex %d at %s carries donor vertices %s with weights %s, which is position %s: '
                           'the record belongs to another vertex' % (where, g, x, d, bw, y))
                    break
            if msg:
                bad.append((i, msg))
                break
            key = {g: tuple(sorted(zip(recs[g][1], recs[g][2]))) for g in range(N)}
            if ref is None:
                ref = key
            elif key != ref:
                g = [g for g in range(N) if key[g] != ref[g]][0]
                bad.append((i, '%s: the record of vertex %d changed from %s to %s' % (where, g, ref[g], key[g])))
                break
    return bad


FROMPART = Stream('interp_from_part_mpi', 'h_interpfrompart', None, gen_frompart, oracle=oracle_frompart, kind='oracle',
                  np=[1, 2, 3], session='frompart', nontrivial=lambda op, out: out.startswith('ok '), timeout=900)
FROMPART.ops_file = True

STREAMS = [PACK, GRIDPACK, FROMPART]
