from . import streams_comm

ID = 'C17'
PROPS_MODULE = ['Refine.Props.C17']
STREAMS = streams_comm.STREAMS
EXPLANATION = ('TODO')
ASSUMPTIONS = ['TODO']
