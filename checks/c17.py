"""C17 — communication primitives deliver every item exactly once (DESIGN.md section 6, L2 Comm)."""
from . import streams_comm

ID = 'C17'
PROPS_MODULE = ['Refine.Props.C17']
STREAMS = streams_comm.STREAMS
EXPLANATION = (
    'Proved in Lean 4 about the executable SPMD model Refine.Model.Comm (World = list indexed by rank), for every '
    'rank count >= 1 and every count vector including zeros: ref_mpi_alltoallv delivers each block to its '
    'addressee in source-rank order (alltoallv_spec) and the tagged native variant gives the same answer '
    '(alltoallv_native_spec, alltoallv_native_eq_mpi, native_tag_scheme); its int-overflow guards fail exactly on a '
    'negative size, a product or a formed partial sum outside [INT_MIN, INT_MAX] (alltoallv_size_guard, '
    'alltoallv_disp_guard); the bucket pack of ref_mpi_blindsend writes every slot, is a stable permutation '
    '(bucket_pack_layout, bucket_pack_perm); blindsend delivers each item once, with its full ldim payload, to the '
    'rank named for it and nowhere else (blindsend_spec, blindsend_exactly_once); find_destination and '
    'ref_mpi_balance preserve the concatenation in order, give inactive ranks nothing, active ranks differ by at '
    'most one, shares sum to the total (find_destination_spec, balance_spec); allgather/allgatherv/allconcat/bcast '
    'equal the sequential concatenation (allgather_spec, allgatherv_spec, allconcat_spec, bcast_spec), the rank-0 '
    'scatter/gather loops deliver every chunk (scatter_spec, gather_spec); integer '
    'allsum/min/max and MINLOC (lowest rank on ties) equal the sequential result (allsum_spec, min_spec, max_spec, '
    'allminwho_spec); the 40-step bisection of ref_search_selection brackets every k-th element and returns a '
    'value within (max-min)/2^40 of it in exact arithmetic (selection_bracket, selection_value, selection_ends). '
    'The model is tied to the compiled C by differential execution under mpiexec at np in {1,2,3,4,5,8} '
    '(6..12 in the thorough tier): the same op line (arguments of all ranks) is run through the real ref_mpi '
    'function on every rank and through the Lean model; output lines must be identical, and independently the '
    'python oracle checks the sequential specification on the implementation output.')
ASSUMPTIONS = [
    'MPI semantics is trusted, not verified: MPI_Alltoall/Alltoallv/Allgather/Allgatherv/Bcast/Reduce/Allreduce '
    '(MINLOC) and tagged point-to-point matching by (source, tag, communicator) are specified in the model '
    '(mpiAlltoallv, p2pExchange, mpiReduce, ...) as Open MPI 4.1.4 is observed to behave; deadlock-freedom of the '
    'blocking rank-0 scatter/gather loops is not modelled (only the matching is)',
    'floating-point reductions are combined in an order MPI chooses: only integer sums (and doubles holding '
    'integers, where every order is exact) are claimed and compared; min/max/MINLOC are compared without NaN and '
    'without mixed signed zeros',
    'theorems about ref_search_selection hold in exact arithmetic (alpha := real numbers); IEEE rounding is '
    'modelled (Float instance, bit-compared with the C), not verified',
    'integer width: counts, offsets and sums are unbounded Int/Nat in the model; the int-overflow guards of '
    'ref_mpi_alltoallv are modelled and characterised, other C int arithmetic (a_total, ldim*a_total, tags, '
    'ref_mpi_allsum of counts) is assumed not to wrap - the streams stay far below 2^31',
    'a rank that returns an error before a collective while others enter it blocks the others: the model returns '
    '`none` (printed `hang`) and the harness refuses to run such an op instead of hanging; the native variant with '
    'negative or overflowing sizes is undefined behaviour in C and rejected as bad-op on both sides',
    'the MPI harness is compiled with -fsanitize=address,undefined like the serial ones (leak detection off); the '
    'harness redirects refine\'s diagnostic printf output to /dev/null',
]
