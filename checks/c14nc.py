"""stand-alone spec for the `nodecell` work package (C14 part B + the id clause of C13); the integrator appends
streams_nodecell.STREAMS and 'Refine.Props.C14NodeCell' to checks/c14.py"""
from . import streams_nodecell

ID = 'C14'
PROPS_MODULE = ['Refine.Props.C14NodeCell']
STREAMS = list(streams_nodecell.STREAMS)
EXPLANATION = ('Proved for the executable models of ref_node.c (global[] free list, sorted_global/sorted_local, unused '
               'pool) and ref_cell.c (c2n free list, embedded adjacency): the invariants hold initially and are '
               'preserved by every operation; add/remove/local/next_global refine a finite map global->slot plus an id '
               'pool; a trial vertex that is added with next_global and removed again leaves the abstract state '
               'unchanged; the derived adjacency is exactly {live cells containing v} as a multiset; with() finds a '
               'live cell with the same vertex set iff one exists; replace_node terminates and equals substitution.')
ASSUMPTIONS = ['heap, pointers, realloc and 32-bit integer width are modelled with unbounded Nat/Int lists, not verified',
               'the item array / item free list inside ref_adj.c is abstracted to per-node lists in iteration order '
               '(its own refinement is C14 part A)',
               'a failed ref_node_add_many leaves uninitialised sorted_* entries; harness and driver both rebuild '
               'before anything is observed']
