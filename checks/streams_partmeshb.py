"""Correspondence streams for the PARALLEL libMeshb reader ref_part_by_extension -> ref_part_meshb
(C20 / C08 / C06; model Refine/Model/PartMeshb.lean, harness harness/h_partmeshb.c, driver `refdrv partmeshb`).

  partmeshb_read   np 1..5   valid files from the independent writer checks/meshio_ref.py (versions 2/3/4, 2-D and
                             3-D, tets+tris+edges, prisms+quads, pyramids/hexes/high-order soups, geometry records,
                             CAD bytes, cells whose FIRST vertex is the last vertex, more ranks than vertices, ranks
                             that end up with no cell, files with duplicate cells)
  partmeshb_c20    np 1..3   the malformed share: vertex index 0, -1, nnode+1 (exactly one past), nnode+2, 2^31-1,
                             2^32+1 (v4) in the first / a later position of tet / tri / edge records, counts larger
                             and smaller than the file (2^31-1, 2^32, 2^32+k, -1, one above what the file holds), truncation at record boundaries, dimension / version /
                             next-position substitutions, bit flips
  partmeshb_chunk  np 2,3(,4,5)  one generated edge file with more records than the read chunk (1000000) of
                             ref_part_meshb_cell, marker cells on both sides of every chunk boundary

One op line -> one line from the C (status, or `ok | rank dump | ...`, see the harness) -> the same line from the
model.  The oracle states the properties directly on the C's line, from an independent parse of the file.

When rank 0 returns an error from a rank-0-only section of the reader the other ranks are blocked in a receive; the
harness then prints the status and calls MPI_Abort(77).  The runner below relaunches the harness on the remaining ops.
"""
import os
import random
import struct
import subprocess

from . import common, meshgen
from . import meshio_ref as M
from .common import Stream

CHUNK = 1000000  # the constant of ref_part_meshb_cell (Refine.Model.PartMeshb.chunkConst)
GROUPS = ['edg', 'ed2', 'ed3', 'tri', 'tr2', 'tr3', 'qua', 'qu2', 'tet', 'pyr', 'pri', 'hex', 'te2', 'py2', 'pr2', 'he2']
NODE_PER = {'edg': 2, 'ed2': 3, 'ed3': 4, 'tri': 3, 'tr2': 6, 'tr3': 10, 'qua': 4, 'qu2': 9, 'tet': 4, 'pyr': 5,
            'pri': 6, 'hex': 8, 'te2': 10, 'py2': 14, 'pr2': 18, 'he2': 27}
HAS_ID = {'edg', 'ed2', 'ed3', 'tri', 'tr2', 'tr3', 'qua', 'qu2'}
PYR_FILE = [0, 3, 4, 1, 2]  # libMeshb pyramid (base 0-1-2-3, apex 4) <-> refine's numbering (an involution)
STATUS = {'failure', 'null', 'invalid', 'div_zero', 'not_found', 'implement', 'increase_limit', 'ill_conditioned'}


# ------------------------------------------------------------------ runner
_BUILD = Stream('partmeshb_build', 'h_partmeshb', 'partmeshb', gen=None, np=[1], whitebox=['ref_part'])


def pm_harness(ctx, stream, ops, np):
    exe = common.build_harness(ctx, _BUILD)
    env = dict(os.environ)
    env['MALLOC_PERTURB_'] = str(1 + (ctx.seed * 37 + 11) % 254)
    env['ASAN_OPTIONS'] = 'detect_leaks=0:abort_on_error=0:exitcode=99'
    env['UBSAN_OPTIONS'] = 'print_stacktrace=1:halt_on_error=1:exitcode=98'
    env['OMPI_MCA_rmaps_base_oversubscribe'] = '1'
    env['OMPI_MCA_mpi_yield_when_idle'] = '1'
    todo = common.real_ops(ops)
    lines = []
    tag = '%s_%d_%d' % (stream.name, os.getpid(), np or 0)
    launches = 0
    retries = 0
    while todo:
        launches += 1
        opath = os.path.join(ctx.build, 'ops_%s.txt' % tag)
        rpath = os.path.join(ctx.build, 'res_%s.txt' % tag)
        with open(opath, 'w') as f:
            f.write('\n'.join(todo) + '\n')
        if os.path.exists(rpath):
            os.remove(rpath)
        cmd = ['mpiexec', '--allow-run-as-root', '--oversubscribe', '-n', str(np or 1), exe, '--ops', opath,
               '--out', rpath]
        try:
            p = subprocess.run(cmd, stdin=subprocess.DEVNULL, capture_output=True, text=True, timeout=stream.timeout,
                               env=env, cwd=ctx.build)
            rc, err = p.returncode, p.stderr[-4000:]
        except subprocess.TimeoutExpired:
            rc, err = -9, 'TIMEOUT after %ss' % stream.timeout
        got = open(rpath).read().splitlines() if os.path.exists(rpath) else []
        lines += got
        if rc == 0:
            if len(got) != len(todo):
                return 1, lines, 'harness ended early: %d lines for %d ops\n%s' % (len(got), len(todo), err)
            break
        # rank 0 reported an error status and ended the job (MPI_Abort(77)): the last line is that status.  On np > 1 a
        # status line can only be the last line of a launch; Open MPI 4.1.4's mpiexec sometimes dies itself (SIGSEGV in
        # its PMIx server) while it tears the job down, so the exit status of mpiexec is not required to be 77.
        aborted = bool(got) and (got[-1] in STATUS or got[-1].startswith('orient-')) and len(got) <= len(todo)
        if aborted and (rc == 77 or ((np or 1) > 1 and rc not in (98, 99, -9))):
            todo = todo[len(got):]
            retries = 0
            continue
        if not got and rc not in (98, 99, -9) and retries < 2 and 'runtime error' not in err and 'Sanitizer' not in err:
            retries += 1  # the launcher died before the harness produced a line: try again
            continue
        return rc, lines, err
    return 0, lines, ''


# ------------------------------------------------------------------ the implicit block partition (independent)
def part_first(N, np, p):
    large = (N + np - 1) // np
    small = (N - 1) // np
    nlarge = N - np * small
    return p * large if p < nlarge else (p - nlarge) * small + nlarge * large


def implicit(N, np, g):
    for p in range(np):
        if part_first(N, np, p) <= g < part_first(N, np, p + 1):
            return p
    return None


# ------------------------------------------------------------------ meshes
def dbits(x):
    return struct.pack('<d', x)


def to_bytes(mesh, version, ret_writer=False):
    """mesh: dim, verts [(x,y,z)], cells {name: [(n0.., id)]} 0-based refine numbering, geoms {t: [(node0, id, [p], gref)]},
    cad bytes.  File convention: 1-based, pyramids in libMeshb order, volume cells with reference 0."""
    w = M.Writer(version)
    dim = mesh['dim']
    w.dimension(dim)
    w.vertices(dim, [tuple(dbits(c) for c in v[:dim]) for v in mesh['verts']], ref=mesh.get('vref', 1))
    for name in GROUPS:
        cs = mesh['cells'].get(name)
        if not cs:
            continue
        rows = []
        for c in cs:
            nodes = list(c[:NODE_PER[name]])
            ref = c[NODE_PER[name]] if name in HAS_ID else 0
            if name == 'pyr':
                nodes = [nodes[i] for i in PYR_FILE]
            rows.append(tuple(n + 1 for n in nodes) + (ref,))
        w.elements(name, rows)
    for t in (0, 1, 2):
        gs = mesh.get('geoms', {}).get(t)
        if gs:
            w.geometry(t, [(g[0] + 1, g[1], [dbits(p) for p in g[2]], float(g[3])) for g in gs])
    if mesh.get('cad'):
        w.byteflow(mesh['cad'])
    b = w.finish()
    return (b, w) if ret_writer else b


def rand_geoms(rng, nnode, n):
    geoms = {0: [], 1: [], 2: []}
    for _ in range(n):
        t = rng.randint(0, 2)
        node = rng.randrange(nnode)
        gid = rng.choice([1, 2, 3, 7, 40, -3, 2000000000])
        ps = [rng.choice([0.0, 0.25, 0.5, 1.0, -2.5, 1e-300, 3.14159]) for _ in range(t)]
        gref = gid if t == 0 else rng.choice([gid, gid + 1, 5, -4])
        geoms[t].append((node, gid, ps, gref))
    # a repeated (node, type, id): the later record overwrites the parameters
    for t in (1, 2):
        if geoms[t] and rng.random() < 0.5:
            g = geoms[t][0]
            geoms[t].append((g[0], g[1], [p + 1.0 for p in g[2]], g[3] + 2))
    return geoms


def rand_cad(rng):
    k = rng.choice([0, 1, 5, 300])
    return bytes(rng.randrange(256) for _ in range(k)) if k != 300 else bytes(range(256)) + bytes(rng.randrange(256) for _ in range(44))


def mesh_box(rng):
    n = [rng.randint(1, 2) for _ in range(3)]
    v, tets, tris = meshgen.box_tets(n[0], n[1], n[2], rng, rng.choice([0.0, 0.2]))[:3]
    cells = {'tet': [tuple(t[:4]) for t in tets], 'tri': [tuple(t) for t in tris]}
    # a few boundary edges (edge of a boundary triangle)
    es = set()
    for t in tris[:: max(1, len(tris) // 5)]:
        a, b = t[0], t[1]
        if (min(a, b), max(a, b)) not in es:
            es.add((min(a, b), max(a, b)))
    cells['edg'] = [(a, b, rng.randint(1, 9)) for a, b in sorted(es)]
    return {'dim': 3, 'verts': [tuple(p) for p in v], 'cells': cells}


def mesh_square(rng):
    nx, ny = rng.randint(1, 4), rng.randint(1, 3)
    v, tris, edgs = meshgen.square_tris(nx, ny, rng, rng.choice([0.0, 0.2]))
    return {'dim': 2, 'verts': [(p[0], p[1], 0.0) for p in v], 'cells': {'tri': [tuple(t) for t in tris],
                                                                          'edg': [tuple(e) for e in edgs]}}


def mesh_prism(rng):
    v, cells = meshgen.prism_slab(rng.randint(1, 2), rng.randint(1, 2), rng.randint(1, 2), rng, 0.0,
                                  big_ids=rng.random() < 0.3)
    return {'dim': 3, 'verts': [tuple(p) for p in v], 'cells': {k: [tuple(c) for c in cs] for k, cs in cells.items()}}


def _distinct_cells(rng, name, nnode, n, first_last=False):
    """n cells of kind `name` with pairwise distinct vertex sets, vertices distinct inside a cell"""
    k = NODE_PER[name]
    if nnode < k:
        return []
    out, seen = [], set()
    tries = 0
    while len(out) < n and tries < 20 * n + 20:
        tries += 1
        nodes = rng.sample(range(nnode), k)
        if first_last and not out:
            if nnode - 1 in nodes:
                nodes.remove(nnode - 1)
            else:
                nodes.pop()
            nodes = [nnode - 1] + nodes
        key = frozenset(nodes)
        if key in seen:
            continue
        seen.add(key)
        out.append(tuple(nodes) + ((rng.choice([1, 2, 3, 17, -5, 2147483647]),) if name in HAS_ID else ()))
    return out


def mesh_soup(rng, np, kinds=None, nnode=None, ncell=None):
    """unstructured cell soup; either boundary kinds only or volume kinds only (a random triangle that happens to be a
    face of two volume cells makes ref_grid_inward_boundary_orientation fail: not the reader's business)"""
    if kinds is None:
        if rng.random() < 0.5:
            kinds = rng.sample(['edg', 'tri', 'qua', 'ed2', 'tr2', 'ed3', 'tr3', 'qu2'], rng.randint(1, 3))
        else:
            kinds = rng.sample(['tet', 'pyr', 'pri', 'hex', 'te2', 'py2', 'pr2', 'he2'], rng.randint(1, 3)) + \
                    (['edg'] if rng.random() < 0.5 else [])
    nnode = nnode or rng.choice([2, 3, 5, 8, 13, 30])
    verts = [(rng.choice([-1.5, 0.0, 0.25, 1.0, 2.0, 1e-5, 7.5]) + i, float(rng.randint(-3, 3)), rng.random()) for i in range(nnode)]
    cells = {}
    for name in kinds:
        cs = _distinct_cells(rng, name, nnode, ncell or rng.randint(1, 9), first_last=rng.random() < 0.6)
        if cs:
            cells[name] = cs
    return {'dim': rng.choice([3, 3, 2]), 'verts': verts, 'cells': cells}


def mesh_corner(rng, np):
    """all cells among the first vertices: the ranks that own the later vertices store no cell"""
    nnode = rng.randint(2 * np + 2, 3 * np + 6)
    verts = [(float(i), 0.5 * i, -1.0 * i) for i in range(nnode)]
    m = max(3, min(nnode // np, 4))
    cells = {'tri': _distinct_cells(rng, 'tri', m, 3), 'edg': _distinct_cells(rng, 'edg', m, 2)}
    return {'dim': 3, 'verts': verts, 'cells': {k: v for k, v in cells.items() if v}}


def mesh_dups(rng):
    """duplicate cells: same record twice, same vertex set in another order / with another id"""
    nnode = rng.choice([4, 6, 9])
    verts = [(float(i), 1.0, 2.0 * i) for i in range(nnode)]
    tri = _distinct_cells(rng, 'tri', nnode, 3)
    edg = _distinct_cells(rng, 'edg', nnode, 3)
    tri = tri + [tri[0], (tri[1][2], tri[1][1], tri[1][0], tri[1][3] % 1000 + 1)]
    edg = edg + [(edg[0][1], edg[0][0], 99), edg[-1]]
    rng.shuffle(tri)
    return {'dim': 3, 'verts': verts, 'cells': {'tri': tri, 'edg': edg}}


def decorate(rng, mesh):
    nnode = len(mesh['verts'])
    if nnode and rng.random() < 0.7:
        mesh['geoms'] = rand_geoms(rng, nnode, rng.randint(1, 8))
    if rng.random() < 0.6:
        mesh['cad'] = rand_cad(rng)
    mesh['vref'] = rng.choice([1, 0, 5, -2])
    return mesh


def op_part(np, data, tag=None):
    return 'part %d %s%s' % (np, data.hex() if data else '-', (' ' + tag) if tag else '')


def gen_read(rng, tier, np):
    ops = []
    reps = 2 if tier == 'quick' else 4
    for _ in range(reps):
        makers = [lambda: mesh_box(rng), lambda: mesh_square(rng), lambda: mesh_prism(rng),
                  lambda: mesh_soup(rng, np), lambda: mesh_soup(rng, np), lambda: mesh_soup(rng, np),
                  lambda: mesh_soup(rng, np, nnode=rng.randint(1, max(1, np - 1)), kinds=['edg', 'tri']),
                  lambda: mesh_corner(rng, np)]
        vers = [2, 3, 4]
        rng.shuffle(vers)
        for i, mk in enumerate(makers):
            mesh = decorate(rng, mk())
            ops.append(op_part(np, to_bytes(mesh, vers[i % 3]), 'valid'))
        ops.append(op_part(np, to_bytes(decorate(rng, mesh_dups(rng)), rng.choice([2, 3, 4])), 'dups'))
        # vertices only, and a single vertex
        ops.append(op_part(np, to_bytes({'dim': 3, 'verts': [(1.0, 2.0, 3.0)] * rng.randint(1, 4), 'cells': {}}, 2), 'valid'))
    return ops


# ------------------------------------------------------------------ parsing the C's line
def parse_line(line):
    """'ok | rank | rank' -> list of dict(n, nodes {g: (part, xyzbits)}, cells [(grp, nodes, id)], geoms {(t,id,g): (gref,p0,p1)},
    cad hex, final [(grp, nodes, id)])"""
    parts = line.split(' | ')
    if parts[0] != 'ok':
        return None
    ranks = []
    for txt in parts[1:]:
        w = txt.split()
        d = {'n': (int(w[1]), int(w[2])), 'nodes': {}, 'cells': [], 'geoms': {}, 'cad': None, 'final': []}
        assert w[0] == 'n' and w[3] == 'N'
        mode = 'N'
        for tok in w[4:]:
            if tok in ('C', 'G', 'B', 'F'):
                mode = tok
                continue
            if mode == 'N':
                f = tok.split(',')
                g = int(f[0])
                if g in d['nodes']:
                    raise ValueError('global %d twice on a rank' % g)
                d['nodes'][g] = (int(f[1]), tuple(f[2:]))
            elif mode in ('C', 'F'):
                grp, nodes, cid = tok.split(':')
                rec = (int(grp), tuple(int(x) for x in nodes.split(',')), int(cid))
                (d['cells'] if mode == 'C' else d['final']).append(rec)
            elif mode == 'G':
                f = tok.split(',')
                key = (int(f[0]), int(f[1]), int(f[3]))
                if key in d['geoms']:
                    raise ValueError('geometry key twice on a rank')
                d['geoms'][key] = (int(f[2]), f[4], f[5])
            elif mode == 'B':
                d['cad'] = tok
        ranks.append(d)
    return ranks


def bits_hex(b8):
    return b8[::-1].hex()


def wrap32(x):
    x &= 0xffffffff
    return x - (1 << 32) if x >= (1 << 31) else x


def file_content(data):
    """independent parse -> dict(nnode, coords [hex x3], cells {grp: [(nodes0, id32)]}, raw index ranges, geoms, cad) or None"""
    try:
        p = M.parse(data)
    except Exception:
        return None
    if p.get('dim') not in (2, 3) or 4 not in p['sections']:
        return None
    dim = p['dim']
    rows = p['sections'][4]['rows']
    z0 = '0' * 16
    coords = [tuple(bits_hex(c) for c in co) + ((z0,) if dim == 2 else ()) for co, _ in rows]
    out = {'nnode': len(rows), 'coords': coords, 'cells': {}, 'bad_index': False, 'geoms': [], 'cad': None,
           'version': p['version']}
    for kw, (name, k) in M.ELEMENTS.items():
        sec = p['sections'].get(kw)
        if not sec:
            continue
        grp = GROUPS.index(name)
        lst = []
        for r in sec['rows']:
            nodes = list(r[:k])
            if any(x < 1 or x > len(rows) for x in nodes):
                out['bad_index'] = True
            if name == 'pyr':
                nodes = [nodes[i] for i in PYR_FILE]
            lst.append((tuple(x - 1 for x in nodes), wrap32(r[k]) if name in HAS_ID else 0))
        out['cells'][grp] = lst
    for t in (0, 1, 2):
        sec = p['sections'].get(40 + t)
        if sec:
            for r in sec['rows']:
                out['geoms'].append((t,) + tuple(r))
    sec = p['sections'].get(126)
    if sec:
        out['cad'] = sec['bytes']
    return out


def canon(nodes):
    r = tuple(reversed(nodes))
    return r if r < nodes else nodes


def check_ranks(fc, ranks, np, exact=True):
    """the properties, stated on the C's own dump; fc = independent file content"""
    N = fc['nnode']
    fails = []
    if len(ranks) != np:
        return ['%d rank dumps for np=%d' % (len(ranks), np)]
    owner = [implicit(N, np, g) for g in range(N)]
    for r, d in enumerate(ranks):
        if d['n'] != (N, N):
            fails.append('rank %d n_global %s, file has %d vertices' % (r, d['n'], N))
        owned = sorted(g for g, (p, _) in d['nodes'].items() if p == r)
        want = list(range(part_first(N, np, r), part_first(N, np, r + 1)))
        if owned != want:
            fails.append('rank %d owns %s, its implicit block is %s' % (r, owned[:8], want[:8]))
        for g, (p, xyz) in d['nodes'].items():
            if not (0 <= g < N):
                fails.append('rank %d stores global %d outside [0,%d)' % (r, g, N))
                continue
            if p != owner[g]:
                fails.append('rank %d: vertex %d has part %d, block owner is %d' % (r, g, p, owner[g]))
            if tuple(xyz) != fc['coords'][g]:
                fails.append('rank %d: vertex %d coordinates %s differ from the file %s' % (r, g, xyz, fc['coords'][g]))
        used = set()
        for grp, nodes, cid in d['cells']:
            used.update(nodes)
            if not any(0 <= g < N and owner[g] == r for g in nodes):
                fails.append('rank %d stores cell %s of group %d that touches none of its vertices' % (r, nodes, grp))
        stored = set(d['nodes'])
        if stored != set(want) | used:
            fails.append('rank %d: stored vertices != owned + vertices of stored cells (%s)' %
                         (r, sorted(stored ^ (set(want) | used))[:8]))
    for grp in range(16):
        fcells = fc['cells'].get(grp, [])
        sets = [frozenset(c[0]) for c in fcells]
        nodup = len(set(sets)) == len(sets)
        gathered = []
        for r, d in enumerate(ranks):
            mine = sorted((nodes, cid) for g2, nodes, cid in d['cells'] if g2 == grp)
            want = sorted(c for c in fcells if any(owner[g] == r for g in c[0]))
            if nodup and exact:
                if mine != want:
                    fails.append('rank %d group %d: stores %d cells, %d file cells touch its vertices (first diff %s)' %
                                 (r, grp, len(mine), len(want), sorted(set(mine) ^ set(want))[:2]))
            else:
                if set(mine) - set(want):
                    fails.append('rank %d group %d: stores a cell that is not a file cell touching it' % (r, grp))
                if {frozenset(c[0]) for c in want} != {frozenset(c[0]) for c in mine}:
                    fails.append('rank %d group %d: vertex sets of stored cells != vertex sets of the file cells touching it' % (r, grp))
            gathered += [(nodes, cid) for nodes, cid in mine if owner[min(nodes)] == r]
            if GROUPS[grp] in ('tri', 'qua') and nodup:
                fin = sorted((canon(nodes), cid) for g2, nodes, cid in d['final'] if g2 == grp)
                if fin != sorted((canon(c[0]), c[1]) for c in want):
                    fails.append('rank %d group %d: boundary cells after the orientation pass are not the file cells up to reversal' % (r, grp))
        if nodup and exact and sorted(gathered) != sorted(fcells):
            fails.append('group %d: gathered cells (each from the owner of its smallest vertex) != cells of the file' % grp)
    # geometry: a rank holds the records of its local vertices, the last record of a key gives parameters and gref
    for r, d in enumerate(ranks):
        want = {}
        for t, node1, gid, *rest in fc['geoms']:
            g = node1 - 1
            if g not in d['nodes']:
                continue
            ps = list(rest[0]) if rest else []
            key = (t, wrap32(gid), g)
            old = want.get(key, (None, '0' * 16, '0' * 16))
            gref = wrap32(gid) if t == 0 else wrap32(int(rest[1]))
            p0 = bits_hex(ps[0]) if t > 0 else old[1]
            p1 = bits_hex(ps[1]) if t > 1 else old[2]
            want[key] = (gref, p0, p1)
        if want != d['geoms']:
            fails.append('rank %d: geometry records differ from the file records of its vertices (%s)' %
                         (r, sorted(set(want.items()) ^ set(d['geoms'].items()))[:2]))
        cad = fc['cad'].hex() if fc['cad'] else '-'
        if d['cad'] != cad:
            fails.append('rank %d: CAD bytes differ from the file' % r)
    return fails


def oracle_part(ops, impl):
    fails = []
    for i, (op, line) in enumerate(zip(ops, impl)):
        w = op.split()
        if w[0] != 'part' or len(w) < 3:
            continue
        if line == 'bad-op':
            fails.append((i, 'the harness rejected a generated op'))
            continue
        np = int(w[1])
        data = bytes.fromhex(w[2]) if w[2] != '-' else b''
        tag = w[3] if len(w) > 3 else None
        fc = file_content(data)
        if not line.startswith('ok'):
            if line not in STATUS:
                fails.append((i, 'unexpected line %r' % line[:60]))
            elif tag in ('valid', 'dups'):
                fails.append((i, 'a well-formed file was rejected with %s' % line))
            continue
        if tag == 'refuse':
            fails.append((i, 'a file whose declared record count exceeds the file was accepted'))
            continue
        if fc is None:
            continue
        if fc['bad_index']:
            fails.append((i, 'a cell vertex index outside 1..nnode was accepted'))
            continue
        try:
            ranks = parse_line(line)
        except Exception as ex:
            fails.append((i, 'rank dump not well formed: %r' % (ex,)))
            continue
        for msg in check_ranks(fc, ranks, np, exact=(tag != 'dups'))[:3]:
            fails.append((i, msg))
    return fails


# ------------------------------------------------------------------ malformed share
def base_mesh(rng):
    v, tets, tris = meshgen.box_tets(1, 1, 1, rng, 0.0)[:3]
    cells = {'tet': [tuple(t[:4]) for t in tets], 'tri': [tuple(t) for t in tris],
             'edg': [(0, 1, 3), (7, 6, 4), (2, 3, 5)]}
    mesh = {'dim': 3, 'verts': [tuple(p) for p in v], 'cells': cells,
            'geoms': {0: [(0, 1, [], 1), (7, 2, [], 2)], 1: [(1, 4, [0.5], 4)], 2: [(3, 6, [0.1, 0.9], 6)]},
            'cad': bytes([1, 2, 3, 250, 0, 9])}
    return mesh


def base_mesh_apart(rng):
    """tets on the vertices 0..7, triangles and edges on the vertices 8..13: no triangle can become a face of a tet
    when ONE index is replaced by another valid one (ref_grid_inward_boundary_orientation, which runs after the reader
    and is outside the model, fails on a boundary triangle between two tets)"""
    mesh = base_mesh(rng)
    mesh['verts'] = mesh['verts'] + [(2.0 + i, 0.5 * i, 1.0) for i in range(6)]
    mesh['cells']['tri'] = [(8, 9, 10, 1), (9, 10, 11, 2), (13, 12, 11, 3), (8, 13, 10, 7)]
    mesh['cells']['edg'] = [(8, 9, 3), (13, 12, 4), (10, 11, 5)]
    return mesh


def put(b, field, value):
    kind, off, width = field
    fmt = '<q' if width == 8 else '<i'
    lo, hi = (-(1 << 63), (1 << 63) - 1) if width == 8 else (-(1 << 31), (1 << 31) - 1)
    if not lo <= value <= hi:
        return None
    out = bytearray(b)
    struct.pack_into(fmt, out, off, value)
    return bytes(out)


def section_fields(w, kw, kind):
    for k, start, end in w.sections:
        if k == kw:
            return [f for f in w.fields if f[0] == kind and start <= f[1] < end]
    return []


def gen_c20(rng, tier, np):
    ops = []
    n_index = {1: 60, 2: 8, 3: 8}.get(np, 6) * (1 if tier == 'quick' else 3)
    n_other = {1: 80, 2: 12, 3: 12}.get(np, 6) * (1 if tier == 'quick' else 3)
    for _ in range(n_index):
        version = rng.choice([2, 3, 4])
        inside = rng.random() < 0.25          # replace by a VALID index (first / last vertex): must be accepted
        mesh = base_mesh_apart(rng) if inside else base_mesh(rng)
        data, w = to_bytes(mesh, version, ret_writer=True)
        nnode = len(mesh['verts'])
        name = rng.choice(['tet', 'tri', 'edg'])
        k = NODE_PER[name]
        fs = section_fields(w, M.KW_OF[name], 'index')
        nrec = len(fs) // k
        rec = rng.choice([0, nrec - 1, rng.randrange(nrec)])
        pos = rng.choice([0, 0, rng.randrange(1, k)])
        vals = [0, -1, nnode + 1, nnode + 2, 2 ** 31 - 1, -(2 ** 31)]
        if version == 4:
            vals += [2 ** 32 + 1, 2 ** 63 - 1, -(2 ** 63), 2 ** 32]
        if inside:
            vals = [nnode, 1]
        m = put(data, fs[rec * k + pos], rng.choice(vals))
        if m:
            ops.append(op_part(np, m))
    for _ in range(n_other):
        version = rng.choice([2, 3, 4])
        kind = rng.choice(['count', 'count', 'count', 'trunc', 'trunc', 'dim', 'version', 'next', 'flip', 'geomindex', 'none'])
        mesh = base_mesh_apart(rng) if kind == 'flip' else base_mesh(rng)
        if kind != 'flip' and rng.random() < 0.3:
            mesh = decorate(rng, mesh_square(rng))
        data, w = to_bytes(mesh, version, ret_writer=True)
        m = None
        if kind == 'count':
            fs = [f for f in w.fields if f[0] == 'count']
            f = rng.choice(fs)
            old = struct.unpack_from('<q' if f[2] == 8 else '<i', data, f[1])[0]
            # what ref_part_meshb_count_fits lets through: the bytes after the count field / 4
            cap = (len(data) - (f[1] + f[2])) // 4
            new = rng.choice([old + 1, old + 3, 2 * old + 1, old - 1, 0, -1, -5, 999999, 1000001, cap, cap + 1,
                              cap + 1000, 2 ** 31 - 1, -(2 ** 31), 2 ** 32, 2 ** 32 + rng.randint(1, 9), 2 ** 63 - 1])
            if f[1] > w.sections[1][1] and f[1] < w.sections[1][2]:
                new = rng.choice([old + 1, old - 1, 0, -1, 2 ** 31 - 1, 5 * old, -7])  # the vertex count sizes nothing
            m = put(data, f, new)
        elif kind == 'trunc':
            cut = rng.choice(w.bounds[2:])
            cut = max(0, min(len(data) - 1, cut + rng.choice([0, 0, -1, 1, -3])))
            m = data[:cut]
        elif kind == 'dim':
            f = [f for f in w.fields if f[0] == 'dim'][0]
            m = put(data, f, rng.choice([2, 3, 0, 1, 4, 7, -1]))
        elif kind == 'version':
            m = put(data, ('version', 4, 4), rng.choice([0, 1, 2, 3, 4, 5, -1]))
        elif kind == 'next':
            f = rng.choice([f for f in w.fields if f[0] == 'next'])
            old = struct.unpack_from('<q' if f[2] == 8 else '<i', data, f[1])[0]
            # (a next position into the middle of a section makes the scan read counts out of payload bytes: those
            #  are the oversized-count hazards, see `hazard`)
            m = put(data, f, rng.choice([0, f[1] - 4, len(data) + 1, len(data) + 1000, -1, 8]))
        elif kind == 'flip':
            out = bytearray(data)
            for _k in range(rng.randint(1, 2)):
                f = rng.choice([f for f in w.fields if f[0] in ('index', 'ref')])
                out[f[1] + rng.randrange(f[2])] ^= 1 << rng.randrange(8)
            m = bytes(out)
        elif kind == 'geomindex':
            fs = [f for kw in (40, 41, 42) for f in section_fields(w, kw, 'index')]
            if fs:
                m = put(data, rng.choice(fs), rng.choice([0, -1, len(mesh['verts']) + 1, 2 ** 31 - 1]))
        else:
            m = data
        if m is not None and not hazard(m, w):
            ops.append(op_part(np, m))
    ops.append(op_part(np, b''))
    ops.append(op_part(np, struct.pack('<ii', 1, 2)))
    for data in witness_files():
        ops.append(op_part(np, data, 'refuse'))
    return ops


def hazard(data, w):
    """the only declared count still kept out of the generated mutants: a CAD byte count outside [0, 2^30] (keyword 126;
    read as unsigned, it sizes one malloc that succeeds lazily up to the sanitizer's allocation limit and fails above
    it - the model returns REF_NULL above its allocator cap of 2^30, see ASSUMPTIONS).  Cell and geometry counts are
    checked by ref_part_meshb_count_fits since /repo 4474557 and are mutated freely.
    `w`: the writer of the unmutated file (offsets of the count fields)."""
    cad = [(a, b) for k, a, b in w.sections if k == 126]
    for kind, off, width in w.fields:
        if kind != 'count' or off + width > len(data) or not any(a <= off < b for a, b in cad):
            continue
        c = struct.unpack_from('<q' if width == 8 else '<i', data, off)[0]
        if c < 0 or c > 2 ** 30:
            return True
    return False


def witness_files():
    """the four files of findings/partmeshb-count-*: endless loop / int overflow before /repo 4474557, refused now"""
    out = []
    for d, names in (('partmeshb-count-2pow32-hang', ('cells_2pow32_v4', 'geoms_2pow32_v4')),
                     ('partmeshb-count-int-overflow', ('tets_intmax_v2', 'edges_intmax_v2'))):
        for n in names:
            with open(os.path.join(common.VERIF, 'findings', d, n + '.meshb'), 'rb') as f:
                out.append(f.read())
    return out


# ------------------------------------------------------------------ chunk crossing
def big_params(rng, np, tier='thorough'):
    B = rng.randint(4, 7)
    # two trips of the read loop, in the thorough tier also three (the harness accepts up to 3000000 records)
    ncell = 2 * CHUNK + rng.randint(2, 40) if (tier != 'quick' and rng.random() < 0.5) else CHUNK + rng.randint(2, 40)
    chunk = max(CHUNK, ncell // np)
    marks = {0, 1, ncell - 1}
    for c in range(chunk, ncell, chunk):
        marks.update({c - 1, c, c + 1})
    for _ in range(4):
        marks.add(rng.randrange(ncell))
    pos = sorted(x for x in marks if 0 <= x < ncell)
    return rng.choice([2, 3, 4]), B, ncell, rng.randrange(10 ** 9), pos  # (the harness takes numbers of <= 9 digits)


def gen_chunk(rng, tier, np):
    v, B, ncell, seed, pos = big_params(rng, np, tier)
    return ['big %d %d %d %d %d %s' % (np, v, B, ncell, seed, ' '.join(str(p) for p in pos))]


def big_records(B, ncell, seed, pos):
    x = seed & 0x7fffffff
    j = 0
    M_ = len(pos)
    out = []
    for i in range(ncell):
        if j < M_ and pos[j] == i:
            out.append((B + j, (7 * j) % B, 100 + j))
            j += 1
        else:
            x = (x * 1103515245 + 12345) & 0x7fffffff
            a0 = (x >> 8) % B
            b0 = (x >> 16) % B
            if a0 == b0:
                b0 = (a0 + 1) % B
            a, b = min(a0, b0), max(a0, b0)
            out.append((a, b, 1 + (a * B + b) % 7))
    return out


def oracle_chunk(ops, impl):
    fails = []
    for i, (op, line) in enumerate(zip(ops, impl)):
        w = op.split()
        if w[0] != 'big':
            continue
        if line == 'bad-op':
            fails.append((i, 'the harness rejected a generated op'))
            continue
        np, ver, B, ncell, seed = (int(x) for x in w[1:6])
        pos = [int(x) for x in w[6:]]
        if not line.startswith('ok'):
            fails.append((i, 'a well-formed file was rejected with %s' % line[:40]))
            continue
        N = B + len(pos)
        recs = set(big_records(B, ncell, seed, pos))
        ranks = parse_line(line)
        owner = [implicit(N, np, g) for g in range(N)]
        for r, d in enumerate(ranks):
            mine = sorted((nodes + (cid,)) for grp, nodes, cid in d['cells'] if grp == 0)
            want = sorted(c for c in recs if owner[c[0]] == r or owner[c[1]] == r)
            if mine != want:
                fails.append((i, 'rank %d: %d distinct edges stored, %d distinct file edges touch its vertices (%s)' %
                              (r, len(mine), len(want), sorted(set(mine) ^ set(want))[:3])))
            if any(grp != 0 for grp, _, _ in d['cells']):
                fails.append((i, 'rank %d stores a cell of another group' % r))
            for g, (p, xyz) in d['nodes'].items():
                wantx = tuple(bits_hex(dbits(c)) for c in (g * 0.5, g * 0.25, -float(g)))
                if p != owner[g] or tuple(xyz) != wantx:
                    fails.append((i, 'rank %d vertex %d: part/coordinates differ from the file' % (r, g)))
    return fails


def _nontrivial(op, out):
    return out.startswith('ok') or out in STATUS


READ = Stream('partmeshb_read', pm_harness, 'partmeshb', gen_read, oracle=oracle_part, np=[1, 2, 3, 4, 5],
              nontrivial=_nontrivial, session='part', timeout=600)
C20 = Stream('partmeshb_c20', pm_harness, 'partmeshb', gen_c20, oracle=oracle_part, np=[1, 2, 3],
             nontrivial=_nontrivial, session='part', timeout=600)
CHUNK_S = Stream('partmeshb_chunk', pm_harness, 'partmeshb', gen_chunk, oracle=oracle_chunk, np=[2, 3],
                 nontrivial=_nontrivial, session='big', timeout=900)
CHUNK_MORE = Stream('partmeshb_chunk_more', pm_harness, 'partmeshb', gen_chunk, oracle=oracle_chunk, np=[4, 5],
                    nontrivial=_nontrivial, session='big', timeout=900, batches={'quick': 1, 'thorough': 2})
CHUNK_MORE.thorough_only = True
for _s in (READ, C20, CHUNK_S, CHUNK_MORE):
    _s.crash_site = None

STREAMS = [READ, C20, CHUNK_S, CHUNK_MORE]
