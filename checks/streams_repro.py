"""C18 streams: the RUNTIME clause of "runs are reproducible" is exercised here, not proved.

cli_repro     every generated case of {adapt, multiscale, interpolate, distance, translate} is run several times
              with the same inputs / options / rank count under different heap fill bytes (ASan's own
              malloc_fill_byte for the sanitized serial binary, glibc MALLOC_PERTURB_ for a plain -O1 binary and for
              the MPI binary), address-space layouts (ASLR on; one repetition under `setarch -R`), Open MPI progress
              modes (yield on / off), CPU over-subscription (one repetition pinned to two cores) and random delays in
              front of every MPI call (harness/pmpi_delay.c linked into the MPI binary: PMPI interposition, /repo is
              not touched).  ALL files the command leaves in its working directory are compared byte for byte
              (sha256).  A difference is an oracle failure; the differing files are kept under replays/C18_files/.
cli_memcheck  valgrind memcheck (--undef-value-errors=yes) on the plain serial binary for a tiny 2-D and a tiny 3-D case of each command:
              a "depends on uninitialised value" / "Use of uninitialised value" report is a failure.
repro_walldist_orders
              (harness/h_repro.c, white-box: the harness defines rand()) the real ref_phys_wall_distance on the same
              wall elements under two different rand() streams: distances must be identical bit for bit
              (the implementation-side statement of Props.C18.wallDistance_*_order_independent).
repro_edges   (diff, driver `repro`) ref_edge_create on cell stores built through add/remove histories:
              e2n of the C against Refine.Model.ReproEdge.edgeCreate.
repro_sched   (diff, MPI, harness h_comm + the delay shim LD_PRELOADed) native alltoallv / blindsend and the rank-0
              scatter / gather loops of the real ref_mpi.c against the SCHEDULED operational model of
              Refine.Model.ReproSched run under a pseudo-random delivery + completion order derived from the op line.
"""
import hashlib
import os
import random
import re
import shutil
import subprocess

from . import common, cli, pyio, meshgen, streams_comm
from .common import Stream, BuildError

MPIRUN = cli.MPIRUN
HAVE_SETARCH = None


def have_setarch():
    global HAVE_SETARCH
    if HAVE_SETARCH is None:
        try:
            HAVE_SETARCH = subprocess.run(['setarch', '-R', 'true'], capture_output=True).returncode == 0
        except Exception:
            HAVE_SETARCH = False
    return HAVE_SETARCH


HAVE_TASKSET = None


def have_taskset():
    global HAVE_TASKSET
    if HAVE_TASKSET is None:
        try:
            HAVE_TASKSET = subprocess.run(['taskset', '-c', '0', 'true'], capture_output=True).returncode == 0
        except Exception:
            HAVE_TASKSET = False
    return HAVE_TASKSET


# ------------------------------------------------------------------ binaries (all from $VERIF_REPO/src)
def build_plain(ctx):
    """serial, -O1 -g, NO sanitizer: glibc malloc, so MALLOC_PERTURB_ works; also what valgrind runs"""
    key = ('ref_plain', False)
    if key in ctx.harness_exe:
        return ctx.harness_exe[key]
    d = common.build_objs(ctx, mpi=False, sanitize=False)
    exe = os.path.join(ctx.build, 'ref_plain')
    objs = [os.path.join(d, s + '.o') for s in common.CORE_SRC if os.path.exists(os.path.join(d, s + '.o'))]
    cmd = ['gcc'] + common.BASE_FLAGS + [os.path.join(common.REPO, 'src', 'ref_subcommand.c')] + objs + ['-lm', '-o', exe]
    p = subprocess.run(cmd, capture_output=True, text=True)
    if p.returncode != 0:
        raise BuildError('plain serial ref failed to build: %s' % (p.stdout + p.stderr)[-3000:])
    ctx.harness_exe[key] = exe
    return exe


def build_mpi_delay(ctx):
    """refmpi + harness/pmpi_delay.c (the executable's MPI_* wrappers sleep, then call PMPI_*)"""
    key = ('refmpi_delay', True)
    if key in ctx.harness_exe:
        return ctx.harness_exe[key]
    d = common.build_objs(ctx, mpi=True, sanitize=False)
    exe = os.path.join(ctx.build, 'refmpi_delay')
    objs = [os.path.join(d, s + '.o') for s in common.CORE_SRC if os.path.exists(os.path.join(d, s + '.o'))]
    cmd = ['mpicc'] + common.BASE_FLAGS + ['-DHAVE_MPI', os.path.join(common.REPO, 'src', 'ref_subcommand.c'),
                                          os.path.join(common.VERIF, 'harness', 'pmpi_delay.c')] + objs + ['-lm', '-o', exe]
    p = subprocess.run(cmd, capture_output=True, text=True)
    if p.returncode != 0:
        raise BuildError('refmpi + delay shim failed to build: %s' % (p.stdout + p.stderr)[-3000:])
    ctx.harness_exe[key] = exe
    return exe


def build_delay_so(ctx):
    key = ('pmpi_delay.so', True)
    if key in ctx.harness_exe:
        return ctx.harness_exe[key]
    so = os.path.join(ctx.build, 'pmpi_delay.so')
    p = subprocess.run(['mpicc', '-O1', '-shared', '-fPIC', os.path.join(common.VERIF, 'harness', 'pmpi_delay.c'), '-o', so],
                       capture_output=True, text=True)
    if p.returncode != 0:
        raise BuildError('pmpi_delay.so failed to build: %s' % (p.stdout + p.stderr)[-2000:])
    ctx.harness_exe[key] = so
    return so


# ------------------------------------------------------------------ scenarios -> (argv, inputs are in `inp`)
def prepare(d, inp):
    """writes the input files of scenario d into directory inp; returns argv (output names are relative: every
    repetition runs in its own working directory with the SAME argv)"""
    cmd = d['cmd']
    if cmd == 'adapt':
        dim, v, cells, mesh = cli.make_mesh(d, inp)
        met = cli.write_metric(inp, dim, v, d.get('metric', 'uniform:0.3'))
        args = ['adapt', mesh, '--metric', met, '-x', 'out.meshb', '-s', d.get('passes', '2'),
                '--export-metric-as', 'out-metric.solb']
        if d.get('part'):
            args += ['--partitioner', d['part']]
        return args
    if cmd == 'multiscale':
        dim, v, cells, mesh = cli.make_mesh(d, inp)
        f = cli.scalar_fn(d.get('field', 'poly:1,2,3,0.5,1'))
        sol = os.path.join(inp, 'scalar.solb')
        pyio.write_solb(sol, dim, [[f(tuple(p) + (0.0,) * (3 - len(p)))] for p in v], [1])
        args = ['multiscale', mesh, sol, d.get('complexity', '500'), 'metric.solb']
        if 'p' in d:
            args += ['--norm-power', d['p']]
        if 'grad' in d:
            args += ['--gradation', d['grad']]
        if 'ar' in d:
            args += ['--aspect-ratio', d['ar']]
        return args
    if cmd == 'interp':
        dim, v, cells, mesh = cli.make_mesh(dict(d), inp)
        os.rename(mesh, os.path.join(inp, 'donor.meshb'))
        ldim = int(d.get('ldim', '1'))
        f = cli.field_fn(d.get('field', 'lin:1,2,3,4'), ldim)
        pyio.write_solb(os.path.join(inp, 'donor.solb'), dim, [f(tuple(p) + (0.0,) * (3 - len(p))) for p in v], [1] * ldim)
        rd = dict(d)
        rd['n'] = d.get('rn', d.get('n'))
        rd['mseed'] = d.get('rseed', '7')
        rd['jitter'] = d.get('rjitter', '0.3')
        _, rv, rcells, rmesh = cli.make_mesh(rd, inp)
        os.rename(rmesh, os.path.join(inp, 'rec.meshb'))
        return ['interpolate', os.path.join(inp, 'donor.meshb'), os.path.join(inp, 'donor.solb'),
                os.path.join(inp, 'rec.meshb'), 'rec.solb']
    if cmd == 'distance':
        dim, v, cells, mesh = cli.make_mesh(d, inp)
        return ['distance', mesh, 'dist.solb', '--viscous-tags', d.get('walls', '1')]
    if cmd == 'translate':
        rng = random.Random(int(d.get('mseed', '1')))
        n = [int(x) for x in d.get('n', '2,2,2').split(',')]
        if d.get('mesh', 'box') == 'slab':
            v, cells = meshgen.prism_slab(n[0], n[1], n[2], rng, float(d.get('jitter', '0')))
            dim = 3
        elif d.get('mesh') == 'square':
            v, t, e = meshgen.square_tris(n[0], n[1], rng, float(d.get('jitter', '0')))
            cells = {'tri': t, 'edg': e}
            dim = 2
        else:
            v, t, s = meshgen.box_tets(n[0], n[1], n[2], rng, float(d.get('jitter', '0')), patches=d.get('patches', 'sides'))
            cells = {'tet': t, 'tri': s}
            dim = 3
        src = os.path.join(inp, 'in.' + d.get('in', 'meshb'))
        pyio.write_mesh(src, dim, v, cells, version=int(d.get('mv', '2')))
        return ['translate', src, 'out.' + d.get('out', 'meshb')]
    raise ValueError('unknown command ' + cmd)


def variants(ctx, np, tier, delay_scale):
    """the repetitions of one case: (label, exe-kind, wrapper argv prefix, env)"""
    s = ctx.seed
    reps = []
    if not np:
        # fill bytes: 0x55 (int 1431655765, double 1.2e103), 0xAA (negative int, double -3.7e-103), 0x40 (double 32.5),
        # 0xBF (double -0.12), 0x00 (masks a missing zero-init), 0xFF (int -1 = REF_EMPTY, double NaN)
        fill = lambda b: 'detect_leaks=0:exitcode=99:malloc_fill_byte=%d:max_malloc_fill_size=1073741824' % b
        na = ['setarch', '-R'] if have_setarch() else []
        reps.append(('asan-fill55', 'asan', [], {'ASAN_OPTIONS': fill(0x55)}))
        reps.append(('asan-fillBF-noaslr' if na else 'asan-fillBF', 'asan', na, {'ASAN_OPTIONS': fill(0xBF)}))
        reps.append(('plain-perturb85-fillAA', 'plain', [], {'MALLOC_PERTURB_': '85'}))
        reps.append(('plain-perturb191-fill40', 'plain', [], {'MALLOC_PERTURB_': '191'}))
        reps.append(('plain-perturb170-fill55', 'plain', [], {'MALLOC_PERTURB_': '170'}))
        reps.append(('plain-perturb255-fill00-noaslr' if na else 'plain-perturb255-fill00', 'plain', na,
                     {'MALLOC_PERTURB_': '255'}))
        if tier == 'thorough':
            reps.append(('asan-fill40', 'asan', [], {'ASAN_OPTIONS': fill(0x40)}))
            reps.append(('plain-perturb1-fillFE', 'plain', [], {'MALLOC_PERTURB_': '1'}))
            reps.append(('plain-noperturb', 'plain', [], {'MALLOC_PERTURB_': '0'}))
        return reps
    dl = lambda k: {'REF_VERIF_DELAY_SEED': str(1 + (s * 101 + k * 7919) % 100000),
                    'REF_VERIF_DELAY_MAX_US': str(delay_scale[0]), 'REF_VERIF_DELAY_PCT': str(delay_scale[1])}
    e0 = {'MALLOC_PERTURB_': '85', 'OMPI_MCA_mpi_yield_when_idle': '1'}
    e0.update(dl(0))
    reps.append(('mpi-perturb85-yield-delayA', 'mpi', [], e0))
    e1 = {'MALLOC_PERTURB_': '191', 'OMPI_MCA_mpi_yield_when_idle': '0' if np <= 4 else '1'}
    e1.update(dl(1))
    reps.append(('mpi-perturb191-spin-delayB' if np <= 4 else 'mpi-perturb191-yield-delayB', 'mpi', [], e1))
    e2 = {'MALLOC_PERTURB_': '170', 'OMPI_MCA_mpi_yield_when_idle': '1'}
    e2.update(dl(2))
    pre = []
    lab = 'mpi-perturb170-delayC'
    if have_setarch():
        pre += ['setarch', '-R']
        lab += '-noaslr'
    if have_taskset() and np >= 2:
        cpus = sorted(os.sched_getaffinity(0))
        pick = cpus[(s * 3) % len(cpus)], cpus[(s * 3 + 1) % len(cpus)]
        pre += ['taskset', '-c', '%d,%d' % pick]
        lab += '-2cores'
    reps.append((lab, 'mpi', pre, e2))
    if tier == 'thorough':
        e3 = {'MALLOC_PERTURB_': '0', 'OMPI_MCA_mpi_yield_when_idle': '1'}
        reps.append(('mpi-noperturb-nodelay', 'mpi', [], e3))
        e4 = {'MALLOC_PERTURB_': '255', 'OMPI_MCA_mpi_yield_when_idle': '1'}
        e4.update(dl(3))
        reps.append(('mpi-perturb255-delayD', 'mpi', [], e4))
    return reps


def sha_dir(path):
    out = {}
    for root, _, files in os.walk(path):
        for fn in sorted(files):
            p = os.path.join(root, fn)
            h = hashlib.sha256()
            with open(p, 'rb') as f:
                for blk in iter(lambda: f.read(1 << 20), b''):
                    h.update(blk)
            out[os.path.relpath(p, path)] = h.hexdigest()
    return out


DELAY = {'adapt': (600, 50), 'multiscale': (1000, 50), 'interp': (1000, 50), 'distance': (2000, 100),
         'translate': (2000, 100)}


def repro_harness(ctx, stream, ops, np):
    lines = []
    for k, op in enumerate(common.real_ops(ops)):
        d = cli.kv(op)
        case = os.path.join(ctx.build, 'repro_%s_%d_%s' % (stream.name, k, common.h16(op)))
        shutil.rmtree(case, ignore_errors=True)
        inp = os.path.join(case, 'in')
        os.makedirs(inp)
        try:
            argv = prepare(d, inp)
        except BuildError:
            raise
        except Exception as ex:
            lines.append('bad-op %r' % (ex,))
            continue
        n = int(d.get('np', '0'))
        exes = {}
        results = []
        for label, kind, pre, env_extra in variants(ctx, n, ctx.tier, DELAY.get(d['cmd'], (2000, 100))):
            if kind not in exes:
                exes[kind] = {'asan': lambda: cli.build_ref(ctx, False), 'plain': lambda: build_plain(ctx),
                              'mpi': lambda: build_mpi_delay(ctx)}[kind]()
            rep = os.path.join(case, 'rep%d' % len(results))
            os.makedirs(rep)
            env = dict(os.environ)
            env['ASAN_OPTIONS'] = 'detect_leaks=0:exitcode=99'
            env['UBSAN_OPTIONS'] = 'halt_on_error=1:exitcode=98'
            env.pop('MALLOC_PERTURB_', None)
            env.update(cli.knobs(d))
            env.update(env_extra)
            cmd = pre + ([exes[kind]] if kind != 'mpi' else MPIRUN + ['-n', str(n), exes[kind]]) + argv
            try:
                p = subprocess.run(cmd, cwd=rep, capture_output=True, text=True, timeout=stream.timeout, env=env)
                rc, tail = p.returncode, (p.stdout[-600:] + p.stderr[-1200:])
            except subprocess.TimeoutExpired:
                rc, tail = -9, 'TIMEOUT'
            results.append((label, rc, sha_dir(rep), rep, tail, cmd, env_extra))
        # compare
        ref = results[0]
        verdict = 'same=1'
        for r in results[1:]:
            if r[1] != ref[1]:
                verdict = 'same=0 diff=exit-status:%s=%d,%s=%d' % (ref[0], ref[1], r[0], r[1])
                break
            if r[2] != ref[2]:
                names = sorted(set(ref[2]) | set(r[2]))
                bad = [nm for nm in names if ref[2].get(nm) != r[2].get(nm)]
                verdict = 'same=0 diff=%s:%s!=%s' % (bad[0], ref[0], r[0])
                keep = os.path.join(ctx.replay_dir, 'C18_files', common.h16(op + verdict))
                shutil.rmtree(keep, ignore_errors=True)
                os.makedirs(keep)
                for which, rr in (('a', ref), ('b', r)):
                    for nm in bad[:4]:
                        src = os.path.join(rr[3], nm)
                        if os.path.exists(src):
                            shutil.copy(src, os.path.join(keep, '%s_%s_%s' % (which, rr[0], nm.replace('/', '_'))))
                shutil.copytree(inp, os.path.join(keep, 'in'))
                with open(os.path.join(keep, 'HOWTO.txt'), 'w') as f:
                    f.write('scenario: %s\n' % op)
                    for rr in (ref, r):
                        f.write('%s: env %s ; cmd %s\n' % (rr[0], rr[6], ' '.join(rr[5])))
                verdict += ' kept=%s' % keep
                break
        files = ','.join(sorted(ref[2])) or '-'
        tail = ''
        if ref[1] != 0:
            tail = ' err=' + re.sub(r'\s+', '_', results[0][4][-200:])
        lines.append('%s rc=%d nrep=%d files=%s %s%s' % (d['cmd'], ref[1], len(results), files, verdict, tail))
        if verdict != 'same=1' or ref[1] != 0:
            # persistent note: the shrinker re-runs cases, an intermittent failure must not get lost
            try:
                os.makedirs(os.path.join(ctx.replay_dir, 'C18_files'), exist_ok=True)
                with open(os.path.join(ctx.replay_dir, 'C18_files', 'failures.log'), 'a') as f:
                    f.write('seed=%s tier=%s %s\n   -> %s\n' % (ctx.seed, ctx.tier, op, lines[-1][:1500]))
                    for rr in results:
                        f.write('      %s rc=%d files=%s tail=%s\n' % (rr[0], rr[1], sorted(rr[2].items()), re.sub(r'\s+', ' ', rr[4][-400:])))
            except Exception:
                pass
    return 0, lines, ''


def oracle_repro(ops, impl):
    bad = []
    for i, (op, line) in enumerate(zip(ops, impl)):
        o = cli.parse_out(line)
        if line.startswith('bad-op'):
            bad.append((i, 'scenario could not be prepared: ' + line[:200]))
            continue
        if o.get('same') != '1':
            bad.append((i, 'C18 repeated runs of the same command differ: %s' % line[:400]))
            continue
        if o.get('rc') != '0':
            bad.append((i, 'C18 %s exited with status %s in every repetition on a valid input: %s' %
                        (cli.kv(op).get('cmd'), o.get('rc'), line[-260:])))
            continue
        if o.get('files', '-') == '-':
            bad.append((i, 'C18 %s left no output file to compare' % cli.kv(op).get('cmd')))
    return bad


def _np_list(tier):
    return [0, 1, 2, 3, 4] if tier == 'quick' else [0, 1, 2, 3, 4, 5, 6, 8]


def gen_repro(rng, tier):
    """small 2-D and 3-D cases of each of the five commands; every op carries its rank count"""
    ops = []
    nps = _np_list(tier)
    rounds = 2 if tier == 'quick' else 5
    k = rng.randint(0, 100)

    def nxt():
        nonlocal k
        k += 1
        return nps[k % len(nps)]

    def tail(np, full=True):
        if not np:
            return ''
        t = ' np=%d' % np
        if full:
            t += ' full=1'
        if rng.random() < 0.5:
            t += ' native=1'
        if rng.random() < 0.5:
            t += ' chunk=%d' % rng.choice([64, 100, 4096])
        return t

    for _ in range(rounds):
        # adapt: 3-D refine, 3-D coarsen, 2-D refine, 2-D coarsen (the np values rotate over the list)
        for dim, coarsen in ((3, False), (3, True), (2, False), (2, True)) if tier == 'thorough' else \
                rng.sample([(3, False), (3, True), (2, False), (2, True)], 3):
            np = nxt()
            if dim == 3:
                if coarsen:
                    n = [rng.randint(3, 4) for _ in range(3)]
                    metric = 'uniform:%.3f' % rng.uniform(0.6, 1.2)
                    passes = rng.choice([2, 3])
                else:
                    n = [rng.randint(1, 2) for _ in range(3)]
                    metric = rng.choice(['uniform:%.3f' % rng.uniform(0.3, 0.6),
                                         'aniso:%.3f,%.3f,%.3f' % (rng.uniform(0.25, 0.5), rng.uniform(0.3, 0.5), rng.uniform(0.3, 0.6)),
                                         'linh:%.3f,%.3f,%d' % (rng.uniform(0.2, 0.3), rng.uniform(0.4, 0.6), rng.randint(0, 2))])
                    passes = rng.choice([1, 2, 3])
                ops.append('case cmd=adapt dim=3 n=%d,%d,%d jitter=%.2f patches=%s mseed=%d metric=%s passes=%d%s' % (
                    n[0], n[1], n[2], rng.choice([0, 0.2]), rng.choice(['sides', 'split', 'one']), rng.randint(1, 10 ** 6),
                    metric, passes, tail(np)))
            else:
                if coarsen:
                    n = [rng.randint(5, 7) for _ in range(2)]
                    metric = 'uniform:%.3f' % rng.uniform(0.4, 0.8)
                    passes = rng.choice([2, 3])
                else:
                    n = [rng.randint(2, 4) for _ in range(2)]
                    metric = rng.choice(['uniform:%.3f' % rng.uniform(0.1, 0.3),
                                         'aniso:%.3f,%.3f,1' % (rng.uniform(0.06, 0.3), rng.uniform(0.1, 0.4))])
                    passes = rng.choice([1, 2, 4])
                ops.append('case cmd=adapt dim=2 n=%d,%d jitter=%.2f patches=%s mseed=%d metric=%s passes=%d%s' % (
                    n[0], n[1], rng.choice([0, 0.3]), rng.choice(['sides', 'one']), rng.randint(1, 10 ** 6), metric,
                    passes, tail(np)))
        for _ in range(2):
            np = nxt()
            dim = rng.choice([2, 3])
            n = [rng.randint(2, 4) for _ in range(dim)]
            field = rng.choice(['poly:%.2f,%.2f,%.2f,%.2f,%.2f' % tuple(rng.uniform(-3, 3) for _ in range(5)),
                                'tanh:%.2f,%.2f,%.2f' % (rng.uniform(3, 20), rng.uniform(-1, 1), rng.uniform(0.2, 0.8)),
                                'sin:%.2f,%.2f,%.2f' % (rng.uniform(1, 8), rng.uniform(1, 8), rng.uniform(0, 4))])
            op = 'case cmd=multiscale dim=%d n=%s jitter=%.2f mseed=%d field=%s complexity=%s' % (
                dim, ','.join(map(str, n)), rng.choice([0, 0.3]), rng.randint(1, 10 ** 6), field,
                rng.choice(['50', '500', '2000']))
            if rng.random() < 0.7:
                op += ' p=%s' % rng.choice(['1', '2', '4'])
            if rng.random() < 0.7:
                op += ' grad=%s' % rng.choice(['-1', '1.2', '1.5', '3'])
            ops.append(op + tail(np, full=False))
        for _ in range(2):
            np = nxt()
            dim = rng.choice([2, 3])
            n = [rng.randint(2, 4) for _ in range(dim)]
            rn = [rng.randint(2, 5) for _ in range(dim)]
            # one boundary id: no corner ("geometry") node seeds the donor walk, every receptor node goes through the
            # search-tree fallback; four/six ids: located by walking
            ops.append('case cmd=interp dim=%d n=%s jitter=%.2f patches=%s mseed=%d ldim=%d field=gen:%.2f,%.2f,%.2f rn=%s rseed=%d rjitter=%.2f%s' % (
                dim, ','.join(map(str, n)), rng.choice([0, 0.3]), rng.choice(['one', 'one', 'sides']), rng.randint(1, 10 ** 6), rng.randint(1, 6),
                rng.uniform(0.5, 6), rng.uniform(0.5, 6), rng.uniform(0.5, 6), ','.join(map(str, rn)),
                rng.randint(1, 10 ** 6), rng.choice([0, 0.3]), tail(np, full=False)))
        for _ in range(2):
            np = nxt()
            if rng.random() < 0.6:
                n = [rng.randint(2, 5) for _ in range(3)]
                ids = sorted(rng.sample(range(1, 7), rng.randint(1, 3)))
                ops.append('case cmd=distance dim=3 n=%d,%d,%d jitter=%.2f mseed=%d len=%s walls=%s%s' % (
                    n[0], n[1], n[2], rng.choice([0, 0.3]), rng.randint(1, 10 ** 6), rng.choice(['1,1,1', '10,1,0.1']),
                    ','.join(map(str, ids)), tail(np, full=False)))
            else:
                n = [rng.randint(3, 7) for _ in range(2)]
                ids = sorted(rng.sample(range(1, 5), rng.randint(1, 2)))
                ops.append('case cmd=distance dim=2 n=%d,%d jitter=%.2f mseed=%d len=%s walls=%s%s' % (
                    n[0], n[1], rng.choice([0, 0.3]), rng.randint(1, 10 ** 6), rng.choice(['1,1', '10,1']),
                    ','.join(map(str, ids)), tail(np, full=False)))
        for _ in range(2):
            np = nxt()
            mesh = rng.choice(['slab', 'box', 'square'])
            n = [rng.randint(1, 3) for _ in range(3)]
            fmts = ['meshb'] if mesh == 'square' else cli.FORMATS
            ops.append('case cmd=translate mesh=%s n=%d,%d,%d jitter=%.2f mseed=%d in=%s out=%s mv=%d%s' % (
                mesh, n[0], n[1], n[2], rng.choice([0, 0.3]), rng.randint(1, 10 ** 6), rng.choice(fmts), rng.choice(fmts),
                rng.choice([2, 3, 4]), tail(np, full=False)))
    return ops


CLI_REPRO = Stream('cli_repro', repro_harness, None, gen_repro, oracle=oracle_repro, kind='oracle',
                   nontrivial=lambda op, out: ' rc=0 ' in out and 'same=1' in out, timeout=600,
                   session='case', batches={'quick': 1, 'thorough': 2})


# ------------------------------------------------------------------ memcheck
UNINIT = re.compile(r'(Conditional jump or move depends on uninitialised value|Use of uninitialised value|'
                    r'Syscall param \S+ (?:points to|contains) uninitialised byte)')


def memcheck_harness(ctx, stream, ops, np):
    lines = []
    exe = build_plain(ctx)
    for k, op in enumerate(common.real_ops(ops)):
        d = cli.kv(op)
        case = os.path.join(ctx.build, 'memcheck_%d_%s' % (k, common.h16(op)))
        shutil.rmtree(case, ignore_errors=True)
        inp = os.path.join(case, 'in')
        os.makedirs(inp)
        try:
            argv = prepare(d, inp)
        except Exception as ex:
            lines.append('bad-op %r' % (ex,))
            continue
        rep = os.path.join(case, 'run')
        os.makedirs(rep)
        env = dict(os.environ)
        env.pop('MALLOC_PERTURB_', None)
        cmd = ['valgrind', '-q', '--error-exitcode=97', '--track-origins=no', '--undef-value-errors=yes',
               '--leak-check=no', '--num-callers=12', exe] + argv
        try:
            p = subprocess.run(cmd, cwd=rep, capture_output=True, text=True, timeout=stream.timeout, env=env)
            rc, err = p.returncode, p.stderr
        except subprocess.TimeoutExpired:
            rc, err = -9, 'TIMEOUT'
        m = UNINIT.search(err)
        nerr = len(re.findall(r'^==\d+== (?:Conditional|Use of|Syscall param|Invalid)', err, re.M))
        first = ''
        if m or rc == 97:
            # first report with its top frames inside refine
            blk = err[m.start():] if m else err
            frames = re.findall(r'(?:at|by) 0x[0-9A-F]+: (\S+) \(([^)]*)\)', blk)[:4]
            first = ' first=%s@%s' % ((m.group(1) if m else 'memcheck-error').replace(' ', '_'),
                                      ';'.join('%s:%s' % f for f in frames).replace(' ', '_'))
        lines.append('%s rc=%d errors=%d uninit=%d%s' % (d['cmd'], rc, nerr, 1 if m else 0, first))
    return 0, lines, ''


def oracle_memcheck(ops, impl):
    bad = []
    for i, (op, line) in enumerate(zip(ops, impl)):
        o = cli.parse_out(line)
        if line.startswith('bad-op'):
            bad.append((i, 'scenario could not be prepared: ' + line[:200]))
        elif o.get('uninit') != '0':
            bad.append((i, 'C18 memcheck: a result of `%s` depends on uninitialised memory: %s' % (cli.kv(op).get('cmd'), line[:500])))
        elif o.get('rc') == '97':
            bad.append((i, 'memcheck reported an invalid access in `%s`: %s' % (cli.kv(op).get('cmd'), line[:500])))
        elif o.get('rc') != '0':
            bad.append((i, '%s under valgrind exited with status %s' % (cli.kv(op).get('cmd'), o.get('rc'))))
    return bad


def gen_memcheck(rng, tier):
    ms = lambda: rng.randint(1, 10 ** 6)
    pool = [
        lambda: 'case cmd=adapt dim=3 n=1,1,%d jitter=0 patches=sides mseed=%d metric=uniform:%.3f passes=1' % (rng.randint(1, 2), ms(), rng.uniform(0.45, 0.7)),
        lambda: 'case cmd=adapt dim=2 n=2,%d jitter=0.30 patches=sides mseed=%d metric=uniform:%.3f passes=2' % (rng.randint(2, 3), ms(), rng.uniform(0.2, 0.4)),
        lambda: 'case cmd=multiscale dim=3 n=2,2,2 jitter=0.30 mseed=%d field=poly:1.00,-2.00,0.50,1.50,0.30 complexity=200 p=2 grad=1.5' % ms(),
        lambda: 'case cmd=multiscale dim=2 n=3,3 jitter=0 mseed=%d field=sin:3.00,2.00,0.00 complexity=100' % ms(),
        lambda: 'case cmd=interp dim=3 n=2,2,2 jitter=0.30 patches=%s mseed=%d ldim=2 field=gen:1.00,2.00,3.00 rn=2,3,2 rseed=%d rjitter=0.30' % (rng.choice(['one', 'sides']), ms(), ms()),
        lambda: 'case cmd=interp dim=2 n=3,3 jitter=0 patches=one mseed=%d ldim=1 field=gen:2.00,1.00,0.50 rn=4,3 rseed=%d rjitter=0.30' % (ms(), ms()),
        lambda: 'case cmd=distance dim=3 n=2,2,2 jitter=0.30 mseed=%d len=1,1,1 walls=1,3' % ms(),
        lambda: 'case cmd=distance dim=2 n=4,3 jitter=0 mseed=%d len=1,1 walls=2' % ms(),
        lambda: 'case cmd=translate mesh=box n=1,2,1 jitter=0.30 mseed=%d in=meshb out=lb8.ugrid mv=2' % ms(),
        lambda: 'case cmd=translate mesh=slab n=2,1,1 jitter=0 mseed=%d in=b8.ugrid out=meshb mv=3' % ms(),
    ]
    if tier == 'quick':   # one tiny 3-D and one tiny 2-D case per command (valgrind: ~1 s each)
        return [f() for f in pool]
    return [f() for f in pool] + [f() for f in pool] + [f() for f in pool]


CLI_MEMCHECK = Stream('cli_memcheck', memcheck_harness, None, gen_memcheck, oracle=oracle_memcheck, kind='oracle',
                      nontrivial=lambda op, out: ' rc=0 ' in out, timeout=900, session='case',
                      batches={'quick': 1, 'thorough': 1})


# ------------------------------------------------------------------ ref_edge_create (diff against Model.ReproEdge)
# (group, node_per, size_per) of the cell stores the edge loop visits (2-D groups 3..7, 3-D groups 8..15) and of
# group 0 (edg), which it does not visit
GROUPS = {0: (2, 3), 3: (3, 4), 4: (6, 7), 6: (4, 5), 7: (9, 10), 8: (4, 4), 9: (5, 5), 10: (6, 6), 11: (8, 8),
          12: (10, 10)}


def _cell(rng, g, pool):
    npr, spr = GROUPS[g]
    nodes = rng.sample(pool, npr) if len(pool) >= npr and rng.random() < 0.9 else [rng.choice(pool) for _ in range(npr)]
    return nodes + [rng.randint(1, 9)] * (spr - npr)


def gen_edges(rng, tier):
    ops = []
    nsess = 10 if tier == 'quick' else 40
    for s in range(nsess):
        kind = rng.choice(['tri', 'tet', 'mixed', 'mixed', 'big', 'quad'])
        if kind == 'tri':
            groups = [3]
        elif kind == 'tet':
            groups = [8]
        elif kind == 'quad':
            groups = [6, 11, 4, 12]
        elif kind == 'big':
            groups = [8, 3]
        else:
            groups = rng.sample([0, 3, 6, 8, 9, 10, 11], rng.randint(2, 4))
        npool = rng.choice([5, 8, 12, 30]) if kind != 'big' else rng.choice([40, 120])
        pool = list(range(npool)) if rng.random() < 0.8 else sorted(rng.sample(range(0, 6000), npool))
        ncell = rng.randint(2, 14) if kind != 'big' else rng.randint(90, 160)
        cells = [(g, _cell(rng, g, pool)) for g in (rng.choice(groups) for _ in range(ncell))]
        variant = rng.choice(['plain', 'readd', 'junk', 'reverse', 'removes'])
        # history A: straightforward
        ops.append('reset')
        for g, c in cells:
            ops.append('add %d %s' % (g, ' '.join(map(str, c))))
        if rng.random() < 0.3:
            ops.append('edges')
        ops += ['live', 'edges']
        # history B
        ops.append('reset')
        if variant == 'readd':
            # remove a cell and add the same nodes again: the freed slot is reused, the live sequence is the same
            for g, c in cells:
                ops.append('add %d %s' % (g, ' '.join(map(str, c))))
            per = {}
            idx = []
            for g, c in cells:
                idx.append((g, per.get(g, 0)))
                per[g] = per.get(g, 0) + 1
            for k in rng.sample(range(len(cells)), min(3, len(cells))):
                g, slot = idx[k]
                ops.append('remove %d %d' % (g, slot))
                ops.append('add %d %s' % (g, ' '.join(map(str, cells[k][1]))))
        elif variant == 'junk':
            # extra cells added at the end and removed again (adjacency chains and free lists differ)
            for g, c in cells:
                ops.append('add %d %s' % (g, ' '.join(map(str, c))))
            per = {}
            for g, c in cells:
                per[g] = per.get(g, 0) + 1
            junk = []
            for _ in range(rng.randint(1, 5)):
                g = rng.choice(groups)
                ops.append('add %d %s' % (g, ' '.join(map(str, _cell(rng, g, pool)))))
                junk.append((g, per.get(g, 0)))
                per[g] = per.get(g, 0) + 1
            rng.shuffle(junk)
            for g, slot in junk:
                ops.append('remove %d %d' % (g, slot))
        elif variant == 'reverse':
            for g, c in reversed(cells):
                ops.append('add %d %s' % (g, ' '.join(map(str, c))))
        elif variant == 'removes':
            for g, c in cells:
                ops.append('add %d %s' % (g, ' '.join(map(str, c))))
            per = {}
            for g, c in cells:
                per[g] = per.get(g, 0) + 1
            for _ in range(rng.randint(1, 4)):
                g = rng.choice(groups)
                ops.append('remove %d %d' % (g, rng.randint(0, max(0, per.get(g, 1) - 1))))
            g = rng.choice(groups)
            ops.append('add %d %s' % (g, ' '.join(map(str, _cell(rng, g, pool)))))
        else:
            for g, c in cells:
                ops.append('add %d %s' % (g, ' '.join(map(str, c))))
        ops += ['live', 'edges']
        if rng.random() < 0.15:   # malformed share
            ops += ['reset', rng.choice(['add 3 0 1 -2 5', 'add 8 1 -3 2 3', 'add 16 0 1 2 3', 'add 3 0 1', 'remove 3 7',
                                         'add 3 -1 2 3 1', 'edges x']), 'live', 'edges']
    return ops


UNDIRECTED_COMPLETE = {3: 3, 8: 4}   # simplices: every node pair of the cell is an edge


def oracle_edges(ops, impl):
    """C18 on the implementation's own output: (i) no undirected edge is numbered twice, every edge joins two nodes
    of one live cell of a visited group, every node pair of a live tri/tet is an edge; (ii) two histories that end in
    the same live-cell sequence give the same e2n, entry by entry"""
    bad = []
    seen = {}
    last_live = None
    for i, (op, line) in enumerate(zip(ops, impl)):
        w = op.split()
        if w[0] in ('reset', 'add', 'remove'):
            last_live = None
        elif w[0] == 'live' and line.startswith('ok'):
            last_live = line
        elif w[0] == 'edges' and len(w) == 1 and line.startswith('ok') and last_live is not None:
            t = line.split()
            n = int(t[1])
            e = [(int(t[2 + 2 * k]), int(t[3 + 2 * k])) for k in range(n)]
            und = [frozenset(p) if p[0] != p[1] else (p[0],) for p in e]
            if len(set(und)) != len(und):
                bad.append((i, 'C18 ref_edge_create numbered an undirected edge twice: %s' % line[:200]))
                continue
            cells = []
            for tok in last_live.split()[1:]:
                g, c, ns = tok.split(':')
                if int(g) >= 3:
                    cells.append((int(g), [int(x) for x in ns.split(',')]))
            pairs = set()
            for g, ns in cells:
                for a in ns:
                    for b in ns:
                        pairs.add((a, b))
            for p in e:
                if p not in pairs:
                    bad.append((i, 'C18 edge %s joins no two nodes of a live cell' % (p,)))
                    break
            have = set(und)
            for g, ns in cells:
                if g in UNDIRECTED_COMPLETE:
                    for x in range(len(ns)):
                        for y in range(x + 1, len(ns)):
                            k = frozenset((ns[x], ns[y])) if ns[x] != ns[y] else (ns[x],)
                            if k not in have:
                                bad.append((i, 'C18 cell edge (%d,%d) of a live cell is missing from e2n' % (ns[x], ns[y])))
                                break
            if last_live in seen and seen[last_live][1] != line:
                bad.append((i, 'C18 same live-cell sequence, different edge numbering: op %d gave %s, op %d gives %s' %
                            (seen[last_live][0], seen[last_live][1][:120], i, line[:120])))
            seen.setdefault(last_live, (i, line))
    return bad


EDGES = Stream('repro_edges', 'h_repro', 'repro', gen_edges, oracle=oracle_edges,
               nontrivial=lambda op, out: out.startswith('ok ') and op.split()[0] in ('edges', 'live'))


# ------------------------------------------------------------------ wall distance under two rand() streams
def gen_walldist(rng, tier):
    import struct
    hx = lambda x: struct.pack('>d', float(x)).hex()
    ops = []
    for s in range(8 if tier == 'quick' else 30):
        per = rng.choice([2, 3, 3])
        ops.append('reset')
        n = rng.choice([1, 2, 5, 12, 40, 90])
        kind = rng.choice(['random', 'cluster', 'lattice', 'dup'])
        base = [rng.uniform(-1, 1) for _ in range(3)]
        for e in range(n):
            if kind == 'lattice':
                c = [float(e % 4), float((e // 4) % 4), float(e // 16) if per == 3 else 0.0]
            elif kind == 'cluster':
                c = [b + rng.uniform(-1e-3, 1e-3) for b in base]
            elif kind == 'dup' and e % 2 == 1:
                c = prev
            else:
                c = [rng.uniform(-2, 2), rng.uniform(-2, 2), rng.uniform(-2, 2) if per == 3 else 0.0]
            prev = c
            pts = []
            for v in range(per):
                if kind == 'dup' and e % 2 == 1:
                    pts += pp[3 * v:3 * v + 3]
                else:
                    pts += [c[0] + rng.uniform(-0.5, 0.5), c[1] + rng.uniform(-0.5, 0.5),
                            (c[2] + rng.uniform(-0.5, 0.5)) if per == 3 else 0.0]
            pp = pts
            ops.append('welem %d %s' % (per, ' '.join(hx(x) for x in pts)))
        mask = rng.choice([7, 7, 1, 2, 4, 3, 5, 6])
        nq = rng.randint(1, 12)
        q = []
        for _ in range(nq):
            q += [rng.uniform(-3, 3), rng.uniform(-3, 3), rng.uniform(-3, 3) if per == 3 else 0.0]
        wd = 'walldist %d %d %s' % (per, mask, ' '.join(hx(x) for x in q))
        for k in range(3):
            ops.append('randseed %d' % rng.randint(0, 10 ** 8))
            ops.append(wd)
    return ops


def oracle_walldist(ops, impl):
    bad = []
    first = {}
    for i, (op, line) in enumerate(zip(ops, impl)):
        w = op.split()
        if w[0] == 'reset':
            first = {}
        elif w[0] == 'walldist':
            if not line.startswith('ok'):
                bad.append((i, 'ref_phys_wall_distance returned %s' % line[:80]))
            elif op in first and first[op][1] != line:
                bad.append((i, 'C18 wall distance depends on the rand() stream (tree insertion order): op %d gave %s, '
                               'op %d gives %s' % (first[op][0], first[op][1][:160], i, line[:160])))
            first.setdefault(op, (i, line))
    return bad


WALLDIST_ORDERS = Stream('repro_walldist_orders', 'h_repro', None, gen_walldist, oracle=oracle_walldist, kind='oracle',
                         nontrivial=lambda op, out: out.startswith('ok ') and op.startswith('walldist'))


# ------------------------------------------------------------------ scheduled point-to-point (diff, MPI + delay shim)
def gen_sched(rng, tier, np):
    ops = []
    for _ in range(30 if tier == 'quick' else 120):
        for _k in range(50):
            o = streams_comm.gen_alltoallv(rng, np)
            w = o.split()
            if w[3] == '1':      # native variant only (the MPI_Alltoallv variant has no point-to-point messages)
                ops.append(o)
                break
        ty = streams_comm.pick_type(rng)
        counts = streams_comm.count_vector(rng, np, 20)
        ops.append(streams_comm.line(rng.choice(['scatter', 'gather']), np, [ty],
                                     [[streams_comm.tok(ty, s * 64 + i) for i in range(counts[s])] for s in range(np)]))
    return ops


def oracle_sched(ops, impl):
    """sequential specification of the three primitives on the implementation's output (same as C17's oracles)"""
    ex = [o for o in ops if o.split()[0] == 'alltoallv']
    co = [o for o in ops if o.split()[0] != 'alltoallv']
    iex = [l for o, l in zip(ops, impl) if o.split()[0] == 'alltoallv']
    ico = [l for o, l in zip(ops, impl) if o.split()[0] != 'alltoallv']
    idx_ex = [i for i, o in enumerate(ops) if o.split()[0] == 'alltoallv']
    idx_co = [i for i, o in enumerate(ops) if o.split()[0] != 'alltoallv']
    bad = [(idx_ex[i], m) + tuple(r) for (i, m, *r) in streams_comm.oracle_exchange(ex, iex)]
    bad += [(idx_co[i], m) + tuple(r) for (i, m, *r) in streams_comm.oracle_collect(co, ico)]
    return bad


SCHED = Stream('repro_sched', 'h_comm', 'repro', gen_sched, oracle=oracle_sched, np=[2, 3, 4], whitebox=('ref_mpi',),
               timeout=300, nontrivial=streams_comm._nontrivial, session='\x00none',
               batches={'quick': 1, 'thorough': 3}, extra_src=('pmpi_delay.c',),
               env={'REF_VERIF_DELAY_SEED': str(1 + int(os.environ.get('VERIF_SEED', '1')) % 9973),
                    'REF_VERIF_DELAY_MAX_US': '300', 'REF_VERIF_DELAY_PCT': '60'})
SCHED.ops_file = True
