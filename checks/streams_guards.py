"""streams for the adaptation guards of property C02 (harness h_guards / driver guards).

op line:  <op> i0 i1 i2 i3 <w:hex> nn <3*nn hex xyz> ncell <cells>
cells:    edg a b id | tri a b c id | qua a b c d id | tet a b c d | pyr x5 | pri x6 | hex x8
(in the order they are handed to ref_cell_add).

Generators: random cell soups over few nodes (every branch of the face-id / mixed / manifold rules, error
branches included), boundary stars of a vertex/edge -- planar, creased at angles from 1e-5 to 1 rad so that the
1-1e-8 same-normal tolerance is crossed, ridges (2 ids), corners (3+ ids), with/without edg cells, with
quad/prism/pyramid/hex neighbours, 2-D boundary polylines with chord heights around the 0.1 threshold, swap
quads (planar, creased, non-convex).
Oracles state the rule of the property directly on the implementation's answer, from the op line only
(independent of the Lean model): "allowed => not a corner", "allowed and 2 ids => the edge is the ridge", ...
"""
import math
import struct

from .common import Stream

EPS = 2.0 ** -52
TOL = 1.0 - 1.0e-8


def hx(d):
    return '%016x' % struct.unpack('>Q', struct.pack('>d', float(d)))[0]


def unhx(s):
    if s == 'nan':
        return float('nan')
    return struct.unpack('>d', bytes.fromhex(s))[0]


SIZES = {'edg': (2, True), 'tri': (3, True), 'qua': (4, True), 'tet': (4, False), 'pyr': (5, False), 'pri': (6, False),
         'hex': (8, False)}
# side tables written down from the element pictures of ref_cell.h (NOT taken from the generated Lean tables)
E2N = {
    'edg': [(0, 1)],
    'tri': [(0, 1), (1, 2), (2, 0)],
    'qua': [(0, 1), (1, 2), (2, 3), (3, 0)],
    'pyr': [(0, 1), (0, 2), (0, 3), (1, 2), (1, 4), (2, 3), (2, 4), (3, 4)],
    'pri': [(0, 1), (0, 2), (0, 3), (1, 2), (1, 4), (2, 5), (3, 4), (3, 5), (4, 5)],
    'hex': [(0, 1), (0, 3), (0, 4), (1, 2), (1, 5), (2, 3), (2, 6), (3, 7), (4, 5), (4, 7), (5, 6), (6, 7)],
}


def fmt_op(op, ints, w, pts, cells):
    i = list(ints) + [0] * (4 - len(ints))
    out = [op] + [str(x) for x in i] + [hx(w), str(len(pts))]
    for p in pts:
        out += [hx(p[0]), hx(p[1]), hx(p[2])]
    out.append(str(len(cells)))
    for c in cells:
        out.append(c[0])
        out += [str(x) for x in c[1:]]
    return ' '.join(out)


def parse_op(line):
    """-> dict(op, i, w, pts, cells{kind: [(nodes, id)]}, order) or None when malformed"""
    w = line.split()
    try:
        op = w[0]
        i = [int(x) for x in w[1:5]]
        wt = unhx(w[5])
        nn = int(w[6])
        if nn <= 0 or nn > 400:
            return None
        f = [unhx(x) for x in w[7:7 + 3 * nn]]
        if len(f) != 3 * nn:
            return None
        pts = [f[3 * k:3 * k + 3] for k in range(nn)]
        k = 7 + 3 * nn
        nc = int(w[k])
        k += 1
        cells = {kk: [] for kk in SIZES}
        n = 0
        while k < len(w):
            kind = w[k]
            sz, has_id = SIZES[kind]
            nodes = [int(x) for x in w[k + 1:k + 1 + sz]]
            if len(nodes) != sz or any(x < 0 or x >= nn for x in nodes):
                return None
            cid = int(w[k + 1 + sz]) if has_id else 0
            cells[kind].append((nodes, cid))
            k += 1 + sz + (1 if has_id else 0)
            n += 1
        if n != nc:
            return None
        return {'op': op, 'i': i, 'w': wt, 'pts': pts, 'cells': cells}
    except (ValueError, IndexError, KeyError, struct.error):
        return None


def N(tier, q, t=None):
    return q if tier == 'quick' else (t if t is not None else 6 * q)


# ---------------------------------------------------------------------------------------------- geometry helpers
def sub(a, b):
    return [a[0] - b[0], a[1] - b[1], a[2] - b[2]]


def cross(a, b):
    return [a[1] * b[2] - a[2] * b[1], a[2] * b[0] - a[0] * b[2], a[0] * b[1] - a[1] * b[0]]


def dot(a, b):
    return a[0] * b[0] + a[1] * b[1] + a[2] * b[2]


def unit(a):
    n = math.sqrt(dot(a, a))
    if not (n > 0) or not math.isfinite(n):
        return None
    return [a[0] / n, a[1] / n, a[2] / n]


def tri_unit_normal(pts, nodes):
    return unit(cross(sub(pts[nodes[1]], pts[nodes[0]]), sub(pts[nodes[2]], pts[nodes[0]])))


def rot(rng):
    while True:
        q = [rng.gauss(0, 1) for _ in range(4)]
        n = math.sqrt(sum(x * x for x in q))
        if n > 1e-3:
            break
    w, x, y, z = [t / n for t in q]
    return [[1 - 2 * (y * y + z * z), 2 * (x * y - z * w), 2 * (x * z + y * w)],
            [2 * (x * y + z * w), 1 - 2 * (x * x + z * z), 2 * (y * z - x * w)],
            [2 * (x * z - y * w), 2 * (y * z + x * w), 1 - 2 * (x * x + y * y)]]


def place(rng, pts, mode=None):
    """rigid motion + scale of a configuration (the guards are invariant up to rounding)"""
    mode = mode if mode is not None else rng.random()
    if mode < 0.35:
        return [list(p) for p in pts]
    m = rot(rng) if mode < 0.8 else [[1, 0, 0], [0, 1, 0], [0, 0, 1]]
    s = 10.0 ** rng.uniform(-3, 3) if rng.random() < 0.4 else 1.0
    off = [rng.uniform(-5, 5) * s for _ in range(3)] if rng.random() < 0.5 else [0.0, 0.0, 0.0]
    return [[s * (m[k][0] * p[0] + m[k][1] * p[1] + m[k][2] * p[2]) + off[k] for k in range(3)] for p in pts]


def angle(rng):
    """crease / tilt angles: log-uniform 1e-5..1 rad with extra mass around acos(1-1e-8) = 1.414e-4"""
    t = rng.random()
    if t < 0.15:
        return 0.0
    if t < 0.5:
        return math.sqrt(2e-8) * (1.0 + rng.choice([-1, 1]) * 10.0 ** rng.uniform(-6, -0.3))
    if t < 0.9:
        return 10.0 ** rng.uniform(-5, 0)
    return rng.uniform(0.5, 3.0)


# ---------------------------------------------------------------------------------------------- random soups
def rnd_cell(rng, kind, nn, ids, must=None, allow_dup=False):
    sz, has_id = SIZES[kind]
    if allow_dup or sz > nn:
        nodes = [rng.randrange(nn) for _ in range(sz)]
    else:
        nodes = rng.sample(range(nn), sz)
    if must:
        # put the required nodes at random distinct slots
        slots = rng.sample(range(sz), len(must))
        for s_, m_ in zip(slots, must):
            if m_ in nodes and not allow_dup:
                nodes[nodes.index(m_)] = nodes[s_]
            nodes[s_] = m_
    c = [kind] + nodes
    if has_id:
        c.append(rng.choice(ids))
    return c


def gen_soup_case(rng):
    """few nodes, random cells: every branch of the combinatorial rules, incl. error branches"""
    nn = rng.randint(4, 9)
    n0, n1 = rng.sample(range(nn), 2)
    nid = rng.choice([1, 1, 2, 2, 2, 3, 3, 4, 5])
    ids = rng.sample([1, 2, 3, 5, 7, 11, 0, -1], nid)
    dup = rng.random() < 0.04
    cells = []
    ntri = rng.choice([0, 1, 2, 2, 3, 4, 5, 6, 8])
    for _ in range(ntri):
        t = rng.random()
        if t < 0.35:
            cells.append(rnd_cell(rng, 'tri', nn, ids, must=[n0, n1], allow_dup=dup))
        elif t < 0.75:
            cells.append(rnd_cell(rng, 'tri', nn, ids, must=[n1], allow_dup=dup))
        else:
            cells.append(rnd_cell(rng, 'tri', nn, ids, allow_dup=dup))
    for _ in range(rng.choice([0, 0, 0, 1, 2, 3])):
        t = rng.random()
        cells.append(rnd_cell(rng, 'edg', nn, ids, must=[n0, n1] if t < 0.3 else ([n1] if t < 0.7 else None), allow_dup=dup))
    for _ in range(rng.choice([0, 0, 1, 2])):
        cells.append(rnd_cell(rng, 'tet', nn, ids, must=[n0, n1] if rng.random() < 0.5 else None))
    if rng.random() < 0.5:
        for _ in range(rng.choice([1, 1, 2])):
            kind = rng.choice(['qua', 'pyr', 'pri', 'hex'])
            if SIZES[kind][0] > nn:
                kind = 'qua'
            t = rng.random()
            must = [n0, n1] if t < 0.45 else ([n1] if t < 0.65 else ([n0] if t < 0.8 else None))
            cells.append(rnd_cell(rng, kind, nn, ids, must=must))
    rng.shuffle(cells)
    pts = [[rng.uniform(-1, 1) for _ in range(3)] for _ in range(nn)]
    return n0, n1, pts, cells


def gen_rules(rng, tier):
    ops = []
    for _ in range(N(tier, 900)):
        n0, n1, pts, cells = gen_soup_case(rng)
        t = rng.random()
        gn = 1 if t < 0.05 else 0
        ge = 1 if 0.04 < t < 0.12 else 0
        ops.append(fmt_op('cgeom', [n0, n1, gn, ge], 0.0, pts, cells))
        if rng.random() < 0.3:
            ops.append(fmt_op('cgeom', [n1, n0, 0, 0], 0.0, pts, cells))
        for op in ('cmixed', 'smixed', 'wmixed', 'vmixed'):
            if rng.random() < 0.5:
                ops.append(fmt_op(op, [n0, n1], 0.0, pts, cells))
        if rng.random() < 0.5:
            ops.append(fmt_op('sneigh', [n1, 0], 0.0, pts, cells))
    # swap rules: mostly manifold pairs of triangles, sometimes 0/1/3 triangles on the edge (error branches
    # export a .tec file: kept rare)
    for _ in range(N(tier, 500)):
        nn = rng.randint(4, 8)
        n0, n1 = rng.sample(range(nn), 2)
        others = [x for x in range(nn) if x not in (n0, n1)]
        ids = rng.sample([1, 2, 3, 4], rng.choice([1, 1, 2, 3]))
        cells = []
        t = rng.random()
        k = 2 if t < 0.8 else rng.choice([0, 0, 1, 3])
        thirds = rng.sample(others, min(k, len(others)))
        for j, n2 in enumerate(thirds):
            o = [n0, n1, n2] if (j % 2 == 0) != (rng.random() < 0.15) else [n1, n0, n2]
            r = rng.randrange(3)
            o = o[r:] + o[:r]
            cells.append(['tri'] + o + [rng.choice(ids)])
        for _ in range(rng.choice([0, 1, 2, 3])):
            cells.append(rnd_cell(rng, 'tri', nn, ids, must=rng.choice([None, [n0], [n1], thirds[:2] if len(thirds) > 1 else None])))
        if rng.random() < 0.15:
            cells.append(rnd_cell(rng, 'edg', nn, ids, must=[n0, n1] if rng.random() < 0.6 else None))
        if rng.random() < 0.15:
            cells.append(rnd_cell(rng, 'qua', nn, ids, must=[n0, n1] if rng.random() < 0.7 else None))
        rng.shuffle(cells)
        pts = [[rng.uniform(-1, 1) for _ in range(3)] for _ in range(nn)]
        ops.append(fmt_op('wsame', [n0, n1], 0.0, pts, cells))
        ops.append(fmt_op('wnode23', [n0, n1], 0.0, pts, cells))
        ops.append(fmt_op('wmanifold', [n0, n1], 0.0, pts, cells))
        if rng.random() < 0.3:
            ops.append(fmt_op('wmixed', [n0, n1], 0.0, pts, cells))
    # malformed share
    p3 = [[0.0, 0.0, 0.0], [1.0, 0.0, 0.0], [0.0, 1.0, 0.0]]
    ops.append(fmt_op('cgeom', [0, 5], 0.0, p3, [['tri', 0, 1, 2, 1]]))
    ops.append(fmt_op('cgeom', [0, 1, 2, 0], 0.0, p3, [['tri', 0, 1, 2, 1]]))
    ops.append(fmt_op('nosuch', [0, 1], 0.0, p3, [['tri', 0, 1, 2, 1]]))
    ops.append(fmt_op('cmixed', [0, 1], 0.0, p3, [['tri', 0, 1, 3, 1]]))
    ops.append(fmt_op('cmixed', [0, 1], 0.0, p3, [['tri', 0, 1, 2, 1]]) + ' tri 0 1')
    ops.append('cgeom 0 1')
    ops.append(fmt_op('wsame', [0, 1], 0.0, p3, [['sph', 0, 1, 2, 1]]))
    return ops


def has_nodes(c, *ns):
    return all(n in c[0] for n in ns)


def side_of(kind, nodes, a, b):
    return any((nodes[x] == a and nodes[y] == b) or (nodes[x] == b and nodes[y] == a) for x, y in E2N[kind])


def degenerate(d):
    return any(len(set(c[0])) != len(c[0]) for k in d['cells'] for c in d['cells'][k])


def oracle_rules(ops, impl):
    bad = []
    for i, (o, r) in enumerate(zip(ops, impl)):
        d = parse_op(o)
        rw = r.split()
        if d is None:
            if r != 'bad-op':
                bad.append((i, 'malformed op answered %r' % r))
            continue
        if r == 'bad-op':
            continue
        op, (n0, n1, i2, i3), C = d['op'], d['i'], d['cells']
        st = rw[0]
        val = rw[1] if len(rw) > 1 else None
        mixed = [(k, c) for k in ('qua', 'pyr', 'pri', 'hex') for c in C[k]]
        if op == 'cgeom':
            if st != 'ok':
                bad.append((i, 'collapse geometry guard failed with %s' % st))
                continue
            allowed = val == '1'
            around = [c for c in C['tri'] if n1 in c[0]]
            ids = {c[1] for c in around}
            k = len(ids)
            shared = [c for c in around if n0 in c[0]]
            if i2:  # CAD node
                if allowed:
                    bad.append((i, 'a CAD node was allowed to collapse'))
                continue
            if i3:
                if allowed != any(has_nodes(c, n0, n1) for c in C['edg']) and not degenerate(d):
                    bad.append((i, 'CAD edge node: allowed=%s but edg on the edge: %s' % (allowed, not allowed)))
                continue
            eids = {c[1] for c in C['edg'] if n1 in c[0]}
            if len(eids) >= 2 and allowed:
                bad.append((i, 'node %d separates boundary edge ids %s and may collapse' % (n1, sorted(eids))))
            if k >= 3 and allowed:
                bad.append((i, 'corner removed: node %d carries %d patch ids %s and may collapse' % (n1, k, sorted(ids))))
            if k == 2 and allowed and not degenerate(d):
                if len(shared) != 2 or {c[1] for c in shared} != ids:
                    bad.append((i, 'ridge node %d (ids %s) may collapse along an edge that is not the ridge: '
                                'triangles on the edge carry %s' % (n1, sorted(ids), [c[1] for c in shared])))
            # a refusal never violates C02 (the property does not require any collapse to happen): a guard that
            # became stricter shows up as a model difference only (no-failing-input-found)
            if k == 1 and not degenerate(d) and allowed and len(shared) == 0:
                bad.append((i, 'patch-interior node %d may collapse onto node %d although no boundary triangle '
                            'contains the edge' % (n1, n0)))
        elif op == 'cmixed':
            want = not any(n1 in c[0] for _, c in mixed)
            if st != 'ok' or (val == '1') != want:
                bad.append((i, 'collapse mixed guard says %s, node %d %s a non-simplex cell' %
                            (r, n1, 'touches' if not want else 'is free of')))
        elif op == 'vmixed':
            want = not any(n1 in c[0] or n0 in c[0] for _, c in mixed)
            if st != 'ok' or (val == '1') != want:
                bad.append((i, 'cavity mixed guard says %s, expected %s' % (r, want)))
        elif op in ('smixed', 'wmixed'):
            want = not any(side_of(k, c[0], n0, n1) for k, c in mixed)
            if st != 'ok' or (val == '1') != want:
                bad.append((i, '%s guard says %s but the edge %s a side of a non-simplex cell' %
                            (op, r, 'is' if not want else 'is not')))
        elif op == 'wsame':
            if st == 'ok' and val == '1' and not degenerate(d):
                shared = [c for c in C['tri'] if has_nodes(c, n0, n1)]
                if any(has_nodes(c, n0, n1) for c in C['edg']):
                    bad.append((i, 'swap allowed on an edge that carries an edg (ridge) cell'))
                if len(shared) not in (0, 2) or len({c[1] for c in shared}) > 1:
                    bad.append((i, 'swap allowed across patch ids %s' % [c[1] for c in shared]))
        elif op == 'wmanifold':
            if st == 'ok' and val == '1' and not degenerate(d):
                shared = [c for c in C['tri'] if has_nodes(c, n0, n1)]
                if len(shared) != 2:
                    bad.append((i, 'manifold swap allowed with %d triangles on the edge' % len(shared)))
                else:
                    n2 = [x for x in shared[0][0] if x not in (n0, n1)][0]
                    n3 = [x for x in shared[1][0] if x not in (n0, n1)][0]
                    if n2 != n3 and any(has_nodes(c, n2, n3) for c in C['tri']):
                        bad.append((i, 'swap would create edge %d-%d that already exists' % (n2, n3)))
    return bad


# ---------------------------------------------------------------------------------------------- boundary stars
def star(rng, m=None, theta=0.0, ids='one', twist=0.0):
    """vertex star: centre node 0 at the origin, ring nodes 1..m counter-clockwise on a jittered circle in z=0;
    the half y>0 is folded about the x axis by `theta` (crease through ring nodes 1 and 1+m/2 and the centre).
    ids: 'one' | 'ridge' (two ids split at the crease) | 'corner' (3 sectors) | 'many' (4+)
    -> pts, tris [(nodes,id)]"""
    m = m or rng.choice([4, 5, 6, 6, 7, 8])
    half = m // 2
    pts = [[0.0, 0.0, 0.0]]
    for k in range(m):
        if k == 0:
            a = 0.0
        elif k == half:
            a = math.pi
        elif k < half:
            a = math.pi * (k + rng.uniform(-0.25, 0.25)) / half
        else:
            a = math.pi + math.pi * (k - half + rng.uniform(-0.25, 0.25)) / (m - half)
        rr = rng.uniform(0.7, 1.3)
        x, y = rr * math.cos(a), rr * math.sin(a)
        if y > 0:
            pts.append([x, y * math.cos(theta), y * math.sin(theta)])
        else:
            pts.append([x, y, 0.0])
    tris = []
    for k in range(m):
        a, b = 1 + k, 1 + (k + 1) % m
        if ids == 'one':
            fid = 5
        elif ids == 'ridge':
            fid = 5 if k < half else 7
        elif ids == 'corner':
            fid = [5, 7, 9][min(2, k * 3 // m)]
        else:
            fid = 5 + k
        tris.append(['tri', 0, a, b, fid])
    return pts, tris, m, half


def mixed_neighbour(rng, nn, a, b):
    """a non-simplex cell over fresh nodes + the nodes a (and maybe b): as a side, as a diagonal, or only touching"""
    kind = rng.choice(['qua', 'pyr', 'pri', 'hex'])
    sz = SIZES[kind][0]
    fresh = list(range(nn, nn + sz))
    nodes = list(fresh)
    mode = rng.random()
    if mode < 0.45:  # edge is a side
        x, y = rng.choice(E2N[kind])
        nodes[x], nodes[y] = (a, b) if rng.random() < 0.5 else (b, a)
    elif mode < 0.7:  # both nodes, not a side
        pairs = [(x, y) for x in range(sz) for y in range(x + 1, sz) if (x, y) not in E2N[kind] and (y, x) not in E2N[kind]]
        x, y = rng.choice(pairs)
        nodes[x], nodes[y] = a, b
    elif mode < 0.85:
        nodes[rng.randrange(sz)] = a
    else:
        nodes[rng.randrange(sz)] = b
    c = [kind] + nodes
    if SIZES[kind][1]:
        c.append(3)
    return c, sz


def gen_star_case(rng):
    ids = rng.choice(['one', 'one', 'ridge', 'ridge', 'corner', 'many'])
    theta = angle(rng)
    pts, tris, m, half = star(rng, theta=theta, ids=ids)
    # node1 (removed) is the centre 0; node0 is a ring node: on the crease (1 or 1+half) or off it
    t = rng.random()
    if t < 0.4:
        n0 = rng.choice([1, 1 + half])
    else:
        n0 = rng.randint(1, m)
    cells = list(tris)
    # open the fan sometimes (boundary of the surface patch)
    if rng.random() < 0.2:
        cells.pop(rng.randrange(len(cells)))
    # centre off the plane / off the crease a little
    if rng.random() < 0.3:
        h = 10.0 ** rng.uniform(-9, -1) * rng.choice([-1, 1])
        pts[0] = [rng.uniform(-0.2, 0.2) if rng.random() < 0.5 else 0.0, 0.0, h if rng.random() < 0.7 else 0.0]
    # edg cells along the crease (ridge polyline) sometimes
    if rng.random() < 0.3:
        cells.append(['edg', 1, 0, 11])
        cells.append(['edg', 0, 1 + half, 11])
    nn = len(pts)
    if rng.random() < 0.25:
        c, sz = mixed_neighbour(rng, nn, 0, n0)
        cells.append(c)
        pts += [[rng.uniform(-1, 1), rng.uniform(-1, 1), -rng.uniform(0.5, 1.5)] for _ in range(sz)]
        nn += sz
    if rng.random() < 0.5:  # tets under the surface
        apex = nn
        pts.append([0.1, 0.05, -1.0])
        for c in tris[:rng.randint(1, len(tris))]:
            cells.append(['tet', c[1], c[3], c[2], apex])
    if rng.random() < 0.5:
        rng.shuffle(cells)
    return place(rng, pts), cells, n0, m, half


def gen_normals(rng, tier):
    ops = []
    for _ in range(N(tier, 700)):
        pts, cells, n0, m, half = gen_star_case(rng)
        ops.append(fmt_op('cnormal', [n0, 0], 0.0, pts, cells))
        t = rng.random()
        if t < 0.4:
            ops.append(fmt_op('cgeom', [n0, 0], 0.0, pts, cells))
        if t < 0.3:
            ops.append(fmt_op('snormal', [0, 0], 0.0, pts, cells))
        if 0.3 < t < 0.45:
            ops.append(fmt_op('snormal', [n0, 0], 0.0, pts, cells))
        if 0.45 < t < 0.55:
            ops.append(fmt_op('cnormal', [0, n0], 0.0, pts, cells))
        if t > 0.8:
            ops.append(fmt_op('cmixed', [n0, 0], 0.0, pts, cells))
            ops.append(fmt_op('smixed', [n0, 0], 0.0, pts, cells))
    # degenerate stars: zero-area original / new triangles, coincident nodes
    for _ in range(N(tier, 60)):
        pts, tris, m, half = star(rng, theta=angle(rng))
        t = rng.random()
        if t < 0.3:
            pts[2] = list(pts[1])  # zero-area original triangle (0,1,2)
        elif t < 0.6:
            pts[0] = [0.5 * (pts[1][k] + pts[2][k]) for k in range(3)]  # centre on a ring edge: collapse onto a line
        else:
            pts[3] = [2 * pts[2][k] - pts[1][k] for k in range(3)]
        n0 = rng.randint(1, m)
        ops.append(fmt_op('cnormal', [n0, 0], 0.0, pts, tris))
        ops.append(fmt_op('snormal', [0, 0], 0.0, pts, tris))
    # swap quads: two triangles over the edge (0,1) with third nodes 2 and 3, folded by theta about the edge
    for _ in range(N(tier, 500)):
        theta = angle(rng)
        a = [0.0, 0.0, 0.0]
        b = [1.0, 0.0, 0.0]
        c = [rng.uniform(-0.3, 1.3), rng.uniform(0.2, 1.2), 0.0]
        y = -rng.uniform(0.2, 1.2)
        d = [rng.uniform(-0.3, 1.3), y * math.cos(theta), y * math.sin(theta)]
        if rng.random() < 0.15:  # non-convex quad: the swapped triangles flip or degenerate
            d[0] = rng.choice([-1.5, 2.5, 1.0 + 1e-9, c[0]])
            c[0] = d[0]
        if rng.random() < 0.05:
            d = list(c)
        pts = [a, b, c, d]
        fid0 = 5
        fid1 = 5 if rng.random() < 0.8 else 7
        cells = [['tri', 0, 1, 2, fid0], ['tri', 1, 0, 3, fid1]]
        if rng.random() < 0.1:
            cells[1] = ['tri', 0, 1, 3, fid1]  # inconsistent orientation
        if rng.random() < 0.3:  # more surface around
            pts.append([0.5, 2.0, 0.0])
            cells.append(['tri', 2, 1, 4, 5])
        if rng.random() < 0.1:
            cells.append(['tri', 2, 3, 1, 5])  # the new edge already exists
        if rng.random() < 0.5:
            rng.shuffle(cells)
        pts = place(rng, pts)
        n0, n1 = (0, 1) if rng.random() < 0.7 else (1, 0)
        ops.append(fmt_op('wconf', [n0, n1], 0.0, pts, cells))
        if rng.random() < 0.3:
            ops.append(fmt_op('wsame', [n0, n1], 0.0, pts, cells))
            ops.append(fmt_op('wmanifold', [n0, n1], 0.0, pts, cells))
    return ops


def oracle_normals(ops, impl):
    bad = []
    SL = 1e-12
    for i, (o, r) in enumerate(zip(ops, impl)):
        d = parse_op(o)
        if d is None or r == 'bad-op':
            continue
        rw = r.split()
        op, (n0, n1, _, _), C, pts = d['op'], d['i'], d['cells'], d['pts']
        if rw[0] != 'ok' or degenerate(d):
            continue
        allowed = rw[1] == '1'
        if op == 'cnormal':
            worst = 2.0
            degen = False
            for nodes, _id in C['tri']:
                if n1 not in nodes or n0 in nodes:
                    continue
                a = tri_unit_normal(pts, nodes)
                b = tri_unit_normal(pts, [n0 if x == n1 else x for x in nodes])
                if a is None:
                    continue
                if b is None:
                    degen = True
                    continue
                worst = min(worst, dot(a, b))
            if allowed and worst < TOL - SL:
                bad.append((i, 'collapse allowed although a surviving boundary triangle turns: n.n\' = %.17g < 1-1e-8' % worst))
            if allowed and degen and worst > 1.5:
                pass
            if not allowed and not degen and worst >= TOL + SL:
                bad.append((i, 'collapse refused although every surviving triangle keeps its normal (min n.n\' = %.17g)' % worst))
        elif op == 'snormal':
            star_ = [nodes for nodes, _ in C['tri'] if n0 in nodes]
            ns = [tri_unit_normal(pts, nodes) for nodes in star_]
            if any(n is None for n in ns) or not ns:
                continue
            worst_pair = min(dot(a, b) for a in ns for b in ns)
            best_first = min(max(min(dot(f, b) for b in ns) for f in ns), 2.0)
            if allowed and best_first < TOL - SL:
                bad.append((i, 'boundary smoothing allowed on a non-flat neighbourhood (no reference normal is within tolerance of all)'))
            if not allowed and worst_pair >= TOL + SL:
                bad.append((i, 'boundary smoothing refused on a flat neighbourhood (min n.n\' = %.17g)' % worst_pair))
        elif op == 'wconf':
            shared = [nodes for nodes, _ in C['tri'] if n0 in nodes and n1 in nodes]
            if len(shared) != 2:
                continue
            a, b = tri_unit_normal(pts, shared[0]), tri_unit_normal(pts, shared[1])
            if a is None or b is None:
                continue
            if allowed and dot(a, b) < TOL - SL:
                bad.append((i, 'swap allowed across a crease: n0.n1 = %.17g < 1-1e-8' % dot(a, b)))
            if allowed:
                # the two triangles after the swap: (n0,n3,n2) and (n1,n2,n3), n2 opposite the directed edge n0->n1
                n2 = n3 = None
                for t in shared:
                    for k in range(3):
                        if t[k] == n0 and t[(k + 1) % 3] == n1:
                            n2 = t[(k + 2) % 3]
                        if t[k] == n1 and t[(k + 1) % 3] == n0:
                            n3 = t[(k + 2) % 3]
                if n2 is not None and n3 is not None:
                    c, e = tri_unit_normal(pts, [n0, n3, n2]), tri_unit_normal(pts, [n1, n2, n3])
                    if c is None or e is None or dot(c, e) < TOL - SL:
                        bad.append((i, 'swap allowed although the two new triangles do not share a normal'))
                    elif dot(a, c) < 0:
                        bad.append((i, 'swap allowed although it flips the surface'))
    return bad


# ---------------------------------------------------------------------------------------------- 2-D boundary polylines
def gen_polyline(rng, tier):
    """edg chains: node 1 between nodes 0 and 2 (keep = 0, remove = 1, other = 2), optional further edgs and the
    triangles of a 2-D mesh below the boundary"""
    ops = []
    for _ in range(N(tier, 700)):
        L0, L2 = rng.uniform(0.3, 1.5), rng.uniform(0.3, 1.5)
        base = L0 + L2
        t = rng.random()
        if t < 0.35:   # chord height around the 0.1 threshold: height / |n0 - other|
            ratio = 0.1 * (1.0 + rng.choice([-1, 1]) * 10.0 ** rng.uniform(-14, -0.5))
        elif t < 0.7:
            ratio = 10.0 ** rng.uniform(-7, 0.3)
        elif t < 0.8:
            ratio = 0.0
        else:          # tangent tolerance: tiny kink angles
            ratio = math.tan(angle(rng)) * L2 / base if rng.random() < 0.5 else angle(rng) * L2 / base
        h = ratio * base * rng.choice([-1, 1])
        pts = [[-L0, 0.0, 0.0], [0.0, h, 0.0], [L2, 0.0, 0.0]]
        cells = [['edg', 0, 1, 1], ['edg', 1, 2, rng.choice([1, 1, 2])]]
        r = rng.random()
        if r < 0.15:
            cells[1] = ['edg', 2, 1, 1]
        if r > 0.9:  # a third edg at the node (T-junction): edge_neighbors fails
            pts.append([0.0, 1.0, 0.0])
            cells.append(['edg', 1, 3, 4])
        if rng.random() < 0.4:  # 2-D triangles under the boundary
            k = len(pts)
            pts.append([rng.uniform(-0.2, 0.2), -rng.uniform(0.5, 1.0), 0.0])
            cells += [['tri', 0, k, 1, 1], ['tri', 1, k, 2, 1]]
        if rng.random() < 0.1:
            pts[2] = list(pts[0]) if rng.random() < 0.5 else list(pts[1])  # zero-length configurations
        if rng.random() < 0.15:
            kk = len(pts)
            c, sz = mixed_neighbour(rng, kk, 1, 0)
            cells.append(c)
            pts += [[rng.uniform(-1, 1), rng.uniform(1, 2), 0.0] for _ in range(sz)]
        if rng.random() < 0.5:
            rng.shuffle(cells)
        mode = rng.random()
        if mode < 0.5:   # planar 2-D mesh: stays in z = 0 (only in-plane motion)
            ang = rng.uniform(0, 2 * math.pi)
            cs, sn = math.cos(ang), math.sin(ang)
            pts = [[cs * p[0] - sn * p[1], sn * p[0] + cs * p[1], 0.0] for p in pts]
        else:
            pts = place(rng, pts, mode=rng.uniform(0.3, 1.0))
        keep, remove = (0, 1) if rng.random() < 0.8 else (2, 1)
        ops.append(fmt_op('cchord', [keep, remove], 0.0, pts, cells))
        ops.append(fmt_op('ctangent', [keep, remove], 0.0, pts, cells))
        u = rng.random()
        if u < 0.4:
            ops.append(fmt_op('stangent', [1, 0, 2], 0.0, pts, cells))
        if 0.3 < u < 0.6:
            ops.append(fmt_op('sneigh', [1, 0], 0.0, pts, cells))
        if u > 0.8:
            ops.append(fmt_op('cgeom', [keep, remove], 0.0, pts, cells))
            ops.append(fmt_op('wsame', [keep, remove], 0.0, pts, cells))
    # edge interpolation and the weight clamp
    for _ in range(N(tier, 300)):
        t = rng.random()
        z = rng.choice([0.0, 0.0, 1.5, -2.25, rng.uniform(-1, 1)])
        a = [rng.uniform(-5, 5), rng.uniform(-5, 5), z]
        b = [rng.uniform(-5, 5), rng.uniform(-5, 5), z if t < 0.7 else rng.uniform(-5, 5)]
        w = rng.choice([0.0, 1.0, 0.5, 0.05, 0.95, rng.random(), rng.random(), rng.uniform(-1, 2), 0.05 * (1 + 1e-15),
                        0.95 * (1 - 1e-16), 0.04999999999999999, 0.9500000000000001, -0.0, float('inf'), float('-inf'),
                        float('nan'), 1e-300, -1e300])
        if math.isfinite(w):
            ops.append(fmt_op('interp', [0, 1], w, [a, b], [['edg', 0, 1, 1]]))
            wc = min(0.95, max(0.05, w))
            ops.append(fmt_op('interp', [0, 1], wc, [a, b], [['edg', 0, 1, 1]]))
        ops.append(fmt_op('clamp', [0, 0], w, [a, b], [['edg', 0, 1, 1]]))
    return ops


def dist_point_line(p, a, b):
    ab = sub(b, a)
    L = math.sqrt(dot(ab, ab))
    if L == 0:
        return None, 0.0
    c = cross(sub(p, a), ab)
    return math.sqrt(dot(c, c)) / L, L


def oracle_polyline(ops, impl):
    bad = []
    for i, (o, r) in enumerate(zip(ops, impl)):
        d = parse_op(o)
        if d is None or r == 'bad-op':
            continue
        rw = r.split()
        op, (n0, n1, i2, _), C, pts = d['op'], d['i'], d['cells'], d['pts']
        if op == 'clamp':
            w = d['w']
            got = unhx(rw[1])
            if w == w and not (0.05 <= got <= 0.95):
                bad.append((i, 'split weight %r is outside [0.05, 0.95]' % got))
            if w == w and 0.05 <= w <= 0.95 and got != w:
                bad.append((i, 'split weight %r changed to %r inside the admissible interval' % (w, got)))
            continue
        if op == 'interp':
            if rw[0] != 'ok':
                bad.append((i, 'interpolate_edge failed: %s' % rw[0]))
                continue
            w = d['w']
            p = [unhx(x) for x in rw[1:4]]
            a, b = pts[n0], pts[n1]
            for k in range(3):
                ex = (1 - w) * a[k] + w * b[k]
                if abs(p[k] - ex) > 8 * EPS * (abs(a[k]) + abs(b[k])) * (1 + abs(w)):
                    bad.append((i, 'new vertex coordinate %d = %r is not (1-w)a+wb = %r' % (k, p[k], ex)))
            if 0.0 <= w <= 1.0:
                for k in range(3):
                    lo, hi = min(a[k], b[k]), max(a[k], b[k])
                    if not (lo - 4 * EPS * abs(lo) <= p[k] <= hi + 4 * EPS * abs(hi)):
                        bad.append((i, 'new vertex leaves the chord box on axis %d: %r not in [%r,%r]' % (k, p[k], lo, hi)))
                if a[2] == 0.0 and b[2] == 0.0 and p[2] != 0.0:
                    bad.append((i, 'planar 2-D mesh left its plane: z = %r' % p[2]))
            continue
        if rw[0] != 'ok' or degenerate(d):
            continue
        allowed = rw[1] == '1'
        if op == 'cchord':
            # every surviving boundary segment (n1, x) becomes (n0, x): the removed vertex must stay within
            # 0.1 |n0 x| of the new segment
            worst = 0.0
            for nodes, _id in C['edg']:
                if n1 not in nodes or n0 in nodes:
                    continue
                x = nodes[0] if nodes[1] == n1 else nodes[1]
                h, L = dist_point_line(pts[n1], pts[n0], pts[x])
                if h is None:
                    worst = float('inf')
                else:
                    worst = max(worst, h / L)
            if allowed and worst > 0.1 * (1 + 1e-9):
                bad.append((i, 'collapse allowed with chord height ratio %.17g > 0.1' % worst))
            if not allowed and worst < 0.1 * (1 - 1e-9):
                bad.append((i, 'collapse refused with chord height ratio %.17g < 0.1' % worst))
        elif op == 'ctangent':
            worst = 2.0
            for nodes, _id in C['edg']:
                if n1 not in nodes or n0 in nodes:
                    continue
                x = nodes[0] if nodes[1] == n1 else nodes[1]
                t0, t1 = unit(sub(pts[n1], pts[x])), unit(sub(pts[n0], pts[x]))
                if t0 is None:
                    continue
                if t1 is None:
                    worst = -1.0
                    continue
                worst = min(worst, dot(t0, t1))
            if allowed and worst < TOL - 1e-12:
                bad.append((i, 'collapse allowed although the boundary segment turns: t.t\' = %.17g' % worst))
            if not allowed and worst >= TOL + 1e-12:
                bad.append((i, 'collapse refused on a straight boundary (min t.t\' = %.17g)' % worst))
        elif op == 'stangent':
            t0, t1 = unit(sub(pts[n0], pts[n1])), unit(sub(pts[i2], pts[n0]))
            if t0 is None or t1 is None:
                continue
            if allowed and dot(t0, t1) < TOL - 1e-12:
                bad.append((i, 'edge smoothing allowed at a kink: t.t\' = %.17g' % dot(t0, t1)))
            if not allowed and dot(t0, t1) >= TOL + 1e-12:
                bad.append((i, 'edge smoothing refused on a straight boundary'))
    return bad


def _nontriv(op, out):
    return not out.startswith('bad-op')


WB = ['ref_split', 'ref_swap', 'ref_cavity', 'ref_smooth']
RULES = Stream('guards_rules', 'h_guards', 'guards', gen_rules, oracle=oracle_rules, whitebox=WB, nontrivial=_nontriv)
NORMALS = Stream('guards_normals', 'h_guards', 'guards', gen_normals, oracle=oracle_normals, whitebox=WB,
                 nontrivial=_nontriv)
POLYLINE = Stream('guards_polyline', 'h_guards', 'guards', gen_polyline, oracle=oracle_polyline, whitebox=WB,
                  nontrivial=_nontriv)


# ---------------------------------------------------------------------------------------------- real smoothers
def gen_smooth(rng, tier):
    """validate stream: the REAL ref_smooth_no_geom_tri_improve / _edge_improve run on the centre of a star /
    the middle of a boundary polyline; the harness reports whether the vertex moved, the model's guard chain
    says whether it is frozen (qua/pyr/pri/hex present, edg present, >1 face id, not flat)."""
    ops = []
    for _ in range(N(tier, 400)):
        ids = rng.choice(['one', 'one', 'one', 'ridge', 'corner'])
        theta = angle(rng) if rng.random() < 0.5 else 0.0
        pts, tris, m, half = star(rng, theta=theta, ids=ids)
        # off-centre so that an unguarded smoother has a reason to move it
        pts[0] = [rng.uniform(-0.35, 0.35), 0.0 if theta else rng.uniform(-0.35, 0.35), 0.0]
        cells = list(tris)
        t = rng.random()
        if t < 0.15:
            cells.append(['edg', 1, 0, 11])
            cells.append(['edg', 0, 1 + half, 11])
        elif t < 0.35:
            c, sz = mixed_neighbour(rng, len(pts), 0, rng.randint(1, m))
            if 0 not in c[1:1 + sz]:
                c[1] = 0
            cells.append(c)
            pts += [[rng.uniform(-1, 1), rng.uniform(-1, 1), -rng.uniform(0.5, 1.5)] for _ in range(sz)]
        if rng.random() < 0.3:
            rng.shuffle(cells)
        ops.append('vsm tri ' + fmt_op('x', [0, 0], 0.0, place(rng, pts, mode=rng.choice([0.1, 0.5, 0.9])), cells).split(' ', 1)[1])
    for _ in range(N(tier, 300)):
        # 2-D: boundary polyline 0-1-2 on y = 0 (node 1 off-centre), triangles below, planar z = 0
        L0, L2 = rng.uniform(0.3, 1.5), rng.uniform(0.3, 1.5)
        kink = 0.0 if rng.random() < 0.6 else math.tan(angle(rng)) * min(L0, L2)
        pts = [[-L0, 0.0, 0.0], [0.0, kink, 0.0], [L2, 0.0, 0.0], [-0.5 * L0, -0.8, 0.0], [0.5 * L2, -0.8, 0.0]]
        cells = [['edg', 0, 1, 1], ['edg', 1, 2, rng.choice([1, 1, 2])],
                 ['tri', 0, 3, 1, 1], ['tri', 3, 4, 1, 1], ['tri', 4, 2, 1, 1]]
        t = rng.random()
        if t < 0.15:
            pts.append([0.0, 1.0, 0.0])
            cells.append(['qua', 1, 2, 5, 0, 3] if rng.random() < 0.5 else ['edg', 1, 5, 4])
        elif t < 0.25:
            cells = cells[2:]  # no edg at all: interior node for the edge smoother
        if rng.random() < 0.3:
            rng.shuffle(cells)
        ang = rng.uniform(0, 2 * math.pi) if rng.random() < 0.5 else 0.0
        cs, sn = math.cos(ang), math.sin(ang)
        pts = [[cs * p[0] - sn * p[1], sn * p[0] + cs * p[1], 0.0] for p in pts]
        ops.append('vsm edg ' + fmt_op('x', [1, 0], 0.0, pts, cells).split(' ', 1)[1])
    return ops


def oracle_smooth(ops, impl):
    """property stated directly: a vertex whose neighbourhood has a non-simplex cell, an edg (tri smoother), or
    two patch ids is not moved"""
    bad = []
    for i, (o, r) in enumerate(zip(ops, impl)):
        w = o.split()
        d = parse_op('x ' + ' '.join(w[2:]))
        rw = r.split()
        if d is None or rw[0] != 'sm':
            continue
        node = d['i'][0]
        moved = rw[2] == '1'
        C = d['cells']
        touch = lambda k: any(node in c[0] for c in C[k])
        if moved and any(touch(k) for k in ('qua', 'pyr', 'pri', 'hex')):
            bad.append((i, 'boundary smoothing moved a vertex of a non-simplex cell'))
        if moved and w[1] == 'tri' and touch('edg'):
            bad.append((i, 'surface smoothing moved a vertex of an edg (ridge) cell'))
        if moved and w[1] == 'tri' and len({c[1] for c in C['tri'] if node in c[0]}) > 1:
            bad.append((i, 'surface smoothing moved a vertex between two patch ids'))
        if moved and w[1] == 'edg' and len({c[1] for c in C['edg'] if node in c[0]}) > 1:
            bad.append((i, 'boundary-edge smoothing moved a vertex that separates two edg ids'))
    return bad


SMOOTH = Stream('guards_smooth', 'h_guards', 'guards', gen_smooth, oracle=oracle_smooth, kind='validate',
                driver_args=('validate',), whitebox=WB, nontrivial=lambda op, out: out.startswith('sm'))


# ---------------------------------------------------------------------------------------------- real split pass
def gen_splitpass(rng, tier):
    """validate stream: the REAL ref_split_pass on small 2-D (twod) triangulations and small tet meshes with a
    metric that jumps by `w` between neighbouring vertices, so that the raw split weight leaves [0.05, 0.95].
    Every call of ref_node_interpolate_edge made by the pass is recorded (weight actually passed, end points,
    new vertex); the model recomputes the clamp and the interpolation."""
    ops = []
    for _ in range(N(tier, 120)):
        if rng.random() < 0.8:
            nx, ny = rng.randint(1, 3), rng.randint(1, 2)
            pts, cells = [], []
            for j in range(ny + 1):
                for i in range(nx + 1):
                    x, y = float(i), float(j)
                    if 0 < i < nx and 0 < j < ny:
                        x += rng.uniform(-0.3, 0.3)
                        y += rng.uniform(-0.3, 0.3)
                    pts.append([x, y, 0.0])
            vid = lambda i, j: i + (nx + 1) * j
            for j in range(ny):
                for i in range(nx):
                    a, b, c, d = vid(i, j), vid(i + 1, j), vid(i + 1, j + 1), vid(i, j + 1)
                    if rng.random() < 0.5:
                        cells += [['tri', a, b, c, 1], ['tri', a, c, d, 1]]
                    else:
                        cells += [['tri', a, b, d, 1], ['tri', b, c, d, 1]]
            for i in range(nx):
                cells.append(['edg', vid(i, 0), vid(i + 1, 0), 1])
                cells.append(['edg', vid(i + 1, ny), vid(i, ny), 3])
            for j in range(ny):
                cells.append(['edg', vid(nx, j), vid(nx, j + 1), 2])
                cells.append(['edg', vid(0, j + 1), vid(0, j), 4])
            if rng.random() < 0.2:  # a quad next to it: its sides must not be split
                k = len(pts)
                pts += [[float(nx) + 1.0, 0.0, 0.0], [float(nx) + 1.0, 1.0, 0.0]]
                cells.append(['qua', vid(nx, 0), k, k + 1, vid(nx, 1), 1])
            twod = 1
        else:
            pts = [[0.0, 0.0, 0.0], [1.0, 0.0, 0.0], [0.0, 1.0, 0.0], [0.0, 0.0, 1.0], [1.0, 1.0, 1.0]]
            cells = [['tet', 0, 1, 2, 3], ['tet', 1, 2, 3, 4], ['tri', 0, 2, 1, 1], ['tri', 0, 1, 3, 2], ['tri', 0, 3, 2, 3],
                     ['tri', 1, 2, 4, 4], ['tri', 2, 3, 4, 5], ['tri', 3, 1, 4, 6]]
            twod = 0
        perm = list(range(len(pts)))
        if rng.random() < 0.7:
            rng.shuffle(perm)   # which vertices get the small / large metric
        inv = [0] * len(pts)
        for new, old in enumerate(perm):
            inv[old] = new
        pts = [pts[old] for old in perm]
        cells = [[c[0]] + [inv[x] for x in c[1:1 + SIZES[c[0]][0]]] + c[1 + SIZES[c[0]][0]:] for c in cells]
        w = rng.choice([1.0, 1.5, 3.0, 10.0, 30.0, 100.0, 1000.0, 1e4, rng.uniform(1, 50)])
        h0 = rng.choice([10, 20, 30, 50, 80])
        ops.append('vsplit x ' + fmt_op('x', [0, 1, twod, h0], w, pts, cells).split(' ', 1)[1])
    return ops


def oracle_splitpass(ops, impl):
    """property stated directly on the recorded trial vertices: on the chord, between 5% and 95%, planar stays
    planar (the lines are not aligned with the ops: one op yields several `trial` lines)"""
    bad = []
    for r in impl:
        rw = r.split()
        if rw[0] != 'trial':
            continue
        f = [unhx(x) for x in rw[1:]]
        raw, w, a, b, p = f[0], f[1], f[2:5], f[5:8], f[8:11]
        if not (0.05 <= w <= 0.95):
            bad.append((0, 'ref_split_pass inserted with weight %r outside [0.05,0.95] (raw %r)' % (w, raw)))
        for k in range(3):
            ex = (1 - w) * a[k] + w * b[k]
            if abs(p[k] - ex) > 8 * EPS * (abs(a[k]) + abs(b[k]) + 1e-300):
                bad.append((0, 'trial vertex coordinate %d = %r is not on the chord (%r)' % (k, p[k], ex)))
        if a[2] == 0.0 and b[2] == 0.0 and p[2] != 0.0:
            bad.append((0, 'planar 2-D mesh left its plane: z = %r' % p[2]))
    return bad


SPLITPASS = Stream('guards_splitpass', 'h_guards', 'guards', gen_splitpass, oracle=oracle_splitpass, kind='validate',
                   driver_args=('validate',), whitebox=WB, nontrivial=lambda op, out: out.startswith('trial'))


# ---------------------------------------------------------------------------------------------- end-to-end (CLI)
# additive to checks/cli.py / checks/oracles.py: corner and ridge positions, and a 2-D scenario with two edg ids
# on one straight side
import os  # noqa: E402

from . import cli, oracles, pyio, meshgen  # noqa: E402


def features3d(m):
    """corners = vertices carrying >= 3 patch ids; ridges = edges between triangles of two different ids,
    summarised per id pair by total length"""
    v = m['verts']
    vid = {}
    edge_ids = {}
    for s in m['cells'].get('tri', []):
        for n in s[:3]:
            vid.setdefault(n, set()).add(s[3])
        for a, b in ((s[0], s[1]), (s[1], s[2]), (s[2], s[0])):
            edge_ids.setdefault((min(a, b), max(a, b)), []).append(s[3])
    corners = sorted(tuple(v[n][:3]) for n, ids in vid.items() if len(ids) >= 3)
    ridges = {}
    for (a, b), ids in edge_ids.items():
        if len(set(ids)) == 2:
            key = tuple(sorted(set(ids)))
            ridges[key] = ridges.get(key, 0.0) + math.dist(v[a][:3], v[b][:3])
    return corners, ridges


def features2d(m):
    """2-D: corners = vertices where two different edg ids meet"""
    v = m['verts']
    vid = {}
    for s in m['cells'].get('edg', []):
        for n in s[:2]:
            vid.setdefault(n, set()).add(s[2])
    return sorted(tuple(v[n][:2]) for n, ids in vid.items() if len(ids) >= 2)


def same_points(p0, p1, tol):
    if len(p0) != len(p1):
        return False
    return all(math.dist(a, b) <= tol for a, b in zip(p0, p1))


def oracle_adapt_c02(ops, impl):
    """cli.oracle_adapt (C01 validity + C02 volume / per-id area / bounding boxes / id set / planarity) plus the
    positions of corners and the length of every ridge"""
    bad = list(cli.oracle_adapt(ops, impl))
    for i, (op, line) in enumerate(zip(ops, impl)):
        d = cli.kv(op)
        o = cli.parse_out(line)
        if o.get('rc') != '0':
            continue
        dim = int(d.get('dim', '3'))
        try:
            mi = pyio.read_meshb(os.path.join(o['dir'], 'in.meshb'))
            mo = pyio.read_meshb(os.path.join(o['dir'], 'out.meshb'))
        except Exception:
            continue
        if dim == 3:
            c0, r0 = features3d(mi)
            c1, r1 = features3d(mo)
            if not same_points(c0, c1, 1e-9):
                bad.append((i, 'C02 corner positions changed: %d corners %s... -> %d corners %s...' %
                            (len(c0), c0[:2], len(c1), c1[:2])))
            if set(r0) != set(r1):
                bad.append((i, 'C02 set of ridges (id pairs) changed: %s -> %s' % (sorted(r0), sorted(r1))))
            elif float(d.get('warp', '0')) == 0:
                for k in r0:
                    if abs(r0[k] - r1[k]) > 1e-9 * max(r0[k], 1e-300):
                        bad.append((i, 'C02 ridge %s length changed: %.12e -> %.12e' % (k, r0[k], r1[k])))
        else:
            c0, c1 = features2d(mi), features2d(mo)
            if not same_points(c0, c1, 1e-9):
                bad.append((i, 'C02 2-D corner positions changed: %s -> %s' % (c0, c1)))
    return bad


ADAPT_C02 = Stream('cli_adapt_c02', cli.cli_harness, None, cli.gen_adapt, oracle=oracle_adapt_c02, kind='oracle',
                   nontrivial=lambda op, out: out.startswith('rc=0'), timeout=900)

SITE_2D = 'ref_collapse_edge_geometry:2d-edg-ids-not-protected'


def sc_adapt_2d_ids(ctx, d, case):
    """unit square, nx x ny, the part x >= cut of the bottom side retagged to edg id 5: two boundary ids on one
    straight side"""
    n = [int(x) for x in d.get('n', '6,6').split(',')]
    v, t, e = meshgen.square_tris(n[0], n[1], None, 0.0, (1.0, 1.0), 'sides')
    cut = float(d.get('cut', '0.5'))
    e2 = []
    for a, b, i in e:
        if v[a][1] == 0 and v[b][1] == 0 and min(v[a][0], v[b][0]) >= cut - 1e-12:
            i = 5
        e2.append((a, b, i))
    mesh = os.path.join(case, 'in.meshb')
    pyio.write_meshb(mesh, 2, v, {'tri': t, 'edg': e2}, version=2)
    met = cli.write_metric(case, 2, v, d.get('metric', 'uniform:0.5'))
    rc, tail = cli.run_ref(ctx, 0, ['adapt', mesh, '--metric', met, '-x', os.path.join(case, 'out.meshb'), '-s',
                                   d.get('passes', '4')], case)
    return 'rc=%d dir=%s' % (rc, case)


cli.SCENARIOS['adapt2dids'] = sc_adapt_2d_ids


def gen_adapt_2d_ids(rng, tier, np=None):
    ops = []
    for k in range(3 if tier == 'quick' else 10):
        n = rng.randint(5, 9)
        cut = rng.randint(2, n - 2) / n
        h = rng.uniform(0.15, 0.3) if k % 3 == 0 else rng.uniform(0.7, 1.6)   # refine / coarsen
        ops.append('adapt2dids n=%d,%d cut=%.12g metric=uniform:%.3f passes=%d' % (n, n, cut, h, rng.choice([3, 5, 8])))
    return ops


def oracle_adapt_2d_ids(ops, impl):
    bad = []
    for i, (op, line) in enumerate(zip(ops, impl)):
        o = cli.parse_out(line)
        if o.get('rc') != '0':
            bad.append((i, 'adapt exited with status %s' % o.get('rc')))
            continue
        try:
            mi = pyio.read_meshb(os.path.join(o['dir'], 'in.meshb'))
            mo = pyio.read_meshb(os.path.join(o['dir'], 'out.meshb'))
        except Exception as ex:
            bad.append((i, 'output mesh unreadable: %r' % (ex,)))
            continue
        f = oracles.valid2d(mo)
        if f:
            bad.append((i, 'C01 output mesh invalid: ' + '; '.join(f[:3])))
        f = oracles.same_domain(mi, mo, 2)
        c0, c1 = features2d(mi), features2d(mo)
        if not same_points(c0, c1, 1e-9):
            f = list(f) + ['2-D corner positions changed: %s -> %s' % (c0, c1)]
        if f:
            # (the defect that used to explain this - two edg ids on one straight side unprotected - is repaired in
            # /repo by 285dd96 and 36d5222; a fixed finding suppresses nothing)
            bad.append((i, 'C02 domain changed: ' + '; '.join(f[:3])))
    return bad


ADAPT_2D_IDS = Stream('cli_adapt_2d_ids', cli.cli_harness, None, gen_adapt_2d_ids, oracle=oracle_adapt_2d_ids,
                      kind='oracle', nontrivial=lambda op, out: out.startswith('rc=0'), timeout=900, site=None)
