"""streams for the geometric kernels (harness h_geom / driver geom): C15 measures, C11 interpolation,
C19 reconstruction.  Generators: random and adversarial simplices (aspect up to 1e6, near-flat, huge/small
coordinates 1e-8..1e8, permuted vertices, exactly degenerate), points inside/outside/on faces/vertices.
Oracles: the identities of the property in exact rational arithmetic (fractions.Fraction of the hex doubles)
with tolerances scaled by conditioning -- independent of the Lean model."""
import math
import struct
from fractions import Fraction as Fr

from .common import Stream

EPS = 2.0 ** -52


# ---------------------------------------------------------------------------------------------- helpers
def hx(d):
    return '%016x' % struct.unpack('>Q', struct.pack('>d', float(d)))[0]


def H(*vals):
    out = []

    def walk(v):
        if isinstance(v, (list, tuple)):
            for x in v:
                walk(x)
        else:
            out.append(hx(v))
    walk(vals)
    return ' '.join(out)


def unhx(s):
    if s == 'nan':
        return float('nan')
    return struct.unpack('>d', bytes.fromhex(s))[0]


def fl(w):
    """payload words -> floats"""
    return [unhx(x) for x in w]


def frs(xs):
    return [Fr(x) for x in xs]


def finite(xs):
    return all(math.isfinite(x) for x in xs)


def sub(a, b):
    return [a[0] - b[0], a[1] - b[1], a[2] - b[2]]


def cross(a, b):
    return [a[1] * b[2] - a[2] * b[1], a[2] * b[0] - a[0] * b[2], a[0] * b[1] - a[1] * b[0]]


def dot(a, b):
    return a[0] * b[0] + a[1] * b[1] + a[2] * b[2]


def det3(u, v, w):
    return dot(u, cross(v, w))


def vol_exact(a, b, c, d):
    """signed volume det[b-a, c-a, d-a]/6 (Fractions in, Fraction out)"""
    return det3(sub(b, a), sub(c, a), sub(d, a)) / 6


def span(*pts):
    m = 0.0
    for p in pts:
        for q in pts:
            for k in range(3):
                m = max(m, abs(float(p[k]) - float(q[k])))
    return m


def rot(rng):
    """random rotation matrix (float)"""
    while True:
        q = [rng.gauss(0, 1) for _ in range(4)]
        n = math.sqrt(sum(x * x for x in q))
        if n > 1e-3:
            break
    w, x, y, z = [t / n for t in q]
    return [[1 - 2 * (y * y + z * z), 2 * (x * y - z * w), 2 * (x * z + y * w)],
            [2 * (x * y + z * w), 1 - 2 * (x * x + z * z), 2 * (y * z - x * w)],
            [2 * (x * z - y * w), 2 * (y * z + x * w), 1 - 2 * (x * x + y * y)]]


def apply(m, p, scale=1.0, off=(0, 0, 0)):
    return [scale * (m[k][0] * p[0] + m[k][1] * p[1] + m[k][2] * p[2]) + off[k] for k in range(3)]


def rnd_scale(rng):
    return 10.0 ** rng.uniform(-8, 8)


def gen_tet(rng):
    """-> (kind, [a,b,c,d])"""
    mode = rng.random()
    if mode < 0.25:  # random
        s = rnd_scale(rng) if rng.random() < 0.5 else 1.0
        pts = [[s * rng.uniform(-1, 1) for _ in range(3)] for _ in range(4)]
        kind = 'random'
    elif mode < 0.45:  # stretched (aspect up to 1e6), rotated, shifted
        asp = 10.0 ** rng.uniform(0, 6)
        base = [[0, 0, 0], [1, 0, 0], [0.5, 0.8, 0], [0.4, 0.3, 0.9 / asp]]
        if rng.random() < 0.5:
            base = [[p[0], p[1] / asp, p[2] * asp / asp] for p in base]
        m = rot(rng)
        s = rnd_scale(rng) if rng.random() < 0.3 else 1.0
        off = [s * rng.uniform(-3, 3) for _ in range(3)] if rng.random() < 0.5 else [0, 0, 0]
        pts = [apply(m, p, s, off) for p in base]
        kind = 'aspect'
    elif mode < 0.6:  # near-flat: 4th point eps above the plane of the other three
        a, b, c = [[rng.uniform(-1, 1) for _ in range(3)] for _ in range(3)]
        n = cross(sub(b, a), sub(c, a))
        nn = math.sqrt(dot(n, n)) or 1.0
        u, v = rng.random(), rng.random()
        e = 10.0 ** rng.uniform(-14, -3) * rng.choice([-1, 1])
        d = [a[k] + u * (b[k] - a[k]) + v * (c[k] - a[k]) + e * n[k] / nn for k in range(3)]
        pts = [a, b, c, d]
        kind = 'nearflat'
    elif mode < 0.8:  # small integers: every product is exact in double
        pts = [[float(rng.randint(-6, 6)) for _ in range(3)] for _ in range(4)]
        kind = 'integer'
    elif mode < 0.9:  # exactly degenerate
        t = rng.random()
        if t < 0.3:
            p = [float(rng.randint(-3, 3)) for _ in range(3)]
            pts = [p, p, p, p]
        elif t < 0.6:
            pts = [[float(rng.randint(-4, 4)), float(rng.randint(-4, 4)), 0.0] for _ in range(4)]
        else:
            pts = [[float(rng.randint(-5, 5)) for _ in range(3)] for _ in range(3)]
            pts.append(list(pts[rng.randrange(3)]))
        kind = 'degenerate'
    else:  # unit tet images with huge offset (cancellation)
        off = [rng.choice([1e4, 1e6, 1e8]) * rng.uniform(0.5, 1) for _ in range(3)]
        pts = [[off[k] + p[k] for k in range(3)] for p in ([0, 0, 0], [1, 0, 0], [0, 1, 0], [0, 0, 1])]
        kind = 'offset'
    if rng.random() < 0.5:
        rng.shuffle(pts)
    return kind, pts


def gen_tri(rng, planar=False):
    mode = rng.random()
    if mode < 0.3:
        s = rnd_scale(rng) if rng.random() < 0.4 else 1.0
        pts = [[s * rng.uniform(-1, 1) for _ in range(3)] for _ in range(3)]
    elif mode < 0.55:
        asp = 10.0 ** rng.uniform(0, 6)
        base = [[0, 0, 0], [1, 0, 0], [rng.uniform(0.1, 0.9), 1.0 / asp, 0]]
        m = rot(rng)
        s = rnd_scale(rng) if rng.random() < 0.3 else 1.0
        pts = [apply(m, p, s) for p in base]
    elif mode < 0.8:
        pts = [[float(rng.randint(-6, 6)) for _ in range(3)] for _ in range(3)]
    elif mode < 0.9:  # degenerate: collinear / repeated
        a = [float(rng.randint(-3, 3)) for _ in range(3)]
        d = [float(rng.randint(-2, 2)) for _ in range(3)]
        pts = [a, [a[k] + d[k] for k in range(3)], [a[k] + 2 * d[k] for k in range(3)]]
    else:
        off = [rng.choice([1e4, 1e6, 1e8]) for _ in range(3)]
        pts = [[off[k] + p[k] for k in range(3)] for p in ([0, 0, 0], [1, 0, 0], [0, 1, 0])]
    if planar:
        z = rng.choice([0.0, 0.0, 1.0, -2.5])
        for p in pts:
            p[2] = z
    if rng.random() < 0.5:
        rng.shuffle(pts)
    return pts


def bary_weights(rng, n):
    """weights for points inside / on faces / at vertices / outside"""
    t = rng.random()
    if t < 0.35:
        w = [rng.random() + 1e-3 for _ in range(n)]
    elif t < 0.5:  # on a face / edge
        w = [rng.random() for _ in range(n)]
        for _ in range(rng.randint(1, n - 1)):
            w[rng.randrange(n)] = 0.0
        if sum(w) == 0:
            w[0] = 1.0
    elif t < 0.6:  # a vertex
        w = [0.0] * n
        w[rng.randrange(n)] = 1.0
    elif t < 0.8:  # slightly outside
        w = [rng.random() + 0.05 for _ in range(n)]
        w[rng.randrange(n)] = -10.0 ** rng.uniform(-14, -2)
    else:  # far outside
        w = [rng.uniform(-3, 3) for _ in range(n)]
        if abs(sum(w)) < 0.1:
            w[0] += 1.0
    s = sum(w)
    return [x / s for x in w]


def combo(w, pts):
    return [sum(w[i] * pts[i][k] for i in range(len(pts))) for k in range(3)]


def spd(rng, cond_exp=8):
    """random SPD metric (upper triangle m11 m12 m13 m22 m23 m33), condition up to 10^cond_exp"""
    m = rot(rng)
    h = 10.0 ** rng.uniform(-4, 4)
    ev = [1.0 / (h * 10.0 ** rng.uniform(0, cond_exp / 2.0)) ** 2 for _ in range(3)]
    a = [[sum(m[i][k] * ev[k] * m[j][k] for k in range(3)) for j in range(3)] for i in range(3)]
    return [a[0][0], a[0][1], a[0][2], a[1][1], a[1][2], a[2][2]]


def N(tier, q, t=None):
    return q if tier == 'quick' else (t if t is not None else 8 * q)


# ---------------------------------------------------------------------------------------------- kernels
def gen_kernels(rng, tier):
    ops = []
    for _ in range(N(tier, 350)):
        kind, p = gen_tet(rng)
        ops.append('tet_vol ' + H(*p))
        perm = list(range(4))
        rng.shuffle(perm)
        ops.append('tet_vol ' + H(*[p[i] for i in perm]))
        ops.append('dvol ' + H(*p))
    for _ in range(N(tier, 300)):
        p = gen_tri(rng, planar=rng.random() < 0.3)
        ops.append('tri_normal ' + H(*p))
        ops.append('tri_area ' + H(*p))
        ops.append('tri_area ' + H(p[0], p[2], p[1]))
        ops.append('tri_orient ' + H(*p))
        ops.append('tri_darea ' + H(*p))
    for _ in range(N(tier, 120)):
        t = rng.random()
        if t < 0.6:
            v = [rnd_scale(rng) * rng.uniform(-1, 1) for _ in range(3)]
        elif t < 0.7:
            v = [0.0, 0.0, 0.0]
        elif t < 0.8:
            v = [rng.choice([1e-170, 1e-200, 0.0]) for _ in range(3)]  # dot underflows -> div_zero
        elif t < 0.9:
            v = [rng.choice([1e155, 1e160, 1.0]) for _ in range(3)]  # dot overflows -> RAS failure
        else:
            v = [float(rng.randint(-3, 3)) for _ in range(3)]
        ops.append('normalize ' + H(v))
    for _ in range(N(tier, 250)):
        t = rng.random()
        if t < 0.6:
            m = spd(rng)
        elif t < 0.8:
            m = [float(rng.randint(-4, 4)) for _ in range(6)]
        elif t < 0.9:
            m = [0.0] * 6
        else:
            m = [rng.uniform(-2, 2) for _ in range(6)]
        if rng.random() < 0.8:
            v = [rnd_scale(rng) ** 0.5 * rng.uniform(-1, 1) for _ in range(3)]
        else:
            v = [float(rng.randint(-3, 3)) for _ in range(3)]
        ops.append('vtmv ' + H(m, v))
    for _ in range(N(tier, 300)):
        ops.extend(gen_ratio_case(rng))
    for _ in range(N(tier, 80)):
        a = [rng.uniform(-5, 5) for _ in range(3)]
        b = [rng.uniform(-5, 5) for _ in range(3)]
        w = rng.choice([0.0, 1.0, 0.5, 0.05, 0.95, rng.random(), rng.uniform(-1, 2)])
        ops.append('interp_edge ' + H(a, b, w))
    return ops


def gen_ratio_case(rng):
    t = rng.random()
    s = 10.0 ** rng.uniform(-3, 3)
    x0 = [s * rng.uniform(-1, 1) for _ in range(3)]
    if t < 0.08:
        x1 = list(x0)  # zero-length edge
    elif t < 0.2:
        x1 = [x0[0] + s * rng.uniform(-1, 1), x0[1], x0[2]]  # axis-aligned
    else:
        x1 = [x0[k] + s * rng.uniform(-1, 1) for k in range(3)]
    u = rng.random()
    if u < 0.5:
        m0, m1 = spd(rng), spd(rng)
    elif u < 0.65:
        m0 = spd(rng)
        m1 = list(m0)  # r == 1 branch
    elif u < 0.75:
        m0 = spd(rng)
        e = 1.0 + rng.choice([1e-13, 3e-13, 1e-12, 1e-11, 1e-9]) * rng.choice([-1, 1])
        m1 = [e * x for x in m0]  # |r-1| around the 1e-12 switch
    elif u < 0.85:
        m0 = [x * 1e-30 for x in spd(rng, 2)]  # ratio below the 1e-12 cut-off
        m1 = spd(rng) if rng.random() < 0.5 else [x * 1e-28 for x in spd(rng, 2)]
    elif u < 0.92:
        m0 = [0.0] * 6
        m1 = spd(rng)
    else:
        m0 = [float(rng.randint(-3, 3)) for _ in range(6)]  # indefinite: sqrt of negative -> nan
        m1 = [float(rng.randint(0, 3)) for _ in range(6)]
    ops = ['ratio ' + H(x0, x1, m0, m1), 'ratio ' + H(x1, x0, m1, m0)]
    if rng.random() < 0.5:
        k = 4.0 ** rng.randint(1, 6)  # s = 2^j exactly
        ops.append('ratio ' + H(x0, x1, [k * x for x in m0], [k * x for x in m1]))
    return ops


def tol_det(pts, extra=1.0):
    L = span(*pts)
    return 64 * EPS * L ** 3 * extra + 1e-300


def vtmv_exact(m, v):
    return (v[0] * (m[0] * v[0] + m[1] * v[1] + m[2] * v[2]) + v[1] * (m[1] * v[0] + m[3] * v[1] + m[4] * v[2]) +
            v[2] * (m[2] * v[0] + m[4] * v[1] + m[5] * v[2]))


def ratio_ref(x0, x1, m0, m1):
    """geometric edge length in extended precision where it matters; None when not defined/ill-posed"""
    d = [Fr(x1[k]) - Fr(x0[k]) for k in range(3)]
    if all(c == 0 for c in d):
        return 0.0, None
    q0 = vtmv_exact(frs(m0), d)
    q1 = vtmv_exact(frs(m1), d)
    if q0 < 0 or q1 < 0:
        return None, None
    r0, r1 = math.sqrt(q0), math.sqrt(q1)
    if r0 < 1e-12 or r1 < 1e-12:
        return min(r0, r1), (r0, r1)
    rmin, rmax = min(r0, r1), max(r0, r1)
    t = math.sqrt(min(q0, q1) / max(q0, q1)) - 1.0 if q0 != q1 else 0.0
    if q0 != q1:
        # r - 1 without cancellation: (qmin - qmax) / (qmax * (r + 1))
        t = float((min(q0, q1) - max(q0, q1)) / max(q0, q1)) / (math.sqrt(min(q0, q1) / max(q0, q1)) + 1.0)
    if abs(t) < 1e-12:
        return 0.5 * (r0 + r1), (r0, r1)
    if abs(t) < 0.1:
        return rmin * t / ((1.0 + t) * math.log1p(t)), (r0, r1)
    r = math.sqrt(min(q0, q1) / max(q0, q1))
    return rmin * (r - 1.0) / (r * math.log(r)), (r0, r1)


def oracle_kernels(ops, impl):
    bad = []
    seen = {}
    for i, (o, r) in enumerate(zip(ops, impl)):
        w = o.split()
        rw = r.split()
        a = fl(w[1:])
        if not finite(a):
            continue
        if w[0] == 'tet_vol':
            p = [a[0:3], a[3:6], a[6:9], a[9:12]]
            if rw[0] != 'ok':
                bad.append((i, 'tet_vol status %s' % rw[0]))
                continue
            v, v2 = unhx(rw[1]), unhx(rw[2])
            ex = vol_exact(*[frs(q) for q in p])
            if abs(Fr(v) - ex) > tol_det(p) or v != v2:
                bad.append((i, 'volume %r is not det/6 = %r (tol %g)' % (v, float(ex), tol_det(p))))
            seen[tuple(w[1:])] = v
        elif w[0] == 'dvol':
            p = [a[0:3], a[3:6], a[6:9], a[9:12]]
            v = unhx(rw[1])
            d = fl(rw[2:5])
            P = [frs(q) for q in p]
            ex = vol_exact(*P)
            L = span(*p)
            for k in range(3):
                pa = list(P[0])
                pa[k] += 1  # volume is affine in each vertex: unit finite difference is the exact derivative
                fd = vol_exact(pa, P[1], P[2], P[3]) - ex
                if abs(Fr(d[k]) - fd) > 32 * EPS * L * L + 1e-300:
                    bad.append((i, 'dvol[%d] %r differs from the exact finite difference %r' % (k, d[k], float(fd))))
            if abs(Fr(v) - ex) > tol_det(p):
                bad.append((i, 'dvol volume %r vs %r' % (v, float(ex))))
        elif w[0] in ('tri_normal', 'tri_area', 'tri_orient', 'tri_darea'):
            p = [a[0:3], a[3:6], a[6:9]]
            P = [frs(q) for q in p]
            n = cross(sub(P[1], P[0]), sub(P[2], P[0]))
            L = span(*p)
            if w[0] == 'tri_normal':
                g = fl(rw[1:4])
                for k in range(3):
                    if abs(Fr(g[k]) - n[k]) > 16 * EPS * L * L + 1e-300:
                        bad.append((i, 'normal[%d] %r vs exact %r' % (k, g[k], float(n[k]))))
            elif w[0] == 'tri_area':
                ar = unhx(rw[1])
                nn = dot(n, n)
                if not (ar >= 0):
                    bad.append((i, 'negative area %r' % ar))
                # compare squares: (2 area)^2 = n.n
                if abs(Fr(ar) * Fr(ar) * 4 - nn) > 64 * EPS * L ** 4 + 8 * EPS * float(nn) + 1e-300:
                    bad.append((i, 'area %r: 4 area^2 != |n|^2 = %r' % (ar, float(nn))))
                seen[('area',) + tuple(sorted([tuple(w[1:4]), tuple(w[4:7]), tuple(w[7:10])]))] = \
                    seen.get(('area',) + tuple(sorted([tuple(w[1:4]), tuple(w[4:7]), tuple(w[7:10])])), []) + [ar]
            elif w[0] == 'tri_orient':
                if abs(float(n[2])) > 16 * EPS * L * L and (rw[1] == '1') != (n[2] > 0):
                    bad.append((i, 'orientation %s but exact normal z = %r' % (rw[1], float(n[2]))))
            else:
                ar = unhx(rw[1])
                d = fl(rw[2:5])
                nn = float(dot(n, n))
                if nn > (1e-5 * L * L) ** 2 and ar > 0:
                    # d(area)/dx0 by the exact central difference of the quadratic 4*area^2 = n.n
                    for k in range(3):
                        hp = list(P[0])
                        hm = list(P[0])
                        hp[k] += 1
                        hm[k] -= 1
                        np_ = cross(sub(P[1], hp), sub(P[2], hp))
                        nm_ = cross(sub(P[1], hm), sub(P[2], hm))
                        dq = (dot(np_, np_) - dot(nm_, nm_)) / 2  # d(n.n)/dx_k exactly
                        ref = float(dq) / (8.0 * ar)
                        if abs(d[k] - ref) > 1e-9 * L * (L * L / math.sqrt(nn)) ** 2:
                            bad.append((i, 'darea[%d] %r vs finite difference %r' % (k, d[k], ref)))
        elif w[0] == 'normalize':
            st = rw[0]
            g = fl(rw[1:4])
            qq = dot(frs(a), frs(a))
            q = float(qq) if qq < Fr(10) ** 300 else 1e300
            if st == 'ok':
                if abs(dot(g, g) - 1.0) > 1e-13:
                    bad.append((i, 'normalised vector has |v|^2 = %r' % dot(g, g)))
                c = cross(g, a)
                if max(abs(x) for x in c) > 8 * EPS * math.sqrt(q):
                    bad.append((i, 'normalised vector not parallel to input'))
            elif st == 'div_zero':
                if q > 1e-300 and q < 1e300:
                    bad.append((i, 'div_zero on a normalisable vector, |v|^2=%r' % q))
        elif w[0] == 'vtmv':
            m, v = a[0:6], a[6:9]
            res = fl(rw[1:11])
            M, V = frs(m), frs(v)
            ex = vtmv_exact(M, V)
            mag = sum(abs(x) for x in m) * max(abs(x) for x in v) ** 2 if any(v) else 0.0
            tol = 16 * EPS * mag + 1e-300
            if abs(Fr(res[0]) - ex) > tol or res[0] != res[2]:
                bad.append((i, 'vt_m_v %r vs exact %r' % (res[0], float(ex))))
            mv = [M[0] * V[0] + M[1] * V[1] + M[2] * V[2], M[1] * V[0] + M[3] * V[1] + M[4] * V[2],
                  M[2] * V[0] + M[4] * V[1] + M[5] * V[2]]
            vm = max(abs(x) for x in v)
            for k in range(3):
                if abs(Fr(res[3 + k]) - 2 * mv[k]) > 16 * EPS * sum(abs(x) for x in m) * vm + 1e-300:
                    bad.append((i, 'd(vt_m_v)[%d] %r vs 2Mv = %r' % (k, res[3 + k], float(2 * mv[k]))))
            if ex > 0 and float(ex) > 1e3 * tol:
                f = math.sqrt(ex)
                if abs(res[1] - f) > 4 * EPS * f + tol / f or res[1] != res[6]:
                    bad.append((i, 'sqrt_vt_m_v %r vs %r' % (res[1], f)))
                for k in range(3):
                    ref = float(mv[k]) / f
                    if abs(res[7 + k] - ref) > 32 * EPS * sum(abs(x) for x in m) * vm / f * (1 + mag / float(ex)):
                        bad.append((i, 'd(sqrt_vt_m_v)[%d] %r vs Mv/f = %r' % (k, res[7 + k], ref)))
        elif w[0] == 'ratio':
            x0, x1, m0, m1 = a[0:3], a[3:6], a[6:12], a[12:18]
            res = fl(rw[1:7])
            seen[tuple(w[1:])] = res
            ref, rr = ratio_ref(x0, x1, m0, m1)
            if ref is None:
                continue
            L = math.sqrt(float(dot(sub(frs(x1), frs(x0)), sub(frs(x1), frs(x0)))))
            if L == 0:
                if res[0] != 0.0 or res[2] != 0.0 or any(res[3:6]):
                    bad.append((i, 'zero-length edge has ratio %r' % res[0]))
                continue
            cond = 0.0
            for m in (m0, m1):
                q = float(vtmv_exact(frs(m), sub(frs(x1), frs(x0))))
                mag = sum(abs(x) for x in m) * L * L
                cond = max(cond, mag / q if q > 0 else 1e300)
            if cond > 1e10:
                continue
            rel = 1e-13 * cond + 1e-12
            if rr is not None and min(rr) < 1e-12 * (1 + 1e-3) and max(rr) > 1e-12 * (1 - 1e-3) and min(rr) > 1e-12 * (1 - 1e-3):
                continue  # on the cut-off
            if abs(res[0] - ref) > rel * abs(ref) + 1e-300:
                bad.append((i, 'ratio %r vs logarithmic-mean reference %r' % (res[0], ref)))
            if abs(res[2] - res[0]) > 8 * EPS * abs(res[0]):
                bad.append((i, 'dratio value %r != ratio %r' % (res[2], res[0])))
            # derivative by central differences of the reference (smooth away from the cut-offs)
            if rr is not None and min(rr) > 1e-9 and cond < 1e4:
                h = 1e-6 * L
                ok = True
                fd = []
                for k in range(3):
                    xp, xm = list(x0), list(x0)
                    xp[k] += h
                    xm[k] -= h
                    fp, _ = ratio_ref(xp, x1, m0, m1)
                    fm, _ = ratio_ref(xm, x1, m0, m1)
                    if fp is None or fm is None:
                        ok = False
                        break
                    fd.append((fp - fm) / (xp[k] - xm[k]))
                if ok:
                    sc = max(max(abs(x) for x in fd), ref / L)
                    for k in range(3):
                        if abs(res[3 + k] - fd[k]) > 2e-5 * sc * cond:
                            bad.append((i, 'dratio[%d] %r vs finite difference %r' % (k, res[3 + k], fd[k])))
        elif w[0] == 'interp_edge':
            x0, x1, wt = a[0:3], a[3:6], a[6]
            res = fl(rw[1:4])
            for k in range(3):
                ex = (1 - Fr(wt)) * Fr(x0[k]) + Fr(wt) * Fr(x1[k])
                if abs(Fr(res[k]) - ex) > 8 * EPS * (abs(x0[k]) + abs(x1[k])) * (1 + abs(wt)) + 1e-300:
                    bad.append((i, 'interpolated coordinate %r vs %r' % (res[k], float(ex))))
    # pairwise identities on what was printed
    for i, o in enumerate(ops):
        w = o.split()
        if w[0] == 'ratio':
            key = tuple(w[4:7] + w[1:4] + w[13:19] + w[7:13])
            if key in seen and tuple(w[1:]) in seen:
                a_, b_ = seen[tuple(w[1:])][0], seen[key][0]
                # NaN (indefinite metric, outside the SPD domain of the property): MIN(nan,0) != MIN(0,nan) in C
                if a_ == a_ and b_ == b_ and not (abs(a_ - b_) <= 4 * EPS * abs(a_)):
                    bad.append((i, 'ratio not symmetric in its end points: %r vs %r' % (a_, b_)))
    for k, v in seen.items():
        if k and k[0] == 'area' and len(v) > 1 and max(v) - min(v) > 8 * EPS * max(v):
            bad.append((0, 'area changes under vertex permutation: %r' % (v,)))
    return bad


# ---------------------------------------------------------------------------------------------- bary / clip
def gen_clip_vals(rng, n):
    t = rng.random()
    if t < 0.3:
        return bary_weights(rng, n)
    if t < 0.45:
        return [-rng.random() * 10.0 ** rng.uniform(-20, 2) for _ in range(n)]  # all negative -> div_zero
    if t < 0.55:
        v = [0.0] * n
        if rng.random() < 0.5:
            v[rng.randrange(n)] = -0.0
        return v
    if t < 0.7:
        return [rng.choice([-1, 1]) * 10.0 ** rng.uniform(-300, 300) for _ in range(n)]
    if t < 0.8:
        v = [rng.uniform(-1, 1) for _ in range(n)]
        v[rng.randrange(n)] = rng.choice([float('inf'), float('-inf'), float('nan'), 1e308])
        return v
    if t < 0.9:
        v = [10.0 ** rng.uniform(-30, 0) for _ in range(n)]
        v[rng.randrange(n)] = 10.0 ** rng.uniform(-12, -8) * 1e21  # one weight dwarfs the rest
        return v
    return [rng.uniform(-2, 2) for _ in range(n)]


def gen_bary(rng, tier):
    ops = []
    for _ in range(N(tier, 450)):
        kind, p = gen_tet(rng)
        for _ in range(2):
            w = bary_weights(rng, 4)
            q = combo(w, p)
            if rng.random() < 0.1:
                q = [x + rng.uniform(-1, 1) * span(*p) for x in q]
            ops.append('bary4 ' + H(p, q))
    for _ in range(N(tier, 300)):
        p = gen_tri(rng, planar=True)
        w = bary_weights(rng, 3)
        q = combo(w, p)
        if rng.random() < 0.3:
            q[2] += rng.uniform(-1, 1)
        ops.append('bary3 ' + H(p, q))
    for _ in range(N(tier, 300)):
        p = gen_tri(rng)
        w = bary_weights(rng, 3)
        q = combo(w, p)
        if rng.random() < 0.7:  # off the plane
            n = cross(sub(p[1], p[0]), sub(p[2], p[0]))
            s = rng.uniform(-2, 2) / (math.sqrt(dot(n, n)) or 1.0) * span(*p)
            q = [q[k] + s * n[k] for k in range(3)]
        ops.append('bary3d ' + H(p, q))
    for _ in range(N(tier, 500)):
        n = rng.choice([2, 3, 4, 4])
        ops.append('clip%d ' % n + H(gen_clip_vals(rng, n)))
    return ops


def check_clip(i, n, orig, st, res, bad):
    fin = finite(orig)
    if st == 'failure':
        if n == 4 and fin:
            # overflow of the sum can also trip the assertions; only flag when nothing is large
            if max(abs(x) for x in orig) < 1e300:
                bad.append((i, 'clip%d failed on finite weights %r' % (n, orig)))
        return
    if st == 'ok':
        if not all(x >= 0 for x in res):
            bad.append((i, 'clipped weight negative: %r' % (res,)))
        if abs(sum(res) - 1.0) > 8 * EPS:
            bad.append((i, 'clipped weights sum to %r' % sum(res)))
        if fin:
            c = [max(Fr(0), Fr(x)) for x in orig]
            tot = sum(c)
            if tot > 0:
                for k in range(n):
                    if abs(Fr(res[k]) - c[k] / tot) > 8 * EPS * float(c[k] / tot) + 1e-320:
                        bad.append((i, 'clip weight %d = %r, expected max(0,w)/sum = %r' % (k, res[k], float(c[k] / tot))))
    elif st == 'div_zero':
        if sorted(res) != [0.0] * (n - 1) + [1.0]:
            bad.append((i, 'div_zero branch did not return a unit vector: %r' % (res,)))
        elif fin:
            k = res.index(1.0)
            c = [max(0.0, x) for x in orig]
            if c[k] != max(c):
                bad.append((i, 'unit weight not at the largest clipped weight'))
    else:
        bad.append((i, 'unexpected status %s' % st))


def oracle_bary(ops, impl):
    bad = []
    for i, (o, r) in enumerate(zip(ops, impl)):
        w = o.split()
        rw = r.split()
        a = fl(w[1:])
        st = rw[0]
        res = fl(rw[1:])
        if w[0].startswith('clip'):
            check_clip(i, int(w[0][4]), a, st, res, bad)
            continue
        if not finite(a):
            continue
        if w[0] == 'bary4':
            p = [a[0:3], a[3:6], a[6:9], a[9:12]]
            q = a[12:15]
            P = [frs(x) for x in p]
            Q = frs(q)
            b = [vol_exact(Q, P[1], P[2], P[3]), vol_exact(P[0], Q, P[2], P[3]), vol_exact(P[0], P[1], Q, P[3]),
                 vol_exact(P[0], P[1], P[2], Q)]
            tot = sum(b)
            L = span(*(p + [q]))
            errb = 64 * EPS * L ** 3 / 6
            if st == 'ok':
                if abs(sum(res) - 1.0) > 8 * EPS * sum(abs(x) for x in res):
                    bad.append((i, 'bary4 weights sum to %r' % sum(res)))
                if abs(tot) > 16 * errb:
                    for k in range(4):
                        ex = b[k] / tot
                        tol = (errb + abs(float(ex)) * 4 * errb) / (abs(float(tot)) - 4 * errb) + 8 * EPS * abs(float(ex))
                        if abs(Fr(res[k]) - ex) > tol:
                            bad.append((i, 'bary4[%d] = %r, exact %r (tol %g)' % (k, res[k], float(ex), tol)))
                    # reproduction, scaled by the same conditioning
                    cond = L ** 3 / 6 / abs(float(tot))
                    for c in range(3):
                        rep = sum(Fr(res[k]) * P[k][c] for k in range(4))
                        mag = sum(abs(res[k]) * abs(p[k][c]) for k in range(4))
                        if abs(rep - Q[c]) > 512 * EPS * cond * L + 16 * EPS * mag + 1e-300:
                            bad.append((i, 'bary4 does not reproduce the point: coord %d %r vs %r' % (c, float(rep), q[c])))
            elif st == 'div_zero':
                if sorted(res) != [-1.0, 0.0, 0.0, 0.0]:
                    bad.append((i, 'bary4 div_zero payload %r' % (res,)))
                if abs(float(tot)) > 1e-3 * L ** 3 and L > 0:
                    bad.append((i, 'bary4 div_zero on a well-conditioned tet (vol %r)' % float(tot)))
            else:
                bad.append((i, 'bary4 status %s' % st))
        elif w[0] in ('bary3', 'bary3d'):
            p = [a[0:3], a[3:6], a[6:9]]
            q = a[9:12]
            P = [frs(x) for x in p]
            Q = frs(q)
            n = cross(sub(P[1], P[0]), sub(P[2], P[0]))
            L = span(*(p + [q]))
            if w[0] == 'bary3':
                b = [cross(sub(P[1], Q), sub(P[2], Q))[2], cross(sub(Q, P[0]), sub(P[2], P[0]))[2],
                     cross(sub(P[1], P[0]), sub(Q, P[0]))[2]]
                target = Q
                errb = 32 * EPS * L * L
            else:
                nn = dot(n, n)
                if nn == 0:
                    if st == 'ok':
                        bad.append((i, 'bary3d ok on a degenerate triangle'))
                    continue
                t = dot(sub(Q, P[0]), n) / nn
                target = [Q[k] - t * n[k] for k in range(3)]  # orthogonal projection
                b = [dot(cross(sub(P[1], target), sub(P[2], target)), n),
                     dot(cross(sub(target, P[0]), sub(P[2], P[0])), n),
                     dot(cross(sub(P[1], P[0]), sub(target, P[0])), n)]
                # the C shifts by n*((q-x0).n)/(n.n): the orthogonal projection (since the repair in /repo; before it
                # the shift was |n|^2 times the distance to the plane and this tolerance had to carry a factor 2+|n|^2)
                D = L * 2.0
                # + the in-plane part (size d*L) of the sub-normals meets the rounding of n (size eps*L^2)
                errb = 256 * EPS * (D * D * math.sqrt(float(nn)) + L ** 4)
            tot = sum(b)
            if st == 'ok':
                if abs(sum(res) - 1.0) > 8 * EPS * sum(abs(x) for x in res):
                    bad.append((i, '%s weights sum to %r' % (w[0], sum(res))))
                if abs(float(tot)) > 16 * errb:
                    for k in range(3):
                        ex = b[k] / tot
                        tol = (errb + abs(float(ex)) * 4 * errb) / (abs(float(tot)) - 4 * errb) + 8 * EPS * abs(float(ex))
                        if abs(Fr(res[k]) - ex) > tol:
                            bad.append((i, '%s[%d] = %r, exact %r (tol %g)' % (w[0], k, res[k], float(ex), tol)))
            elif st == 'div_zero':
                if res != [0.0, 0.0, 0.0]:
                    bad.append((i, '%s div_zero payload %r' % (w[0], res)))
            else:
                bad.append((i, '%s status %s' % (w[0], st)))
    return bad


# ---------------------------------------------------------------------------------------------- gradients
def lin_field(rng):
    t = rng.random()
    if t < 0.4:
        return float(rng.randint(-3, 3)), [float(rng.randint(-3, 3)) for _ in range(3)]
    return rng.uniform(-2, 2), [rng.uniform(-5, 5) * 10.0 ** rng.choice([0, 0, 0, -3, 3]) for _ in range(3)]


def gen_grad(rng, tier):
    ops = []
    for _ in range(N(tier, 500)):
        kind, p = gen_tet(rng)
        if rng.random() < 0.7:
            a, g = lin_field(rng)
            s = [a + dot(g, x) for x in p]
        else:
            s = [rng.uniform(-1, 1) for _ in range(4)]
        if rng.random() < 0.05:
            s = [s[0]] * 4  # constant field
        ops.append('tet_grad ' + H(p, s))
    for _ in range(N(tier, 500)):
        p = gen_tri(rng, planar=rng.random() < 0.5)
        if rng.random() < 0.7:
            a, g = lin_field(rng)
            s = [a + dot(g, x) for x in p]
        else:
            s = [rng.uniform(-1, 1) for _ in range(3)]
        ops.append('tri_grad ' + H(p, s))
    return ops


def oracle_grad(ops, impl):
    bad = []
    for i, (o, r) in enumerate(zip(ops, impl)):
        w = o.split()
        rw = r.split()
        a = fl(w[1:])
        if w[0] == 'tet_grad':
            p = [a[0:3], a[3:6], a[6:9], a[9:12]]
            s = a[12:16]
            st, g = rw[0], fl(rw[1:4])
            if rw[4] != st or rw[5:8] != rw[1:4]:
                bad.append((i, 'ref_node_xyz_grad and ref_node_tet_grad_nodes disagree'))
            P = [frs(x) for x in p]
            S = frs(s)
            e = [sub(P[k], P[0]) for k in (1, 2, 3)]
            D = det3(e[0], e[1], e[2])
            L = span(*p)
            ds = max(abs(s[k] - s[0]) for k in (1, 2, 3))
            errD = 64 * EPS * L ** 3
            if st == 'ok':
                if abs(float(D)) > 16 * errD:
                    # exact gradient of the linear interpolant: solve E g = ds by Cramer
                    rhs = [S[k] - S[0] for k in (1, 2, 3)]
                    c12, c20, c01 = cross(e[1], e[2]), cross(e[2], e[0]), cross(e[0], e[1])
                    gx = [(rhs[0] * c12[k] + rhs[1] * c20[k] + rhs[2] * c01[k]) / D for k in range(3)]
                    errn = 64 * EPS * ds * L * L
                    for k in range(3):
                        tol = (errn + abs(float(gx[k])) * errD) / (abs(float(D)) - errD) + 8 * EPS * abs(float(gx[k])) + 1e-300
                        if abs(Fr(g[k]) - gx[k]) > tol:
                            bad.append((i, 'tet gradient[%d] %r vs exact %r (tol %g)' % (k, g[k], float(gx[k]), tol)))
            elif st == 'div_zero':
                if g != [0.0, 0.0, 0.0]:
                    bad.append((i, 'tet_grad div_zero payload %r' % (g,)))
                if abs(float(D)) > 1e-3 * L ** 3 and ds < 1e10 * L and L > 0:
                    bad.append((i, 'tet_grad div_zero on a well-conditioned tet'))
            else:
                bad.append((i, 'tet_grad status %s' % st))
        elif w[0] == 'tri_grad':
            p = [a[0:3], a[3:6], a[6:9]]
            s = a[9:12]
            st, g = rw[0], fl(rw[1:4])
            P = [frs(x) for x in p]
            S = frs(s)
            e1, e2 = sub(P[1], P[0]), sub(P[2], P[0])
            n = cross(e1, e2)
            nn = dot(n, n)
            E1, E2, Dd = dot(e1, e1), dot(e2, e2), dot(e1, e2)
            L = span(*p)
            if st == 'ok':
                if nn == 0:
                    bad.append((i, 'tri_grad ok on a degenerate triangle'))
                    continue
                d1, d2 = S[1] - S[0], S[2] - S[0]
                gx = [(d1 * (e1[k] * E2 - Dd * e2[k]) + d2 * (e2[k] * E1 - Dd * e1[k])) / nn for k in range(3)]
                # altitude directions suffer cancellation ~ eps * (edge / altitude)
                h1 = math.sqrt(float(nn) / float(E2))
                h2 = math.sqrt(float(nn) / float(E1))
                l1, l2 = math.sqrt(float(E1)), math.sqrt(float(E2))
                if max(l1 / h1, l2 / h2) > 1e6:
                    continue
                tol = 64 * EPS * (abs(float(d1)) * l1 / h1 ** 2 * (1 + l1 / h1) + abs(float(d2)) * l2 / h2 ** 2 * (1 + l2 / h2)) + 1e-300
                for k in range(3):
                    if abs(Fr(g[k]) - gx[k]) > tol + 8 * EPS * abs(float(gx[k])):
                        bad.append((i, 'tri gradient[%d] %r vs exact tangential gradient %r (tol %g)' % (k, g[k], float(gx[k]), tol)))
            elif st in ('div_zero', 'failure'):
                if g != [0.0, 0.0, 0.0]:
                    bad.append((i, 'tri_grad %s payload %r' % (st, g)))
                if st == 'div_zero' and float(nn) > (1e-3 * L * L) ** 2 and L > 0:
                    bad.append((i, 'tri_grad div_zero on a well-shaped triangle'))
            else:
                bad.append((i, 'tri_grad status %s' % st))
    return bad


# ---------------------------------------------------------------------------------------------- interpolation
def gen_interp(rng, tier):
    ops = []
    for _ in range(N(tier, 600)):
        np_ = rng.choice([3, 4, 4])
        b = gen_clip_vals(rng, 4)
        if np_ == 3 and rng.random() < 0.8:
            b[3] = 0.0
        t = rng.random()
        if t < 0.7:
            f = [rng.uniform(-10, 10) for _ in range(4)]
        elif t < 0.85:
            f = [float(rng.randint(-3, 3)) for _ in range(4)]
        else:
            f = [rng.choice([1e308, -1e308, 1e300, 1.0]) for _ in range(4)]  # overflow -> isfinite assertion
        ops.append('interp %d ' % np_ + H(b, f))
    for _ in range(N(tier, 500)):
        kind, p = gen_tet(rng)
        w = bary_weights(rng, 4)
        q = combo(w, p)
        a, g = lin_field(rng)
        f = [a + dot(g, x) for x in p]
        ops.append('interp_xyz ' + H(p, q, f))
    return ops


def oracle_interp(ops, impl):
    bad = []
    for i, (o, r) in enumerate(zip(ops, impl)):
        w = o.split()
        rw = r.split()
        if w[0] == 'interp':
            np_ = int(w[1])
            a = fl(w[2:])
            b, f = a[0:4], a[4:8]
            st = rw[0]
            if st == 'ok':
                v = unhx(rw[1])
                ff = f[:np_]
                if np_ == 4 or b[3] <= 0:
                    tol = 8 * EPS * max(abs(x) for x in ff)
                    if not (min(ff) - tol <= v <= max(ff) + tol):
                        bad.append((i, 'interpolated value %r leaves the donor range [%r, %r]' % (v, min(ff), max(ff))))
                if finite(b) and finite(f):
                    c = [max(Fr(0), Fr(x)) for x in b]
                    tot = sum(c)
                    if tot > 0:
                        ex = sum(c[k] / tot * Fr(f[k]) for k in range(np_))
                        mag = sum(float(c[k] / tot) * abs(f[k]) for k in range(np_))
                        # gradual underflow: a clipped, renormalised weight below the smallest normal double (2^-1022) is
                        # stored with an ABSOLUTE error of up to one denormal spacing (2^-1074) -- it may underflow to 0
                        # legitimately -- and that error is multiplied by |f_k| (e.g. w = 1e-366 -> 0, f = 1e300: the exact
                        # term 4.75e-66 is lost); a product w_k f_k can underflow by the same amount once more
                        under = float(Fr(2) ** -1074 * (sum(Fr(abs(f[k])) for k in range(np_)) + np_))
                        if abs(Fr(v) - ex) > 16 * EPS * mag + 1e-300 + under:
                            bad.append((i, 'interpolated value %r is not sum clip(w)_i f_i = %r' % (v, float(ex))))
                # unit weight reproduces the donor value
                for k in range(np_):
                    if b[k] > 0 and all(b[j] <= 0 for j in range(4) if j != k) and v != f[k]:
                        bad.append((i, 'unit weight at vertex %d gives %r, donor value %r' % (k, v, f[k])))
            elif st == 'div_zero':
                if finite(b) and sum(max(0.0, x) for x in b) > 1e-280 and max(b) < 1e280:
                    c = [max(0.0, x) for x in b]
                    if all(abs(1e20 * sum(c)) > abs(x) for x in c):
                        bad.append((i, 'interp div_zero although the clipped weights are normalisable'))
            elif st == 'failure':
                pass  # non-finite weights / overflowed sum: the C asserts
            else:
                bad.append((i, 'interp status %s' % st))
        elif w[0] == 'interp_xyz':
            a = fl(w[1:])
            p = [a[0:3], a[3:6], a[6:9], a[9:12]]
            q, f = a[12:15], a[15:19]
            st, bw = rw[0], fl(rw[1:5])
            st2 = rw[5]
            if st == 'ok' and st2 == 'ok':
                v = unhx(rw[6])
                tolr = 8 * EPS * max(abs(x) for x in f)
                if not (min(f) - tolr <= v <= max(f) + tolr):
                    bad.append((i, 'interpolated value %r leaves the donor range' % v))
                P = [frs(x) for x in p]
                Q = frs(q)
                b = [vol_exact(Q, P[1], P[2], P[3]), vol_exact(P[0], Q, P[2], P[3]), vol_exact(P[0], P[1], Q, P[3]),
                     vol_exact(P[0], P[1], P[2], Q)]
                tot = sum(b)
                L = span(*(p + [q]))
                errb = 64 * EPS * L ** 3 / 6
                if abs(float(tot)) > 64 * errb:
                    wx = [x / tot for x in b]
                    if all(x >= 0 for x in wx):
                        # inside the donor cell: linear exactness (the exact linear interpolant of the donor values)
                        ex = sum(wx[k] * Fr(f[k]) for k in range(4))
                        cond = L ** 3 / 6 / abs(float(tot))
                        df = max(f) - min(f)
                        tol = 512 * EPS * cond * df + 16 * EPS * max(abs(x) for x in f) + 1e-300
                        if abs(Fr(v) - ex) > tol:
                            bad.append((i, 'linear field not reproduced inside the donor tet: %r vs %r (tol %g)' % (v, float(ex), tol)))
                        for k in range(4):
                            if wx[k] == 1 and abs(v - f[k]) > tol:
                                bad.append((i, 'identity at donor vertex %d: %r vs %r' % (k, v, f[k])))
    return bad


# ---------------------------------------------------------------------------------------------- meshes
HEX_TETS6 = [(0, 1, 2, 6), (0, 2, 3, 6), (0, 3, 7, 6), (0, 7, 4, 6), (0, 4, 5, 6), (0, 5, 1, 6)]


def brick(rng, nx, ny, nz, jitter, twod=False):
    """jittered structured nodes; returns (xyz list, index function)"""
    pts = []
    for k in range(nz + 1):
        for j in range(ny + 1):
            for i in range(nx + 1):
                x = [float(i), float(j), float(k)]
                for c in range(2 if twod else 3):
                    lim = (nx, ny, nz)[c]
                    if 0 < (i, j, k)[c] < lim or rng.random() < 0.3:
                        x[c] += jitter * rng.uniform(-0.5, 0.5)
                pts.append(x)

    def idx(i, j, k=0):
        return i + (nx + 1) * (j + (ny + 1) * k)
    return pts, idx


def mesh_op(op, twod, pts, s, cells):
    return '%s %d %d %s %s %d %s' % (op, 1 if twod else 0, len(pts), H(*pts), H(s), len(cells),
                                     ' '.join('%s %s' % (k, ' '.join(str(n) for n in ns)) for k, ns in cells))


def gen_mesh(rng, tier, kind):
    big = tier != 'quick'
    if kind == 'tri':
        nx, ny = rng.randint(1, 4 if not big else 7), rng.randint(1, 4 if not big else 7)
        pts, idx = brick(rng, nx, ny, 0, rng.choice([0.0, 0.3, 0.6]), twod=True)
        z = rng.choice([0.0, 0.0, 1.5])
        for p in pts:
            p[2] = z
        cells = []
        for j in range(ny):
            for i in range(nx):
                q = [idx(i, j), idx(i + 1, j), idx(i + 1, j + 1), idx(i, j + 1)]
                t = rng.random()
                if t < 0.25:
                    cells.append(('qua', q))
                elif t < 0.6:
                    cells += [('tri', [q[0], q[1], q[2]]), ('tri', [q[0], q[2], q[3]])]
                else:
                    cells += [('tri', [q[0], q[1], q[3]]), ('tri', [q[1], q[2], q[3]])]
        twod = True
    else:
        nx, ny, nz = [rng.randint(1, 2 if not big else 4) for _ in range(3)]
        pts, idx = brick(rng, nx, ny, nz, rng.choice([0.0, 0.3, 0.5]))
        cells = []
        for k in range(nz):
            for j in range(ny):
                for i in range(nx):
                    h = [idx(i, j, k), idx(i + 1, j, k), idx(i + 1, j + 1, k), idx(i, j + 1, k),
                         idx(i, j, k + 1), idx(i + 1, j, k + 1), idx(i + 1, j + 1, k + 1), idx(i, j + 1, k + 1)]
                    t = rng.random() if kind == 'mixed' else 0.0
                    if t < 0.4:
                        cells += [('tet', [h[a] for a in tt]) for tt in HEX_TETS6]
                    elif t < 0.6:
                        cells.append(('hex', h))
                    elif t < 0.8:
                        cells += [('pri', [h[0], h[1], h[2], h[4], h[5], h[6]]), ('pri', [h[0], h[2], h[3], h[4], h[6], h[7]])]
                    else:
                        # three pyramids with apex h[6] over the faces not containing it (refine order: base 0,1,4,3; apex 2)
                        cells += [('pyr', [h[0], h[3], h[6], h[1], h[2]]), ('pyr', [h[0], h[1], h[6], h[4], h[5]]),
                                  ('pyr', [h[0], h[4], h[6], h[3], h[7]])]
        twod = False
    # stretching / rotation / scaling (affine image keeps linear fields linear)
    if rng.random() < 0.6:
        asp = 10.0 ** rng.uniform(0, 3)
        if twod:
            ang = rng.uniform(0, math.pi)
            cs, sn = math.cos(ang), math.sin(ang)
            for p in pts:
                x, y = p[0], p[1] / asp
                p[0], p[1] = cs * x - sn * y, sn * x + cs * y
        else:
            m = rot(rng)
            for n_, p in enumerate(pts):
                pts[n_] = apply(m, [p[0], p[1], p[2] / asp])
    # random vertex renumbering
    perm = list(range(len(pts)))
    rng.shuffle(perm)
    inv = [0] * len(pts)
    for new, old in enumerate(perm):
        inv[old] = new
    pts = [pts[old] for old in perm]
    cells = [(k, [inv[n] for n in ns]) for k, ns in cells]
    if rng.random() < 0.5:
        rng.shuffle(cells)
    return twod, pts, cells


def gen_recon(rng, tier):
    ops = []
    kinds = ['tet'] * 10 + ['mixed'] * 16 + ['tri'] * 14
    if tier != 'quick':
        kinds = kinds * 3
    for kind in kinds:
        twod, pts, cells = gen_mesh(rng, tier, kind)
        a, g = lin_field(rng)
        if twod:
            g[2] = 0.0
        t = rng.random()
        if t < 0.75:
            s = [a + dot(g, p) for p in pts]
            tag = '# linear %s' % H(a, g)
        elif t < 0.85:
            s = [a] * len(pts)
            tag = '# linear %s' % H(a, [0.0, 0.0, 0.0])
        else:
            s = [rng.uniform(-1, 1) for _ in pts]
            tag = '# random'
        if rng.random() < 0.1:  # an isolated node: total weight zero -> div_zero, zero gradient there
            pts = pts + [[9.0, 9.0, 0.0 if twod else 9.0]]
            s = s + [a + dot(g, pts[-1])]
        if rng.random() < 0.1 and not twod:  # an inverted tet: negative weight (still exact)
            for n_, (k, ns) in enumerate(cells):
                if k == 'tet':
                    cells[n_] = (k, [ns[1], ns[0], ns[2], ns[3]])
                    break
        ops.append(tag)
        ops.append(mesh_op('l2grad', twod, pts, s, cells))
        if len(pts) <= 80 or tier != 'quick':
            ops.append(tag)
            ops.append(mesh_op('l2hess', twod, pts, s, cells))
    # malformed: node out of range, wrong dimension, short line
    ops.append('l2grad 0 4 ' + H([0, 0, 0, 1, 0, 0, 0, 1, 0, 0, 0, 1], [1, 2, 3, 4]) + ' 1 tet 0 1 2 4')
    ops.append('l2grad 0 4 ' + H([0, 0, 0, 1, 0, 0, 0, 1, 0, 0, 0, 1], [1, 2, 3, 4]) + ' 1 tri 0 1 2')
    ops.append('l2grad 1 3 ' + H([0, 0, 0, 1, 0, 0, 0, 1, 0], [1, 2, 3]) + ' 2 tri 0 1 2')
    return ops


def oracle_recon(ops_all, impl):
    """`ops` here has comments stripped by the framework; the linear tag travels in the op itself instead:
    the oracle re-derives linearity by exact least squares on the nodes -> simpler: test exactness only when the
    nodal values ARE an (almost) linear function of the coordinates (exact rational fit on 4 nodes, checked on all)."""
    bad = []
    grad_ok = set()  # mesh payloads whose first projection succeeded at every node (status ok)
    for i, (o, r) in enumerate(zip(ops_all, impl)):
        w = o.split()
        rw = r.split()
        if w[0] not in ('l2grad', 'l2hess') or rw[0] == 'bad-op':
            continue
        if w[0] == 'l2grad' and rw[0] == 'ok':
            grad_ok.add(o[len('l2grad'):])
        twod, nn = int(w[1]), int(w[2])
        xyz = fl(w[3:3 + 3 * nn])
        s = fl(w[3 + 3 * nn:3 + 4 * nn])
        pts = [xyz[3 * k:3 * k + 3] for k in range(nn)]
        cw = w[4 + 4 * nn:]
        touched = set()
        k = 0
        sizes = {'tri': 3, 'qua': 4, 'tet': 4, 'pyr': 5, 'pri': 6, 'hex': 8}
        while k < len(cw):
            sz = sizes[cw[k]]
            touched.update(int(x) for x in cw[k + 1:k + 1 + sz])
            k += 1 + sz
        fit = fit_linear(pts, s, twod)
        if fit is None:
            continue
        # conditioning of each nodal average: sum|w| / |sum w| over the simplices the C visits (signed volumes in
        # 3-D: an inverted cell cancels weight; areas are unsigned in 2-D)
        wabs = [0.0] * nn
        wsum = [0.0] * nn
        k = 0
        while k < len(cw):
            sz = sizes[cw[k]]
            ns = [int(x) for x in cw[k + 1:k + 1 + sz]]
            for t in sub_simplices(cw[k], ns):
                if len(t) == 4:
                    wv = float(vol_exact(*[frs(pts[q]) for q in t]))
                else:
                    nrm = cross(sub(frs(pts[t[1]]), frs(pts[t[0]])), sub(frs(pts[t[2]]), frs(pts[t[0]])))
                    wv = 0.5 * math.sqrt(float(dot(nrm, nrm)))
                for q in t:
                    wabs[q] += abs(wv)
                    wsum[q] += wv
            k += 1 + sz
        ncond = [(wabs[q] / abs(wsum[q]) if abs(wsum[q]) > 1e-12 * wabs[q] and wabs[q] > 0 else float('inf'))
                 for q in range(nn)]
        g, scale, hmin = fit
        gm = max(abs(x) for x in g)
        smax = max(abs(x) for x in s) or 1.0
        L = span(*pts) or 1.0
        asp = L / hmin if hmin > 0 else 1e300
        if asp > 1e5:
            continue
        tol = 1e-9 * max(gm, smax / L) * max(1.0, asp / 10.0)
        st = rw[0]
        vals = fl(rw[1:])
        if w[0] == 'l2grad':
            for n_ in range(nn):
                gv = vals[3 * n_:3 * n_ + 3]
                if n_ not in touched:
                    if gv != [0.0, 0.0, 0.0] or st != 'div_zero':
                        bad.append((i, 'isolated node %d: gradient %r status %s' % (n_, gv, st)))
                    continue
                if gv == [0.0, 0.0, 0.0] and st == 'div_zero' and gm > 0:
                    continue  # the C zeroes nodes whose total weight is not divisible and reports div_zero
                if ncond[n_] > 1e6:
                    continue  # cancelling signed weights (inverted cell): outside the property's valid meshes
                for c in range(3):
                    if abs(gv[c] - g[c]) > tol * ncond[n_]:
                        bad.append((i, 'L2 gradient of a linear field at node %d comp %d: %r vs %r (tol %g)' % (n_, c, gv[c], g[c], tol)))
                        break
        else:
            htol = 1e-8 * max(gm, smax / L) / hmin * max(1.0, asp / 10.0)
            # the Hessian of a linear field vanishes when the first projection is exact at EVERY node; where a
            # node's total weight is not divisible the C zeroes its gradient (status div_zero) and the second
            # projection sees a non-constant field: only meshes whose l2grad op (same payload) returned ok count
            if len(touched) == nn and o[len('l2hess'):] in grad_ok and max(ncond) < 1.5:
                for n_ in range(nn):
                    hv = vals[6 * n_:6 * n_ + 6]
                    if max(abs(x) for x in hv) > htol:
                        bad.append((i, 'L2 Hessian of a linear field at node %d: %r (tol %g)' % (n_, hv, htol)))
                        break
    return bad


def sub_simplices(kind, n):
    """the simplices ref_recon_l2_projection_grad visits for one cell (restated here for the conditioning
    estimate of the oracle only)"""
    def pri(p):
        return [(p[0], p[4], p[5], p[3]), (p[0], p[1], p[5], p[4]), (p[0], p[1], p[2], p[5])]
    if kind == 'tet':
        return [tuple(n)]
    if kind == 'pri':
        return pri(n)
    if kind == 'pyr':
        return [(n[0], n[4], n[1], n[2]), (n[0], n[3], n[4], n[2])]
    if kind == 'hex':
        return pri([n[1], n[0], n[4], n[2], n[3], n[7]]) + pri([n[1], n[4], n[5], n[2], n[7], n[6]])
    if kind == 'tri':
        return [tuple(n)]
    if kind == 'qua':
        return [(n[0], n[1], n[2]), (n[0], n[2], n[3])]
    return []


def fit_linear(pts, s, twod):
    """if s is (to rounding) a linear function of the coordinates return (g, scale, hmin) else None"""
    nn = len(pts)
    dim = 2 if twod else 3
    # pick dim+1 affinely independent nodes greedily
    base = [0]
    P = [frs(p) for p in pts]
    for k in range(1, nn):
        cand = base + [k]
        vs = [sub(P[c], P[base[0]])[:dim] for c in cand[1:]]
        if rank(vs) == len(vs):
            base = cand
        if len(base) == dim + 1:
            break
    if len(base) < dim + 1:
        return None
    A = [sub(P[c], P[base[0]])[:dim] for c in base[1:]]
    b = [Fr(s[c]) - Fr(s[base[0]]) for c in base[1:]]
    g = solve(A, b)
    if g is None:
        return None
    g = g + [Fr(0)] * (3 - dim)
    a0 = Fr(s[base[0]]) - dot(g, P[base[0]])
    smax = max(abs(x) for x in s) or 1.0
    gm = max(abs(float(x)) for x in g)
    L = span(*pts) or 1.0
    # volume of the base simplex controls how far rounding of s is amplified in g; keep it benign
    for k in range(nn):
        if abs(float(a0 + dot(g, P[k]) - Fr(s[k]))) > 64 * EPS * (smax + gm * L) * 4:
            return None
    # smallest edge length as h
    hmin = min(math.sqrt(sum((pts[i][c] - pts[j][c]) ** 2 for c in range(3)))
               for i in range(nn) for j in range(i + 1, min(nn, i + 40))) if nn > 1 else 1.0
    return [float(x) for x in g], smax, hmin


def rank(vs):
    m = [list(v) for v in vs]
    r = 0
    cols = len(m[0]) if m else 0
    for c in range(cols):
        piv = None
        for i in range(r, len(m)):
            if m[i][c] != 0:
                piv = i
                break
        if piv is None:
            continue
        m[r], m[piv] = m[piv], m[r]
        for i in range(r + 1, len(m)):
            f = m[i][c] / m[r][c]
            m[i] = [m[i][k] - f * m[r][k] for k in range(cols)]
        r += 1
    return r


def solve(A, b):
    n = len(A)
    M = [list(A[i]) + [b[i]] for i in range(n)]
    for c in range(n):
        piv = None
        for i in range(c, n):
            if M[i][c] != 0:
                piv = i
                break
        if piv is None:
            return None
        M[c], M[piv] = M[piv], M[c]
        for i in range(n):
            if i != c:
                f = M[i][c] / M[c][c]
                M[i] = [M[i][k] - f * M[c][k] for k in range(n + 1)]
    return [M[i][n] / M[i][i] for i in range(n)]


# ---------------------------------------------------------------------------------------------- quadrature ratio
def gen_ratio_quad(rng, tier):
    ops = []
    for _ in range(N(tier, 300)):
        s = 10.0 ** rng.uniform(-2, 2)
        x0 = [s * rng.uniform(-1, 1) for _ in range(3)]
        x1 = list(x0) if rng.random() < 0.05 else [x0[k] + s * rng.uniform(-1, 1) for k in range(3)]
        # log-metrics: symmetric matrices with moderate entries (exp_m is the matrix package's business)
        def logm():
            t = rng.random()
            if t < 0.3:
                d = [rng.uniform(-6, 6) for _ in range(3)]
                return [d[0], 0.0, 0.0, d[1], 0.0, d[2]]
            return [rng.uniform(-4, 4) for _ in range(6)]
        ops.append('ratio_quad ' + H(x0, x1, logm(), logm()))
    return ops


# ---------------------------------------------------------------------------------------------- streams
def _nontriv(op, out):
    return not out.startswith('bad-op')


KERNELS = Stream('geom_kernels', 'h_geom', 'geom', gen_kernels, oracle=oracle_kernels, whitebox=['ref_recon'],
                 nontrivial=_nontriv)
BARY = Stream('geom_bary', 'h_geom', 'geom', gen_bary, oracle=oracle_bary, whitebox=['ref_recon'], nontrivial=_nontriv)
GRAD = Stream('geom_grad', 'h_geom', 'geom', gen_grad, oracle=oracle_grad, whitebox=['ref_recon'], nontrivial=_nontriv)
INTERP = Stream('geom_interp', 'h_geom', 'geom', gen_interp, oracle=oracle_interp, whitebox=['ref_recon'],
                nontrivial=_nontriv)
RECON = Stream('geom_recon', 'h_geom', 'geom', gen_recon, oracle=oracle_recon, whitebox=['ref_recon'],
               nontrivial=_nontriv)
RATIO_QUAD = Stream('geom_ratio_quad', 'h_geom', 'geom', gen_ratio_quad, kind='validate', driver_args=('validate',),
                    whitebox=['ref_recon'], nontrivial=_nontriv)
