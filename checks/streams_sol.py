"""C09, text formats and multi-rank chunk loops: generators + oracles for harness/h_sol.c <-> `refdrv sol`.

Files handed to the readers are produced here by INDEPENDENT writers that follow the documented layouts
(libMeshb ASCII `.sol`: `MeshVersionFormatted`, `Dimension d`, `SolAtVertices n ntypes types..`, one line of
components per vertex, symmetric matrices as xx xy yy [xz yz zz]; plain `.metric`: six columns m11 m12 m13 m22 m23 m33;
binary `.solb` through checks/pyio.py).  Values are position-tagged: every component of every vertex is a different
number (all six tensor components differ, and differ per vertex), exactly representable with < 16 significant digits,
so `%.15e` / `%.17g` text round-trips bit for bit.

The oracles state C09 directly on the C's output: the tensor / row stored for the local node with global id g is the
tensor / row the file holds at entry g (named components, not slots), on every rank; a written file holds at entry g
the payload of the rank that owns g, in the documented component order.
"""
import os
import struct
import tempfile

from .common import Stream
from . import pyio

MEM = ['xx', 'xy', 'xz', 'yy', 'yz', 'zz']          # refine's in-memory (m11,m12,m13,m22,m23,m33)
LIBMESHB3 = ['xx', 'xy', 'yy', 'xz', 'yz', 'zz']    # libMeshb GmfSymMat, 3-D
LIBMESHB2 = ['xx', 'xy', 'yy']                      # 2-D
ONE = '3ff0000000000000'
ZERO = '0000000000000000'
RST_SITE = 'ref_gather_scalar_rst:second-step-repeats-first'
MSOLB_SITE = 'ref_part_metric_solb:ldim-bcast-as-glob'


def bits(x):
    return '%016x' % struct.unpack('<Q', struct.pack('<d', float(x)))[0]


def unbits(s):
    return struct.unpack('<d', struct.pack('<Q', int(s, 16)))[0]


def tensor(g, salt, twod):
    """SPD, the six components all different, different per vertex; dyadic"""
    t = {'xx': 1000 + g / 4.0 + salt, 'yy': 3000 + g / 4.0 + salt, 'zz': 5000 + g / 4.0 + salt,
         'xy': 1 + (g % 97) / 128.0, 'xz': 2 + (g % 89) / 128.0, 'yz': 3 + (g % 83) / 128.0}
    if twod:
        t['xz'], t['yz'], t['zz'] = 0.0, 0.0, 1.0
    return t


def field_row(g, ldim, salt):
    return [(j + 1) * 64 + g / 8.0 + salt + j / 1024.0 for j in range(ldim)]


# ------------------------------------------------------------------------------------------ independent writers
def sol_metric_tokens(dim, tensors, version=True, end=True, types=(3,)):
    t = []
    if version:
        t += ['w:MeshVersionFormatted', 'i:2']
    t += ['w:Dimension', 'i:%d' % dim, 'w:SolAtVertices', 'i:%d' % len(tensors), 'i:%d' % len(types)]
    t += ['i:%d' % x for x in types]
    for m in tensors:
        t += ['f:' + bits(m[c]) for c in (LIBMESHB3 if dim == 3 else LIBMESHB2)]
    if end:
        t.append('w:End')
    return t


def plain_metric_tokens(tensors):
    return ['f:' + bits(m[c]) for m in tensors for c in MEM]


def sol_scalar_tokens(dim, rows, types, version=True, end=True):
    t = []
    if version:
        t += ['w:MeshVersionFormatted', 'i:2']
    t += ['w:Dimension', 'i:%d' % dim, 'w:SolAtVertices', 'i:%d' % len(rows), 'i:%d' % len(types)]
    t += ['i:%d' % x for x in types]
    for r in rows:
        t += ['f:' + bits(v) for v in r]
    if end:
        t.append('w:End')
    return t


def solb_bytes(dim, rows, types, version):
    fd, path = tempfile.mkstemp(suffix='.solb')
    os.close(fd)
    try:
        pyio.write_solb(path, dim, rows, types, version=version)
        with open(path, 'rb') as f:
            return f.read()
    finally:
        os.unlink(path)


def solb_parse(b):
    fd, path = tempfile.mkstemp(suffix='.solb')
    os.close(fd)
    try:
        with open(path, 'wb') as f:
            f.write(b)
        return pyio.read_solb(path)
    finally:
        os.unlink(path)


# ------------------------------------------------------------------------------------------ distributions
def read_ranks(rng, N, np):
    """per rank: a shuffled subset of the globals (every global on at least one rank most of the time)"""
    ranks = [[] for _ in range(np)]
    for g in range(N):
        if rng.random() < 0.9:
            ranks[rng.randrange(np)].append(g)
    for r in range(np):
        extra = [g for g in range(N) if g not in ranks[r] and rng.random() < 0.25]
        ranks[r] += extra
        rng.shuffle(ranks[r])
        ranks[r] = ranks[r][:5000]
    return ranks


def write_ranks(rng, N, np):
    """every global owned by exactly one rank (stored there with part = rank); ghost copies elsewhere"""
    owner = [rng.randrange(np) for _ in range(N)]
    ranks = [[] for _ in range(np)]
    for g in range(N):
        for r in range(np):
            if owner[g] == r or rng.random() < 0.2:
                ranks[r].append((g, owner[g]))
    for r in range(np):
        rng.shuffle(ranks[r])
    return ranks, owner


def pick_floor(rng, N):
    c = rng.random()
    if c < 0.25:
        return 100000
    if c < 0.4:
        return 1
    return rng.randint(1, max(1, N + 1))


def read_op(op, np, hdr, ftoks, ranks):
    s = '%s %d %s | %s' % (op, np, ' '.join(str(h) for h in hdr), ' '.join(ftoks))
    for gl in ranks:
        s += ' | %d %s' % (len(gl), ' '.join(str(g) for g in gl))
    return ' '.join(s.split())


# ------------------------------------------------------------------------------------------ read generator
def malform(rng, toks):
    """one plausible defect of a text file (serial runs only: a failing rank 0 leaves the other ranks in bcast)"""
    t = list(toks)
    c = rng.randrange(9)
    nums = [i for i, x in enumerate(t) if x.startswith('f:')]
    if c == 0 and nums:
        del t[rng.choice(nums)]                              # one value short
    elif c == 1 and nums:
        t[rng.choice(nums)] = 'w:' + rng.choice(['abc', 'x', 'End', 'Dimension'])   # a word where a number is read
    elif c == 2 and 'w:Dimension' in t:
        i = t.index('w:Dimension')
        del t[i:i + 2]                                       # no Dimension
    elif c == 3 and 'w:Dimension' in t and 'w:SolAtVertices' in t:
        i = t.index('w:Dimension')
        d = t[i:i + 2]
        del t[i:i + 2]
        t += d                                               # Dimension after the data
    elif c == 4 and 'w:SolAtVertices' in t:
        i = t.index('w:SolAtVertices')
        t[i + 1] = 'i:%d' % (int(t[i + 1][2:]) + rng.choice([-1, 1, 2]))   # other count
    elif c == 5 and 'w:SolAtVertices' in t:
        i = t.index('w:SolAtVertices')
        t[i + 3] = 'i:%d' % rng.choice([0, 1, 2, 3, 4, -1])  # other type
    elif c == 6 and 'w:SolAtVertices' in t:
        i = t.index('w:SolAtVertices')
        t[i] = 'w:SolAtVertice'                              # keyword missing
    elif c == 7 and 'w:Dimension' in t:
        t[t.index('w:Dimension') + 1] = 'i:%d' % rng.choice([1, 4, 5, 0, -1, 2, 3])
    else:
        t = t[:rng.randrange(len(t) + 1)]                    # truncated
    return t


KINDS = ['msol3', 'msol2', 'mplain', 'msolb', 'ssol', 'ssolb', 'bamg', 'msolx']


def gen_read(rng, tier, np=None, kinds=None, n_ops=None):
    npr = np or 1
    if n_ops is None:
        n_ops = (70 if tier == 'quick' else 300) if np is None else (36 if tier == 'quick' else 150)
    if kinds is None:
        # multi-rank .solb metric reads have their own stream (they aborted under ASan before repo 505d2e5, MSOLB_SITE)
        kinds = KINDS if np is None else [k for k in KINDS if k != 'msolb']
    ops = []
    for k in range(n_ops):
        N = rng.choice([1, 2, 3, 5, 7, 11, 16, 23, 37]) if rng.random() < 0.85 else rng.randint(60, 400)
        salt = rng.randrange(64) / 64.0
        ranks = read_ranks(rng, N, npr)
        fl = pick_floor(rng, N)
        kind = rng.choice(kinds)
        bad = (np is None) and rng.random() < 0.3
        if kind in ('msol3', 'msol2'):
            dim = 3 if kind == 'msol3' else 2
            toks = sol_metric_tokens(dim, [tensor(g, salt, dim == 2) for g in range(N)],
                                     version=rng.random() < 0.8, end=rng.random() < 0.8)
            if rng.random() < 0.15:   # a comment word between the header and the values
                i = toks.index('w:SolAtVertices') + 4
                toks.insert(i, 'w:' + rng.choice(['values', 'm']))
            if bad:
                toks = malform(rng, toks)
            ops.append(read_op('rd_metric', npr, ['.sol', fl, N], toks, ranks))
        elif kind == 'msolx':
            # a .sol whose type list is not the single tensor: 1+... combinations the reader adds up
            dim = rng.choice([2, 3])
            types = rng.choice([(1, 1, 1), (3,), (1, 1, 1, 1, 1, 1), (2, 3), (3, 2), (1, 2, 1, 1), (3, 3), (3, 1)])
            width = 3 if dim == 2 else 6
            toks = sol_metric_tokens(dim, [tensor(g, salt, dim == 2) for g in range(N)], types=types)
            if np is not None:      # only what every rank accepts
                toks = sol_metric_tokens(dim, [tensor(g, salt, dim == 2) for g in range(N)], types=(2, 3, 2))
            del width
            ops.append(read_op('rd_metric', npr, ['.sol', fl, N], toks, ranks))
        elif kind == 'mplain':
            toks = plain_metric_tokens([tensor(g, salt, False) for g in range(N)])
            if bad:
                toks = malform(rng, toks)
            ext = rng.choice(['.metric', '.txt', '.sol.metric', 'm'])
            ops.append(read_op('rd_metric', npr, [ext, fl, N], toks, ranks))
        elif kind == 'msolb':
            dim = rng.choice([2, 3])
            n_file = 2 * N if (dim == 2 and rng.random() < 0.2) else N
            rows = [[tensor(g, salt, dim == 2)[c] for c in (LIBMESHB3 if dim == 3 else LIBMESHB2)] for g in range(n_file)]
            b = solb_bytes(dim, rows, [3], rng.choice([2, 3, 4]))
            ops.append(read_op('rd_metric', npr, ['.solb', fl, N], ['x:' + b.hex()], ranks))
        elif kind in ('ssol', 'ssolb'):
            dim = rng.choice([2, 3])
            types = [rng.choice([1, 1, 2]) for _ in range(rng.randint(0, 5))]
            ldim = sum(1 if t == 1 else dim for t in types)
            c = rng.random()
            n_file = N
            if c < 0.15:
                n_file = N + rng.randint(1, 4)        # too many: a warning
            elif c < 0.3 and dim == 2:
                n_file = 2 * N + rng.randint(0, 1)    # legacy extruded
            elif c < 0.4 and N > 1:
                n_file = N - 1                        # too few: every rank throws
            rows = [field_row(g, ldim, salt) for g in range(n_file)]
            if kind == 'ssol':
                toks = sol_scalar_tokens(dim, rows, types, version=rng.random() < 0.8, end=rng.random() < 0.8)
                if bad:
                    toks = malform(rng, toks)
                ops.append(read_op('rd_scalar', npr, ['.sol', fl, N], toks, ranks))
            else:
                b = solb_bytes(dim, rows, types, rng.choice([2, 3, 4]))
                ops.append(read_op('rd_scalar', npr, ['.solb', fl, N], ['x:' + b.hex()], ranks))
        else:
            M = 2 * max(1, N // 2)
            ranks2 = read_ranks(rng, M, npr)
            toks = ['i:%d' % (M // 2), 'i:3']
            for g in range(M // 2):
                m = tensor(g, salt, True)
                toks += ['f:' + bits(m[c]) for c in LIBMESHB2]
            if bad:
                toks = malform(rng, toks)
            # the section bound of this reader is n_global - nnode_read: one pass only (floor >= nnode)
            ops.append(read_op('rd_bamg', npr, [fl if np is None else max(fl, M), M], toks, ranks2))
    if np is None:
        ops.append('rd_scalar 1 .xyz 5 2 | f:%s f:%s | 2 0 1' % (ONE, ONE))
        ops.append('rd_metric 1 .sol 5 2 | | 2 0 1')
    return ops


# ------------------------------------------------------------------------------------------ read oracle
def split_op(op):
    w = op.split()
    groups, cur = [], []
    for x in w[2:]:
        if x == '|':
            groups.append(cur)
            cur = []
        else:
            cur.append(x)
    groups.append(cur)
    return w[0], int(w[1]), groups[1], groups[2:]


def strict_sol(toks, want_n):
    """documented ASCII .sol: returns (dim, n, types, values) or None when this is not exactly such a file"""
    t = list(toks)
    if t[:1] == ['w:MeshVersionFormatted']:
        if len(t) < 2 or not t[1].startswith('i:'):
            return None
        t = t[2:]
    if len(t) < 5 or t[0] != 'w:Dimension' or t[1] not in ('i:2', 'i:3') or t[2] != 'w:SolAtVertices':
        return None
    dim = int(t[1][2:])
    if not t[3].startswith('i:') or not t[4].startswith('i:'):
        return None
    n, nt = int(t[3][2:]), int(t[4][2:])
    if nt < 0 or len(t) < 5 + nt or (want_n is not None and n != want_n):
        return None
    types = []
    for x in t[5:5 + nt]:
        if not x.startswith('i:'):
            return None
        types.append(int(x[2:]))
    rest = t[5 + nt:]
    if rest[-1:] == ['w:End']:
        rest = rest[:-1]
    if any(not x.startswith('f:') for x in rest):
        return None
    return dim, n, types, [x[2:] for x in rest]


def expected_metric(ext, N, ftoks):
    """entry g -> memory-order bit patterns, by the documented layout; None: not a well-formed file of N tensors"""
    if ext.endswith('.solb'):
        try:
            s = solb_parse(bytes.fromhex(ftoks[0][2:]))
        except Exception:
            return None
        if s['types'] != [3] or len(s['values']) not in (N, 2 * N):
            return None
        names = LIBMESHB3 if s['dim'] == 3 else LIBMESHB2
        out = []
        for row in s['values']:
            m = dict(zip(names, [bits(v) for v in row]))
            if s['dim'] == 2:
                m.update({'xz': ZERO, 'yz': ZERO, 'zz': ONE})
            out.append([m[c] for c in MEM])
        return out, (s['dim'] == 2)
    if ext.endswith('.sol'):
        p = strict_sol(ftoks, N)
        if p is None:
            return None
        dim, n, types, vals = p
        if types != [3]:
            return None
        names = LIBMESHB3 if dim == 3 else LIBMESHB2
        if len(vals) != n * len(names):
            return None
        out = []
        for g in range(n):
            m = dict(zip(names, vals[g * len(names):(g + 1) * len(names)]))
            if dim == 2:
                m.update({'xz': ZERO, 'yz': ZERO, 'zz': ONE})
            out.append([m[c] for c in MEM])
        return out, False
    if ext.endswith('.csv'):
        return None
    if any(not x.startswith('f:') for x in ftoks) or len(ftoks) != 6 * N:
        return None
    return [[x[2:] for x in ftoks[6 * g:6 * g + 6]] for g in range(N)], False


def parse_rank_rows(out, width):
    parts = out.split('|')
    rows = []
    for p in parts[1:]:
        v = p.split()
        rows.append([v[i:i + width] for i in range(0, len(v), width)] if width else None)
    return parts[0].split(), rows


def oracle_read(ops, lines):
    bad = []
    for i, (op, out) in enumerate(zip(ops, lines)):
        try:
            name, np, fg, rg = split_op(op)
        except Exception:
            continue
        if name == 'rd_metric':
            ext, N = fg_hdr(op)[0], int(fg_hdr(op)[2])
            exp = expected_metric(ext, N, fg)
            if exp is None:
                continue
            rows, dup = exp
            if not out.startswith('ok'):
                bad.append((i, 'C09 a well-formed %s metric file of %d tensors from the independent writer was rejected: %s' % (ext, N, out)))
                continue
            _, got = parse_rank_rows(out, 6)
            for r, grp in enumerate(rg):
                gl = [int(x) for x in grp[1:]]
                if r >= len(got) or len(got[r]) != len(gl):
                    bad.append((i, 'C09 rank %d returned %d tensors for %d nodes' % (r, len(got[r]) if r < len(got) else -1, len(gl))))
                    break
                for l, g in enumerate(gl):
                    want = rows[g] if g < len(rows) else None
                    if want is not None and got[r][l] != want:
                        bad.append((i, 'C09 tensor of vertex %d on rank %d is not entry %d of the file: stored %s, file holds %s (order %s)'
                                    % (g, r, g, dict(zip(MEM, got[r][l])), dict(zip(MEM, want)), ','.join(MEM))))
                        break
        elif name == 'rd_scalar':
            ext, N = fg_hdr(op)[0], int(fg_hdr(op)[2])
            exp = None
            if ext.endswith('.solb'):
                try:
                    s = solb_parse(bytes.fromhex(fg[0][2:]))
                    if all(t in (1, 2) for t in s['types']):
                        exp = (s['ldim'], [[bits(v) for v in row] for row in s['values']])
                except Exception:
                    exp = None
            elif ext.endswith('.sol'):
                p = strict_sol(fg, None)
                if p is not None:
                    dim, n, types, vals = p
                    if all(t in (1, 2) for t in types):
                        ldim = sum(1 if t == 1 else dim for t in types)
                        if len(vals) == n * ldim:
                            exp = (ldim, [vals[g * ldim:(g + 1) * ldim] for g in range(n)])
            if exp is None:
                continue
            ldim, rows = exp
            if len(rows) < N:
                if out.startswith('ok'):
                    bad.append((i, 'C09 a field file with %d entries was accepted for %d vertices' % (len(rows), N)))
                continue
            if not out.startswith('ok'):
                bad.append((i, 'C09 a well-formed %s field file (%d entries, ldim %d) from the independent writer was rejected: %s'
                            % (ext, len(rows), ldim, out)))
                continue
            head, got = parse_rank_rows(out, ldim)
            if len(head) != 2 or int(head[1]) != ldim:
                bad.append((i, 'C09 ldim %s returned, the file holds %d components per vertex' % (head[1:], ldim)))
                continue
            if ldim == 0:
                continue
            for r, grp in enumerate(rg):
                gl = [int(x) for x in grp[1:]]
                if r >= len(got) or len(got[r]) != len(gl):
                    bad.append((i, 'C09 rank %d returned %d rows for %d nodes' % (r, len(got[r]) if r < len(got) else -1, len(gl))))
                    break
                for l, g in enumerate(gl):
                    if got[r][l] != rows[g]:
                        bad.append((i, 'C09 field row of vertex %d on rank %d is not entry %d of the file' % (g, r, g)))
                        break
    return bad


def fg_hdr(op):
    w = op.split()
    return w[2:w.index('|')]


# ------------------------------------------------------------------------------------------ write generator
def write_op(op, np, hdr, ranks, payload):
    s = '%s %d %s' % (op, np, ' '.join(str(h) for h in hdr))
    for nodes in ranks:
        s += ' | %d' % len(nodes)
        for g, part in nodes:
            s += ' %d %d %s' % (g, part, ' '.join(payload(g)))
    return ' '.join(s.split())


def pick_rbl(rng, width):
    rec = (width + 1) * 8
    return rng.choice([0, 0, -1, rec, rec, 2 * rec, 3 * rec + 5, rec - 1, 1000000])


def gen_write(rng, tier, np=None):
    npr = np or 1
    n_ops = (60 if tier == 'quick' else 250) if np is None else (36 if tier == 'quick' else 150)
    ops = []
    for k in range(n_ops):
        N = rng.choice([1, 2, 3, 5, 7, 11, 16, 23]) if rng.random() < 0.85 else rng.randint(40, 200)
        salt = rng.randrange(64) / 64.0
        ranks, _ = write_ranks(rng, N, npr)
        ver = rng.choice([0, 0, 1, 2, 3, 4])
        if rng.random() < 0.45:
            ext = rng.choice(['.metric', '.solb', '.met', '.sol', '.metric', '.solb', 'm'])
            twod = 1 if (ext == '.met' and rng.random() < 0.8) else rng.randrange(2)
            ops.append(write_op('wr_metric', npr, [ext, twod, ver, pick_rbl(rng, 6), N], ranks,
                                lambda g: [bits(tensor(g, salt, twod == 1)[c]) for c in MEM]))
        else:
            ext = rng.choice(['.sol', '.solb', '.txt', '.bin', '.sol', '.solb', '.xyz'])
            ldim = rng.choice([0, 1, 2, 3, 4, 5, 6, 8])
            ops.append(write_op('wr_scalar', npr, [ext, rng.randrange(2), ver, pick_rbl(rng, ldim), N, ldim], ranks,
                                lambda g: [bits(v) for v in field_row(g, ldim, salt)]))
    return ops


def gen_read_msolb(rng, tier, np=None):
    return gen_read(rng, tier, np, kinds=['msolb'], n_ops=4 if tier == 'quick' else 20)[:4 if tier == 'quick' else 20]


def gen_rst(rng, tier, np=None):
    npr = np or 1
    ops = []
    for k in range(6 if tier == 'quick' else 30):
        N = rng.choice([1, 2, 3, 5, 9])
        salt = rng.randrange(64) / 64.0
        ranks, _ = write_ranks(rng, N, npr)
        ldim = rng.choice([0, 2, 4, 6, 3])
        ops.append(write_op('wr_scalar', npr, ['.rst', rng.randrange(2), 0, pick_rbl(rng, ldim // 2), N, ldim], ranks,
                            lambda g: [bits(v) for v in field_row(g, ldim, salt)]))
    return ops


def owners(op):
    """(hdr, {global: payload bits}) of a write op, from the rank that owns each global"""
    w = op.split()
    np = int(w[1])
    hdr = w[2:w.index('|')] if '|' in w else w[2:]
    groups, cur = [], None
    for x in w[2:]:
        if x == '|':
            if cur is not None:
                groups.append(cur)
            cur = []
        elif cur is not None:
            cur.append(x)
    groups.append(cur)
    ldim = 6 if w[0] == 'wr_metric' else int(hdr[5])
    rec = 2 + ldim
    own = {}
    for r, g in enumerate(groups):
        k = int(g[0])
        for i in range(k):
            gi, part = int(g[1 + rec * i]), int(g[2 + rec * i])
            if part == r:
                own[gi] = g[3 + rec * i:3 + rec * i + ldim]
    return np, hdr, ldim, own


def oracle_write(ops, lines):
    bad = []
    for i, (op, out) in enumerate(zip(ops, lines)):
        if not out.startswith('ok'):
            continue
        try:
            np, hdr, ldim, own = owners(op)
        except Exception:
            continue
        ext, twod, N = hdr[0], int(hdr[1]), int(hdr[4])
        toks = out.split()[1:]
        name = 'h' + ext
        rows = None
        if op.startswith('wr_metric'):
            if name.endswith('.solb'):
                s = solb_parse(bytes.fromhex(toks[0][2:]))
                names = LIBMESHB2 if twod else LIBMESHB3
                if s['types'] != [3] or s['dim'] != (2 if twod else 3) or len(s['values']) != N:
                    bad.append((i, 'C09 metric .solb header: types %s dim %d count %d' % (s['types'], s['dim'], len(s['values']))))
                    continue
                rows = [dict(zip(names, [bits(v) for v in row])) for row in s['values']]
            elif name.endswith('.met'):
                if toks[:2] != ['i:%d' % N, 'i:3'] or len(toks) != 2 + 3 * N:
                    bad.append((i, 'C09 .met header/size'))
                    continue
                rows = [dict(zip(LIBMESHB2, [t[2:] for t in toks[2 + 3 * g:5 + 3 * g]])) for g in range(N)]
            else:
                if len(toks) != 6 * N:
                    bad.append((i, 'C09 plain metric file holds %d tokens for %d vertices' % (len(toks), N)))
                    continue
                rows = [dict(zip(MEM, [t[2:] for t in toks[6 * g:6 * g + 6]])) for g in range(N)]
            for g in range(N):
                want = dict(zip(MEM, own[g]))
                for c, v in rows[g].items():
                    if want[c] != v:
                        bad.append((i, 'C09 entry %d of the written metric: component %s is %s, vertex %d holds %s' % (g, c, v, g, want[c])))
                        break
                else:
                    continue
                break
        else:
            if name.endswith('.rst'):
                b = bytes.fromhex(toks[0][2:])
                var = ldim // 2
                data = b[36:]
                if len(data) != 8 * 2 * var * N:
                    bad.append((i, 'C09 .rst data block size %d for %d vertices, %d variables, 2 steps' % (len(data), N, var)))
                    continue
                for step in range(2):
                    for g in range(N):
                        off = 8 * (step * var * N + g * var)
                        got = [data[off + 8 * j:off + 8 * j + 8][::-1].hex() for j in range(var)]
                        want = own[g][step * var:(step + 1) * var]
                        if got != want:
                            bad.append((i, 'C09 .rst step %d of vertex %d holds %s, the field holds %s in these columns' % (step, g, got, want),
                                        None))  # (the defect that used to explain step 1 == first half is repaired: ca4212e)
                            break
                    else:
                        continue
                    break
                continue
            if name.endswith('.solb'):
                s = solb_parse(bytes.fromhex(toks[0][2:]))
                if s['types'] != [1] * ldim or s['dim'] != (2 if twod else 3) or len(s['values']) != N:
                    bad.append((i, 'C09 field .solb header: types %s dim %d count %d' % (s['types'], s['dim'], len(s['values']))))
                    continue
                rows = [[bits(v) for v in row] for row in s['values']]
            elif name.endswith('.bin'):
                b = bytes.fromhex(toks[0][2:]) if toks[0] != 'x:-' else b''
                rows = [[b[8 * (g * ldim + j):8 * (g * ldim + j) + 8][::-1].hex() for j in range(ldim)] for g in range(N)]
                if len(b) != 8 * ldim * N:
                    bad.append((i, 'C09 .bin size'))
                    continue
            elif name.endswith('.sol'):
                p = strict_sol(toks, N)
                if p is None or p[0] != (2 if twod else 3) or p[2] != [1] * ldim or len(p[3]) != N * ldim:
                    bad.append((i, 'C09 written .sol is not a documented ASCII solution file of %d x %d' % (N, ldim)))
                    continue
                rows = [p[3][g * ldim:(g + 1) * ldim] for g in range(N)]
            elif name.endswith('.txt'):
                rows = [[t[2:] for t in toks[g * ldim:(g + 1) * ldim]] for g in range(N)]
                if len(toks) != N * ldim:
                    bad.append((i, 'C09 .txt size'))
                    continue
            else:
                continue
            for g in range(N):
                if rows[g] != own[g]:
                    bad.append((i, 'C09 entry %d of the written field is %s, vertex %d holds %s' % (g, rows[g], g, own[g])))
                    break
    return bad


def _nontrivial(op, out):
    return out.startswith('ok')


def _mk(name, gen, oracle, np):
    s = Stream(name, 'h_sol', 'sol', gen, oracle=oracle, np=np, whitebox=('ref_part',), nontrivial=_nontrivial,
               session='\x00none', timeout=240, batches={'quick': 1, 'thorough': 3})
    if np is not None:
        s.ops_file = True
    return s


NPS = [2, 3]
SOL_READ = _mk('sol_read', gen_read, oracle_read, None)
SOL_READ_MPI = _mk('sol_read_mpi', gen_read, oracle_read, NPS)
SOL_WRITE = _mk('sol_write', gen_write, oracle_write, None)
SOL_WRITE_MPI = _mk('sol_write_mpi', gen_write, oracle_write, NPS)
SOL_RST = _mk('sol_rst', gen_rst, oracle_write, None)
SOL_RST.site = RST_SITE
SOL_READ_MPI_MSOLB = _mk('sol_read_mpi_msolb', gen_read_msolb, oracle_read, NPS)
STREAMS = [SOL_READ, SOL_READ_MPI, SOL_READ_MPI_MSOLB, SOL_WRITE, SOL_WRITE_MPI, SOL_RST]
