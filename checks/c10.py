"""C10 — the multiscale metric is finite SPD (planar embedding in 2-D) and meets the requested complexity."""
from . import streams_metric, cli

ID = 'C10'
PROPS_MODULE = ['Refine.Props.C10']
STREAMS = [streams_metric.COMPLEXITY, streams_metric.EIG, streams_metric.GAC, cli.MULTISCALE]

EXPLANATION = 'placeholder'
ASSUMPTIONS = ['placeholder']
