"""C10 — the multiscale metric is finite SPD (planar embedding in 2-D) and meets the requested complexity."""
from . import streams_metric, streams_gradation, streams_reconpar, streams_metricpipe, cli
from .common import Stream

ID = 'C10'
PROPS_MODULE = ['Refine.Props.C10', 'Refine.Props.C10Gradation', 'Refine.Props.C10Par', 'Refine.Props.C10Pipe']


def _gen_multiscale_mpi(rng, tier, np):
    # fewer scenarios per rank count than the serial stream: every one starts an mpiexec
    return cli.gen_multiscale(rng, tier, np)[:3 if tier == 'quick' else 12]


# the same end-to-end statement on 2 and 3 ranks (refmpi multiscale): "the same holds on any number of ranks"
MULTISCALE_MPI = Stream('cli_multiscale_mpi', cli.cli_harness, None, _gen_multiscale_mpi, oracle=cli.oracle_multiscale,
                        kind='oracle', np=[2, 3], nontrivial=lambda op, out: out.startswith('rc=0'), timeout=900)

STREAMS = [streams_metric.COMPLEXITY, streams_metric.EIG, streams_metric.GAC, streams_gradation.SWEEP, streams_gradation.GAC,
           streams_gradation.LP, cli.MULTISCALE, MULTISCALE_MPI, streams_reconpar.ROUNDOFF,
           streams_metricpipe.STAGES, streams_metricpipe.ARGV, streams_metricpipe.CLI_OPTS]

EXPLANATION = (
    'Proved in Lean over the reals, about the executable model Refine/Model/Metric.lean (a statement-by-statement '
    'transcription of ref_metric_complexity / ref_metric_set_complexity / ref_metric_local_scale / '
    'ref_metric_limit_aspect_ratio, the abs-value and round-off-floor steps of ref_recon.c and the 2-D embedding blocks, '
    'generic over the scalar type): '
    '(a) the complexity identity: the coded determinant ref_matrix_det_m, ref_math_divisible guards and the det > 0 filter '
    'included, is exactly homogeneous under positive scaling (detM_scale, detM_embed_scale), hence the whole '
    'vertex-lumped quadrature is (complexity_homogeneous3: factor sqrt(s^3); complexity_homogeneous2: factor s on '
    'embedded fields), hence a successful ref_metric_set_complexity returns a field whose complexity is exactly the '
    'target, for any mesh (tet/pyr/pri/hex or tri/qua), any coordinates, any ownership mask, in 3-D and 2-D '
    '(setComplexity_exact); the routine fails only through its divisible guard (setComplexity_div_zero) and succeeds '
    'whenever 0 < target < 1e20*current (setComplexity_ok); the block that ends ref_metric_gradation_at_complexity is '
    'the same code, so whatever the 20 relaxation sweeps produced, the returned field meets the target and is embedded '
    'in 2-D (gradation_final_rescale_exact). '
    '(b) positive definiteness stage by stage: positive scaling (scale_spd), the rescale (setComplexity_spd), the Lp '
    'normalisation for every norm power (localScale_spd, localScale_embedded), the 2-D embedding of a positive 2x2 block '
    '(embed2d_spd, rescale_embedded), the round-off eigenvalue floor makes ANY reconstructed Hessian (indefinite, '
    'singular, zero) positive definite at every vertex (roundoffNode_spd, roundoffLimit_spd) using only the '
    'orthonormality of ref_matrix_diag_m\'s frame, which is proved unconditionally in C16; the abs-value step is PSD, '
    'SPD without zero eigenvalues (absHessian_psd, absHessian_spd); the aspect-ratio limit keeps SPD '
    '(limitAspectRatio_spd, aspectRatio2_pos); metric intersection in the gradation sweeps is Props/C16.intersect_spd. '
    '(c) ranks: the sum over ranks of the owned-vertex quadratures equals the serial integral for every assignment of '
    'vertices to ranks (complexity_rank_sum). '
    'Tied, not proved: the Float instance of the same definitions reproduces the C bit for bit on generated meshes '
    '(hex/prism/pyramid/tet bricks, quads/triangles, jittered, stretched, tiny and huge, boundary triangles next to '
    'volume cells, surface grids, random degenerate cells, masked ownership) and fields (SPD with eigenvalues 1e-6..1e8 '
    'and anisotropy up to 1e4, embedded, degenerate/indefinite Hessians): streams metric_complexity (complexity, '
    'set_complexity, local_scale) and metric_eig (abs_hessian, roundoff, limit_ar); the real '
    'ref_metric_gradation_at_complexity is run in process and the model\'s complexity, SPD and embedding invariants are '
    'evaluated on the state it leaves (metric_gradation_at_complexity, validate). The Python oracles state the property '
    'on the implementation\'s own output with an independent integrator (exact rational volumes and determinants): '
    '|C(out)-target| <= 1e-8 target, leading minors > 0, m13=m23=0 and m33=1 exactly. End to end: `ref multiscale` and '
    '`refmpi multiscale` on 2 and 3 ranks (cli_multiscale, cli_multiscale_mpi). '
    'Gradation (Refine/Model/Gradation.lean, Props/C10Gradation.lean): the ref_edge order, '
    'ref_metric_metric_space_gradation, ref_metric_mixed_space_gradation (limit metric of each end seen from the other, '
    'two ref_matrix_intersect calls per end, the continue / skipped-end / RSS exits) and the 20-relaxation loop of '
    'ref_metric_gradation_at_complexity are transcribed and bit-compared with the real functions after every sweep '
    '(streams gradation_sweeps: edges, 1..3 sweeps, r in {1.1, 1.5, 3, -1, 1, ...}; gradation_at_complexity: the whole '
    'function and the stages of ref_metric_lp after the reconstruction; gradation_lp_chain: the real ref_metric_lp on '
    'a scalar field against the model applied to the Hessian ref_recon_hessian returns). Proved: after any number of '
    'sweeps over ANY edge list every vertex tensor dominates its input in the Loewner order (gradationSweep_ge_input, '
    'mixedSweep_ge_input) and SPD fields stay SPD (gradationSweep_spd, mixedSweep_spd, metricSpaceGradation_spd_ge); '
    'for r >= 1 the limit metric is a multiple in (0,1] of the neighbour\'s metric (limitMS_spd, limitMS_le); the '
    'embedding block after the sweep returns embedded SPD tensors and keeps dominance over an embedded input '
    '(gradationSweep_twod_embed); the relaxation loop keeps SPD and, in 2-D, the embedding for any number of '
    'relaxations (gacLoop_spd, gacLoop_embedded); the function ends with the setComplexity block, so its output has '
    'complexity exactly the target and is SPD (gradation_at_complexity_final, gradationAtComplexity_final, '
    'gradation_at_complexity_spd, gradation_at_complexity_div_zero). The oracle of the new streams states directly: '
    'every tensor after every sweep finite SPD, dominating its input (exact rational minors of M\' - (1-1e-9)M), '
    'embedding kept, |C(out)-target| <= 1e-10 target (for output tensors of conditioning up to 1e4). '
    'Also proved: the Lp exponent is -1/(2p+dim) and sends the coded determinant to det^(2p/(2p+dim)) in 3-D and, with '
    'the embedding, in 2-D (localScale_exponent_dim, localScale_det3, localScale_det2); floor + Lp normalisation give '
    'SPD for any Hessian (lp_front_spd); the stages of ref_metric_lp after the reconstruction return complexity exactly '
    'the target and, in 2-D, embedded tensors (lpChain_split, lpChain_complexity). '
    'Parallel floor (Props/C10Par.lean, model Model/ReconPar.roundoffLimitPar = the serial floor kernel on every '
    'rank\'s stored mesh, every stored vertex, radius from the rank\'s own edges, then ref_node_ghost_dbl(recon, 6)): '
    'for every rank count and every distribution satisfying the structural invariant WorldOK, when the floor step '
    'succeeds on every rank the refresh completes and EVERY tensor held by EVERY rank - owned or ghost - is positive '
    'definite (roundoffLimitPar_spd; ghost copies through C06Ghost.ghostRefresh_spec); and the floor itself does not '
    'depend on the partition: entry i of the radius array is the minimum of the lengths of the cell edges at i (-1 '
    'without an edge), a function of the SET of those lengths, so at a stored vertex all of whose cells are stored - '
    'every owned vertex - the rank-local radius is the radius of the global mesh '
    '(roundoff_radius_partition_independent). Tie: stream reconpar_roundoff '
    '(h_reconpar, np = 1, 2, 3): the real ref_recon_roundoff_limit on explicitly distributed 2-D and 3-D meshes with '
    'SPD / indefinite / singular / zero / tiny Hessians, every stored vertex compared bit for bit with the model; '
    'oracle: the output spectrum is the input spectrum raised to the floor 4e-12/r^2 of the GLOBAL shortest edge at '
    'the vertex (so a floor computed from a rank-local mesh size is seen), bit-identical to the one-rank run, ghost '
    'copies equal to their owners. '
    'Pipeline and option plumbing (Refine/Model/MetricPipe.lean, Props/C10Pipe.lean): ref_metric_lp after the '
    'reconstruction (metricLp: floor, Lp scale with p_norm, limiter with aspect_ratio, gradation_at_complexity with '
    'gradation and the target), hessian_multiscale (the --hessian path: abs value, floor, Lp scale, gradation at '
    'complexity, no limiter), ref_metric_buffer and the 10 relaxations of ref_metric_buffer_at_complexity with the 2-D '
    'branch of /repo cef0178 (bufferAtComplexity; second half of a relaxation = setComplexity), the argument scan of the '
    'multiscale subcommand (multiscaleOptions: argv positions 2..5, ref_args_find = first occurrence, --norm-power / '
    '--gradation / --aspect-ratio with a mandatory value and the usage exit, --hessian / --fixed-point / --buffer / '
    '--uniform by presence, --pcd lenient, atoi / atof on decimal words as exact decimals) and the metric part of the '
    'subcommand (multiscaleMetric: complexity > 1e-20 guard, driver selection, --buffer, the reported complexity). '
    'Flag names, defaults, positions, the stage calls with their argument words, the buffer constants and the relaxation '
    'count are regenerated from the C text on every run (Gen/MultiscaleOpts.lean) and pinned by '
    'constants_of_the_c_text. Proved: in every modelled driver and in the subcommand for EVERY option combination the '
    'last operation is the exact rescale applied to a field that is embedded on a 2-D grid '
    '(metricLp_ends_with_rescale, bufferAtComplexity_ends_with_rescale, multiscaleMetric_ends_with_rescale), hence the '
    'complexity equals the target and the embedding holds (metricLp_complexity, metricLp_twod_embedding, '
    'hessianMultiscale_complexity, bufferAtComplexity_complexity, bufferAtComplexity_twod_embedding, '
    'multiscaleMetric_report: the `actual complexity` line equals the request); SPD by composing the stage lemmas '
    '(metricLp_spd, bufferAtComplexity_spd); the pre-cef0178 loop body loses the embedding '
    '(bufRelaxLegacy_not_embedded); the option scan (multiscaleOptions_defaults, multiscaleOptions_sound: every field is a '
    'function of its own flag only; multiscaleOptions_usage: the exact condition of the usage exit). Tie: '
    'metricpipe_stages (the four stages called one by one with the field compared after each, AND the real ref_metric_lp '
    'on the same Hessian through a hook on its ref_recon_hessian call; ref_metric_buffer, '
    'ref_metric_buffer_at_complexity and its relaxations one by one), metricpipe_argv (the static multiscale() of '
    'ref_subcommand.c called in process on generated argv vectors - every flag alone, all together, unusual order, '
    'repeated, missing values, values that are flags, malformed numbers, shifted positionals - the metric file it '
    'wrote compared bit for bit with multiscaleMetric(multiscaleOptions argv) on the Hessian it saw), '
    'cli_multiscale_opts (the ref binary end to end on option scenarios, oracle of cli_multiscale).')

ASSUMPTIONS = [
    'theorems hold in exact real arithmetic about the model; IEEE rounding is modelled (Float instance, bit-compared '
    'with the C), not verified; finiteness of the output is a Float fact: tied and oracled only',
    'setComplexity_exact needs: current complexity > 0, target > 0, in 2-D an embedded input field (the C re-imposes the '
    'embedding after every stage), and an exponent that matches the quadrature (twod grids integrate areas). '
    'A triangle-only grid that is NOT flagged twod (a surface grid) is rescaled with exponent 2/3 although its '
    'complexity integrates areas: the identity does not hold there (not a C10 input; tie only)',
    'the gradation theorems take the eigen-decomposition hypotheses of Props/C16 (InnerExact: both inner ref_matrix_diag_m '
    'calls succeeded and are exact) for exactly the write-back calls intersect(metric[node], limited, metric[node]) that a '
    'sweep makes, as a predicate walking the same fold as the executable sweep (FoldExact / SweepsExact / MixedFoldExact / '
    'GacLoopOk); a refused call leaves the field as it is; nothing is assumed about ref_matrix_diag_m in general. '
    'The relaxation-loop theorems additionally take a positive current complexity at every rescale. That 20 '
    'relaxations converge is not claimed; that the unprojected sweep keeps m13 = m23 = 0 by itself is not proved '
    '(the C re-imposes the embedding after the sweep, which is what is proved)',
    'ref_metric_gradation_at_complexity_mixed (ref_metric_imply_non_tet inside the loop) is not modelled',
    'pipeline: the multiscale subcommand has no --kexact / --interpolant / --axi option (its reconstruction is the '
    'constant REF_RECON_L2PROJECTION, pinned from the C text); the --fixed-point and --uniform branches, --fun3d-mapbc / '
    '--viscous-tags, ref_metric_lp_mixed, ref_metric_opt_goal and the belme drivers are NOT modelled (the option theorems '
    'cover the flags --fixed-point and --uniform set, the metric theorems take both false; --uniform changes the '
    'complexity by design); atof / atoi are modelled on decimal words only (no inf, nan, hexadecimal floats, overflow); '
    'the positive-complexity hypothesis of the pipeline theorems is stated for exactly the fields whose rescale gives '
    'the returned field; metricLp_spd takes the SPD-ness of the limiter output as a hypothesis (per vertex it is '
    'limitAspectRatio_spd / limitAspectRatio2_spd_embedded) and bufferAtComplexity_spd positive eigenvalues from the '
    'decompositions ref_metric_buffer takes (BufLoopOk); the ranks statement of the pipeline is tied end to end only '
    '(cli_multiscale_mpi); the in-process oracle of metricpipe_stages states exact positive definiteness of the real '
    'ref_metric_lp output for aspect-ratio limits 1..1e3 only: with the default limit (-1: eigenvalue ratio up to 1e12) and '
    'singular Hessians the returned tensor can be indefinite at 1e-9 relative (rounding in the gradation intersections; '
    'candidate finding findings/metricpipe-default-ar-conditioning, model and C agree bit for bit there)',
    'Hessian reconstruction (ref_recon_hessian: L2 projection / k-exact) is outside this property (C19); the abs-value '
    'and floor theorems need only orthonormal eigenvectors from ref_matrix_diag_m (proved), not an exact decomposition; '
    'a diag_m failure status is returned as is',
    'SPD after limit_aspect_ratio is proved for the 3-D node kernel given a positive largest eigenvalue, and for the 2-D '
    'kernel (descending_eig_twod, twod_m) given a positive larger in-plane eigenvalue and a positive out-of-plane '
    'eigenvalue of the returned frame (limitAspectRatio2_spd_embedded); the embedding of the 2-D limiter output is '
    'unconditional (limitAspectRatio2_field_embedded)',
    'parallel: the model is one rank\'s sum with ref_mpi_allsum as the identity; complexity_rank_sum covers the sum over '
    'ranks; ghost exchange (ref_node_ghost_dbl after every sweep) and the np > 1 run are covered end to end by '
    'cli_multiscale_mpi only: the gradation model is the one-rank sweep (no 2-rank world was modelled); the round-off '
    'floor IS modelled on a World of ranks (C10Par: SPD on every rank, radius at an owned vertex = serial radius); the '
    'eigen-decomposition of the floored tensor is the same function of (tensor, radius) on every rank, so the owned '
    'results are bit-identical to the one-rank run (oracled)',
    'Python oracle arithmetic (fractions, integer square root, 50-digit decimal Jacobi) is trusted',
]
