"""Streams of work package `smoothinterp` (C05 / C13): the donor-location and metric bookkeeping of the vertex smoothers
and of split insertion, on the real code with a cached background and a LOG-LINEAR metric field.

smooth_interp_fn  (validate)  function level: ref_metric_interpolate_node / _between and the three improvers called
                              directly, including tampered donor records (cell = REF_EMPTY, donor on another part),
                              positions outside the background, walks that give up (non-convex domains, > 215 cells)
smooth_interp_run (validate)  ref_smooth_pass / ref_adapt_pass / ref_split_pass on strips, L, slit, squares, boxes:
                              every improver call and every split insertion is recorded through the hooks and replayed
cli_adapt_strip   (oracle)    `ref adapt -m` / `refmpi adapt` on thin strips, log-linear field at every output vertex

harness h_smoothinterp.c prints records; `refdrv smoothinterp` replays the model of Refine/Model/SmoothInterp.lean on each
record (given the search outcomes the C observed) and must reproduce the post state bit for bit.
The oracles state the property directly on the implementation output: stored log metric = L(x_v), stored metric =
exp(L(x_v)) (1e-7 relative), rejected improver calls leave coordinates bit-identical.
"""
import math
import os
import random
import struct

from . import cli, meshgen, pyio
from .common import Stream


def hx(x):
    return '%016x' % struct.unpack('<Q', struct.pack('<d', float(x)))[0]


def unhx(s):
    if s == 'nan':
        return float('nan')
    return struct.unpack('<d', struct.pack('<Q', int(s, 16)))[0]


# ------------------------------------------------------------------ meshes
def mask_tris(nx, ny, keep, lx=1.0, ly=1.0, rng=None, jitter=0.0):
    """triangulated lattice restricted to the cells with keep(i, j); boundary edges get one id per maximal straight
    side (corners and re-entrant corners separate ids, so the smoothers freeze them)"""
    vid = {}
    verts = []

    def v(i, j):
        if (i, j) not in vid:
            vid[(i, j)] = len(verts)
            verts.append([lx * i / nx, ly * j / ny, 0.0])
        return vid[(i, j)]
    tris = []
    cells = [(i, j) for i in range(nx) for j in range(ny) if keep(i, j)]
    for (i, j) in cells:
        a, b, c, d = v(i, j), v(i + 1, j), v(i + 1, j + 1), v(i, j + 1)
        if (i + j) % 2 == 0:
            tris += [(a, b, c, 1), (a, c, d, 1)]
        else:
            tris += [(a, b, d, 1), (b, c, d, 1)]
    count = {}
    for t in tris:
        for k in range(3):
            e = (t[k], t[(k + 1) % 3])
            count[e] = count.get(e, 0) + 1
    bnd = [e for e in count if (e[1], e[0]) not in count]
    inv = {n: ij for ij, n in vid.items()}
    onb = set(n for e in bnd for n in e)
    if rng is not None and jitter > 0:
        for n, (i, j) in inv.items():
            if n not in onb:
                verts[n][0] += jitter * lx / nx * (rng.random() - 0.5)
                verts[n][1] += jitter * ly / ny * (rng.random() - 0.5)
    # ids: walk the boundary loops, new id at every direction change
    nxt = {}
    for a, b in bnd:
        nxt.setdefault(a, []).append(b)
    ids = {}
    cur = 0
    seen = set()
    for a0, b0 in sorted(bnd):
        if (a0, b0) in seen:
            continue
        # rotate the start to a corner
        loop = [(a0, b0)]
        seen.add((a0, b0))
        a, b = a0, b0
        while True:
            outs = [c for c in nxt.get(b, []) if (b, c) not in seen]
            if not outs:
                break
            c = outs[0]
            loop.append((b, c))
            seen.add((b, c))
            a, b = b, c

        def direction(e):
            (i0, j0), (i1, j1) = inv[e[0]], inv[e[1]]
            return (i1 - i0, j1 - j0)
        # find a corner to start
        start = 0
        for k in range(len(loop)):
            if direction(loop[k - 1]) != direction(loop[k]):
                start = k
                break
        loop = loop[start:] + loop[:start]
        prev = None
        for e in loop:
            d = direction(e)
            if d != prev:
                cur += 1
                prev = d
            ids[e] = cur
    edgs = [(a, b, ids[(a, b)]) for (a, b) in bnd]
    return [tuple(p) for p in verts], tris, edgs


def strip(n, d, w, eps):
    """the boundary-layer strip of seeded/C05_smooth_tri_interp_guess_restore_late: [0, n d] x [0, w], two wall rows and
    one interior row a distance eps above the lower wall"""
    def A(i):
        return i

    def T(i):
        return n + 1 + i

    def P(i):
        return 2 * (n + 1) + i
    verts = [(d * i, 0.0, 0.0) for i in range(n + 1)] + [(d * i, w, 0.0) for i in range(n + 1)] + \
            [(d * (i + 0.5), eps, 0.0) for i in range(n)]
    tris, edgs = [], []
    for i in range(n):
        tris += [(A(i), A(i + 1), P(i), 1), (P(i), T(i + 1), T(i), 1)]
        edgs += [(A(i), A(i + 1), 1), (T(i + 1), T(i), 3)]
    for i in range(n - 1):
        tris += [(P(i), A(i + 1), P(i + 1), 1), (P(i), P(i + 1), T(i + 1), 1)]
    tris += [(A(0), P(0), T(0), 1), (A(n), T(n), P(n - 1), 1)]
    edgs += [(A(n), T(n), 2), (T(0), A(0), 4)]
    return verts, tris, edgs


def shape_keep(shape, nx, ny):
    if shape == 'square':
        return lambda i, j: True
    if shape == 'L':
        return lambda i, j: not (i >= nx // 2 and j >= ny // 2)
    if shape == 'slit':  # a one-cell-wide notch from the top down to 1/4 height
        return lambda i, j: not (i == nx // 2 and j >= ny // 4)
    if shape == 'comb':
        return lambda i, j: not (i % 3 == 1 and j >= ny // 3)
    if shape == 'U':
        return lambda i, j: not (nx // 3 <= i < nx - nx // 3 and j >= ny // 3)
    raise ValueError(shape)


def field2d(rng, hx_, hy_, grad=0.8):
    """log M(x) = L0 + Lx x + Ly y ; 2-D embedding: components m13, m23, m33 of the log stay 0"""
    th = rng.uniform(0, math.pi)
    c, s = math.cos(th), math.sin(th)
    a, b = -2 * math.log(hx_), -2 * math.log(hy_)
    L0 = [c * c * a + s * s * b, c * s * (a - b), 0.0, s * s * a + c * c * b, 0.0, 0.0]

    def g():
        return [rng.uniform(-grad, grad), rng.uniform(-grad / 2, grad / 2), 0.0, rng.uniform(-grad, grad), 0.0, 0.0]
    return L0 + g() + g() + [0.0] * 6


def field3d(rng, h, grad=0.6):
    L0 = [-2 * math.log(h[0]), rng.uniform(-0.2, 0.2), rng.uniform(-0.2, 0.2), -2 * math.log(h[1]), rng.uniform(-0.2, 0.2),
          -2 * math.log(h[2])]

    def g():
        return [rng.uniform(-grad, grad) for _ in range(6)]
    return L0 + g() + g() + g()


def strip_field(shift=0.0):
    """the field of the seeded demonstration: fine along x, much coarser across the strip than it is wide"""
    return [7.0 + shift, 0.2, 0.0, 0.5 + shift, 0.0, 0.0,
            0.8, -0.3, 0.0, 0.6, 0.0, 0.0,
            -0.5, 0.4, 0.0, 1.5, 0.0, 0.0] + [0.0] * 6


def grid_line(mode, twod, verts, L, tris=(), edgs=(), tets=()):
    w = ['grid', str(mode), '1' if twod else '0', str(len(verts))]
    for p in verts:
        w += [hx(p[0]), hx(p[1]), hx(p[2] if len(p) > 2 else 0.0)]
    w += [hx(x) for x in L]
    w.append(str(len(tris) + len(edgs) + len(tets)))
    for t in tets:
        w += ['tet'] + [str(x) for x in t[:4]]
    for t in tris:
        w += ['tri'] + [str(x) for x in t[:4]]
    for e in edgs:
        w += ['edg'] + [str(x) for x in e[:3]]
    return ' '.join(w)


def parse_grid(op):
    """(twod, verts, L) of a grid op line"""
    w = op.split()
    twod = w[2] == '1'
    nn = int(w[3])
    verts = [tuple(unhx(w[4 + 3 * i + c]) for c in range(3)) for i in range(nn)]
    L = [unhx(x) for x in w[4 + 3 * nn: 4 + 3 * nn + 24]]
    return twod, verts, L


# ------------------------------------------------------------------ the property, directly
def Lat(L, p):
    return [L[c] + L[6 + c] * p[0] + L[12 + c] * p[1] + L[18 + c] * p[2] for c in range(6)]


def _mat(m):
    return [[m[0], m[1], m[2]], [m[1], m[3], m[4]], [m[2], m[4], m[5]]]


def _mul(a, b):
    return [[sum(a[i][k] * b[k][j] for k in range(3)) for j in range(3)] for i in range(3)]


def expm6(l):
    """exp of a symmetric 3x3 given as (m11 m12 m13 m22 m23 m33): scaling and squaring with a Taylor series"""
    a = _mat(l)
    nrm = max(sum(abs(x) for x in row) for row in a)
    k = max(0, int(math.ceil(math.log2(nrm))) + 3) if nrm > 0 else 0
    s = [[x / (2.0 ** k) for x in row] for row in a]
    r = [[1.0 if i == j else 0.0 for j in range(3)] for i in range(3)]
    term = [row[:] for row in r]
    for n in range(1, 24):
        term = _mul(term, s)
        term = [[x / n for x in row] for row in term]
        r = [[r[i][j] + term[i][j] for j in range(3)] for i in range(3)]
    for _ in range(k):
        r = _mul(r, r)
    return [r[0][0], r[0][1], r[0][2], r[1][1], r[1][2], r[2][2]]


TOL_LOG = 2e-9     # absolute, on log-metric components of size O(1..10)
TOL_M = 1e-7       # relative (Frobenius-like: against the largest entry)


def metric_error(L, xyz, m, lg):
    """None, or a message, when the stored pair (m, log m) is not (exp L(x), L(x))"""
    want = Lat(L, xyz)
    sc = max(1.0, max(abs(x) for x in want))
    e = max(abs(a - b) for a, b in zip(lg, want))
    if not e <= TOL_LOG * sc:
        return 'stored log metric differs from L(x) by %.3e at x=(%.17g, %.17g, %.17g)' % (e, xyz[0], xyz[1], xyz[2])
    wm = expm6(want)
    scm = max(abs(x) for x in wm)
    em = max(abs(a - b) for a, b in zip(m, wm))
    if not em <= TOL_M * scm:
        return 'stored metric differs from exp(L(x)) by %.3e relative at x=(%.17g, %.17g, %.17g)' % (em / scm, xyz[0], xyz[1], xyz[2])
    return None


class St:
    """STATE := x y z cell part b0..b3 m0..m5 l0..l5"""
    __slots__ = ('xyzw', 'xyz', 'cell', 'part', 'bary', 'm', 'lg', 'mw', 'lw')

    def __init__(self, w):
        self.xyzw = w[0:3]
        self.xyz = [unhx(x) for x in w[0:3]]
        self.cell = int(w[3])
        self.part = int(w[4])
        self.bary = [unhx(x) for x in w[5:9]]
        self.mw = w[9:15]
        self.lw = w[15:21]
        self.m = [unhx(x) for x in self.mw]
        self.lg = [unhx(x) for x in self.lw]


def skip_events(w, i):
    n = int(w[i])
    i += 1
    for _ in range(n):
        i += {'P': 3, 'R': 8, 'T': 2}[w[i]]
    return i


def parse_I(w):
    """-> kind, node, hasinterp, cont, pre, [(status, pre, post)], post"""
    kind, node, hi, ct = w[1], int(w[2]), int(w[3]), int(w[4])
    pre = St(w[5:26])
    ncall = int(w[26])
    i = 27
    calls = []
    for _ in range(ncall):
        st = w[i]
        a = St(w[i + 1:i + 22])
        b = St(w[i + 22:i + 43])
        i = skip_events(w, i + 43)
        calls.append((st, a, b))
    post = St(w[i:i + 21])
    return kind, node, hi, ct, pre, calls, post


def inside(bary, twod):
    b = bary[:3] if twod else bary
    return min(b) >= -1e-10


def oracle(ops, impl):
    """C05: after every improver call, split insertion and direct interpolation the vertex carries (exp L(x), L(x));
    C13: an improver call that does not move the vertex leaves coordinates bit-identical and the metric unchanged
    (and, serially, a located vertex located); without a continuously interpolated background nothing touches the metric"""
    bad = []
    it = iter(impl)
    twod, L, mode = True, None, 0
    tampered = set()
    everything_tampered = False
    for k, op in enumerate(ops):
        w0 = op.split()
        lines = []
        for line in it:
            if line.startswith('. '):
                break
            lines.append(line)
        if w0[0] == 'grid' and lines and lines[0].startswith('BG'):
            twod, verts, L = parse_grid(op)
            mode = int(w0[1])
            tampered = set()
            everything_tampered = False
            continue
        if L is None:
            continue
        if w0[0] in ('setcell', 'setpart', 'move') and len(w0) > 1 and lines and not lines[0].startswith('bad-op'):
            tampered.add(int(w0[1]))
        if w0[0] == 'pass' and len(w0) > 1 and 'p' in w0[1] and tampered:
            everything_tampered = True  # pack renumbers the vertices
        if w0[0] == 'setpara' and lines and lines[0].startswith('PA 1'):
            # one rank of a pretended parallel run: no sequential fall-back, unlocated vertices wait for the next
            # ref_metric_synchronize, which this session never runs
            everything_tampered = True
        for line in lines:
            w = line.split()
            if w[0] == 'I':
                kind, node, hi, ct, pre, calls, post = parse_I(w)
                moved = post.xyzw != pre.xyzw
                clean = node not in tampered and not everything_tampered
                if mode == 0 and clean and post.cell != -1 and not inside(post.bary, twod):
                    # located by the fall-back OUTSIDE its donor cell (weights clipped): outside the property's
                    # premise "vertex inside the background", here and in later dumps
                    tampered.add(node)
                    clean = False
                if mode == 0 and clean:
                    e = metric_error(L, post.xyz, post.m, post.lg)
                    if e:
                        bad.append((k, 'C05 smooth_%s of vertex %d (%s, %d interpolation calls: %s): %s' % (
                            kind, node, 'moved' if moved else 'not moved', len(calls), ''.join(c[0][0] for c in calls), e)))
                if mode != 0 and (post.mw != pre.mw or post.lw != pre.lw):
                    bad.append((k, 'C13 smooth_%s of vertex %d changed the stored metric without a continuously '
                                   'interpolated background' % (kind, node)))
                if not moved and calls:
                    # rejected: no trace
                    sc = max(1.0, max(abs(x) for x in pre.lg))
                    if max(abs(a - b) for a, b in zip(pre.lg, post.lg)) > 1e-11 * sc:
                        bad.append((k, 'C13 smooth_%s rejected every try for vertex %d but its stored log metric changed '
                                       'by %.3e' % (kind, node, max(abs(a - b) for a, b in zip(pre.lg, post.lg)))))
                    if mode == 0 and clean and pre.cell != -1 and post.cell == -1:
                        bad.append((k, 'C13 smooth_%s rejected every try for vertex %d and lost its donor cell' % (kind, node)))
            elif w[0] == 'B':
                new, hi, ct, status = int(w[1]), int(w[4]), int(w[5]), w[6]
                pre = St(w[12:33])
                post = St(w[33:54])
                if status != 'ok':
                    bad.append((k, 'ref_metric_interpolate_between returned %s' % status))
                    continue
                n0, n1 = int(w[2]), int(w[3])
                clean = not everything_tampered and n0 not in tampered and n1 not in tampered
                if mode == 0 and post.cell != -1 and post.part == 0 and inside(post.bary, twod):
                    e = metric_error(L, post.xyz, post.m, post.lg)
                    if e:
                        bad.append((k, 'C05 split insertion of vertex %d between %d and %d: %s' % (new, n0, n1, e)))
                if mode == 0 and post.cell != -1 and post.part != 0:
                    bad.append((k, 'C05 split insertion of vertex %d: located in cell %d but its donor part is %d on a '
                                   'serial run (never re-interpolated when moved)' % (new, post.cell, post.part)))
                if mode == 0 and clean and w0[0] == 'pass' and post.cell == -1:
                    bad.append((k, 'C05 split insertion of vertex %d between %d and %d was not located in the background' %
                                (new, n0, n1)))
            elif w[0] == 'C':
                status = w[4]
                pre = St(w[5:26])
                post = St(w[26:47])
                if status == 'ok' and mode == 0 and post.cell != -1 and post.part == 0 and inside(post.bary, twod):
                    e = metric_error(L, post.xyz, post.m, post.lg)
                    if e:
                        bad.append((k, 'C05 ref_metric_interpolate_node of vertex %s: %s' % (w[1], e)))
                if status == 'not_found' and (post.mw != pre.mw or post.cell != -1):
                    bad.append((k, 'ref_metric_interpolate_node returned not_found but changed the metric or kept a cell'))
            elif w[0] == 'N':
                nn = int(w[1])
                for q in range(nn):
                    r = w[2 + 18 * q: 2 + 18 * (q + 1)]
                    node = int(r[0])
                    if mode != 0 or everything_tampered or node in tampered:
                        continue
                    e = metric_error(L, [unhx(x) for x in r[1:4]], [unhx(x) for x in r[4:10]], [unhx(x) for x in r[10:16]])
                    if e:
                        bad.append((k, 'C05 vertex %d (donor cell %s): %s' % (node, r[16], e)))
                        break
            elif w[0] == 'done' and w[1] != 'ok':
                bad.append((k, 'pass %s returned %s' % (w0[1] if len(w0) > 1 else '', w[1])))
            elif w[0] == 'A':
                bad.append((k, 'improver returned %s' % w[1]))
            elif w[0] == 'X':
                bad.append((k, 'recorder overflow: %s' % line[:80]))
    return bad[:20]


# ------------------------------------------------------------------ generators
def gen_run(rng, tier):
    ops = []
    reps = 1 if tier == 'quick' else 3
    for _ in range(reps):
        # 1. the boundary-layer strip: trial positions leave the background (REF_NOT_FOUND in the smoother)
        for shift in (0.0, rng.uniform(-0.6, 0.3)):
            n = rng.randint(8, 13)
            v, t, e = strip(n, 0.06, 0.1, rng.choice([0.002, 0.003, 0.004]))
            ops += [grid_line(0, True, v, strip_field(shift), t, e), 'pass m', 'dump', 'pass my', 'dump',
                    'pass ayp', 'pass ay', 'dump']
        # 2. non-convex domains: the walk hits the boundary, sequential fall-back
        for shape in rng.sample(['L', 'slit', 'U', 'comb'], 2):
            nx = rng.randint(6, 9)
            v, t, e = mask_tris(nx, nx, shape_keep(shape, nx, nx), rng=rng, jitter=rng.choice([0.0, 0.3]))
            coarse = rng.random() < 0.5
            h = rng.uniform(0.25, 0.4) if coarse else rng.uniform(0.05, 0.09)
            ops += [grid_line(0, True, v, field2d(rng, h, h * rng.uniform(0.6, 1.6)), t, e), 'pass aypay', 'dump',
                    'pass m', 'pass aym', 'dump']
        # 3. ordinary squares, anisotropic
        nx = rng.randint(4, 8)
        v, t, e = mask_tris(nx, nx, shape_keep('square', nx, nx), rng=rng, jitter=0.3)
        ops += [grid_line(0, True, v, field2d(rng, rng.uniform(0.04, 0.2), rng.uniform(0.1, 0.3)), t, e), 'pass aypay', 'dump',
                'pass mscwm', 'dump']
        # 4. tet box
        n3 = rng.choice([2, 3])
        v3, t3, s3 = meshgen.box_tets(n3, n3, n3, rng, 0.2)
        ops += [grid_line(0, False, v3, field3d(rng, [rng.uniform(0.2, 0.4) for _ in range(3)]), tris=s3, tets=t3),
                'pass ay', 'dump', 'pass m', 'dump']
        # 5. a long thin strip coarsened along its length: edges longer than the 215-step walk limit of background
        #    cells, then split again (sequential fall-back of ref_interp_locate_between)
        #    (the wall vertices of the coarsened strip are pushed beyond its ends by the edge smoother: REF_NOT_FOUND
        #    tries in ref_smooth_no_geom_edge_improve)
        n = rng.randint(650, 750)
        v, t, e = strip(n, 0.01, 0.05, 0.02)
        Lc = [-2 * math.log(rng.uniform(1.5, 2.5)), 0.0, 0.0, -2 * math.log(0.06), 0.0, 0.0,
              rng.uniform(0.8, 1.2), 0.0, 0.0, 0.1, 0.0, 0.0, 0.0, 0.0, 0.0, 0.3, 0.0, 0.0] + [0.0] * 6
        ops += [grid_line(0, True, v, Lc, t, e), 'pass cyp', 'pass ayp', 'pass ayp', 'pass ay', 'dump', 'pass m', 'dump']
        # 6. no background / background not continuously interpolated: the metric is never touched
        nx = rng.randint(4, 6)
        v, t, e = mask_tris(nx, nx, shape_keep('square', nx, nx), rng=rng, jitter=0.3)
        for mode in (1, 2):
            ops += [grid_line(mode, True, v, field2d(rng, 0.15, 0.2), t, e), 'pass m', 'pass a', 'dump']
    ops += ['pass', 'bogus 1 2']
    return ops


def _interior_boundary(tris, edgs):
    onb = set(n for e in edgs for n in e[:2])
    allv = set(n for t in tris for n in t[:3])
    return sorted(allv - onb), sorted(onb)


def gen_fn(rng, tier):
    """direct calls: ref_metric_interpolate_node at moved positions (inside, on the boundary, just outside, far
    outside), with tampered donor records (cell = REF_EMPTY, donor part 1 on a serial run); split insertion with the
    new vertex anywhere (walks across a re-entrant corner or along > 215 cells give up: sequential fall-back); the
    three improvers on chosen vertices, clean and tampered"""
    ops = []
    reps = 1 if tier == 'quick' else 3
    for _ in range(reps):
        for shape in ('L', rng.choice(['slit', 'U', 'comb', 'square'])):
            nx = rng.randint(6, 10)
            v, t, e = mask_tris(nx, nx, shape_keep(shape, nx, nx), rng=rng, jitter=rng.choice([0.0, 0.3]))
            inter, bnd = _interior_boundary(t, e)
            h = rng.uniform(0.08, 0.2)
            ops.append(grid_line(0, True, v, field2d(rng, h, h * rng.uniform(0.5, 2.0)), t, e))
            for _k in range(14 if tier == 'quick' else 30):
                n = rng.choice(inter)
                x0 = v[n]
                u = rng.random()
                if u < 0.35:   # somewhere in the bounding square: inside the domain or in the cut-out
                    p = (rng.uniform(0, 1), rng.uniform(0, 1), 0.0)
                elif u < 0.55:  # just outside / on the outer boundary
                    p = (rng.choice([-1e-13, 0.0, 1.0, 1.0 + 1e-13, -0.02, 1.02]), rng.uniform(0, 1), 0.0)
                elif u < 0.7:  # far outside
                    p = (rng.uniform(1.5, 4.0), rng.uniform(-3.0, -0.5), 0.0)
                else:          # nearby
                    p = (x0[0] + rng.uniform(-0.1, 0.1), x0[1] + rng.uniform(-0.1, 0.1), 0.0)
                ops.append('move %d %s %s %s' % (n, hx(p[0]), hx(p[1]), hx(p[2])))
                if rng.random() < 0.4:
                    ops.append('interp %d' % n)
                ops.append('move %d %s %s %s' % (n, hx(x0[0]), hx(x0[1]), hx(x0[2])))
            for _k in range(10 if tier == 'quick' else 24):
                a, b = rng.sample(range(len(v)), 2)
                u = rng.random()
                if u < 0.4:
                    ops.append('between %d %d %s' % (a, b, hx(rng.uniform(0.05, 0.95))))
                elif u < 0.8:
                    ops.append('between %d %d %s %s %s %s' % (a, b, hx(0.5), hx(rng.uniform(0, 1)), hx(rng.uniform(0, 1)), hx(0.0)))
                else:
                    ops.append('between %d %d %s %s %s %s' % (a, b, hx(0.5), hx(rng.uniform(2, 3)), hx(rng.uniform(2, 3)), hx(0.0)))
            # tampered donor records
            for _k in range(8 if tier == 'quick' else 16):
                n = rng.choice(inter + bnd)
                u = rng.random()
                if u < 0.35:
                    ops.append('setcell %d -1' % n)
                elif u < 0.7:
                    ops.append('setpart %d %d' % (n, rng.choice([1, 1, -1, 3])))
                else:
                    ops.append('setcell %d %d' % (n, rng.randrange(0, len(t))))
                ops.append(rng.choice(['interp %d' % n, 'improve tri %d' % n, 'improve edge %d' % n]))
                if rng.random() < 0.5:
                    m = rng.choice(inter + bnd)
                    ops.append('between %d %d %s' % (n, m, hx(0.5)) if n != m else 'interp %d' % n)
            for n in rng.sample(inter, min(len(inter), 10)):
                ops.append('improve tri %d' % n)
            for n in rng.sample(bnd, min(len(bnd), 8)):
                ops.append('improve edge %d' % n)
            ops.append('dump')
        # the boundary-layer strip: improvers whose trial positions leave the background; tampered in between
        n = rng.randint(8, 12)
        v, t, e = strip(n, 0.06, 0.1, 0.002)
        ops.append(grid_line(0, True, v, strip_field(rng.uniform(-0.3, 0.2)), t, e))
        for i in range(n):
            node = 2 * (n + 1) + i
            u = rng.random()
            if u < 0.2:
                ops.append('setcell %d -1' % node)
            elif u < 0.35:
                ops.append('setpart %d 1' % node)
            ops.append('improve tri %d' % node)
        for i in rng.sample(range(1, n), 4):
            ops.append('improve edge %d' % i)
        ops.append('dump')
        # a strip whose end is pulled out of the background after caching: with a metric much coarser than the strip
        # the wall vertices next to the end are pushed beyond the background by the edge smoother (REF_NOT_FOUND
        # tries in ref_smooth_no_geom_edge_improve, then shorter steps located by the fall-back with clipped weights)
        n = rng.randint(8, 12)
        v, t, e = strip(n, 0.06, 0.1, 0.02)
        h = rng.uniform(1.0, 4.0)
        Ls = [-2 * math.log(h), 0.0, 0.0, -2 * math.log(0.3), 0.0, 0.0, 0.2, 0.0, 0.0, 0.1, 0.0, 0.0,
              0.0, 0.0, 0.0, 0.3, 0.0, 0.0] + [0.0] * 6
        ops.append(grid_line(0, True, v, Ls, t, e))
        stretch = rng.uniform(0.5, 1.2)
        ops.append('move %d %s %s %s' % (n, hx(v[n][0] + stretch), hx(0.0), hx(0.0)))
        ops.append('move %d %s %s %s' % (2 * n + 1, hx(v[2 * n + 1][0] + stretch), hx(0.1), hx(0.0)))
        for _k in range(3):
            ops += ['improve edge %d' % (n - 1), 'improve edge %d' % (2 * n)]
        # ... and the same for the interior row (positions that are valid in the stretched grid but not in the background:
        # a REF_NOT_FOUND try must be rejected whatever the quality says)
        for eps in (0.05, 0.02):
            v, t, e = strip(n, 0.06, 0.1, eps)
            Ls[0] = -2 * math.log(rng.uniform(0.3, 3.0))
            ops.append(grid_line(0, True, v, Ls, t, e))
            stretch = rng.uniform(0.5, 1.1)
            ops.append('move %d %s %s %s' % (n, hx(v[n][0] + stretch), hx(0.0), hx(0.0)))
            ops.append('move %d %s %s %s' % (2 * n + 1, hx(v[2 * n + 1][0] + stretch), hx(0.1), hx(0.0)))
            last = 2 * (n + 1) + n - 1
            ops += ['improve tri %d' % last, 'improve tri %d' % last, 'improve tri %d' % (last - 1), 'improve tri %d' % last]
        ops.append('dump')
        # a strip longer than the walk limit: both walks of locate_between terminate, sequential fall-back
        n = rng.randint(240, 300)
        v, t, e = strip(n, 0.01, 0.05, 0.02)
        ops.append(grid_line(0, True, v, field2d(rng, 0.05, 0.05, grad=0.3), t, e))
        for _k in range(8 if tier == 'quick' else 20):
            a, b = rng.randint(0, 5), rng.randint(n + 1, n + 6)
            # the first insertion is a far one: its vertex slot is fresh (part = REF_EMPTY), found by the fall-back
            x = rng.uniform(2.3, 0.01 * n) if _k == 0 else rng.choice([rng.uniform(0.0, 0.3), rng.uniform(2.3, 0.01 * n)])
            ops.append('between %d %d %s %s %s %s' % (a, b, hx(0.5), hx(x), hx(rng.uniform(0.001, 0.049)), hx(0.0)))
            node = 2 * (n + 1) + rng.randint(0, 10)
            ops.append('move %d %s %s %s' % (node, hx(x), hx(rng.uniform(0.001, 0.049)), hx(0.0)))
            ops.append('move %d %s %s %s' % (node, hx(v[node][0]), hx(v[node][1]), hx(0.0)))
        # tets
        n3 = rng.choice([2, 3])
        v3, t3, s3 = meshgen.box_tets(n3, n3, n3, rng, 0.2)
        onb = set(x for tr in s3 for x in tr[:3])
        inter3 = [i for i in range(len(v3)) if i not in onb]
        ops.append(grid_line(0, False, v3, field3d(rng, [rng.uniform(0.2, 0.5) for _ in range(3)]), tris=s3, tets=t3))
        for _k in range(10 if tier == 'quick' else 24):
            node = rng.choice(inter3) if inter3 else 0
            u = rng.random()
            if u < 0.2:
                ops.append('setcell %d -1' % node)
            elif u < 0.35:
                ops.append('setpart %d 1' % node)
            elif u < 0.6:
                p = [rng.uniform(-0.2, 1.2) for _ in range(3)]
                ops.append('move %d %s %s %s' % (node, hx(p[0]), hx(p[1]), hx(p[2])))
                ops.append('move %d %s %s %s' % (node, hx(v3[node][0]), hx(v3[node][1]), hx(v3[node][2])))
            ops.append('improve tet %d' % node)
            a, b = rng.sample(range(len(v3)), 2)
            ops.append('between %d %d %s' % (a, b, hx(rng.uniform(0.1, 0.9))))
        for node in sorted(onb)[:6]:
            ops.append('improve tri %d' % node)
        ops.append('dump')
        # one rank of a pretended parallel run (ref_mpi_para true): no sequential fall-back, so a walk that hits the
        # boundary of a non-convex background, runs out of steps or starts from a far guess ends in REF_NOT_FOUND
        nx = rng.randint(6, 9)
        v, t, e = mask_tris(nx, nx, shape_keep(rng.choice(['L', 'U', 'slit']), nx, nx), rng=rng, jitter=0.2)
        inter, bnd = _interior_boundary(t, e)
        ops += [grid_line(0, True, v, field2d(rng, 0.15, 0.2), t, e), 'setpara 1']
        for _k in range(10 if tier == 'quick' else 24):
            n = rng.choice(inter)
            x0 = v[n]
            p = (rng.uniform(0, 1), rng.uniform(0, 1), 0.0)
            ops.append('move %d %s %s %s' % (n, hx(p[0]), hx(p[1]), hx(0.0)))
            ops.append('move %d %s %s %s' % (n, hx(x0[0]), hx(x0[1]), hx(0.0)))
            a, b = rng.sample(range(len(v)), 2)
            ops.append('between %d %d %s %s %s %s' % (a, b, hx(0.5), hx(rng.uniform(0, 1)), hx(rng.uniform(0, 1)), hx(0.0)))
        for n in rng.sample(inter, min(len(inter), 6)):
            ops.append('improve tri %d' % n)
        ops += ['pass m', 'setpara 0', 'improve tri %d' % inter[0], 'setpara 2']
        n = rng.randint(8, 12)
        v, t, e = strip(n, 0.06, 0.1, 0.002)
        ops += [grid_line(0, True, v, strip_field(rng.uniform(-0.3, 0.2)), t, e), 'setpara 1']
        for i in range(n):
            ops.append('improve tri %d' % (2 * (n + 1) + i))
        ops.append('dump')
        # modes without a usable background
        nx = 5
        v, t, e = mask_tris(nx, nx, shape_keep('square', nx, nx), rng=rng, jitter=0.3)
        inter, bnd = _interior_boundary(t, e)
        for mode in (1, 2):
            ops.append(grid_line(mode, True, v, field2d(rng, 0.15, 0.2), t, e))
            for node in rng.sample(inter, 5):
                ops += ['improve tri %d' % node, 'interp %d' % node]
            ops += ['improve edge %d' % rng.choice(bnd), 'between %d %d %s' % (inter[0], inter[1], hx(0.5))]
    ops += ['improve tri 99999', 'move 0 0 0', 'between 1 1 %s' % hx(0.5), 'setcell 0 99999', 'interp', 'bogus']
    return ops


def nontrivial(op, out):
    return out[:2] in ('I ', 'B ', 'C ')


FN = Stream('smooth_interp_fn', 'h_smoothinterp', 'smoothinterp', gen_fn, oracle=oracle, kind='validate',
            whitebox=['ref_smooth', 'ref_split', 'ref_interp'], session='grid', nontrivial=nontrivial, timeout=900)
RUN = Stream('smooth_interp_run', 'h_smoothinterp', 'smoothinterp', gen_run, oracle=oracle, kind='validate',
             whitebox=['ref_smooth', 'ref_split', 'ref_interp'], session='grid', nontrivial=nontrivial, timeout=900)


# ------------------------------------------------------------------ end to end: `ref adapt -m` on strips
def strip_case(d):
    """mesh and log-linear field of a strip scenario, regenerated from the op keys"""
    n = int(d.get('n', '10'))
    dl, w, eps = float(d.get('d', '0.06')), float(d.get('w', '0.1')), float(d.get('eps', '0.002'))
    v, t, e = strip(n, dl, w, eps)
    if d.get('field', 'bl') == 'bl':
        L = strip_field(float(d.get('shift', '0')))
    else:  # coarse along the strip, growing with x
        L = [-2 * math.log(float(d.get('hx', '2.0'))), 0.0, 0.0, -2 * math.log(0.06), 0.0, 0.0,
             float(d.get('gx', '1.0')), 0.0, 0.0, 0.1, 0.0, 0.0, 0.0, 0.0, 0.0, 0.3, 0.0, 0.0] + [0.0] * 6
    return v, t, e, L


def sc_adapt_strip(ctx, d, case):
    v, t, e, L = strip_case(d)
    mesh = os.path.join(case, 'in.meshb')
    pyio.write_meshb(mesh, 2, [(p[0], p[1]) for p in v], {'tri': t, 'edg': e})
    vals = []
    for p in v:
        m = expm6(Lat(L, p))
        vals.append([m[0], m[1], m[3]])
    met = os.path.join(case, 'in-metric.solb')
    pyio.write_solb(met, 2, vals, [3])
    np = int(d.get('np', '0'))
    args = ['adapt', mesh, '--metric', met, '-x', os.path.join(case, 'out.meshb'), '-s', d.get('passes', '2'),
            '--export-metric-as', os.path.join(case, 'out-metric.solb')]
    rc, tail = cli.run_ref(ctx, np, args, case, timeout=600, env_extra=cli.knobs(d))
    return 'rc=%d dir=%s' % (rc, case)


cli.SCENARIOS['adapt_strip'] = sc_adapt_strip


def gen_adapt_strip(rng, tier, np=0):
    ops = []
    reps = 1 if tier == 'quick' else 3
    for _ in range(reps):
        for passes in ((1, 5) if not np else (3,)):
            ops.append('adapt_strip n=%d d=0.06 w=0.1 eps=%s field=bl shift=%.3f passes=%d np=%d%s' % (
                rng.randint(8, 13), rng.choice(['0.002', '0.003']), rng.uniform(-0.4, 0.2), passes, np,
                ' full=1' if np else ''))
        ops.append('adapt_strip n=%d d=0.01 w=0.05 eps=0.02 field=long hx=%.3f gx=%.3f passes=%d np=%d' % (
            rng.randint(650, 750), rng.uniform(1.5, 2.5), rng.uniform(0.8, 1.2), rng.choice([4, 5]), np))
    return ops


def oracle_adapt_strip(ops, impl):
    bad = []
    for i, (op, line) in enumerate(zip(ops, impl)):
        d = cli.kv(op)
        o = cli.parse_out(line)
        if o.get('rc') != '0':
            bad.append((i, 'adapt of a strip with a log-linear metric exited with status %s' % o.get('rc')))
            continue
        try:
            mo = pyio.read_meshb(os.path.join(o['dir'], 'out.meshb'))
            so = pyio.read_solb(os.path.join(o['dir'], 'out-metric.solb'))
        except Exception as ex:
            bad.append((i, 'output unreadable: %r' % (ex,)))
            continue
        if len(so['values']) != len(mo['verts']):
            bad.append((i, 'metric file has %d entries for %d vertices' % (len(so['values']), len(mo['verts']))))
            continue
        v, t, e, L = strip_case(d)
        nbad, worst, where = 0, 0.0, None
        for n, row in enumerate(so['values']):
            p = list(mo['verts'][n]) + [0.0, 0.0]
            wm = expm6(Lat(L, p[:3]))
            ref = [wm[0], wm[1], wm[3]]
            sc = max(abs(x) for x in ref)
            err = max(abs(a - b) for a, b in zip(row, ref)) / sc
            if not err <= TOL_M:
                nbad += 1
                if err > worst or where is None:
                    worst, where = err, (n, tuple(p[:2]))
        if nbad:
            bad.append((i, 'C05 log-linear input metric not reproduced at %d of %d output vertices; worst: vertex %d at %s, '
                           'relative error %.3e' % (nbad, len(so['values']), where[0], where[1], worst)))
    return bad


ADAPT_STRIP = Stream('cli_adapt_strip', cli.cli_harness, None, gen_adapt_strip, oracle=oracle_adapt_strip, kind='oracle',
                     nontrivial=lambda op, out: out.startswith('rc=0'), timeout=1800)
ADAPT_STRIP_MPI = Stream('cli_adapt_strip_mpi', cli.cli_harness, None, gen_adapt_strip, oracle=oracle_adapt_strip,
                         kind='oracle', np=[2], nontrivial=lambda op, out: out.startswith('rc=0'), timeout=1800)

STREAMS = [FN, RUN, ADAPT_STRIP, ADAPT_STRIP_MPI]
