"""Streams of work package `smoothinterp` (C05 / C13): the donor-location and metric bookkeeping of the vertex smoothers
and of split insertion, on the real code with a cached background and a LOG-LINEAR metric field.

smooth_interp_fn  (validate)  function level: ref_metric_interpolate_node / _between and the three improvers called
                              directly, including tampered donor records (cell = REF_EMPTY, donor on another part),
                              positions outside the background, walks that give up (non-convex domains, > 215 cells)
smooth_interp_run (validate)  ref_smooth_pass / ref_adapt_pass / ref_split_pass on strips, L, slit, squares, boxes:
                              every improver call and every split insertion is recorded through the hooks and replayed
cli_adapt_strip   (oracle)    `ref adapt -m` / `refmpi adapt` on thin strips, log-linear field at every output vertex

harness h_smoothinterp.c prints records; `refdrv smoothinterp` replays the model of Refine/Model/SmoothInterp.lean on each
record (given the search outcomes the C observed) and must reproduce the post state bit for bit.
The oracles state the property directly on the implementation output: stored log metric = L(x_v), stored metric =
exp(L(x_v)) (1e-7 relative), rejected improver calls leave coordinates bit-identical.
"""
import math
import os
import random
import struct

from . import cli, meshgen, pyio
from .common import Stream


def hx(x):
    return '%016x' % struct.unpack('<Q', struct.pack('<d', float(x)))[0]


def unhx(s):
    if s == 'nan':
        return float('nan')
    return struct.unpack('<d', struct.pack('<Q', int(s, 16)))[0]


# ------------------------------------------------------------------ meshes
def mask_tris(nx, ny, keep, lx=1.0, ly=1.0, rng=None, jitter=0.0):
    """triangulated lattice restricted to the cells with keep(i, j); boundary edges get one id per maximal straight
    side (corners and re-entrant corners separate ids, so the smoothers freeze them)"""
    vid = {}
    verts = []

    def v(i, j):
        if (i, j) not in vid:
            vid[(i, j)] = len(verts)
            verts.append([lx * i / nx, ly * j / ny, 0.0])
        return vid[(i, j)]
    tris = []
    cells = [(i, j) for i in range(nx) for j in range(ny) if keep(i, j)]
    for (i, j) in cells:
        a, b, c, d = v(i, j), v(i + 1, j), v(i + 1, j + 1), v(i, j + 1)
        if (i + j) % 2 == 0:
            tris += [(a, b, c, 1), (a, c, d, 1)]
        else:
            tris += [(a, b, d, 1), (b, c, d, 1)]
    count = {}
    for t in tris:
        for k in range(3):
            e = (t[k], t[(k + 1) % 3])
            count[e] = count.get(e, 0) + 1
    bnd = [e for e in count if (e[1], e[0]) not in count]
    inv = {n: ij for ij, n in vid.items()}
    onb = set(n for e in bnd for n in e)
    if rng is not None and jitter > 0:
        for n, (i, j) in inv.items():
            if n not in onb:
                verts[n][0] += jitter * lx / nx * (rng.random() - 0.5)
                verts[n][1] += jitter * ly / ny * (rng.random() - 0.5)
    # ids: walk the boundary loops, new id at every direction change
    nxt = {}
    for a, b in bnd:
        nxt.setdefault(a, []).append(b)
    ids = {}
    cur = 0
    seen = set()
    for a0, b0 in sorted(bnd):
        if (a0, b0) in seen:
            continue
        # rotate the start to a corner
        loop = [(a0, b0)]
        seen.add((a0, b0))
        a, b = a0, b0
        while True:
            outs = [c for c in nxt.get(b, []) if (b, c) not in seen]
            if not outs:
                break
            c = outs[0]
            loop.append((b, c))
            seen.add((b, c))
            a, b = b, c

        def direction(e):
            (i0, j0), (i1, j1) = inv[e[0]], inv[e[1]]
            return (i1 - i0, j1 - j0)
        # find a corner to start
        start = 0
        for k in range(len(loop)):
            if direction(loop[k - 1]) != direction(loop[k]):
                start = k
                break
        loop = loop[start:] + loop[:start]
        prev = None
        for e in loop:
            d = direction(e)
            if d != prev:
                cur += 1
                prev = d
            ids[e] = cur
    edgs = [(a, b, ids[(a, b)]) for (a, b) in bnd]
    return [tuple(p) for p in verts], tris, edgs


def strip(n, d, w, eps):
    """the boundary-layer strip of seeded/C05_smooth_tri_interp_guess_restore_late: [0, n d] x [0, w], two wall rows and
    one interior row a distance eps above the lower wall"""
    def A(i):
        return i

    def T(i):
        return n + 1 + i

    def P(i):
        return 2 * (n + 1) + i
    verts = [(d * i, 0.0, 0.0) for i in range(n + 1)] + [(d * i, w, 0.0) for i in range(n + 1)] + \
            [(d * (i + 0.5), eps, 0.0) for i in range(n)]
    tris, edgs = [], []
    for i in range(n):
        tris += [(A(i), A(i + 1), P(i), 1), (P(i), T(i + 1), T(i), 1)]
        edgs += [(A(i), A(i + 1), 1), (T(i + 1), T(i), 3)]
    for i in range(n - 1):
        tris += [(P(i), A(i + 1), P(i + 1), 1), (P(i), P(i + 1), T(i + 1), 1)]
    tris += [(A(0), P(0), T(0), 1), (A(n), T(n), P(n - 1), 1)]
    edgs += [(A(n), T(n), 2), (T(0), A(0), 4)]
    return verts, tris, edgs


def shape_keep(shape, nx, ny):
    if shape == 'square':
        return lambda i, j: True
    if shape == 'L':
        return lambda i, j: not (i >= nx // 2 and j >= ny // 2)
    if shape == 'slit':  # a one-cell-wide notch from the top down to 1/4 height
        return lambda i, j: not (i == nx // 2 and j >= ny // 4)
    if shape == 'comb':
        return lambda i, j: not (i % 3 == 1 and j >= ny // 3)
    if shape == 'U':
        return lambda i, j: not (nx // 3 <= i < nx - nx // 3 and j >= ny // 3)
    raise ValueError(shape)


def field2d(rng, hx_, hy_, grad=0.8):
    """log M(x) = L0 + Lx x + Ly y ; 2-D embedding: components m13, m23, m33 of the log stay 0"""
    th = rng.uniform(0, math.pi)
    c, s = math.cos(th), math.sin(th)
    a, b = -2 * math.log(hx_), -2 * math.log(hy_)
    L0 = [c * c * a + s * s * b, c * s * (a - b), 0.0, s * s * a + c * c * b, 0.0, 0.0]

    def g():
        return [rng.uniform(-grad, grad), rng.uniform(-grad / 2, grad / 2), 0.0, rng.uniform(-grad, grad), 0.0, 0.0]
    return L0 + g() + g() + [0.0] * 6


def field3d(rng, h, grad=0.6):
    L0 = [-2 * math.log(h[0]), rng.uniform(-0.2, 0.2), rng.uniform(-0.2, 0.2), -2 * math.log(h[1]), rng.uniform(-0.2, 0.2),
          -2 * math.log(h[2])]

    def g():
        return [rng.uniform(-grad, grad) for _ in range(6)]
    return L0 + g() + g() + g()


def strip_field(shift=0.0):
    """the field of the seeded demonstration: fine along x, much coarser across the strip than it is wide"""
    return [7.0 + shift, 0.2, 0.0, 0.5 + shift, 0.0, 0.0,
            0.8, -0.3, 0.0, 0.6, 0.0, 0.0,
            -0.5, 0.4, 0.0, 1.5, 0.0, 0.0] + [0.0] * 6


def grid_line(mode, twod, verts, L, tris=(), edgs=(), tets=()):
    w = ['grid', str(mode), '1' if twod else '0', str(len(verts))]
    for p in verts:
        w += [hx(p[0]), hx(p[1]), hx(p[2] if len(p) > 2 else 0.0)]
    w += [hx(x) for x in L]
    w.append(str(len(tris) + len(edgs) + len(tets)))
    for t in tets:
        w += ['tet'] + [str(x) for x in t[:4]]
    for t in tris:
        w += ['tri'] + [str(x) for x in t[:4]]
    for e in edgs:
        w += ['edg'] + [str(x) for x in e[:3]]
    return ' '.join(w)


def parse_grid(op):
    """(twod, verts, L) of a grid op line"""
    w = op.split()
    twod = w[2] == '1'
    nn = int(w[3])
    verts = [tuple(unhx(w[4 + 3 * i + c]) for c in range(3)) for i in range(nn)]
    L = [unhx(x) for x in w[4 + 3 * nn: 4 + 3 * nn + 24]]
    return twod, verts, L
