from . import streams_geom, cli

ID = 'C11'
PROPS_MODULE = ['Refine.Props.C11']
STREAMS = [streams_geom.INTERP, streams_geom.BARY, cli.INTERP, cli.INTERP_MPI]
EXPLANATION = (
    'Proved (Lean 4, exact real arithmetic, over the executable model bit-compared with the C): ref_node_clip_bary2/3/4 '
    'return a point of the simplex on the success branch (w_i >= 0, sum 1) and a unit vector on the REF_DIV_ZERO branch; '
    'the RAS assertions of clip_bary4 cannot fire in exact arithmetic; clipping is the identity on the simplex; a convex '
    'combination stays in [min f, max f] (convex_range); weights that reproduce a point reproduce every linear field '
    '(convex_linear); the evaluation loop of ref_interp_scalar (clip + weighted sum over one donor cell) therefore never '
    'extrapolates for ANY stored weights (interp_range, interp_range3 for 2-D donors), returns the donor value for a '
    'unit weight (interp_identity), and composed with ref_node_bary4 reproduces linear fields exactly for receptors '
    'inside the donor tet (interp_linear_inside); slightly outside it evaluates the field at the clipped point of the cell '
    '(interp_linear_clipped). '
    'Tie: the real ref_interp_scalar is called on a one-cell donor grid with the stored (cell, bary) set by the harness '
    '(np=3 and np=4 donors), ref_node_bary4 + ref_interp_scalar composed, and clip_bary2/3/4 directly: bit comparison. '
    'Oracle: range, sum-of-clipped-weights formula, linear exactness and vertex identity in exact rational arithmetic.')
ASSUMPTIONS = [
    'IEEE rounding is modelled (Float instance, bit-compared), not verified: the theorems hold in exact real arithmetic',
    'not verified: that the search (walk / tree / nearest boundary triangle) returns a nearby donor cell: the theorems hold '
    'for ANY single donor cell, which is what range and convexity need',
    'not verified here: the blind-send round trip of the parallel evaluation (serial np=1 only in this harness)',
    'for 2-D donors ref_interp_scalar clips all four stored weights but sums three: the range bound needs the stored 4th '
    'weight <= 0 (it is 0 in what ref_interp stores)',
]
