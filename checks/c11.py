from . import streams_geom, streams_interp, streams_interplocate, cli

ID = 'C11'
PROPS_MODULE = ['Refine.Props.C11', 'Refine.Props.C11Search', 'Refine.Props.C11Locate']
STREAMS = [streams_geom.INTERP, streams_geom.BARY, streams_interp.SEARCH, streams_interp.SELF, cli.INTERP, cli.INTERP_MPI,
           streams_interplocate.LOCATE, streams_interplocate.LOCATE_MPI2, streams_interplocate.LOCATE_MPI3,
           streams_interplocate.CLI_OFFSET, streams_interplocate.CLI_OFFSET_MPI]
EXPLANATION = (
    'Proved (Lean 4, exact real arithmetic, over the executable model bit-compared with the C): ref_node_clip_bary2/3/4 '
    'return a point of the simplex on the success branch (w_i >= 0, sum 1) and a unit vector on the REF_DIV_ZERO branch; '
    'the RAS assertions of clip_bary4 cannot fire in exact arithmetic; clipping is the identity on the simplex; a convex '
    'combination stays in [min f, max f] (convex_range); weights that reproduce a point reproduce every linear field '
    '(convex_linear); the evaluation loop of ref_interp_scalar (clip + weighted sum over one donor cell) therefore never '
    'extrapolates for ANY stored weights (interp_range, interp_range3 for 2-D donors), returns the donor value for a '
    'unit weight (interp_identity), and composed with ref_node_bary4 reproduces linear fields exactly for receptors '
    'inside the donor tet (interp_linear_inside); slightly outside it evaluates the field at the clipped point of the cell '
    '(interp_linear_clipped). '
    'Tie: the real ref_interp_scalar is called on a one-cell donor grid with the stored (cell, bary) set by the harness '
    '(np=3 and np=4 donors), ref_node_bary4 + ref_interp_scalar composed, and clip_bary2/3/4 directly: bit comparison. '
    'Oracle: range, sum-of-clipped-weights formula, linear exactness and vertex identity in exact rational arithmetic. '
    'Donor-cell search (Props/C11Search, model Model/Interp = ref_interp_create_search, ref_interp_enclosing_tet/tri_in_list, '
    'ref_interp_tree, the ref_interp_locate retry loop, ref_interp_walk_agent, ref_interp_locate_node): the search sphere of a '
    'cell (all node_per vertices, radius x donor_scale >= 1) contains the closed cell (boundingSphere_contains_all); every cell '
    'that encloses the query is in the ref_search_touching candidate list for every tree shape (tree_candidates_complete); the '
    'selected candidate has the largest min weight (inList_max_min), hence encloses the query if any candidate does '
    '(inList_picks_enclosing); end to end for tets: a receptor vertex inside some donor tet is located by the tree path in a cell '
    'with non-negative weights and every linear field is interpolated exactly (tree_linear_exact_inside); a walk that ends '
    'ENCLOSING holds a valid cell with all four weights >= inside = -1e-12, any other outcome claims no cell and the loop is '
    'bounded by 215 steps (walk_sound, walk_limit); ref_interp_locate_node returns one of the two (locateNode_sound). '
    'Tie (stream interp_search): donor grids built in process (2-D/3-D, aspect 1..100, needles with the far vertex in every local '
    'position, recycled cell ids), per-cell sphere bits, tree arrays, candidate lists, in_list cell+weights, ref_interp_tree, '
    'ref_interp_locate on receptors without geometry nodes (tree path only) + ref_interp_scalar of a linear field, single-agent '
    'ref_interp_walk_agent, ref_interp_locate_node: bit comparison; oracle with exact rational weights. Stream interp_self '
    '(oracle only): ref_interp_locate onto a shrunk copy of the donor, where geometry nodes seed the walk.')
ASSUMPTIONS = [
    'IEEE rounding is modelled (Float instance, bit-compared), not verified: the theorems hold in exact real arithmetic',
    'not verified: walk completeness (that the neighbour walk reaches the enclosing cell; when it does not, the tree path '
    'takes over, which is proved complete); the agent queue / seeding order of ref_interp_locate with geometry nodes (exercised '
    'by the oracle-only stream interp_self and the CLI streams, not modelled); ref_interp_nearest_tet_via_tri_in_tree; the 2-D '
    'end-to-end statement assumes the query in the donor plane (ref_node_bary3 ignores z, the search sphere does not)',
    'outside the donor domain the tree path stores the candidate with the largest min weight among the cells whose scaled '
    'sphere is within search_fuzz: convexity then comes from the clip (interp_range), nearness is not quantified',
    'not verified here: the blind-send round trip of the parallel evaluation (serial np=1 only in this harness)',
    'for 2-D donors ref_interp_scalar clips all four stored weights but sums three: the range bound needs the stored 4th '
    'weight <= 0 (it is 0 in what ref_interp stores)',
]
