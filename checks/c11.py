from . import streams_geom, streams_interp, streams_interplocate, cli

ID = 'C11'
PROPS_MODULE = ['Refine.Props.C11', 'Refine.Props.C11Search', 'Refine.Props.C11Locate']
STREAMS = [streams_geom.INTERP, streams_geom.BARY, streams_interp.SEARCH, streams_interp.SELF, cli.INTERP, cli.INTERP_MPI,
           streams_interplocate.LOCATE, streams_interplocate.LOCATE_MPI2, streams_interplocate.LOCATE_MPI3,
           streams_interplocate.CLI_OFFSET, streams_interplocate.CLI_OFFSET_MPI]
EXPLANATION = (
    'Proved (Lean 4, exact real arithmetic, over the executable model bit-compared with the C): ref_node_clip_bary2/3/4 '
    'return a point of the simplex on the success branch (w_i >= 0, sum 1) and a unit vector on the REF_DIV_ZERO branch; '
    'the RAS assertions of clip_bary4 cannot fire in exact arithmetic; clipping is the identity on the simplex; a convex '
    'combination stays in [min f, max f] (convex_range); weights that reproduce a point reproduce every linear field '
    '(convex_linear); the evaluation loop of ref_interp_scalar (clip + weighted sum over one donor cell) therefore never '
    'extrapolates for ANY stored weights (interp_range, interp_range3 for 2-D donors), returns the donor value for a '
    'unit weight (interp_identity), and composed with ref_node_bary4 reproduces linear fields exactly for receptors '
    'inside the donor tet (interp_linear_inside); slightly outside it evaluates the field at the clipped point of the cell '
    '(interp_linear_clipped). '
    'Tie: the real ref_interp_scalar is called on a one-cell donor grid with the stored (cell, bary) set by the harness '
    '(np=3 and np=4 donors), ref_node_bary4 + ref_interp_scalar composed, and clip_bary2/3/4 directly: bit comparison. '
    'Oracle: range, sum-of-clipped-weights formula, linear exactness and vertex identity in exact rational arithmetic. '
    'Donor-cell search (Props/C11Search, model Model/Interp = ref_interp_create_search, ref_interp_enclosing_tet/tri_in_list, '
    'ref_interp_tree, the ref_interp_locate retry loop, ref_interp_walk_agent, ref_interp_locate_node): the search sphere of a '
    'cell (all node_per vertices, radius x donor_scale >= 1) contains the closed cell (boundingSphere_contains_all); every cell '
    'that encloses the query is in the ref_search_touching candidate list for every tree shape (tree_candidates_complete); the '
    'selected candidate has the largest min weight (inList_max_min), hence encloses the query if any candidate does '
    '(inList_picks_enclosing); end to end for tets: a receptor vertex inside some donor tet is located by the tree path in a cell '
    'with non-negative weights and every linear field is interpolated exactly (tree_linear_exact_inside); a walk that ends '
    'ENCLOSING holds a valid cell with all four weights >= inside = -1e-12, any other outcome claims no cell and the loop is '
    'bounded by 215 steps (walk_sound, walk_limit); ref_interp_locate_node returns one of the two (locateNode_sound). '
    'Tie (stream interp_search): donor grids built in process (2-D/3-D, aspect 1..100, needles with the far vertex in every local '
    'position, recycled cell ids), per-cell sphere bits, tree arrays, candidate lists, in_list cell+weights, ref_interp_tree, '
    'ref_interp_locate on receptors without geometry nodes (tree path only) + ref_interp_scalar of a linear field, single-agent '
    'ref_interp_walk_agent, ref_interp_locate_node: bit comparison; oracle with exact rational weights. Stream interp_self '
    '(oracle only): ref_interp_locate onto a shrunk copy of the donor, where geometry nodes seed the walk. '
    'Staged search on any number of ranks (Props/C11Locate, model Model/InterpLocate = ref_interp_locate as an SPMD function over '
    'Model/Comm: ref_interp_geom_nodes (allconcat, nearest donor corner, allminwho, best cell AROUND that corner, four blind '
    'sends, the seed acceptance test), ref_interp_push_onto_queue, ref_interp_process_agents with ref_interp_walk_agent and '
    'ref_update_agent_tet/tri_seed (hops to the rank owning the next cell, step limit, boundary), the slot discipline of '
    'ref_agents.c, ref_agents_migrate, the five each_active_ref_agent loops, ref_interp_tree with the allminwho arbitration and '
    'the fuzz retry loop; ref_interp->bary is one Option per slot, every copy loop has the bound of the C text). The tolerances, '
    'comparison operators, loop bounds, limits and the migration record layout are regenerated from ref_interp.c / ref_agents.c '
    'into Gen/InterpConsts.lean on every run and pinned by constants_of_the_c_text. Proved for every np, partition and rand() '
    'sequence: every vertex located by a geometry seed or a walking agent has all four stored weights >= inside = -1e-12 '
    '(locate_accepts_only_inside: this is what breaks if the seed test reads `bound`); every located vertex has all four slots '
    'written by the stage that located it, the 4th is 0 for a 2-D donor (locate_all_slots_written, the logic part of C18 for '
    'this structure); under ghost consistency of the receptor the stored slots ARE the weights of the vertex own position in the '
    'stored cell of rank part (locate_stored_weights: through allconcat_spec, blindsend_spec and the migration round trip); end '
    'to end for tets (locate_linear_exact): exact if the stored cell encloses the vertex, within 4e-12 x spread of the linear '
    'field over the cell for stage 1/2 (clip_error_bound); ref_agents_migrate delivers every agent unchanged with all four '
    'weights and succeeds whenever destinations are ranks (agent_migrate_roundtrip/_delivery/_total/_no_alteration); the rank '
    'that sends a tree cell proposes the largest min weight, lowest rank on ties, and the winning value does not depend on how '
    'the candidates are split over ranks (arbitration_picks_global_best, _largest_min_weight, _partition_independent). '
    'Non-vacuity: ref_interp_locate evaluated step by step on a 2-D and a 3-D one-rank world (Lemmas/InterpLocateEx), a '
    'receptor corner 5 % past the one-ring of the nearest donor corner (rejected by `inside`, accepted by `bound`), a two-rank '
    'migration. Tie: streams interp_locate (np=1, serial build), interp_locate_mpi2, interp_locate_mpi3 (harness '
    'h_interplocate.c, white-box ref_interp.c): donor/receptor PAIRS that are not the same domain (nested, offset 0.3..1.3 cells '
    'with corners inside / on / just outside the one-ring, same domain other resolution, one-id discs and balls, stretched, '
    'sticking out, > 215-step strips, fuzz retries, > 10 live agents), both grids partitioned by the generator; ref_interp->bary '
    'pre-filled with NaN; per vertex (cell, part, four slot bit patterns, stage by snapshots between the white-box stage calls), '
    'all counters, the rand() state; the real ref_interp_locate on a second REF_INTERP must give the same arrays. Oracle on the C '
    'output: four finite slots, weights = exact barycentric weights of the vertex in the stored cell, min weight >= -1e-12 for '
    'stage 1/2 and for every vertex inside the donor domain. Oracle streams cli_interp_offset (+ _mpi np=2,3): `ref interpolate` '
    'on such pairs with ldim=3: two linear fields exact at every receptor vertex inside the donor domain, range everywhere.')
ASSUMPTIONS = [
    'IEEE rounding is modelled (Float instance, bit-compared), not verified: the theorems hold in exact real arithmetic',
    'not verified: walk completeness (that the neighbour walk reaches the enclosing cell; when it does not, the tree path '
    'takes over, which is proved complete); ref_interp_nearest_tet_via_tri_in_tree / ref_interp_locate_nearest, '
    'ref_interp_locate_warm and _subset (other entry points, not modelled: `ref interpolate` and adapt call ref_interp_locate); the '
    '2-D end-to-end statement assumes the query in the donor plane (ref_node_bary3 ignores z, the search sphere does not); '
    'locate_linear_exact is for tetrahedral donors',
    'staged search model: rand() in ref_update_agent_*_seed (which off-rank face node a walk hops to) is a parameter of the model '
    '(the harness substitutes its own generator in the white-box copy of ref_interp.c); the while loop of '
    'ref_interp_process_agents has no bound in the C, the model gives up after 100000 sweeps; an error on one rank is an error of '
    'the whole model world (the C ranks would wait for each other); a blind send with a destination outside the world or with more '
    'than INT_MAX/ldim records in total is REF_FAILURE in the model (the C indexes out of bounds / guards per-rank counts); '
    'previous/next/last of REF_AGENTS (ref_agents_pop) are not modelled; the order each_ref_cell_having_node visits cells and '
    'ref_grid_node_list_around lists neighbours is derived from the ref_cell_add order of the harness (latest first) and compared '
    'by the dadj/radj/geomlist ops; locate_stored_weights assumes ghost copies of receptor vertices carry the owner coordinates and '
    'cell ids different from REF_EMPTY',
    'history: until /repo 0166523 ref_interp_geom_nodes failed when the receptor had geometry corners and no rank had a donor '
    'geometry node (findings/interp-geom-nodes-donor-without-corners, fixed); model and C now leave such a corner unseeded, the '
    'roundbox sessions and corpus/C11/*disc_donor* are the regression inputs',
    'outside the donor domain the tree path stores the candidate with the largest min weight among the cells whose scaled '
    'sphere is within search_fuzz: convexity then comes from the clip (interp_range), nearness is not quantified',
    'not verified here: the blind-send round trip of the parallel evaluation (serial np=1 only in this harness)',
    'for 2-D donors ref_interp_scalar clips all four stored weights but sums three: the range bound needs the stored 4th '
    'weight <= 0 (it is 0 in what ref_interp stores)',
]
