"""stream `tables`: exhaustive over the 16 cell types' tables + seeded partition macro calls"""
from .common import Stream

TYPES = ['edg', 'ed2', 'ed3', 'tri', 'tr2', 'tr3', 'qua', 'qu2', 'tet', 'pyr', 'pri', 'hex', 'te2', 'py2', 'pr2', 'he2']


def gen_cell(rng, tier):
    ops = []
    for t in TYPES:
        ops.append('per %s' % t)
        for e in range(13):
            for k in range(2):
                ops.append('e2n %s %d %d' % (t, e, k))
        for f in range(7):
            for k in range(4):
                ops.append('f2n %s %d %d' % (t, f, k))
    return ops


def gen_part(rng, tier):
    ops = []
    n_cases = 400 if tier == 'quick' else 4000
    for _ in range(n_cases):
        mode = rng.random()
        if mode < 0.3:
            p = rng.randint(1, 9)
            n = rng.randint(1, 40)
        elif mode < 0.6:
            p = rng.randint(1, 64)
            n = rng.randint(1, 3 * p)          # N <= np region (small part size 0) and just above
        else:
            p = rng.randint(1, 4096)
            n = rng.choice([rng.randint(1, 10 ** 6), rng.randint(10 ** 9, 4 * 10 ** 9)])
        for k in sorted({0, 1, p - 1, p, rng.randint(0, p)}):
            if 0 <= k <= p:
                ops.append('first %d %d %d' % (n, p, k))
        for g in sorted({0, n - 1, n // 2, rng.randint(0, n - 1), rng.randint(0, n - 1)}):
            ops.append('implicit %d %d %d' % (n, p, g))
    return ops


def oracle_part(ops, impl):
    """direct statement: first(0)=0, first(np)=N, first(implicit g) <= g < first(implicit g + 1), 0<=implicit<np.
    Needs first() of neighbouring parts, which the harness did not necessarily print, so the oracle only uses
    algebra on what was printed: first 0, first np and the range of implicit."""
    bad = []
    for i, (o, r) in enumerate(zip(ops, impl)):
        w = o.split()
        if w[0] == 'first':
            n, p, k = int(w[1]), int(w[2]), int(w[3])
            v = int(r)
            if k == 0 and v != 0:
                bad.append((i, 'first(N,np,0) = %d != 0' % v))
            if k == p and v != n:
                bad.append((i, 'first(%d,%d,np) = %d != N' % (n, p, v)))
            if not (0 <= v <= n):
                bad.append((i, 'first out of [0,N]: %s -> %d' % (o, v)))
        elif w[0] == 'implicit':
            n, p, g = int(w[1]), int(w[2]), int(w[3])
            v = int(r)
            if not (0 <= v < p):
                bad.append((i, 'implicit(%d,%d,%d) = %d not a rank' % (n, p, g, v)))
            else:
                # block sizes differ by at most one => owner of g is determined
                small = (n - 1) // p
                nlarge = n - p * small
                large = small + 1
                exp = g // large if g < nlarge * large else (g - nlarge * large) // small + nlarge
                if v != exp:
                    bad.append((i, 'implicit(%d,%d,%d) = %d, balanced block owner is %d' % (n, p, g, v, exp)))
    return bad


CELL = Stream('tables_cell', 'h_tables', 'tables', gen_cell, oracle=None,
              nontrivial=lambda op, out: out not in ('range', 'bad-op'))
PART = Stream('tables_part', 'h_tables', 'tables', gen_part, oracle=oracle_part)
