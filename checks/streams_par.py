"""streams `par_*`: ownership guards (serial harness) and the chunked gather (MPI harness) of work package "par".

  par_guards       local_gem / smooth_local / swap_local / collapse_local on random local configurations
  par_gather_node  ref_gather_node on small Worlds: every chunk size, empty ranks, np > N, one rank owning all,
                   duplicated-owner / missing-owner worlds (the "node used more or less than once" branch)
  par_gather_cell  ref_cell_ncell + ref_gather_cell with the owner filter

The oracles state the property directly on the implementation's output (no Lean model involved).
"""
import struct

from .common import Stream

NPS = [1, 2, 3, 4, 5, 8]


def dhex(x):
    return struct.pack('>d', float(x)).hex()


def hexd(s):
    return struct.unpack('>d', bytes.fromhex(s))[0]


# ---------------------------------------------------------------------------------------------------------
# guards
# ---------------------------------------------------------------------------------------------------------
def _config(rng, per_list):
    """random local configuration: parts + one cell list per entry of per_list; returns (me, parts, cell lists)"""
    nn = rng.randint(4, 11)
    nrank = rng.choice([1, 2, 2, 3])
    me = rng.randrange(nrank)
    mode = rng.random()
    if mode < 0.25:
        parts = [me] * nn
    elif mode < 0.6:
        parts = [me] * nn
        for _ in range(rng.randint(1, 2)):
            parts[rng.randrange(nn)] = (me + 1) % max(2, nrank)
    else:
        parts = [rng.choice([me, me, rng.randrange(max(2, nrank))]) for _ in range(nn)]
    groups = []
    for per in per_list:
        nc = rng.choice([0, 1, 2, 3, 5, 8])
        cells = []
        for _ in range(nc):
            if rng.random() < 0.05:
                cells.append([rng.randrange(nn) for _ in range(per)])       # may repeat a node
            else:
                cells.append(rng.sample(range(nn), per))
        groups.append(cells)
    return me, parts, groups


def _edge(rng, parts, groups):
    """mostly an edge of some cell, sometimes any pair"""
    cells = [c for g in groups for c in g]
    if cells and rng.random() < 0.85:
        c = rng.choice(cells)
        a, b = rng.sample(range(len(c)), 2)
        return c[a], c[b]
    return rng.randrange(len(parts)), rng.randrange(len(parts))


def _flat(cells):
    return [str(len(cells))] + [str(n) for c in cells for n in c]


def gen_guards(rng, tier):
    ops = []
    n = 1500 if tier == 'quick' else 12000
    for _ in range(n):
        kind = rng.choice(['local_gem', 'local_gem', 'smooth_local', 'swap_local', 'collapse_local', 'collapse_local'])
        if kind in ('local_gem', 'smooth_local'):
            grp = rng.choice(['tet', 'tri'])
            me, parts, (cells,) = _config(rng, [4 if grp == 'tet' else 3])
            n0, n1 = _edge(rng, parts, [cells])
            fix = [me, n0, n1] if kind == 'local_gem' else [me, n0]
            w = [kind, grp] + [str(x) for x in fix] + [str(len(parts))] + [str(p) for p in parts] + _flat(cells)
        elif kind == 'swap_local':
            me, parts, (tris,) = _config(rng, [3])
            n0, n1 = _edge(rng, parts, [tris])
            w = [kind, str(me), str(n0), str(n1), str(len(parts))] + [str(p) for p in parts] + _flat(tris)
        else:
            me, parts, (tets, tris) = _config(rng, [4, 3])
            n0, n1 = _edge(rng, parts, [tets, tris])
            w = [kind, str(me), str(n0), str(n1), str(len(parts))] + [str(p) for p in parts] + _flat(tets) + _flat(tris)
        if rng.random() < 0.02:
            w = w[:-1] if rng.random() < 0.5 else w + ['99']      # malformed share
        ops.append(' '.join(w))
    return ops


def _take_cells(w, k, per):
    c = int(w[k])
    cells = [[int(x) for x in w[k + 1 + per * i:k + 1 + per * (i + 1)]] for i in range(c)]
    return cells, k + 1 + per * c


def oracle_guards(ops, impl):
    """safety direction of C04's mechanism: the guard may answer 1 only if every cell the kernel then touches
    (cells containing both edge nodes for split/swap; cells around either end for collapse; the ball for smoothing)
    has all its nodes owned by `me`"""
    bad = []
    for i, (o, r) in enumerate(zip(ops, impl)):
        if r != '1':
            continue
        w = o.split()
        try:
            if w[0] in ('local_gem', 'smooth_local'):
                per = 4 if w[1] == 'tet' else 3
                nf = 3 if w[0] == 'local_gem' else 2
                fix = [int(x) for x in w[2:2 + nf]]
                k = 2 + nf
            else:
                fix = [int(x) for x in w[1:4]]
                k = 4
            P = int(w[k])
            parts = [int(x) for x in w[k + 1:k + 1 + P]]
            k += 1 + P
            me = fix[0]
            if w[0] == 'local_gem':
                cells, _ = _take_cells(w, k, per)
                touched = [c for c in cells if fix[1] in c and fix[2] in c]
            elif w[0] == 'smooth_local':
                cells, _ = _take_cells(w, k, per)
                touched = [c for c in cells if fix[1] in c]
            elif w[0] == 'swap_local':
                cells, _ = _take_cells(w, k, 3)
                touched = [c for c in cells if fix[1] in c and fix[2] in c]
            else:
                tets, k = _take_cells(w, k, 4)
                tris, _ = _take_cells(w, k, 3)
                touched = [c for c in tets + tris if fix[1] in c or fix[2] in c]
        except (ValueError, IndexError):
            bad.append((i, 'guard answered 1 on a malformed configuration'))
            continue
        for c in touched:
            if any(parts[n] != me for n in c):
                bad.append((i, 'C04 %s allowed the operation although touched cell %s has a node not owned by rank %d' %
                            (w[0], c, me)))
                break
    return bad


# ---------------------------------------------------------------------------------------------------------
# gather_node
# ---------------------------------------------------------------------------------------------------------
def _partition(rng, N, np):
    kind = rng.choice(['random', 'random', 'one', 'block', 'two', 'cyclic'])
    if kind == 'one':
        r = rng.randrange(np)
        return [r] * N
    if kind == 'block':
        per = max(1, (N + np - 1) // np)
        return [min(np - 1, g // per) for g in range(N)]
    if kind == 'two':
        a, b = rng.randrange(np), rng.randrange(np)
        return [rng.choice([a, b]) for _ in range(N)]
    if kind == 'cyclic':
        return [g % np for g in range(N)]
    return [rng.randrange(np) for _ in range(N)]


def _payload(rng, exact_only):
    r = rng.random()
    if exact_only or r < 0.7:
        return [rng.randint(-64, 64) / 2.0 for _ in range(3)]
    if r < 0.8:
        return [rng.choice([0.0, -0.0, 1.0]) for _ in range(3)]
    return [rng.uniform(-1, 1) * 10.0 ** rng.randint(-300, 300) for _ in range(3)]


NEGZERO_SITE = 'ref_gather:sum-padding-loses-negative-zero'


def _signed_zero_failures(i, np, vals, exp, what):
    """C07 'pure data movement is bit-identical': a value of -0.0 must arrive as -0.0.  The chunked gathers of ref_gather.c
    reduce (owner's value + 0.0 padding of every other rank) with MPI_SUM, and -0.0 + 0.0 = +0.0: with more than one rank
    the sign of a negative zero is lost (known finding, tagged ONLY for exactly this pattern: expected -0.0, got +0.0,
    np >= 2); any other sign-of-zero difference is an ordinary failure"""
    import math as _m
    out = []
    for k, (a, b) in enumerate(zip(vals, exp)):
        if a == 0.0 and b == 0.0 and _m.copysign(1.0, a) != _m.copysign(1.0, b):
            msg = 'C07 %s %d: the owner holds %r, the gather wrote %r (np=%d): not bit-identical' % (what, k // 3, b, a, np)
            if _m.copysign(1.0, b) < 0 and np >= 2:
                out.append((i, msg, NEGZERO_SITE))
            else:
                out.append((i, msg))
    return out[:3]


def gen_gather_node(rng, tier, np):
    ops = []
    n = 60 if tier == 'quick' else 400
    for _ in range(n):
        r = rng.random()
        N = rng.choice([0, 1, 2, 3]) if r < 0.15 else (rng.randint(4, 14) if r < 0.85 else rng.randint(15, 60))
        part = _partition(rng, N, np)
        broken = rng.random() < 0.25 and N > 0
        pay = [_payload(rng, broken) for _ in range(N)]
        stored = [[] for _ in range(np)]          # (global, part)
        for g in range(N):
            stored[part[g]].append((g, part[g]))
            for q in range(np):                    # ghosts
                if q != part[g] and rng.random() < 0.3:
                    stored[q].append((g, part[g]))
        if broken:
            for _ in range(rng.randint(1, 2)):
                g = rng.randrange(N)
                what = rng.choice(['dup', 'missing', 'dup', 'missing', 'triple'])
                if what == 'missing':
                    # nobody stores g as its own: the owner forgets it or believes somebody else owns it
                    q = part[g]
                    stored[q] = [(a, b) for (a, b) in stored[q] if a != g]
                    if rng.random() < 0.5 and np > 1:
                        stored[q].append((g, (q + 1) % np))
                elif np > 1:
                    others = [q for q in range(np) if q != part[g]]
                    for q in rng.sample(others, min(len(others), 1 if what == 'dup' else 2)):
                        stored[q] = [(a, b) for (a, b) in stored[q] if a != g] + [(g, q)]
        # out-of-range globals stored somewhere are ignored by the gather
        if rng.random() < 0.1:
            stored[rng.randrange(np)].append((N + rng.randint(0, 3), rng.randrange(np)))
        for s in stored:
            rng.shuffle(s)
        # chunk sizes: every value from 1 to N+1 gets its turn; the C caps at N/np+1
        r = rng.random()
        if r < 0.7:
            rbl = 32 * rng.randint(1, N + 1) + rng.choice([0, 0, 1, 31])
        elif r < 0.8:
            rbl = rng.choice([0, -1, -32, 1000000, 2147483647])
        elif r < 0.86:
            rbl = rng.randint(1, 31)              # chunk 0: never advances (predicted `hang`, C not called)
        else:
            rbl = 32
        w = ['gather_node', str(np), str(rbl), str(N)]
        for s in stored:
            w += ['|', str(len(s))]
            for g, p in s:
                v = pay[g] if g < N else [9.0, 9.0, 9.0]
                w += [str(g), str(p)] + [dhex(x) for x in v]
        ops.append(' '.join(w))
    return ops


def _parse_node_world(w):
    np, rbl, N = int(w[1]), int(w[2]), int(w[3])
    groups, cur = [], None
    for t in w[4:]:
        if t == '|':
            cur = []
            groups.append(cur)
        else:
            cur.append(t)
    world = []
    for g in groups:
        k = int(g[0])
        world.append([(int(g[1 + 5 * i]), int(g[2 + 5 * i]), [hexd(x) for x in g[3 + 5 * i:6 + 5 * i]]) for i in range(k)])
    return np, rbl, N, world


def oracle_gather_node(ops, impl):
    """C04/C07: when every global in [0,N) is owned by exactly one rank the gather succeeds and the file holds the
    owners' payloads in global order 0..N-1 (for every chunk size, np and partition); otherwise it must fail"""
    bad = []
    for i, (o, r) in enumerate(zip(ops, impl)):
        if r in ('bad-op', 'hang'):
            continue
        w = o.split()
        try:
            np, rbl, N, world = _parse_node_world(w)
        except (ValueError, IndexError):
            continue
        owners = [[] for _ in range(N)]
        for q, nodes in enumerate(world):
            for (g, p, v) in nodes:
                if g < N and p == q:
                    owners[g].append(v)
        out = r.split()
        wellformed = all(len(x) == 1 for x in owners)
        if wellformed:
            if out[0] != 'ok':
                bad.append((i, 'gather of a well-formed world (every global owned once) returned %s' % out[0]))
                continue
            vals = [hexd(x) if x != 'nan' else float('nan') for x in out[1:]]
            exp = [x for g in range(N) for x in owners[g][0]]
            if len(vals) != len(exp):
                bad.append((i, 'C04 gather wrote %d values for %d vertices' % (len(vals), N)))
            elif vals != exp:
                k = [a == b for a, b in zip(vals, exp)].index(False)
                bad.append((i, 'C07 gathered vertex %d differs from its owner\'s payload (np=%d, limit=%d): %r vs %r' %
                            (k // 3, np, rbl, vals[k], exp[k])))
            else:
                bad += _signed_zero_failures(i, np, vals, exp, 'gathered vertex')
        elif out[0] == 'ok':
            g = [len(x) == 1 for x in owners].index(False)
            bad.append((i, 'C04 global %d has %d owners but the gather reported success' % (g, len(owners[g]))))
    return bad


# ---------------------------------------------------------------------------------------------------------
# gather_cell
# ---------------------------------------------------------------------------------------------------------
def gen_gather_cell(rng, tier, np):
    ops = []
    n = 60 if tier == 'quick' else 400
    for _ in range(n):
        per = rng.choice([2, 3, 3, 4, 4])
        N = rng.randint(per, 14)
        part = _partition(rng, N, np)
        nc = rng.choice([0, 1, 2, 5, 9, 16])
        cells = []
        for _ in range(nc):
            c = rng.sample(range(N), per)
            cells.append((c, rng.choice([1, 2, 3, 7, -4, 100000]) if per < 4 else 0))
        if cells and rng.random() < 0.2:
            cells.append(cells[0])                                    # a duplicated cell is gathered twice
        world = []
        for q in range(np):
            mine = [c for c in cells if any(part[g] == q for g in c[0])]   # storage rule
            if rng.random() < 0.2:
                mine += [c for c in cells if c not in mine and rng.random() < 0.3]  # extra ghost cells: never emitted
            rng.shuffle(mine)
            nodes = sorted({g for c in mine for g in c[0]} | {g for g in range(N) if part[g] == q})
            rng.shuffle(nodes)
            world.append((nodes, mine))
        w = ['gather_cell', str(np), str(per)]
        for nodes, mine in world:
            w += ['|', str(len(nodes))]
            for g in nodes:
                w += [str(g), str(part[g])]
            w.append(str(len(mine)))
            for c, cid in mine:
                w += [str(g) for g in c] + [str(cid)]
        ops.append(' '.join(w))
    return ops


def oracle_gather_cell(ops, impl):
    """every cell of the global mesh (union over the ranks' stored cells) is written exactly once, with its tag"""
    bad = []
    for i, (o, r) in enumerate(zip(ops, impl)):
        if r == 'bad-op':
            continue
        w = o.split()
        try:
            np, per = int(w[1]), int(w[2])
            groups, cur = [], None
            for t in w[3:]:
                if t == '|':
                    cur = []
                    groups.append(cur)
                else:
                    cur.append(int(t))
            stored = []
            for q, g in enumerate(groups):
                k = g[0]
                parts = {g[1 + 2 * j]: g[2 + 2 * j] for j in range(k)}
                c = g[1 + 2 * k]
                recs = [tuple(g[2 + 2 * k + (per + 1) * j:2 + 2 * k + (per + 1) * (j + 1)]) for j in range(c)]
                stored.append((parts, recs))
        except (ValueError, IndexError):
            continue
        # global multiset: a cell counts as often as its most frequent storage on one rank that touches it
        glob = {}
        for q, (parts, recs) in enumerate(stored):
            cnt = {}
            for rec in recs:
                if any(parts[g] == q for g in rec[:per]):
                    cnt[rec] = cnt.get(rec, 0) + 1
            for rec, c in cnt.items():
                glob[rec] = max(glob.get(rec, 0), c)
        out = r.split()
        if out[0] != 'ok':
            bad.append((i, 'gather_cell returned %s' % out[0]))
            continue
        vals = [int(x) for x in out[2:]]
        got = {}
        for j in range(0, len(vals), per + 1):
            rec = tuple(v - 1 for v in vals[j:j + per]) + ((vals[j + per],) if per < 4 else (0,))
            got[rec] = got.get(rec, 0) + 1
        exp = {(rec[:per] + ((rec[per],) if per < 4 else (0,))): c for rec, c in glob.items()}
        if got != exp:
            d = [k for k in set(got) | set(exp) if got.get(k, 0) != exp.get(k, 0)][0]
            bad.append((i, 'C04 cell %s written %d times, expected %d (np=%d)' % (d, got.get(d, 0), exp.get(d, 0), np)))
        elif int(out[1]) != sum(exp.values()):
            bad.append((i, 'ref_cell_ncell = %s but the global mesh has %d cells' % (out[1], sum(exp.values()))))
    return bad



# ---------------------------------------------------------------------------------------------------------
# gather_file: the real ref_gather_by_extension (.meshb) on a distributed tri+tet mesh
# ---------------------------------------------------------------------------------------------------------
def gen_gather_file(rng, tier, np):
    ops = []
    n = 40 if tier == 'quick' else 250
    for _ in range(n):
        N = rng.randint(4, 16)
        part = _partition(rng, N, np)
        pay = [_payload(rng, False) for _ in range(N)]
        tris = [(rng.sample(range(N), 3), rng.choice([1, 2, 3, 9])) for _ in range(rng.choice([0, 1, 3, 6, 10]))]
        tets = [(rng.sample(range(N), 4), 0) for _ in range(rng.choice([0, 1, 3, 6, 10]))]
        tris = list({tuple(c): (c, cid) for c, cid in tris}.values())      # distinct cells (the oracle counts sets)
        tets = list({tuple(c): (c, cid) for c, cid in tets}.values())
        world = []
        for q in range(np):
            mt = [c for c in tris if any(part[g] == q for g in c[0])]
            mq = [c for c in tets if any(part[g] == q for g in c[0])]
            rng.shuffle(mt)
            rng.shuffle(mq)
            nodes = sorted({g for c in mt + mq for g in c[0]} | {g for g in range(N) if part[g] == q})
            rng.shuffle(nodes)
            world.append((nodes, mt, mq))
        if rng.random() < 0.1 and N > 0:                       # a vertex nobody owns: the failure branch
            g = rng.randrange(N)
            world = [([x for x in nodes if x != g] if part[g] == q else nodes, mt, mq)
                     for q, (nodes, mt, mq) in enumerate(world)]
            world = [(nodes, [c for c in mt if g not in c[0] or g in nodes], [c for c in mq if g not in c[0] or g in nodes])
                     for (nodes, mt, mq) in world]
        r = rng.random()
        rbl = 32 * rng.randint(1, N + 1) if r < 0.7 else rng.choice([0, -1, 1000000, 33, 32])
        w = ['gather_file', str(np), str(rbl), str(N)]
        for nodes, mt, mq in world:
            w += ['|', str(len(nodes))]
            for g in nodes:
                w += [str(g), str(part[g])] + [dhex(x) for x in pay[g]]
            w.append(str(len(mt)))
            for c, cid in mt:
                w += [str(g) for g in c] + [str(cid)]
            w.append(str(len(mq)))
            for c, cid in mq:
                w += [str(g) for g in c] + [str(cid)]
        ops.append(' '.join(w))
    return ops


def oracle_gather_file(ops, impl):
    """the file holds every vertex once, in global order, with its owner's coordinates, and every cell once"""
    bad = []
    for i, (o, r) in enumerate(zip(ops, impl)):
        out = r.split()
        if not out or out[0] != 'ok':
            continue
        w = o.split()
        np, N = int(w[1]), int(w[3])
        groups, cur = [], None
        for t in w[4:]:
            if t == '|':
                cur = []
                groups.append(cur)
            else:
                cur.append(t)
        own, tris, tets = {}, {}, {}
        for q, g in enumerate(groups):
            k = int(g[0])
            for j in range(k):
                if int(g[2 + 5 * j]) == q:
                    own.setdefault(int(g[1 + 5 * j]), []).append([hexd(x) for x in g[3 + 5 * j:6 + 5 * j]])
            a = 1 + 5 * k
            ct = int(g[a])
            for j in range(ct):
                rec = tuple(int(x) for x in g[a + 1 + 4 * j:a + 5 + 4 * j])
                tris[rec] = 1
            b = a + 1 + 4 * ct
            cq = int(g[b])
            for j in range(cq):
                rec = tuple(int(x) for x in g[b + 1 + 5 * j:b + 5 + 5 * j])
                tets[rec] = 1
        if any(len(own.get(g, [])) != 1 for g in range(N)):
            bad.append((i, 'C04 gather to a file succeeded although some vertex is not owned exactly once'))
            continue
        if int(out[1]) != N:
            bad.append((i, 'file has %s vertices, mesh has %d' % (out[1], N)))
            continue
        vals = [hexd(x) for x in out[2:2 + 3 * N]]
        if vals != [x for g in range(N) for x in own[g][0]]:
            bad.append((i, 'C07 vertices in the file are not the owners\' coordinates in global order (np=%d)' % np))
            continue
        bad += _signed_zero_failures(i, np, vals, [x for g in range(N) for x in own[g][0]], 'file vertex')
        k = 2 + 3 * N
        nt = int(out[k])
        got_t = sorted(tuple(int(x) - (1 if j % 4 < 3 else 0) for j, x in enumerate(out[k + 1:k + 1 + 4 * nt]))[4 * m:4 * m + 4]
                       for m in range(nt))
        k += 1 + 4 * nt
        nq = int(out[k])
        got_q = sorted(tuple(int(x) - 1 for x in out[k + 1 + 5 * m:k + 5 + 5 * m]) for m in range(nq))
        if got_t != sorted(tris):
            bad.append((i, 'C04 triangles in the file differ from the global mesh (np=%d): %d vs %d' % (np, len(got_t), len(tris))))
        elif got_q != sorted(tets):
            bad.append((i, 'C04 tets in the file differ from the global mesh (np=%d): %d vs %d' % (np, len(got_q), len(tets))))
    return bad


def _nontrivial(op, out):
    return not out.startswith('bad-op')


GUARDS = Stream('par_guards', 'h_par', 'par', gen_guards, oracle=oracle_guards, whitebox=('ref_smooth', 'ref_gather'),
                nontrivial=_nontrivial, session='\x00none', timeout=300, batches={'quick': 1, 'thorough': 3})


def _mpi(name, gen, oracle):
    s = Stream(name, 'h_par', 'par', gen, oracle=oracle, np=NPS, whitebox=('ref_smooth', 'ref_gather'), timeout=240,
               nontrivial=_nontrivial, session='\x00none', batches={'quick': 1, 'thorough': 3})
    s.ops_file = True
    return s


GATHER_NODE = _mpi('par_gather_node', gen_gather_node, oracle_gather_node)
GATHER_CELL = _mpi('par_gather_cell', gen_gather_cell, oracle_gather_cell)
GATHER_FILE = _mpi('par_gather_file', gen_gather_file, oracle_gather_file)
STREAMS = [GUARDS, GATHER_NODE, GATHER_CELL, GATHER_FILE]


# ---------------------------------------------------------------------------------------------------------
# end-to-end: refmpi adapt at np in {1,2,3,4,5,8} (C04).  Same scenario builder and the same oracle as
# cli.ADAPT_MPI (C01 validity incl. unused / duplicated vertices and duplicated cells, C02 domain measures, exit
# status); a run that does not finish within cli.run_ref's wall-time bound is reported as rc=-9 (deadlock => timeout
# => violation).  Knobs: every available partitioner (recommended, single, native RCB), REF_VERIF_PARTITIONER_FULL,
# both alltoallv implementations, small reduce_byte_limit.
# ---------------------------------------------------------------------------------------------------------
from . import cli  # noqa: E402


def gen_adapt_all_np(rng, tier, np):
    ops = []
    for op in cli.gen_adapt(rng, tier, np, scale=0.5):
        r = rng.random()
        if r < 0.3:
            op += ' part=5'
        elif r < 0.4:
            op += ' part=1'
        elif r < 0.5:
            op += ' part=0'
        if rng.random() < 0.75:
            op += ' full=1'
        if rng.random() < 0.4:
            op += ' native=1'
        if rng.random() < 0.5:
            op += ' chunk=%d' % rng.choice([64, 100, 4096])   # >= 56: the metric gather has 7-double records (smaller => chunk 0, see chunk_positive)
        ops.append(op)
    return ops


ADAPT_ALL_NP = Stream('cli_adapt_mpi_all_np', cli.cli_harness, None, gen_adapt_all_np, oracle=cli.oracle_adapt,
                      kind='oracle', np=NPS, nontrivial=lambda op, out: out.startswith('rc=0'), timeout=1800,
                      batches={'quick': 1, 'thorough': 2})
