"""streams `meshops_fn` (diff) and `meshops_run` (validate) for C13.

`meshops_fn`: generated local configurations (edge stars in 3-D, interior / boundary with triangles and an edg,
2-D triangle pairs, stars above MAX_CELL_SPLIT, duplicate and missing cells, random soups, op sequences on small
triangulated patches) -> the real ref_split_edge / ref_collapse_edge / ref_swap_tri_edge / the trial-vertex frame of
ref_split_pass, compared line by line with the Lean model.  The oracle states C13 directly on the dumps of the
implementation: what an accepted split / collapse / swap did to the cell lists, that a valid star stays valid, and
that a rejected trial leaves the same abstract state.

`meshops_run`: real ref_adapt_pass / ref_split_pass / ref_collapse_pass / ref_swap_pass / ref_smooth_pass runs on
fixture grids with the per-operation hook; every hook event is one `rec` line; the oracle checks local validity after
every accept and structural-hash equality for every reject, independently of the Lean driver's verdicts.
"""
import math
import struct
from collections import Counter

from .common import Stream

NP = {'tet': 4, 'tri': 3, 'edg': 2}


def hx(d):
    return '%016x' % struct.unpack('<Q', struct.pack('<d', d))[0]


def unhx(s):
    return struct.unpack('<d', struct.pack('<Q', int(s, 16)))[0]


# ---------------------------------------------------------------------------------------------
# independent geometry / local validity (the property, stated directly)
# ---------------------------------------------------------------------------------------------
def tet_vol(a, b, c, d):
    m11 = (a[0] - d[0]) * ((b[1] - d[1]) * (c[2] - d[2]) - (c[1] - d[1]) * (b[2] - d[2]))
    m12 = (a[1] - d[1]) * ((b[0] - d[0]) * (c[2] - d[2]) - (c[0] - d[0]) * (b[2] - d[2]))
    m13 = (a[2] - d[2]) * ((b[0] - d[0]) * (c[1] - d[1]) - (c[0] - d[0]) * (b[1] - d[1]))
    return -(m11 - m12 + m13) / 6.0


def tri_normal_z(a, b, c):
    return (b[0] - a[0]) * (c[1] - a[1]) - (b[1] - a[1]) * (c[0] - a[0])


def local_valid(twod, cells, xyz, vs, removed=()):
    """cells = {'tet': [rows], 'tri': [rows], 'edg': [rows]} (the star of vs); returns list of complaints"""
    bad = []
    vs = set(vs)
    for k, rows in cells.items():
        n = NP[k]
        keys = Counter()
        for r in rows:
            if len(set(r[:n])) != n:
                bad.append('%s %s repeats a vertex' % (k, r))
            keys[tuple(sorted(r[:n]))] += 1
            for v in removed:
                if v in r[:n]:
                    bad.append('%s %s references removed vertex %d' % (k, r, v))
        for key, c in keys.items():
            if c > 1:
                bad.append('duplicate %s %s' % (k, key))
    hi, lo = ('tri', 'edg') if twod else ('tet', 'tri')
    nh, nl = NP[hi], NP[lo]
    faces = Counter()
    for r in cells[hi]:
        ns = r[:nh]
        for k in range(nh):
            faces[tuple(sorted(ns[:k] + ns[k + 1:]))] += 1
    lows = Counter(tuple(sorted(r[:nl])) for r in cells[lo])
    for f, c in faces.items():
        if not (set(f) & vs):
            continue
        l = lows.get(f, 0)
        if not ((c == 2 and l == 0) or (c == 1 and l == 1)):
            bad.append('face %s: %d %s, %d %s' % (f, c, hi, l, lo))
    for f, l in lows.items():
        if (set(f) & vs) and faces.get(f, 0) != 1:
            bad.append('%s %s lies on %d %s' % (lo, f, faces.get(f, 0), hi))
    for k, rows in cells.items():
        for r in rows:
            if any(v not in xyz for v in r[:NP[k]]):
                bad.append('%s %s references a vertex that is not valid' % (k, r))
    if bad:
        return bad
    if twod:
        for r in cells['tri']:
            if not tri_normal_z(xyz[r[0]], xyz[r[1]], xyz[r[2]]) > 0.0:
                bad.append('tri %s not positively oriented' % (r,))
    else:
        for r in cells['tet']:
            if not tet_vol(xyz[r[0]], xyz[r[1]], xyz[r[2]], xyz[r[3]]) > 0.0:
                bad.append('tet %s volume not positive' % (r,))
    return bad


def star(cells, vs):
    vs = set(vs)
    return {k: [r for r in rows if set(r[:NP[k]]) & vs] for k, rows in cells.items()}


# ---------------------------------------------------------------------------------------------
# function-level generator
# ---------------------------------------------------------------------------------------------
class Sess:
    """builds one session; tracks slots the way ref_node_add hands them out in a fresh grid (0,1,2,...)"""

    def __init__(self, rng):
        self.rng = rng
        self.ops = ['reset']
        self.n = 0
        self.xyz = {}

    def node(self, x, y, z, g=None):
        v = self.n
        self.ops.append('node %d %s %s %s' % (v if g is None else g, hx(x), hx(y), hx(z)))
        self.xyz[v] = (x, y, z)
        self.n += 1
        return v

    def initg(self, k=None):
        self.ops.append('initg %d' % (self.n if k is None else k))

    def tet(self, a, b, c, d, orient=True):
        if orient and all(v in self.xyz for v in (a, b, c, d)) and \
                tet_vol(self.xyz[a], self.xyz[b], self.xyz[c], self.xyz[d]) < 0:
            a, b = b, a
        self.ops.append('tet %d %d %d %d' % (a, b, c, d))

    def tri(self, a, b, c, i):
        self.ops.append('tri %d %d %d %d' % (a, b, c, i))

    def edg(self, a, b, i):
        self.ops.append('edg %d %d %d' % (a, b, i))

    def op(self, s):
        self.ops.append('dump')
        self.ops.append(s)
        self.ops.append('dump')


def wgt(rng):
    return hx(rng.choice([0.5, 0.05, 0.95, 0.25, rng.uniform(0.05, 0.95), rng.uniform(0.05, 0.95)]))


def edge_star(rng, k, closed, with_tris=True, with_edg=False, drop=None, dup=None):
    """k ring vertices around the edge (0,1); closed: k tets, open: k-1 tets + 2 boundary tris"""
    s = Sess(rng)
    a = s.node(0.0, 0.0, -1.0 + rng.uniform(-.1, .1))
    b = s.node(0.0, 0.0, 1.0 + rng.uniform(-.1, .1))
    ring = []
    span = 2 * math.pi if closed else rng.uniform(0.5, 1.5) * math.pi
    for i in range(k):
        t = span * i / (k if closed else max(1, k - 1))
        r = rng.uniform(0.8, 1.2)
        ring.append(s.node(r * math.cos(t), r * math.sin(t), rng.uniform(-.2, .2)))
    s.initg()
    nt = k if closed else k - 1
    for i in range(nt):
        if drop is not None and i == drop:
            continue
        s.tet(a, b, ring[i], ring[(i + 1) % k])
        if dup is not None and i == dup:
            s.tet(a, b, ring[i], ring[(i + 1) % k])
    if not closed and with_tris:
        s.tri(a, b, ring[0], 10)
        s.tri(b, a, ring[-1], rng.choice([10, 11]))
        # outer shell triangles so that the star is a closed boundary
        if rng.random() < 0.5:
            for i in range(nt):
                s.tri(a, ring[i], ring[i + 1], 20)
                s.tri(b, ring[i + 1], ring[i], 21)
        if with_edg:
            s.edg(a, b, 5)
    return s, a, b, ring


def tri_pair(rng, kind):
    s = Sess(rng)
    n0 = s.node(0.0, 0.0, 0.0)
    n1 = s.node(1.0, rng.uniform(-.1, .1), 0.0)
    n2 = s.node(rng.uniform(.2, .8), rng.uniform(.5, 1.0), 0.0)
    n3 = s.node(rng.uniform(.2, .8), -rng.uniform(.5, 1.0), 0.0)
    n4 = s.node(rng.uniform(.2, .8), rng.uniform(1.5, 2.0), 0.0)
    s.initg()
    ida = rng.choice([1, 2, 7])
    idb = ida if kind != 'ids' else ida + 1
    rot = lambda t, k: t[k:] + t[:k]
    t0 = rot([n0, n1, n2], rng.randrange(3))
    t1 = rot([n1, n0, n3], rng.randrange(3))
    if kind == 'samedir':
        t1 = rot([n0, n1, n3], rng.randrange(3))
    if kind == 'reversed':
        t1 = rot([n1, n0, n2], rng.randrange(3))
    s.tri(*t0, ida)
    if kind != 'single':
        s.tri(*t1, idb)
    if kind == 'three':
        s.tri(n0, n1, n4, ida)
    if kind == 'edg':
        s.edg(n0, n1, 3)
    if kind == 'boundary':
        s.edg(n0, n2, 3)
        s.edg(n2, n1, 3)
        s.edg(n1, n3, 4)
        s.edg(n3, n0, 4)
    return s, n0, n1, n2, n3


def patch2d(rng, m, n):
    s = Sess(rng)
    ids = {}
    for j in range(n):
        for i in range(m):
            jit = 0.0 if (i in (0, m - 1) or j in (0, n - 1)) else 0.2
            ids[i, j] = s.node(i + rng.uniform(-jit, jit), j + rng.uniform(-jit, jit), 0.0)
    s.initg()
    for j in range(n - 1):
        for i in range(m - 1):
            a, b, c, d = ids[i, j], ids[i + 1, j], ids[i + 1, j + 1], ids[i, j + 1]
            if rng.random() < 0.5:
                s.tri(a, b, c, 1)
                s.tri(a, c, d, 1)
            else:
                s.tri(a, b, d, 1)
                s.tri(b, c, d, 1)
    for i in range(m - 1):
        s.edg(ids[i, 0], ids[i + 1, 0], 1)
        s.edg(ids[i + 1, n - 1], ids[i, n - 1], 3)
    for j in range(n - 1):
        s.edg(ids[m - 1, j], ids[m - 1, j + 1], 2)
        s.edg(ids[0, j + 1], ids[0, j], 4)
    return s, ids


KUHN = [(0, 1, 3, 7), (0, 1, 5, 7), (0, 2, 3, 7), (0, 2, 6, 7), (0, 4, 5, 7), (0, 4, 6, 7)]


def patch3d(rng, m):
    s = Sess(rng)
    ids = {}
    for k in range(m):
        for j in range(m):
            for i in range(m):
                inner = all(0 < q < m - 1 for q in (i, j, k))
                jit = 0.15 if inner else 0.0
                ids[i, j, k] = s.node(i + rng.uniform(-jit, jit), j + rng.uniform(-jit, jit),
                                      k + rng.uniform(-jit, jit))
    s.initg()
    faces = Counter()
    tets = []
    for k in range(m - 1):
        for j in range(m - 1):
            for i in range(m - 1):
                c = [ids[i + (q & 1), j + ((q >> 1) & 1), k + ((q >> 2) & 1)] for q in range(8)]
                for t in KUHN:
                    tt = [c[q] for q in t]
                    tets.append(tt)
                    s.tet(*tt)
                    for q in range(4):
                        faces[tuple(sorted(tt[:q] + tt[q + 1:]))] += 1
    for f, c in faces.items():
        if c == 1:
            s.tri(f[0], f[1], f[2], 1)
    return s, ids


def gen_fn(rng, tier):
    ops = []
    reps = 1 if tier == 'quick' else 4
    for _ in range(reps):
        # --- 3-D edge stars: split / collapse / trial_reject
        for k in [3, 4, 5, 6, 8, rng.randrange(3, 12)]:
            for closed in (True, False):
                if not closed and k < 2:
                    continue
                for what in ('split', 'collapse', 'collapse_r', 'trial', 'mix'):
                    kw = {}
                    r = rng.random()
                    if r < 0.15:
                        kw['drop'] = rng.randrange(k)
                    elif r < 0.3:
                        kw['dup'] = rng.randrange(max(1, k - 1))
                    s, a, b, ring = edge_star(rng, k, closed, with_edg=rng.random() < 0.5, **kw)
                    if what == 'split':
                        s.op('split %d %d %s' % (a, b, wgt(rng)))
                        s.op('split %d %d %s' % (a, s.n, wgt(rng)))       # split one of the halves again
                        s.op('split %d %d %s' % (ring[0], ring[1 % k], wgt(rng)))
                    elif what == 'collapse':
                        s.op('collapse %d %d' % (a, b))
                        s.op('split %d %d %s' % (a, ring[0], wgt(rng)))   # re-uses the freed slot and global
                    elif what == 'collapse_r':
                        s.op('collapse %d %d' % (ring[0], a))
                        s.op('collapse %d %d' % (b, ring[1 % k]))
                    elif what == 'trial':
                        s.op('trial_reject %d %d %s' % (a, b, wgt(rng)))
                        s.op('trial_reject %d %d %s' % (a, ring[0], wgt(rng)))
                        s.op('split %d %d %s' % (a, b, wgt(rng)))
                        s.op('trial_reject %d %d %s' % (a, b, wgt(rng)))
                    else:
                        for _ in range(6):
                            u, v = rng.sample(range(s.n + 2), 2)
                            s.op(rng.choice(['split %d %d ' + wgt(rng), 'collapse %d %d', 'trial_reject %d %d ' +
                                             wgt(rng), 'swap %d %d']) % (u, v))
                    ops += s.ops
        # --- at and above MAX_CELL_SPLIT / MAX_CELL_COLLAPSE
        for k, closed in [(100, True), (101, True), (101, False), (102, False), (103, True)]:
            for first in ('split %d %d ' + wgt(rng), 'collapse %d %d'):   # each limit on an untouched star
                s, a, b, ring = edge_star(rng, k, closed, with_edg=True)
                s.op(first % (a, b))
                s.op('collapse %d %d' % (a, b))
                s.op('trial_reject %d %d %s' % (a, b, wgt(rng)))
                ops += s.ops
        # more than MAX triangles (and edgs) around an edge with few tets: the later groups fail after the tets changed
        for grp in ('tri', 'edg'):
            s, a, b, ring = edge_star(rng, 4, True)
            extra = [s.node(2.0 + i, 0.0, 0.0) for i in range(101)]
            s.initg()
            for i, e in enumerate(extra):
                if grp == 'tri':
                    s.tri(a, b, e, 1)
                else:
                    s.edg(a, b, i)
            s.op('split %d %d %s' % (a, b, wgt(rng)))
            s.op('collapse %d %d' % (a, b))
            ops += s.ops
        # --- 2-D triangle pairs: swap and its error statuses
        for kind in ['ok', 'ok', 'ids', 'samedir', 'reversed', 'single', 'three', 'edg', 'boundary']:
            for _ in range(2):
                s, n0, n1, n2, n3 = tri_pair(rng, kind)
                u, v = (n0, n1) if rng.random() < 0.5 else (n1, n0)
                s.ops.append('node23 %d %d' % (u, v))
                s.op('swap %d %d' % (u, v))
                s.ops.append('node23 %d %d' % (n2, n3))
                s.op('swap %d %d' % (n2, n3))                            # swap back (or an error)
                s.op('split %d %d %s' % (n0, n1, wgt(rng)))
                s.op('collapse %d %d' % (n2, n0))
                s.op('swap %d %d' % (n0, n0))
                ops += s.ops
        # --- op sequences on patches
        for _ in range(3):
            s, ids = patch2d(rng, rng.randrange(3, 6), rng.randrange(3, 5))
            for _ in range(14):
                u, v = rng.sample(range(s.n + 3), 2)
                if rng.random() < 0.7:      # prefer real edges
                    cells = [o.split()[1:4] for o in s.ops if o.startswith('tri ')]
                    c = rng.choice(cells)
                    u, v = [int(x) for x in rng.sample(c, 2)]
                s.op(rng.choice(['split %d %d ' + wgt(rng), 'split %d %d ' + wgt(rng), 'collapse %d %d',
                                 'trial_reject %d %d ' + wgt(rng), 'swap %d %d', 'swap %d %d']) % (u, v))
            ops += s.ops
        for _ in range(2):
            s, ids = patch3d(rng, 3)
            for _ in range(8):
                cells = [o.split()[1:5] for o in s.ops if o.startswith('tet ')]
                c = rng.choice(cells)
                u, v = [int(x) for x in rng.sample(c, 2)]
                s.op(rng.choice(['split %d %d ' + wgt(rng), 'split %d %d ' + wgt(rng), 'collapse %d %d',
                                 'trial_reject %d %d ' + wgt(rng)]) % (u, v))
            ops += s.ops
        # --- malformed / soup
        for _ in range(4):
            s = Sess(rng)
            for i in range(rng.randrange(2, 9)):
                s.node(rng.uniform(0, 1), rng.uniform(0, 1), rng.uniform(0, 1), g=rng.choice([i, i, i + 3, 50 - i]))
            if rng.random() < 0.7:
                s.initg(rng.choice([s.n, 0, 60]))
            for _ in range(rng.randrange(3, 14)):
                kind = rng.choice(['tet', 'tri', 'edg'])
                vs = [rng.randrange(-1, s.n + 2) for _ in range(NP[kind])]
                s.ops.append('%s %s' % (kind, ' '.join(map(str, vs + ([rng.randrange(1, 4)] if kind != 'tet' else [])))))
            for _ in range(8):
                u, v = rng.randrange(-1, s.n + 3), rng.randrange(-1, s.n + 3)
                s.op(rng.choice(['split %d %d ' + wgt(rng), 'collapse %d %d', 'trial_reject %d %d ' + wgt(rng),
                                 'swap %d %d', 'node23 %d %d']) % (u, v))
            s.ops += ['split 1 2', 'tet 0 1 2', 'collapse 0 100000', 'swap x y', 'bogus', 'node 1 0 0 0']
            ops += s.ops
    return ops


# ---------------------------------------------------------------------------------------------
# function-level oracle
# ---------------------------------------------------------------------------------------------
def parse_dump(line):
    sec = line.split(' | ')
    nodes = {}
    for w in sec[1].split():
        v, g, x, y, z = w.split(':')
        nodes[int(v)] = (int(g), (unhx(x), unhx(y), unhx(z)), (x, y, z))
    unused = [int(x) for x in sec[2].split()[1:]]
    old_n, new_n = [int(x) for x in sec[3].split()]
    cells = {}
    for k, s in zip(('tet', 'tri', 'edg'), sec[4:7]):
        cells[k] = [[int(x) for x in w.split(',')] for w in s.split()[1:]]
    return {'n': int(sec[0].split()[1]), 'nodes': nodes, 'unused': unused, 'old': old_n, 'new': new_n, 'cells': cells}


def pool_canon(d):
    """abstract id pool = unused ∪ [eff_new, ∞), canonical form"""
    new = d['new'] if d['new'] != -1 else d['n']
    un = sorted(d['unused'])
    while un and un[-1] == new - 1 and un.count(un[-1]) == 1:
        un.pop()
        new -= 1
    return (tuple(un), new)


def abstract_state(d):
    return ({v: (g, bits) for v, (g, _, bits) in d['nodes'].items()},
            {k: Counter(map(tuple, rows)) for k, rows in d['cells'].items()}, pool_canon(d))


def msub(np_, old, new, r):
    return tuple([new if v == old else v for v in r[:np_]] + list(r[np_:]))


def nodeg(cells):
    return all(len(set(r[:NP[k]])) == NP[k] for k, rows in cells.items() for r in rows)


def oracle_fn(ops, impl):
    out = []
    n = min(len(ops), len(impl))
    for i in range(1, n - 1):
        if ops[i - 1] != 'dump' or ops[i + 1] != 'dump' or i + 1 >= n:
            continue
        w = ops[i].split()
        res = impl[i].split()
        if not impl[i - 1].startswith('nodes ') or not impl[i + 1].startswith('nodes '):
            continue
        pre, post = parse_dump(impl[i - 1]), parse_dump(impl[i + 1])
        a_pre, a_post = abstract_state(pre), abstract_state(post)
        kind = w[0]
        try:
            n0, n1 = int(w[1]), int(w[2])
        except (IndexError, ValueError):
            n0 = n1 = None
        if res[0] in ('bad-op', 'not-allowed', 'not-manifold', 'degenerate', 'invalid-end') or kind == 'node23':
            if impl[i - 1] != impl[i + 1]:
                out.append((i, '%s answered %s but changed the state' % (ops[i], impl[i])))
            continue
        if kind == 'trial_reject' and res[0] == 'ok':
            new, g = int(res[1]), int(res[2])
            if any(t[0] == g for t in pre['nodes'].values()):
                continue   # the id pool handed out a live global (the session broke n_global on purpose): no claim
            if a_pre != a_post:
                out.append((i, 'rejected trial changed the abstract state (nodes/cells/id pool)'))
            if new in post['nodes']:
                out.append((i, 'trial vertex %d still valid after the reject' % new))
            if not post['unused'] or post['unused'][-1] != g:
                out.append((i, 'global %d of the withdrawn trial vertex is not on top of the unused list' % g))
            continue
        if kind == 'split' and res[0] == 'increase_limit' and nodeg(pre['cells']) and \
                sum(1 for r in pre['cells']['tet'] if n0 in r and n1 in r) > 100:
            if a_pre != a_post:
                out.append((i, 'split refused with increase_limit but the abstract state changed'))
            continue
        if kind in ('split', 'collapse') and res[0] == 'ok' and (n0 not in pre['nodes'] or n1 not in pre['nodes']):
            continue   # an end point is a stale slot (possibly re-issued to the trial vertex): no claim
        if kind == 'split' and res[0] == 'ok' and nodeg(pre['cells']):
            new, g = int(res[1]), int(res[2])
            wt = unhx(w[3])
            if any(t[0] == g for t in pre['nodes'].values()) or \
                    any(new in r[:NP[k]] for k, rows in pre['cells'].items() for r in rows):
                continue   # pool handed out a live global / cells reference a stale slot (soup sessions): no claim
            if new in pre['nodes'] or new not in post['nodes'] or post['nodes'][new][0] != g:
                out.append((i, 'new vertex %d / global %d not created as reported' % (new, g)))
                continue
            x0, x1 = pre['nodes'][n0][1], pre['nodes'][n1][1]
            exp = tuple(hx((1.0 - wt) * p + wt * q) for p, q in zip(x0, x1))
            if post['nodes'][new][2] != exp:
                out.append((i, 'new vertex not at (1-w)*x0 + w*x1'))
            for k, rows in pre['cells'].items():
                exp_c = Counter()
                for r in rows:
                    if n0 in r[:NP[k]] and n1 in r[:NP[k]]:
                        exp_c[msub(NP[k], n0, new, r)] += 1
                        exp_c[msub(NP[k], n1, new, r)] += 1
                    else:
                        exp_c[tuple(r)] += 1
                if exp_c != a_post[1][k]:
                    out.append((i, 'split: %s group is not "two halves for every cell on the edge, rest unchanged"' % k))
            if {v: x for v, x in a_post[0].items() if v != new} != a_pre[0]:
                out.append((i, 'split changed another vertex'))
            # a valid star stays valid (3-D if there are tets, else 2-D)
            twod = not pre['cells']['tet']
            xyz_pre = {v: t[1] for v, t in pre['nodes'].items()}
            xyz_post = {v: t[1] for v, t in post['nodes'].items()}
            if n0 != n1 and not local_valid(twod, star(pre['cells'], [n0, n1]), xyz_pre, [n0, n1]):
                bad = local_valid(twod, star(post['cells'], [n0, n1, new]), xyz_post, [n0, n1, new])
                if bad:
                    out.append((i, 'valid star became invalid after split: ' + '; '.join(bad[:3])))
            continue
        if kind == 'collapse' and res[0] == 'ok' and nodeg(pre['cells']):
            if n1 in post['nodes']:
                out.append((i, 'collapsed vertex %d is still valid' % n1))
            g1 = pre['nodes'][n1][0]
            if not post['unused'] or post['unused'][-1] != g1:
                out.append((i, 'global %d of the removed vertex not pushed on the unused list' % g1))
            for k, rows in pre['cells'].items():
                exp_c = Counter()
                for r in rows:
                    if n0 in r[:NP[k]] and n1 in r[:NP[k]]:
                        continue
                    exp_c[msub(NP[k], n1, n0, r)] += 1
                if exp_c != a_post[1][k]:
                    out.append((i, 'collapse: %s group is not "cells with both removed, n1 -> n0 elsewhere"' % k))
                if n0 != n1 and any(n1 in r[:NP[k]] for r in post['cells'][k]):
                    out.append((i, 'removed vertex %d still referenced by a %s' % (n1, k)))
            if {v: x for v, x in a_pre[0].items() if v != n1} != a_post[0]:
                out.append((i, 'collapse changed another vertex'))
            continue
        if kind == 'swap' and res[0] == 'ok':
            both = [r for r in pre['cells']['tri'] if n0 in r[:3] and n1 in r[:3]]
            if len(both) != 2:
                out.append((i, 'swap accepted with %d triangles on the edge' % len(both)))
                continue
            others = []
            for r in both:
                k = r.index(n0)
                others.append((r[(k + 1) % 3] == n1, [v for v in r[:3] if v not in (n0, n1)][0]))
            n2 = [o for fwd, o in others if fwd]
            n3 = [o for fwd, o in others if not fwd]
            exp_c = Counter(map(tuple, pre['cells']['tri']))
            for r in both:
                exp_c[tuple(r)] -= 1
            exp_c += Counter()
            ident = both[0][3]
            got = a_post[1]['tri']
            new_rows = got - exp_c
            ok = len(n2) == 1 and len(n3) == 1 and (exp_c - got) == Counter() and \
                new_rows == Counter([(n0, n3[0], n2[0], ident), (n1, n2[0], n3[0], ident)])
            if not ok:
                out.append((i, 'swap: triangles are not (n0,n3,n2),(n1,n2,n3) with the shared id'))
            if a_post[1]['tet'] != a_pre[1]['tet'] or a_post[1]['edg'] != a_pre[1]['edg'] or a_post[0] != a_pre[0] \
                    or a_post[2] != a_pre[2]:
                out.append((i, 'swap changed something else'))
            # combinatorial validity of the 2-D star is kept (geometry is the pass's business)
            xyz = {v: (0.0, 0.0, 0.0) for v in pre['nodes']}
            comb = lambda cells, vs: [b for b in local_valid(True, star(cells, vs), xyz, vs) if 'oriented' not in b]
            if not pre['cells']['tet'] and len(n2) == 1 and len(n3) == 1 and \
                    not comb(pre['cells'], [n0, n1, n2[0], n3[0]]):
                bad = comb(post['cells'], [n0, n1, n2[0], n3[0]])
                if bad:
                    out.append((i, 'valid 2-D star became invalid after swap: ' + '; '.join(bad[:3])))
            continue
        if res[0] in ('failure', 'increase_limit') and kind == 'swap':
            if impl[i - 1] != impl[i + 1]:
                out.append((i, 'failed swap changed the state'))
    return out


def nontrivial(op, out):
    return not (out.startswith('bad-op') or out == 'ok' or out.startswith('nodes '))


# ---------------------------------------------------------------------------------------------
# run level: hooked real passes
# ---------------------------------------------------------------------------------------------
def gen_run(rng, tier):
    ops = []
    reps = 1 if tier == 'quick' else 4
    for _ in range(reps):
        # 2-D: refine, coarsen, anisotropic, boundary layer; every pass kind alone and inside ref_adapt_pass
        ops.append('run 2 %d %d iso %s %s' % (rng.randrange(3, 6), rng.randrange(1, 99), hx(rng.uniform(0.12, 0.25)), 'aa'))
        ops.append('run 2 %d %d iso %s %s' % (rng.randrange(6, 9), rng.randrange(1, 99), hx(rng.uniform(0.35, 0.6)), 'aa'))
        ops.append('run 2 %d %d aniso %s %s' % (rng.randrange(4, 7), rng.randrange(0, 99), hx(rng.uniform(0.08, 0.15)), 'aaa'))
        ops.append('run 2 %d %d %s %s %s' % (rng.randrange(5, 8), rng.randrange(1, 99), rng.choice(['bl', 'lin']),
                                             hx(rng.uniform(0.15, 0.3)),
                                             ''.join(rng.choice('scwma') for _ in range(5))))
        # 3-D
        ops.append('run 3 3 %d iso %s %s' % (rng.randrange(1, 99), hx(rng.uniform(0.25, 0.35)), 'a'))
        ops.append('run 3 4 %d iso %s %s' % (rng.randrange(1, 99), hx(rng.uniform(0.6, 0.9)), 'aa'))
        ops.append('run 3 3 %d aniso %s %s' % (rng.randrange(0, 99), hx(rng.uniform(0.15, 0.25)), 'aa'))
        ops.append('run 3 3 %d %s %s %s' % (rng.randrange(1, 99), rng.choice(['lin', 'bl']), hx(rng.uniform(0.2, 0.3)),
                                            ''.join(rng.choice('scma') for _ in range(4))))
    # pole fixture: an axis edge surrounded by more tets than MAX_CELL_SPLIT (ref_split_edge answers REF_INCREASE_LIMIT after
    # the trial vertex exists: the fourth reject branch of ref_split_pass) and just below the limit (accepted)
    ops.append('run 5 %d 0 pole %s s' % (rng.randrange(101, 140), hx(rng.uniform(0.4, 0.6))))
    ops.append('run 5 %d 0 pole %s %s' % (rng.randrange(60, 101), hx(rng.uniform(0.4, 0.6)), rng.choice(['s', 'ss', 'a'])))
    ops += ['run 4 3 1 iso %s a' % hx(0.3), 'run 2 3 1 iso 0 a', 'run 5 201 0 pole %s s' % hx(0.5), 'bogus']
    return ops


def parse_rec(line):
    sec = line.split(' | ')
    hw = sec[0].split()
    r = {'phase': hw[1], 'kind': hw[2], 'ints': [int(x) for x in hw[3:6]]}
    for w in hw[6:]:
        k, v = w.split('=')
        r[k] = v
    r['twod'] = r['twod'] == '1'
    r['valid'] = [c == '1' for c in r['valid']]
    r['xyz'], r['reals'], r['glob'] = {}, {}, {}
    for w in sec[1].split()[1:]:
        f = w.split(':')
        v = int(f[0])
        r['glob'][v] = int(f[1])
        r['reals'][v] = f[2:]
        r['xyz'][v] = tuple(unhx(x) for x in f[2:5])
    r['cells'] = {}
    for k, sct in zip(('tet', 'tri', 'edg'), sec[2:5]):
        r['cells'][k] = sorted([int(x) for x in w.split(',')] for w in sct.split()[1:])
    return r


def oracle_run(ops, impl):
    """C13 stated directly on the records of the real passes: after every accept (split, collapse, swap, cavity
    replacement, accepted trial) and every vertex move the star of the touched vertices is locally valid; a
    rejected trial / a restored smoothing attempt has the structural hash of its begin record"""
    out = []
    pend = {}
    nrec = 0
    for i, line in enumerate(impl):
        if not line.startswith('rec '):
            continue
        nrec += 1
        r = parse_rec(line)
        kind, phase = r['kind'], r['phase']
        if phase == 'begin':
            pend[kind] = r
            continue
        b = pend.pop(kind, None)
        if b is None:
            out.append((0, 'record %d: %s %s without begin' % (i, phase, kind)))
            continue
        ints = r['ints']
        touched = [v for v, ok in zip(ints, r['valid']) if ok and v >= 0]
        gone = [v for v, ok in zip(ints, r['valid']) if not ok and v >= 0]
        where = 'record %d (%s %s %s)' % (i, phase, kind, ints)
        if phase == 'accept' or (phase == 'end' and r['reals'].get(ints[0], [])[:3] != b['reals'].get(ints[0], [])[:3]):
            bad = local_valid(r['twod'], r['cells'], r['xyz'], touched, gone)
            if bad:
                out.append((0, where + ': not locally valid: ' + '; '.join(bad[:3])))
            if kind == 'collapse_edge':
                if r['valid'][1]:
                    out.append((0, where + ': removed vertex still valid'))
                if int(r['utop']) != b['glob'].get(ints[1]):
                    out.append((0, where + ': global id of the removed vertex not on the unused list'))
            if phase == 'end' and r['cells'] != b['cells']:
                out.append((0, where + ': a vertex move changed cells'))
        elif phase == 'reject':
            if r['hash'] != b['hash']:
                out.append((0, where + ': rejected attempt changed the mesh (structural hash differs)'))
            if r['cells'] != b['cells']:
                out.append((0, where + ': rejected attempt changed the star'))
            if r['valid'][2]:
                out.append((0, where + ': trial vertex still valid'))
            if any(ints[2] in c[:NP[k]] for k, rows in r['cells'].items() for c in rows):
                out.append((0, where + ': trial vertex still referenced'))
        elif phase == 'end':  # not moved
            ma, mb = r['reals'].get(ints[0], []), b['reals'].get(ints[0], [])
            if len(ma) != len(mb) or any(x != y and not abs(unhx(x) - unhx(y)) <= 1e-9 * max(abs(unhx(x)), abs(unhx(y)))
                                         for x, y in zip(ma[3:], mb[3:])):
                out.append((0, where + ': coordinates restored but metric not (beyond re-interpolation rounding)'))
            if r['hashs'] != b['hashs']:
                out.append((0, where + ': restored smoothing attempt changed the mesh (structural hash differs)'))
    return out[:20]


FN = Stream('meshops_fn', 'h_meshops', 'meshops', gen_fn, oracle=oracle_fn, whitebox=['ref_swap'],
            nontrivial=nontrivial)
RUN = Stream('meshops_run', 'h_meshops', 'meshops', gen_run, oracle=oracle_run, kind='validate',
             whitebox=['ref_swap'], harness_args=('run',), driver_args=('validate',), session='run',
             nontrivial=lambda op, out: out.startswith('rec'))
STREAMS = [FN, RUN]
