from . import streams_search, cli, streams_physdist

ID = 'C12'
PROPS_MODULE = ['Refine.Props.C12']
STREAMS = [streams_search.TREE, streams_search.NEAREST, streams_search.KERNEL, streams_search.SCALE_TIE,
           streams_search.SCALE, cli.DISTANCE, cli.DISTANCE_MPI,
           streams_physdist.PAR, streams_physdist.BC, streams_physdist.TAGS]

EXPLANATION = (
    'Proved in Lean over exact real arithmetic, for the executable model of ref_search.c / '
    'ref_node_bounding_sphere_xyz / the tree loop of ref_phys_wall_distance (every tree shape = every '
    'insertion order): ref_search_insert preserves "dist(c_p,c_q)+r_q <= children_ball_p for every descendant q" '
    '(insert_BallInv, build_BallInv); ref_search_touching returns exactly the overlapping spheres in pre-order '
    '(touching_exact, touching_superset, touching_only_overlaps); the branch-and-bound of '
    'ref_search_nearest_element equals the plain minimum of the start value and the kernel distances of all '
    'inserted elements when each element lies in its sphere (nearest_exact, nearestSeg_exact, nearestTri_exact), '
    'which the bounding-sphere + (1+1e-8) construction guarantees for every permutation '
    '(boundingSphere_contains, boundingSphere_contains_element, wallDistance_seg_exact, wallDistance_tri_exact); '
    'ref_search_trim / nearest_candidates (trim_exact, nearestCandidates_sound); ref_search_distance2 is '
    'attained on the segment and is the minimum when its divisible guard passes or the segment has zero length, '
    'within relative 1e-20 otherwise (dist2seg_attained, dist2seg_min, dist2seg_near_min, segGuard_of_close); '
    'ref_search_distance3 is attained on the triangle and is the minimum over the WHOLE closed triangle '
    '(interior and degenerate triangles included) up to the same guard slack (dist2tri_attained, dist2tri_min, '
    'dist2tri_min_exact, dist2tri_near_min; same for the candidate repair: dist2triFixed_attained_min). '
    'Tie: the same definitions at Float reproduce the C bit for bit (array dumps after inserts, touching lists '
    'incl. order, trim radius, candidate lists, nearest-element distances, d2/d3 kernels, bounding spheres) on '
    'random / clustered / collinear / lattice / duplicate / sorted / 1e-30..1e30-scaled spheres and on patch, '
    'needle, degenerate, planar, lattice and strip element sets in random insertion orders; op walldist runs the '
    'REAL ref_phys_wall_distance (serial, its own rand() shuffle, wall subset chosen through the bc dict) on a grid '
    'made of the generated elements and is bit-compared with the model built in a fixed order. Oracles on the '
    "implementation's own output, exact rational arithmetic: BallInv on dumped arrays, brute-force overlap "
    'sets, brute-force minimum with an independent point-segment/point-triangle routine at 1e-12 L. '
    'Stream search_scale additionally checks the 1e-12 L accuracy of ref_search_distance3 over element sizes '
    '1e-6..1e8 and needle aspect ratios to 1e4: that fails on /repo today (known finding, site '
    'ref_search_distance3:unnormalised-normal-projection) although model and C agree bit for bit.')

ASSUMPTIONS = [
    'IEEE rounding in every REF_DBL kernel is modelled (Float instance, bit-compared with the C), not verified: '
    'the theorems hold in exact arithmetic',
    'the 1+1e-8 inflation of the bounding-sphere radius in ref_phys_wall_distance is what absorbs rounding of the '
    'pruning tests; it is part of the model (wallBuild) and of the theorems, its sufficiency in floating point is '
    'not proved (the brute-force oracle checks it on generated inputs)',
    'ref_math_divisible (1e20) guards are part of the model: where a guard fails for a non-degenerate segment '
    '(query >= 1e20 segment lengths away) the kernels are only within relative 1e-20 of the minimum (proved)',
    'the 1e-12 L accuracy oracle of the default streams covers well-scaled elements (edge length <~ 4 mesh units, '
    'aspect ratio <~ 1e3); outside that regime ref_search_distance3 loses accuracy in floating point (un-normalised '
    'normal in the projection: error ~ eps*h^4*d, O(h) for edge length >~ 50) - reported by search_scale as a '
    'known finding, not hidden; needle triangles of aspect ratio >= 1e5 are ill-conditioned for the barycentric '
    'formula (measured 2e-12 L at 1e5, 3e-11 L at 1e6, 4e-9 L at 1e8, with or without the candidate repair) and '
    'are only bit-compared, not accuracy-checked',
    'modelled by hand and tied by differential execution: ref_search.c completely except ref_search_selection '
    '(MPI bisection), ref_search_dist3 (unused Ericson variant), ref_search_depth/stats/tec (diagnostics); '
    'ref_node_bounding_sphere_xyz and ref_node_bounding_sphere (ops bsphere, bspheren); the insertion loop of ref_phys_wall_distance with the permutation as input '
    '(op wallbuild; ref_sort_shuffle uses rand(): the theorems quantify over every permutation instead) and the '
    'whole serial ref_phys_wall_distance incl. ref_phys_local_wall for edg/tri walls selected by the bc dict '
    '(op walldist; the Float model inserts in index order - agreement of the bits with the C, which inserts in '
    'rand() order, is itself evidence that the float pruning dropped no nearer element on those inputs)',
    'not covered here: the np>1 part of ref_phys_wall_distance (node balancing, bcast of wall parts in chunks of '
    '1e6 cells, alltoallv of distances, ghost update), quads split into two triangles by ref_phys_local_wall, '
    'ref_phys_wall_distance_static; run-level `ref distance`/`refmpi distance` streams belong to the CLI checks',
    'heap/pointer/32-bit index behaviour of the C arrays is modelled with unbounded Nat/Int and an inductive tree '
    'whose nodes remember their array slot; element ids outside the caller-supplied xyz array are undefined '
    'behaviour in the C and are excluded by the harness (bad-op)',
]

TRUSTED = ['harness/h_search.c, checks/streams_search.py (generators, exact-rational oracles, the Python '
           'transcription of ref_search_distance3 used to attribute failures to the known finding)']
