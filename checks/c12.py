from . import streams_search, cli, streams_physdist

ID = 'C12'
PROPS_MODULE = ['Refine.Props.C12', 'Refine.Props.C12Par']
STREAMS = [streams_search.TREE, streams_search.NEAREST, streams_search.KERNEL, streams_search.SCALE_TIE,
           streams_search.SCALE, cli.DISTANCE, cli.DISTANCE_MPI,
           streams_physdist.PAR, streams_physdist.BC, streams_physdist.TAGS]

EXPLANATION = (
    'Proved in Lean over exact real arithmetic, for the executable model of ref_search.c / '
    'ref_node_bounding_sphere_xyz / the tree loop of ref_phys_wall_distance (every tree shape = every '
    'insertion order): ref_search_insert preserves "dist(c_p,c_q)+r_q <= children_ball_p for every descendant q" '
    '(insert_BallInv, build_BallInv); ref_search_touching returns exactly the overlapping spheres in pre-order '
    '(touching_exact, touching_superset, touching_only_overlaps); the branch-and-bound of '
    'ref_search_nearest_element equals the plain minimum of the start value and the kernel distances of all '
    'inserted elements when each element lies in its sphere (nearest_exact, nearestSeg_exact, nearestTri_exact), '
    'which the bounding-sphere + (1+1e-8) construction guarantees for every permutation '
    '(boundingSphere_contains, boundingSphere_contains_element, wallDistance_seg_exact, wallDistance_tri_exact); '
    'ref_search_trim / nearest_candidates (trim_exact, nearestCandidates_sound); ref_search_distance2 is '
    'attained on the segment and is the minimum when its divisible guard passes or the segment has zero length, '
    'within relative 1e-20 otherwise (dist2seg_attained, dist2seg_min, dist2seg_near_min, segGuard_of_close); '
    'ref_search_distance3 is attained on the triangle and is the minimum over the WHOLE closed triangle '
    '(interior and degenerate triangles included) up to the same guard slack (dist2tri_attained, dist2tri_min, '
    'dist2tri_min_exact, dist2tri_near_min; same for the candidate repair: dist2triFixed_attained_min). '
    'Tie: the same definitions at Float reproduce the C bit for bit (array dumps after inserts, touching lists '
    'incl. order, trim radius, candidate lists, nearest-element distances, d2/d3 kernels, bounding spheres) on '
    'random / clustered / collinear / lattice / duplicate / sorted / 1e-30..1e30-scaled spheres and on patch, '
    'needle, degenerate, planar, lattice and strip element sets in random insertion orders; op walldist runs the '
    'REAL ref_phys_wall_distance (serial, its own rand() shuffle, wall subset chosen through the bc dict) on a grid '
    'made of the generated elements and is bit-compared with the model built in a fixed order. Oracles on the '
    "implementation's own output, exact rational arithmetic: BallInv on dumped arrays, brute-force overlap "
    'sets, brute-force minimum with an independent point-segment/point-triangle routine at 1e-12 L. '
    'PARALLEL routine and wall selection (Props/C12Par over Model/PhysDist, package phys): the SPMD model of '
    'ref_phys_wall_distance - every rank spreads its owned vertices over all ranks by ref_part_implicit, a_size/b_size '
    'alltoall, a_next pack, alltoallv of the coordinates, ref_phys_bcast_parts chunks (max_ncell generated from the C), '
    'one tree per chunk in ANY insertion order, alltoallv of the answers, second a_next walk, ref_node_ghost_dbl - is '
    'proved to store at every vertex of every rank the minimum over ALL wall elements of ALL ranks of the kernel '
    'distance, for every rank count >= 1, every distribution (ranks without walls or vertices included) and every '
    'permutation on every rank and chunk (wallDistance_par_exact, wallDistance_par_exact_all, wallMin_spec, '
    'bcast_parts_partition; composed from wallDistance_tri/seg_exact per chunk, C17.alltoallv_spec twice, '
    'C06Ghost.ghostRefresh_spec and min-associativity); rank-count independence in exact arithmetic '
    '(wallMin_np_independent) and bit for bit for any value type under the NAMED hypothesis '
    'TreeReturnsMinOfKernelValues (wallDistance_par_bits; tree_returns_min_exact discharges it over the reals); '
    'ref_phys_local_wall lists exactly the stored edg (2-D) / tri and qua (3-D) cells whose id the dict maps to a '
    'viscous code, a quad as (0,1,2)+(0,2,3) which share the diagonal and cover the four vertices (localWall_spec, '
    'localWall_count, quad_two_triangles); for a distribution of a global mesh in which every cell is stored by at '
    'least one rank the union of the lists is the set of selected elements of the global mesh '
    '(localWall_covers_global, wallMin_global; there is NO ownership test in the C: a cell stored by k ranks is listed '
    'k times, harmless for min); the viscous codes are generated from ref_phys_wall_distance_bc and pinned to the '
    'FUN3D list (viscous_codes_fun3d, tags_type_viscous, isWall_iff_viscous); ref_phys_read_mapbc at character level '
    '(fscanf %d / fgets): a well-formed file selects exactly the ids whose last record carries a viscous code '
    '(mapbc_selects_viscous), any input is answered with ok/failure/null and a well-formed dict (mapbc_total); '
    '--viscous-tags (viscousTags_parse). Tie: stream physdist_par runs the REAL ref_phys_wall_distance[_static] on '
    'k = 1..np ranks (np = 1..5) of generated distributed grids and compares every stored vertex bit for bit with the '
    'model (trees built in index order), with the 1-rank run of the same mesh, with the other copies of the vertex, '
    'and with an exact-rational brute force over the selected elements of the whole mesh (1e-12 L); physdist_bc '
    'compares the REAL static ref_phys_local_wall, ref_phys_read_mapbc, ref_phys_read_mapbc_token, '
    'ref_phys_parse_tags, ref_phys_wall_distance_bc with the model on well-formed and malformed inputs; '
    'cli_distance_tags runs ref/refmpi distance with --fun3d-mapbc / --viscous-tags (serial, np=2,3) against a brute '
    'force over exactly the selected faces. '
    'Stream search_scale additionally checks the 1e-12 L accuracy of ref_search_distance3 over element sizes '
    '1e-6..1e8 and needle aspect ratios to 1e4: that fails on /repo today (known finding, site '
    'ref_search_distance3:unnormalised-normal-projection) although model and C agree bit for bit.')

ASSUMPTIONS = [
    'IEEE rounding in every REF_DBL kernel is modelled (Float instance, bit-compared with the C), not verified: '
    'the theorems hold in exact arithmetic',
    'the 1+1e-8 inflation of the bounding-sphere radius in ref_phys_wall_distance is what absorbs rounding of the '
    'pruning tests; it is part of the model (wallBuild) and of the theorems, its sufficiency in floating point is '
    'not proved (the brute-force oracle checks it on generated inputs)',
    'ref_math_divisible (1e20) guards are part of the model: where a guard fails for a non-degenerate segment '
    '(query >= 1e20 segment lengths away) the kernels are only within relative 1e-20 of the minimum (proved)',
    'the 1e-12 L accuracy oracle of the default streams covers well-scaled elements (edge length <~ 4 mesh units, '
    'aspect ratio <~ 1e3); outside that regime ref_search_distance3 loses accuracy in floating point (un-normalised '
    'normal in the projection: error ~ eps*h^4*d, O(h) for edge length >~ 50) - reported by search_scale as a '
    'known finding, not hidden; needle triangles of aspect ratio >= 1e5 are ill-conditioned for the barycentric '
    'formula (measured 2e-12 L at 1e5, 3e-11 L at 1e6, 4e-9 L at 1e8, with or without the candidate repair) and '
    'are only bit-compared, not accuracy-checked',
    'modelled by hand and tied by differential execution: ref_search.c completely except ref_search_selection '
    '(MPI bisection), ref_search_dist3 (unused Ericson variant), ref_search_depth/stats/tec (diagnostics); '
    'ref_node_bounding_sphere_xyz and ref_node_bounding_sphere (ops bsphere, bspheren); the insertion loop of ref_phys_wall_distance with the permutation as input '
    '(op wallbuild; ref_sort_shuffle uses rand(): the theorems quantify over every permutation instead) and the '
    'whole serial ref_phys_wall_distance incl. ref_phys_local_wall for edg/tri walls selected by the bc dict '
    '(op walldist; the Float model inserts in index order - agreement of the bits with the C, which inserts in '
    'rand() order, is itself evidence that the float pruning dropped no nearer element on those inputs)',
    'parallel routine: MPI_Bcast inside ref_phys_bcast_parts, MPI_Alltoall(v) and the ghost exchange are the trusted '
    'MPI semantics of Model/Comm (C17); hypotheses of wallDistance_par_exact (WorldOk): a rank stores a global once, '
    'the part of every ghost is a rank that stores the vertex as its own, nowned <= REF_INT_MAX/n (beyond that the C '
    'leaves the extra owned vertices at REF_DBL_MAX - modelled, not reachable by the harness), 3 x (number of stored '
    'vertices) fits an int; the chunk limit max_ncell = 1e6 is generated and the theorems hold for every limit, but '
    'the tie never reaches a second chunk (it would need > 1e6 wall elements)',
    'bit-identity across rank counts for doubles rests on TreeReturnsMinOfKernelValues (the float pruning with the '
    '1+1e-8 inflation drops no element that would lower the minimum) - stated as a named hypothesis of '
    'wallDistance_par_bits, proved only in exact arithmetic, CHECKED on every generated input (C output at k ranks '
    '== C output at 1 rank == index-order model, bit for bit); MIN is a semilattice only away from NaN and -0.0 '
    '(kernel values are sqrt of sums of squares)',
    'ref_phys_local_wall has no ownership test: ghost cells are listed again on every rank that stores them; the '
    'theorem is about sets (localWall_covers_global), multiplicity is irrelevant for min and is not claimed',
    'mapbc / tag parsers: character-level model of fscanf("%d") / fgets(1024) / strtok / atoi; numbers with 10 or more '
    'digits (int overflow in scanf/atoi is undefined) and NUL bytes are refused by the harness; for '
    'ref_phys_read_mapbc_token the input must end with a newline (at end of file fgets leaves `name` uninitialised '
    'in the C - not reached by distance, which uses ref_phys_read_mapbc); ref_phys_signed_distance, '
    'ref_phys_mask_strong_bcs and ref_phys_av_tag_attributes (EGADS) are not used by `ref distance` and not modelled',
    'heap/pointer/32-bit index behaviour of the C arrays is modelled with unbounded Nat/Int and an inductive tree '
    'whose nodes remember their array slot; element ids outside the caller-supplied xyz array are undefined '
    'behaviour in the C and are excluded by the harness (bad-op)',
]

TRUSTED = ['harness/h_search.c, checks/streams_search.py (generators, exact-rational oracles, the Python '
           'transcription of ref_search_distance3 used to attribute failures to the known finding)',
           'harness/h_physdist.c, checks/streams_physdist.py (generators, exact-rational brute force over the whole mesh, '
           'independent reading of well-formed mapbc files, the FUN3D viscous code list), tools/translate_more_phys.py']
