"""streams for the metric-field kernels (C10, C05): harness h_metric vs driver `metric`.

Every op carries its own mesh block
    MESH := twod nn <3*nn xyz> <6*nn metric> <nn owned 0|1> ncell <cells>
Generators: lattice bricks of hex / prism / pyramid / tet cells (2-D: quads / triangles), jittered, stretched,
tiny and huge, plus cells with random vertices; SPD fields R diag(l) R^T with l in 1e-6..1e8 and anisotropy
up to 1e4, embedded 2-D fields, degenerate / indefinite Hessians, uniform and log-linear fields.

Oracles state the property on the implementation's own output with an independent integrator: exact
rational volumes and determinants (fractions.Fraction), one correctly rounded sqrt per vertex, math.fsum.
"""
import math
import random
from decimal import Decimal
from fractions import Fraction

from .common import Stream
from . import streams_matrix as sm
from . import meshgen
from .streams_matrix import hx, unhx

EPS = 2.0 ** -52
SIZE = {'tri': 3, 'qua': 4, 'tet': 4, 'pyr': 5, 'pri': 6, 'hex': 8}
VOL = ('tet', 'pyr', 'pri', 'hex')
# the splits of ref_metric_complexity, restated (sub-simplex local indices)
SPLIT = {'tet': [(0, 1, 2, 3)],
         'pyr': [(0, 4, 1, 2), (0, 3, 4, 2)],
         'pri': [(0, 4, 5, 3), (0, 1, 5, 4), (0, 1, 2, 5)],
         'hex': [(0, 5, 7, 4), (0, 1, 7, 5), (1, 6, 7, 5), (0, 7, 2, 3), (0, 7, 1, 2), (1, 7, 6, 2)],
         'tri': [(0, 1, 2)],
         'qua': [(0, 1, 2), (0, 2, 3)]}


# ----------------------------------------------------------------------------------------------
# encoding / parsing
# ----------------------------------------------------------------------------------------------
class Mesh:
    def __init__(self, twod, xyz, metric, owned, cells):
        self.twod, self.xyz, self.metric, self.owned, self.cells = twod, xyz, metric, owned, cells

    def words(self, metric=None):
        metric = self.metric if metric is None else metric
        w = [str(int(self.twod)), str(len(self.xyz))]
        w += [hx(c) for p in self.xyz for c in p]
        w += [hx(c) for m in metric for c in m]
        w += [str(int(o)) for o in self.owned]
        w.append(str(len(self.cells)))
        for k, ns in self.cells:
            w.append(k)
            w += [str(n) for n in ns]
        return w


def parse_mesh(w):
    twod, nn = int(w[0]), int(w[1])
    f = [unhx(t) for t in w[2:2 + 9 * nn]]
    xyz = [tuple(f[3 * i:3 * i + 3]) for i in range(nn)]
    met = [tuple(f[3 * nn + 6 * i:3 * nn + 6 * i + 6]) for i in range(nn)]
    owned = [t == '1' for t in w[2 + 9 * nn:2 + 10 * nn]]
    k = 2 + 10 * nn
    nc = int(w[k])
    k += 1
    cells = []
    while k < len(w):
        kind = w[k]
        cells.append((kind, [int(t) for t in w[k + 1:k + 1 + SIZE[kind]]]))
        k += 1 + SIZE[kind]
    assert len(cells) == nc
    return Mesh(bool(twod), xyz, met, owned, cells)


def field_of(line):
    w = line.split()
    if not w or w[0] != 'ok':
        return w[0] if w else '', None
    f = [unhx(t) for t in w[1:]]
    return 'ok', [tuple(f[6 * i:6 * i + 6]) for i in range(len(f) // 6)]


# ----------------------------------------------------------------------------------------------
# independent integrator and matrix facts
# ----------------------------------------------------------------------------------------------
def fr(p):
    return [Fraction(c) for c in p]


def tet_vol_exact(a, b, c, d):
    a, b, c, d = fr(a), fr(b), fr(c), fr(d)
    u = [a[i] - d[i] for i in range(3)]
    v = [b[i] - d[i] for i in range(3)]
    w = [c[i] - d[i] for i in range(3)]
    det = (u[0] * (v[1] * w[2] - v[2] * w[1]) - u[1] * (v[0] * w[2] - v[2] * w[0]) + u[2] * (v[0] * w[1] - v[1] * w[0]))
    return -det / 6


def tri_area(a, b, c):
    a, b, c = fr(a), fr(b), fr(c)
    u = [b[i] - a[i] for i in range(3)]
    v = [c[i] - a[i] for i in range(3)]
    n = [u[1] * v[2] - u[2] * v[1], u[2] * v[0] - u[0] * v[2], u[0] * v[1] - u[1] * v[0]]
    n2 = n[0] * n[0] + n[1] * n[1] + n[2] * n[2]
    return fsqrt(n2) / 2


def fsqrt(q):
    """sqrt of a non-negative Fraction as a float with relative error ~1e-16 (scaled integer sqrt)"""
    if q <= 0:
        return 0.0
    n, d = q.numerator, q.denominator
    k = 120
    r = math.isqrt((n << (2 * k)) // d)
    return float(Fraction(r, 1 << k))


def det_exact(m):
    a, b, c, d, e, f = [Fraction(x) for x in m]
    return a * (d * f - e * e) - b * (b * f - e * c) + c * (b * e - d * c)


def minors(m):
    a, b, c, d, e, f = [Fraction(x) for x in m]
    return a, a * d - b * b, det_exact(m)


def is_spd_exact(m):
    return all(math.isfinite(x) for x in m) and all(x > 0 for x in minors(m))


def have_vol(mesh):
    return any(k in VOL and mesh.owned[min(ns)] for k, ns in mesh.cells)


def complexity_ref(mesh, metric):
    """(value, sum of |terms|): vertex-lumped quadrature on the simplex split, owned vertices, det > 0 only"""
    dens = {}

    def density(n):
        if n not in dens:
            d = det_exact(metric[n]) if all(math.isfinite(x) for x in metric[n]) else Fraction(-1)
            dens[n] = fsqrt(d) if d > 0 else 0.0
        return dens[n]

    terms = []
    slack = []
    vol = have_vol(mesh)
    for kind, ns in mesh.cells:
        if vol != (kind in VOL):
            continue
        for sub in SPLIT[kind]:
            idx = [ns[i] for i in sub]
            if vol:
                v = float(tet_vol_exact(*[mesh.xyz[i] for i in idx])) / 4.0
            else:
                v = tri_area(*[mesh.xyz[i] for i in idx]) / 3.0
            ext = max(abs(c) for i in idx for c in mesh.xyz[i])
            for n in idx:
                if mesh.owned[n]:
                    terms.append(density(n) * v)
                    slack.append(density(n) * (ext ** 3 if vol else ext ** 2) * 1e-4)
    # second value: sum of |terms| plus a rounding allowance for (nearly) degenerate simplices, whose computed
    # volume is a cancellation residue of products of size extent^dim
    return math.fsum(terms), math.fsum([abs(t) for t in terms] + slack)


def eigs(m):
    return sm_eigs(m)


def sm_eigs(m):
    vals, _ = sm.jacobi(sm.dec(sm.full(list(m))))
    return sorted(float(x) for x in vals)


def embedded(m):
    return m[2] == 0.0 and m[4] == 0.0 and m[5] == 1.0


def finite_field(f):
    return all(math.isfinite(x) for m in f for x in m)


def well_posed_field(mesh):
    """every vertex metric SPD in exact arithmetic with a moderate anisotropy: the family of the property text
    (anisotropy up to 1e4:1 in length, i.e. conditioning <= 1e8 of the tensor; for an embedded 2-D tensor the in-plane
    block counts).  Beyond that conditioning a double-precision tensor is positive definite only up to rounding and the
    statements about the VALUES (not the bit-comparison with the model) are not made."""
    for m in mesh.metric:
        if not is_spd_exact(m):
            return False
        if max(abs(x) for x in m) > 1e12:
            return False
        if mesh.twod and embedded(m):
            tr, det = m[0] + m[3], m[0] * m[3] - m[1] * m[1]
            disc = math.sqrt(max(tr * tr / 4.0 - det, 0.0))
            lo, hi = tr / 2.0 - disc, tr / 2.0 + disc
            if not (lo > 0 and hi / lo <= 1e8) and not (det > 0 and hi * hi / det <= 1e8):
                return False
        else:
            ev = sm_eigs(m)
            if not (ev[0] > 0 and ev[2] / ev[0] <= 1e8):
                return False
    return True


# ----------------------------------------------------------------------------------------------
# oracle
# ----------------------------------------------------------------------------------------------
def o_complexity(mesh, line, out):
    w = line.split()
    if w[0] != 'ok':
        out.append('complexity: status %s' % w[0])
        return
    c = unhx(w[1])
    if not finite_field(mesh.metric) or not finite_field(mesh.xyz):
        return
    ref, mag = complexity_ref(mesh, mesh.metric)
    if not math.isfinite(mag) or mag > 1e290:
        return
    # vertices whose determinant is within rounding of zero may fall on either side of the det > 0 filter
    if any(abs(float(det_exact(m))) <= 1e-10 * max(abs(x) for x in m) ** 3 for m in mesh.metric if max(abs(x) for x in m) > 0):
        return
    if not math.isfinite(c) or abs(c - ref) > 1e-9 * mag + 5e-324:
        out.append('complexity: implementation %.17e, independent integrator %.17e (sum |terms| %.3e)' % (c, ref, mag))


def o_spd_field(op, mesh, field, out, need_embed=True):
    for n, m in enumerate(field):
        if not all(math.isfinite(x) for x in m):
            out.append('%s: non-finite tensor at vertex %d' % (op, n))
            return False
        if not is_spd_exact(m):
            out.append('%s: tensor at vertex %d is not positive definite: %s' % (op, n, (m,)))
            return False
        if mesh.twod and need_embed and not embedded(m):
            out.append('%s: 2-D embedding lost at vertex %d: %s' % (op, n, (m,)))
            return False
    return True


def o_set_complexity(mesh, target, line, out):
    st, field = field_of(line)
    if not (finite_field(mesh.metric) and finite_field(mesh.xyz) and math.isfinite(target)):
        return
    cur, mag = complexity_ref(mesh, mesh.metric)
    sane = well_posed_field(mesh) and cur > 0 and mag < 1.5 * cur and 1e-250 < cur < 1e250 and 0 < target < 1e250 \
        and 1e-12 < target / cur < 1e12
    if mesh.twod:
        sane = sane and all(embedded(m) for m in mesh.metric)
    exact_exponent = mesh.twod == (not have_vol(mesh))   # exponent 1 with areas, 2/3 with volumes
    if not sane:
        return
    if st != 'ok':
        out.append('set_complexity: status %s on a well-posed field (current %.6e, target %.6e)' % (st, cur, target))
        return
    if len(field) != len(mesh.metric):
        out.append('set_complexity: %d tensors for %d vertices' % (len(field), len(mesh.metric)))
        return
    if not o_spd_field('set_complexity', mesh, field, out):
        return
    if not exact_exponent:
        return
    c, _ = complexity_ref(mesh, field)
    if abs(c - target) > 1e-8 * target:
        out.append('set_complexity: complexity of the output field is %.12e, requested %.12e' % (c, target))


def o_local_scale(mesh, p, line, out):
    st, field = field_of(line)
    if not finite_field(mesh.metric) or not well_posed_field(mesh):
        return
    if st != 'ok':
        out.append('local_scale: status %s' % st)
        return
    if mesh.twod and not all(embedded(m) for m in mesh.metric):
        # the C embeds first; the property is about the embedded field
        src = [(m[0], m[1], 0.0, m[3], 0.0, 1.0) for m in mesh.metric]
        if not all(is_spd_exact(m) for m in src):
            return
    else:
        src = mesh.metric
    if 2 * p + (2 if mesh.twod else 3) <= 0:
        return
    if not o_spd_field('local_scale', mesh, field, out):
        return
    e = -1.0 / (2 * p + (2 if mesh.twod else 3))
    for n, (a, b) in enumerate(zip(src, field)):
        # ref_metric_local_scale scales only when ref_matrix_det_m (Gaussian elimination in doubles, accurate to about
        # conditioning x 1e-16) returns a positive determinant: for an SPD tensor of conditioning beyond ~1e8 the computed
        # determinant can be <= 0 and the tensor is left as it is.  The statement is made for the conditioning of the
        # property's family (<= 1e8); beyond it the values are only bit-compared with the model.
        ev = sm_eigs(a)
        if not (ev[0] > 0 and ev[2] / ev[0] <= 1e8):
            continue
        s = float(det_exact(a)) ** e
        for k in ((0, 1, 3) if mesh.twod else range(6)):
            if abs(b[k] - a[k] * s) > 1e-9 * abs(a[k] * s) + 1e-300:
                out.append('local_scale: vertex %d component %d is %.12e, det^(-1/(2p+d)) M gives %.12e' % (n, k, b[k], a[k] * s))
                return


def o_limit_ar(mesh, ar, line, out):
    st, field = field_of(line)
    if not finite_field(mesh.metric) or not well_posed_field(mesh) or not math.isfinite(ar):
        return
    if mesh.twod and not all(embedded(m) for m in mesh.metric):
        return
    conds = []
    for m in mesh.metric:
        ev = eigs(m)
        conds.append(ev[-1] / ev[0])
    if max(conds) > 1e9:
        return
    if st != 'ok':
        out.append('limit_ar: status %s on an SPD field' % st)
        return
    if not o_spd_field('limit_ar', mesh, field, out):
        return
    ar2 = ar * ar if ar > 0.9999 else 1e12
    for n, (a, b) in enumerate(zip(mesh.metric, field)):
        if mesh.twod:
            ea = sorted(sm_eig2(a))
            eb = sorted(sm_eig2(b))
        else:
            ea, eb = eigs(a), eigs(b)
        if eb[-1] / eb[0] > ar2 * (1 + 1e-7):
            out.append('limit_ar: vertex %d has eigenvalue ratio %.9e > %.9e' % (n, eb[-1] / eb[0], ar2))
            return
        if abs(eb[-1] - ea[-1]) > 1e-8 * ea[-1]:
            out.append('limit_ar: vertex %d largest eigenvalue changed %.12e -> %.12e' % (n, ea[-1], eb[-1]))
            return
        for x, y in zip(ea, eb):
            if y < x * (1 - 1e-7):
                out.append('limit_ar: vertex %d eigenvalue lowered %.12e -> %.12e' % (n, x, y))
                return


def sm_eig2(m):
    a, b, d = m[0], m[1], m[3]
    t, dt = a + d, math.sqrt((a - d) ** 2 + 4 * b * b)
    big = (t + dt) / 2
    return [(a * d - b * b) / big if big != 0 else 0.0, big]


def o_abs_floor(op, mesh, line, out):
    """abs_hessian: output PSD with |spectrum| of the input; roundoff: eigenvalues raised to the floor => SPD"""
    st, field = field_of(line)
    if not finite_field(mesh.metric) or not finite_field(mesh.xyz):
        return
    if max(abs(x) for m in mesh.metric for x in m) > 1e100:
        return
    if op == 'roundoff':
        rad = radii_ref(mesh)
        if any(r * r * 1e19 <= 4e-12 for r in rad):
            return      # zero-length edge: the implementation's RAS ("element with zero edge length") is legitimate
    if st != 'ok':
        out.append('%s: status %s on a finite field' % (op, st))
        return
    for n, (a, b) in enumerate(zip(mesh.metric, field)):
        if op == 'abs_hessian' and not mesh.owned[n]:
            if [hx(x) for x in a] != [hx(x) for x in b]:
                out.append('abs_hessian: ghost vertex %d modified' % n)
                return
            continue
        ea, eb = eigs(a), eigs(b)
        sc = max(abs(ea[0]), abs(ea[-1]))
        tol = 1e-10 * sc + 1e-300
        if op == 'abs_hessian':
            want = sorted(abs(x) for x in ea)
        else:
            fl = 4e-12 / (rad[n] * rad[n])
            want = sorted(max(x, fl) for x in ea)
            tol = 1e-10 * max(sc, fl) + 1e-300
            if min(want) > 1e3 * tol and not is_spd_exact(b):
                out.append('roundoff: vertex %d not positive definite after the eigenvalue floor %.3e: %s' % (n, fl, (b,)))
                return
        if max(abs(x - y) for x, y in zip(want, eb)) > tol:
            out.append('%s: vertex %d spectrum %s, expected %s' % (op, n, eb, want))
            return
        if op == 'abs_hessian' and min(want) > 1e3 * tol and not is_spd_exact(b):
            out.append('abs_hessian: vertex %d not positive definite: %s' % (n, (b,)))
            return


EDGES = {'tri': [(0, 1), (1, 2), (2, 0)], 'qua': [(0, 1), (1, 2), (2, 3), (3, 0)],
         'tet': [(0, 1), (0, 2), (0, 3), (1, 2), (1, 3), (2, 3)],
         'pyr': [(0, 1), (0, 2), (0, 3), (1, 2), (1, 4), (2, 3), (2, 4), (3, 4)],
         'pri': [(0, 1), (0, 2), (0, 3), (1, 2), (1, 4), (2, 5), (3, 4), (3, 5), (4, 5)],
         'hex': [(0, 1), (0, 3), (0, 4), (1, 2), (1, 5), (2, 3), (2, 6), (3, 7), (4, 5), (4, 7), (5, 6), (6, 7)]}


def radii_ref(mesh):
    rad = [-1.0] * len(mesh.xyz)
    for kind, ns in mesh.cells:
        for i, j in EDGES[kind]:
            a, b = mesh.xyz[ns[i]], mesh.xyz[ns[j]]
            d = math.sqrt(sum((x - y) ** 2 for x, y in zip(a, b)))
            for n in (ns[i], ns[j]):
                rad[n] = d if rad[n] < 0 else min(rad[n], d)
    return rad


def dlog_exp(vals, V, f):
    return sm.fun_of(vals, V, f)


def ref_exp(lg):
    vals, V = sm.jacobi(sm.dec(sm.full(list(lg))))
    e = sm.fun_of(vals, V, sm.dexp)
    return [float(e[0][0]), float(e[0][1]), float(e[0][2]), float(e[1][1]), float(e[1][2]), float(e[2][2])], \
        [float(x) for x in vals]


def ref_log(m):
    vals, V = sm.jacobi(sm.dec(sm.full(list(m))))
    if min(vals) <= 0:
        return None
    e = sm.fun_of(vals, V, sm.dln)
    return [float(e[0][0]), float(e[0][1]), float(e[0][2]), float(e[1][1]), float(e[1][2]), float(e[2][2])]


def clip(b):
    c = [max(0.0, x) for x in b]
    t = sum(Fraction(x) for x in c)
    if t == 0:
        return None
    return [Fraction(x) / t for x in c]


def o_interp_result(op, np_, bary, logs, m_out, log_out, out, tag=None, xyz=None):
    """the C05 statement on one interpolated vertex: m_out = exp(sum w_i log_i); uniform reproduction;
    spectrum inside the donors' range; log-linear exactness when the tag carries the field"""
    if not all(math.isfinite(x) for x in bary) or not finite_field(logs):
        return
    if max(abs(x) for l in logs for x in l) > 60:
        return
    w = clip(bary)
    if w is None or sum(1 for x in w if x > 0) == 0:
        return
    if np_ == 3:
        w = w[:3]     # the C sums three donors with the weights clipped over four slots
    comb = [float(sum(w[i] * Fraction(logs[i][k]) for i in range(np_))) for k in range(6)]
    sc = max(1.0, max(abs(x) for x in comb))
    if max(abs(a - b) for a, b in zip(comb, log_out)) > 1e-12 * sc:
        out.append('%s: stored log differs from sum w_i log_i: %s vs %s' % (op, log_out, comb))
        return
    ref, ev = ref_exp(comb)
    big = math.exp(max(ev))
    if max(abs(a - b) for a, b in zip(ref, m_out)) > 1e-9 * big * sc:
        out.append('%s: stored metric is not exp of the combined log: %s vs %s' % (op, m_out, ref))
        return
    if not is_spd_exact(m_out) and math.exp(min(ev) - max(ev)) > 1e-11:
        out.append('%s: interpolated metric not positive definite' % op)
        return
    used = [i for i in range(np_) if w[i] > 0]
    if sum(w[i] for i in used) == 1:
        # spectrum bound (log scale): min_i lmin(L_i) <= spec(log_out) <= max_i lmax(L_i)
        lo = min(min(sm_eigs(logs[i])) for i in used)
        hi = max(max(sm_eigs(logs[i])) for i in used)
        eo = sm_eigs(log_out)
        if eo[0] < lo - 1e-10 * sc or eo[-1] > hi + 1e-10 * sc:
            out.append('%s: log-spectrum [%.12e, %.12e] outside the donors\' range [%.12e, %.12e]' % (op, eo[0], eo[-1], lo, hi))
            return
        em = sm_eigs(m_out)
        # the stored doubles carry an absolute error of a few eps * |M| (visible in the smallest eigenvalue)
        if em[0] < math.exp(lo) * (1 - 1e-8) - 256 * EPS * em[-1] or em[-1] > math.exp(hi) * (1 + 1e-8):
            out.append('%s: eigenvalues [%.12e, %.12e] outside the donors\' range [%.12e, %.12e]' %
                       (op, em[0], em[-1], math.exp(lo), math.exp(hi)))
            return
        if all([hx(x) for x in logs[i]] == [hx(x) for x in logs[used[0]]] for i in used):
            if max(abs(a - b) for a, b in zip(logs[used[0]], log_out)) > 1e-13 * sc:
                out.append('%s: uniform donors not reproduced: %s vs %s' % (op, log_out, logs[used[0]]))
                return
    if tag and tag.startswith('l,') and xyz is not None and all(x >= 0 for x in bary):
        c = [unhx(t) for t in tag.split(',')[1:]]
        want = [c[k] + c[6 + k] * xyz[0] + c[12 + k] * xyz[1] + c[18 + k] * xyz[2] for k in range(6)]
        mag = max(1.0, max(abs(c[k]) + abs(c[6 + k] * xyz[0]) + abs(c[12 + k] * xyz[1]) + abs(c[18 + k] * xyz[2]) for k in range(6)))
        # the donors' stored logs come from log_m of the metrics on the op line: their error is cond * eps
        spread = max(max(sm_eigs(l)) - min(sm_eigs(l)) for l in logs[:np_])
        if max(abs(a - b) for a, b in zip(want, log_out)) > (1e-9 + 1e-14 * math.exp(spread)) * mag:
            out.append('%s: log-linear field not reproduced at %s: log %s, exact %s' % (op, xyz, log_out, want))


def oracle(ops, impl):
    bad = []
    for i, (o, r) in enumerate(zip(ops, impl)):
        w = o.split()
        op = w[0]
        out = []
        try:
            if r.startswith('bad-op'):
                continue
            if op == 'complexity':
                o_complexity(parse_mesh(w[1:]), r, out)
            elif op == 'set_complexity':
                o_set_complexity(parse_mesh(w[2:]), unhx(w[1]), r, out)
            elif op == 'local_scale':
                o_local_scale(parse_mesh(w[2:]), int(w[1]), r, out)
            elif op == 'limit_ar':
                o_limit_ar(parse_mesh(w[2:]), unhx(w[1]), r, out)
            elif op in ('abs_hessian', 'roundoff'):
                o_abs_floor(op, parse_mesh(w[1:]), r, out)
            elif op == 'gac':
                o_gac(parse_mesh(w[3:]), unhx(w[1]), unhx(w[2]), r, out)
            elif op in ('node_metric_set', 'node_metric_set_log'):
                o_node_set(op, [unhx(t) for t in w[1:]], r, out)
            elif op == 'interp_kernel':
                rw = r.split()
                if rw[0] == 'ok':
                    f = [unhx(t) for t in w[2:]]
                    res = [unhx(t) for t in rw[1:]]
                    o_interp_result(op, int(w[1]), f[:4], [f[4 + 6 * k:10 + 6 * k] for k in range(4)], res[:6], res[6:], out)
            elif op == 'interp_edge':
                rw = r.split()
                if rw[0] == 'ok':
                    f = [unhx(t) for t in w[1:]]
                    res = [unhx(t) for t in rw[1:]]
                    if 0.0 <= f[12] <= 1.0:
                        o_interp_result(op, 4, [1.0 - f[12], f[12], 0.0, 0.0], [f[0:6], f[6:12], [0.0] * 6, [0.0] * 6],
                                        res[:6], res[6:], out)
            elif op in ('interp_move', 'interp_between', 'interp_field'):
                o_interp_dump(op, w, r, out)
        except (ValueError, IndexError, AssertionError, KeyError):
            continue
        bad.extend((i, m) for m in out)
    return bad


def o_node_set(op, a, line, out):
    rw = line.split()
    if not all(math.isfinite(x) for x in a):
        if rw[0] == 'ok':
            out.append('%s: non-finite tensor stored' % op)
        return
    if op == 'node_metric_set':
        if not is_spd_exact(a):
            return
        ev = sm_eigs(a)
        if ev[-1] / ev[0] > 1e10 or ev[0] < 1e-30 or ev[-1] > 1e30:
            return
        if rw[0] != 'ok':
            out.append('node_metric_set: SPD metric rejected (%s)' % rw[0])
            return
        res = [unhx(t) for t in rw[1:]]
        if [hx(x) for x in res[:6]] != [hx(x) for x in a]:
            out.append('node_metric_set: stored metric differs from the argument')
        ref = ref_log(a)
        sc = max(1.0, max(abs(x) for x in ref))
        if max(abs(x - y) for x, y in zip(ref, res[6:])) > 1e-9 * sc * (ev[-1] / ev[0]) ** 0.5:
            out.append('node_metric_set: stored log %s is not the matrix logarithm %s' % (res[6:], ref))
    else:
        if max(abs(x) for x in a) > 60:
            return
        if rw[0] != 'ok':
            out.append('node_metric_set_log: rejected (%s)' % rw[0])
            return
        res = [unhx(t) for t in rw[1:]]
        if [hx(x) for x in res[6:]] != [hx(x) for x in a]:
            out.append('node_metric_set_log: stored log differs from the argument')
        ref, ev = ref_exp(a)
        if max(abs(x - y) for x, y in zip(ref, res[:6])) > 1e-9 * math.exp(max(ev)) * max(1.0, max(abs(x) for x in a)):
            out.append('node_metric_set_log: stored metric %s is not the matrix exponential %s' % (res[:6], ref))


def o_gac(mesh, gradation, target, line, out):
    rw = line.split()
    if not well_posed_field(mesh) or not finite_field(mesh.xyz):
        return
    if mesh.twod and not all(embedded(m) for m in mesh.metric):
        return
    cur, mag = complexity_ref(mesh, mesh.metric)
    if not (cur > 0 and mag < 1.5 * cur):
        return
    if rw[0] != 'gacdump':
        out.append('gradation_at_complexity: %s on a well-posed field' % line[:60])
        return
    res = parse_mesh(rw[2:])
    if not o_spd_field('gradation_at_complexity', mesh, res.metric, out):
        return
    if mesh.twod != (not have_vol(mesh)):
        return
    c, _ = complexity_ref(mesh, res.metric)
    if abs(c - target) > 1e-8 * target:
        out.append('gradation_at_complexity: complexity of the output field is %.12e, requested %.12e' % (c, target))


def o_interp_dump(op, w, line, out):
    rw = line.split()
    if rw[0] not in ('interpdump', 'interpfdump'):
        tag = w[1]
        if tag.startswith('in') and not line.startswith('interpskip background'):
            out.append('%s: vertex inside the background mesh not interpolated: %s' % (op, line[:80]))
        return
    np_ = int(rw[1])
    f = [unhx(t) for t in rw[6:]]
    bary, logs = f[:4], [f[4 + 6 * k:10 + 6 * k] for k in range(4)]
    m_out, log_out, xyz = f[28:34], f[34:40], f[40:43]
    tag = w[1]
    o_interp_result(op, np_, bary, logs, m_out, log_out, out, tag=tag[2:] if tag[2:3] == 'l' else None, xyz=xyz)
    # the donor logs printed by the harness are those stored on the background grid by ref_node_metric_set:
    # they must be the logs of the field handed in on the op line
    k0 = 5 if op == 'interp_between' else 6
    mesh = parse_mesh(w[k0:])
    for j in range(np_):
        d = int(rw[2 + j])
        if not (0 <= d < len(mesh.metric)):
            out.append('%s: donor vertex %d does not exist' % (op, d))
            return
        ref = ref_log(mesh.metric[d])
        if ref is None:
            continue
        sc = max(1.0, max(abs(x) for x in ref))
        if max(abs(x - y) for x, y in zip(ref, logs[j])) > 1e-8 * sc:
            out.append('%s: stored log of donor %d is not the logarithm of its metric' % (op, d))
            return
    if tag.startswith('in') and tag[2:3] == 'u':
        ref = mesh.metric[0]
        sc = max(abs(x) for x in ref)
        if max(abs(x - y) for x, y in zip(ref, m_out)) > 1e-10 * sc:
            out.append('%s: uniform metric not reproduced: %s vs %s' % (op, m_out, ref))


# ----------------------------------------------------------------------------------------------
# generators
# ----------------------------------------------------------------------------------------------
def cvol(xyz, ns, sub):
    return tet_vol_exact(*[xyz[ns[i]] for i in sub])


def orient(kind, ns, xyz):
    """flip a cell so that the sum of its sub-tet volumes is positive"""
    if kind not in VOL:
        return ns
    if sum(cvol(xyz, ns, s) for s in SPLIT[kind]) >= 0:
        return ns
    if kind == 'tet':
        return [ns[1], ns[0], ns[2], ns[3]]
    if kind == 'pri':
        return [ns[0], ns[2], ns[1], ns[3], ns[5], ns[4]]
    if kind == 'pyr':   # base quad 0,1,4,3 apex 2
        return [ns[1], ns[0], ns[2], ns[4], ns[3]]
    return [ns[0], ns[3], ns[2], ns[1], ns[4], ns[7], ns[6], ns[5]]


def lattice3(rng, nx, ny, nz, lengths, jitter, origin):
    idx = {}
    xyz = []
    for i in range(nx + 1):
        for j in range(ny + 1):
            for k in range(nz + 1):
                idx[(i, j, k)] = len(xyz)
                p = [(i + jitter * rng.uniform(-0.3, 0.3)) / nx, (j + jitter * rng.uniform(-0.3, 0.3)) / ny,
                     (k + jitter * rng.uniform(-0.3, 0.3)) / nz]
                xyz.append(tuple(origin[c] + lengths[c] * p[c] for c in range(3)))
    cells = []
    for i in range(nx):
        for j in range(ny):
            for k in range(nz):
                h = [idx[(i, j, k)], idx[(i + 1, j, k)], idx[(i + 1, j + 1, k)], idx[(i, j + 1, k)],
                     idx[(i, j, k + 1)], idx[(i + 1, j, k + 1)], idx[(i + 1, j + 1, k + 1)], idx[(i, j + 1, k + 1)]]
                t = rng.random()
                if t < 0.3:
                    cells.append(('hex', h))
                elif t < 0.55:
                    cells.append(('pri', [h[0], h[1], h[2], h[4], h[5], h[6]]))
                    cells.append(('pri', [h[0], h[2], h[3], h[4], h[6], h[7]]))
                elif t < 0.75:
                    # three pyramids with apex h[6]: bases bottom (0,1,2,3), front (0,1,5,4), left (0,4,7,3)
                    for q in ((h[0], h[1], h[2], h[3]), (h[0], h[4], h[5], h[1]), (h[0], h[3], h[7], h[4])):
                        cells.append(('pyr', [q[0], q[1], h[6], q[3], q[2]]))
                else:
                    for p in ([h[0], h[1], h[2], h[4], h[5], h[6]], [h[0], h[2], h[3], h[4], h[6], h[7]]):
                        for s in SPLIT['pri']:
                            cells.append(('tet', [p[a] for a in s]))
    return xyz, [(k, orient(k, ns, xyz)) for k, ns in cells]


def lattice2(rng, nx, ny, lengths, jitter, origin, z=0.0):
    idx = {}
    xyz = []
    for i in range(nx + 1):
        for j in range(ny + 1):
            idx[(i, j)] = len(xyz)
            xyz.append((origin[0] + lengths[0] * (i + jitter * rng.uniform(-0.3, 0.3)) / nx,
                        origin[1] + lengths[1] * (j + jitter * rng.uniform(-0.3, 0.3)) / ny, z))
    cells = []
    for i in range(nx):
        for j in range(ny):
            q = [idx[(i, j)], idx[(i + 1, j)], idx[(i + 1, j + 1)], idx[(i, j + 1)]]
            if rng.random() < 0.5:
                cells.append(('qua', q))
            else:
                cells.append(('tri', [q[0], q[1], q[2]]))
                cells.append(('tri', [q[0], q[2], q[3]]))
    return xyz, cells


def rand_lengths(rng, dim):
    k = rng.random()
    if k < 0.5:
        base = 1.0
    elif k < 0.75:
        base = 10 ** rng.uniform(-6, -1)     # tiny volumes
    else:
        base = 10 ** rng.uniform(1, 5)       # huge volumes
    st = [1.0] * 3
    if rng.random() < 0.5:
        st = [10 ** rng.uniform(-3, 0) for _ in range(3)]    # stretched
    return [base * s for s in st]


def spd_metric(rng, twod):
    lmax = 10 ** rng.uniform(-2, 8)
    an = 10 ** rng.uniform(0, 4) if rng.random() < 0.8 else rng.choice([1.0, 1e4])
    lmin = max(lmax / an, 1e-6)
    if twod:
        l = [lmax, lmin]
        rng.shuffle(l)
        a = rng.uniform(-math.pi, math.pi) if rng.random() < 0.8 else rng.choice([0.0, math.pi / 2, 1e-9])
        c, s = math.cos(a), math.sin(a)
        return (c * c * l[0] + s * s * l[1], c * s * (l[0] - l[1]), 0.0, s * s * l[0] + c * c * l[1], 0.0, 1.0)
    mid = math.exp(rng.uniform(math.log(lmin), math.log(lmax))) if rng.random() < 0.7 else rng.choice([lmin, lmax])
    l = [lmax, mid, lmin]
    rng.shuffle(l)
    return tuple(sm.build(sm.rotation(rng), l))


def hessian(rng, twod):
    """reconstructed-Hessian-like tensors: indefinite, with exact zero eigenvalues, zero"""
    k = rng.random()
    if k < 0.1:
        return (0.0,) * 6
    l = [rng.choice([1, -1]) * 10 ** rng.uniform(-4, 4) for _ in range(3)]
    if k < 0.45:
        l[rng.randrange(3)] = 0.0
    if k < 0.2:
        l[rng.randrange(3)] = 0.0
    if twod:
        l[2] = 0.0
        m = sm.build(sm.rot_axis(2, rng.uniform(-3, 3)), l)
        return (m[0], m[1], 0.0, m[3], 0.0, 0.0)
    R = sm.rotation(rng) if rng.random() < 0.7 else sm.rot_perm(rng)
    return tuple(sm.build(R, l))


def rand_mesh(rng, kind=None):
    """(mesh, note) over the families named in the module docstring"""
    k = rng.random() if kind is None else kind
    if k < 0.55:
        dims = [rng.randint(1, 2) for _ in range(3)]
        if rng.random() < 0.3:
            dims[rng.randrange(3)] = 3
        xyz, cells = lattice3(rng, dims[0], dims[1], dims[2], rand_lengths(rng, 3), rng.choice([0, 0, 1.0]),
                              [rng.uniform(-1, 1) for _ in range(3)])
        twod = False
        if rng.random() < 0.3:   # boundary triangles present next to volume cells: ignored by the 3-D branch
            cells = cells + [('tri', [rng.randrange(len(xyz)) for _ in range(3)]) for _ in range(rng.randint(1, 4))]
    elif k < 0.9:
        xyz, cells = lattice2(rng, rng.randint(1, 4), rng.randint(1, 4), rand_lengths(rng, 2), rng.choice([0, 0, 1.0]),
                              [rng.uniform(-1, 1) for _ in range(2)])
        twod = rng.random() < 0.85    # 15 %: a surface grid not flagged 2-D (areas with the 3-D exponent; tie only)
    else:
        # cells on random vertices (any orientation, degenerate, repeated vertices allowed): tie only
        nn = rng.randint(4, 12)
        sc = 10 ** rng.uniform(-3, 3)
        xyz = [tuple(rng.uniform(-1, 1) * sc for _ in range(3)) for _ in range(nn)]
        twod = rng.random() < 0.3
        kinds = ['tri', 'qua'] if twod else ['tet', 'pyr', 'pri', 'hex', 'tet', 'tri']
        if twod:
            xyz = [(p[0], p[1], 0.0) for p in xyz]
        cells = [(kk, [rng.randrange(nn) for _ in range(SIZE[kk])]) for kk in (rng.choice(kinds) for _ in range(rng.randint(1, 8)))]
    if len(cells) > 40:
        cells = cells[:40]
    owned = [True] * len(xyz)
    if rng.random() < 0.25:
        owned = [rng.random() < 0.7 for _ in xyz]
    return Mesh(twod, xyz, None, owned, cells)


def rand_field(rng, mesh, kind=None):
    k = rng.random() if kind is None else kind
    n = len(mesh.xyz)
    if k < 0.15:
        m = spd_metric(rng, mesh.twod)
        return [m] * n
    if k < 0.8:
        return [spd_metric(rng, mesh.twod) for _ in range(n)]
    if k < 0.9:      # SPD but not embedded although the grid is 2-D / mixed with unusable tensors
        f = [spd_metric(rng, False) for _ in range(n)]
        for i in range(n):
            if rng.random() < 0.2:
                f[i] = hessian(rng, mesh.twod)
        return f
    return [hessian(rng, mesh.twod) for _ in range(n)]


def op_line(op, extras, mesh, metric=None):
    return ' '.join([op] + extras + mesh.words(metric))


def gen_complexity(rng, tier):
    n = 220 if tier == 'quick' else 1500
    ops = []
    for _ in range(n):
        mesh = rand_mesh(rng)
        mesh.metric = rand_field(rng, mesh)
        ops.append(op_line('complexity', [], mesh))
        r = rng.random()
        cur, _ = complexity_ref(mesh, mesh.metric) if finite_field(mesh.metric) else (0.0, 0.0)
        if r < 0.8:
            t = rng.choice([50.0, 500.0, 2000.0, 1e5, rng.uniform(50, 1e5)])
            if rng.random() < 0.3 and cur > 0:
                t = cur * 10 ** rng.uniform(-3, 3)
            if rng.random() < 0.03:
                t = rng.choice([0.0, -1.0, float('inf'), float('nan'), 1e300])
            ops.append(op_line('set_complexity', [hx(t)], mesh))
        if rng.random() < 0.5:
            ops.append(op_line('local_scale', [str(rng.choice([1, 2, 4, 1, 2, 4, 0, 3, -1, -2]))], mesh))
    ops.append('complexity 0 1')
    ops.append('set_complexity zz 0 1')
    return ops


def gen_eig(rng, tier):
    """abs-value / round-off floor / aspect-ratio limit"""
    n = 160 if tier == 'quick' else 1000
    ops = []
    for _ in range(n):
        mesh = rand_mesh(rng, kind=rng.choice([0.2, 0.7]))
        if len(mesh.xyz) > 30:
            continue
        r = rng.random()
        if r < 0.5:
            mesh.metric = [hessian(rng, mesh.twod) if rng.random() < 0.8 else spd_metric(rng, mesh.twod) for _ in mesh.xyz]
            ops.append(op_line('abs_hessian', [], mesh))
            m2 = Mesh(mesh.twod, mesh.xyz, [tuple(abs(x) if i in (0, 3, 5) else x for i, x in enumerate(m)) for m in mesh.metric],
                      mesh.owned, mesh.cells)
            ops.append(op_line('roundoff', [], m2 if rng.random() < 0.5 else mesh))
        else:
            mesh.metric = [spd_metric(rng, mesh.twod) for _ in mesh.xyz]
            ar = rng.choice([1.0, 2.0, 10.0, 100.0, 1000.0, -1.0, 0.5, 0.9999, 1.0001, 10 ** rng.uniform(0, 4)])
            ops.append(op_line('limit_ar', [hx(ar)], mesh))
            if rng.random() < 0.3:
                ops.append(op_line('roundoff', [], mesh))
    return ops


def gen_gac(rng, tier):
    n = 14 if tier == 'quick' else 80
    ops = []
    for it in range(n):
        strip = it % 3 == 0
        if strip:
            # a long strip with a fine region at one end and a small gradation: the limit travels one edge per sweep,
            # so 20 sweeps do not converge and only the final rescale puts the complexity on target
            nx = rng.randint(24, 34)
            if rng.random() < 0.6:
                xyz, cells = lattice2(random.Random(rng.random()), nx, 1, [1.0, 1.0 / nx], 0, [0.0, 0.0])
                cells = [('qua', [2 * i, 2 * i + 2, 2 * i + 3, 2 * i + 1]) for i in range(nx)]
                twod = True
            else:
                xyz, cells = lattice3(random.Random(rng.random()), nx, 1, 1, [1.0, 1.0 / nx, 1.0 / nx], 0, [0.0] * 3)
                cells = [c for c in cells if c[0] == 'hex'] or cells
                twod = False
        elif rng.random() < 0.5:
            xyz, cells = lattice2(rng, rng.randint(1, 3), rng.randint(1, 3), [1.0, 1.0], rng.choice([0, 1.0]), [0.0, 0.0])
            twod = True
        else:
            xyz, cells = lattice3(rng, rng.randint(1, 2), rng.randint(1, 2), 1, [1.0, 1.0, 1.0], rng.choice([0, 1.0]), [0.0] * 3)
            twod = False
        mesh = Mesh(twod, xyz, None, [True] * len(xyz), cells[:40])
        lmax = 10 ** rng.uniform(0, 4)
        f = []
        for _p in xyz:
            l = [lmax * 10 ** rng.uniform(-2, 0) for _ in range(3)]
            if strip:
                big = 1e4 if _p[0] < 0.08 else 1.0
                l = [big * rng.uniform(1.0, 1.5) for _ in range(3)]
            if twod:
                a = rng.uniform(-3, 3)
                c, s = math.cos(a), math.sin(a)
                f.append((c * c * l[0] + s * s * l[1], c * s * (l[0] - l[1]), 0.0, s * s * l[0] + c * c * l[1], 0.0, 1.0))
            else:
                f.append(tuple(sm.build(sm.rot_quat(rng), l)))
        mesh.metric = f
        g = rng.choice([-1.0, 1.2, 1.5, 3.0, 1.5])
        if strip:
            g = rng.choice([1.05, 1.1, 1.2])
        t = rng.choice([50.0, 500.0, 2000.0, 1e5, rng.uniform(50, 1e5)])
        ops.append(op_line('gac', [hx(g), hx(t)], mesh))
    return ops


def log_field(rng):
    lam = [rng.uniform(-8, 12) for _ in range(3)]
    return sm.build(sm.rotation(rng), lam)


def gen_interp_kernel(rng, tier):
    n = 700 if tier == 'quick' else 4000
    ops = []
    for _ in range(n):
        k = rng.random()
        np_ = rng.choice([3, 4, 4])
        if k < 0.2:
            L = log_field(rng)
            logs = [L] * 4
        elif k < 0.5:
            # affine family: L0 + t_i * D
            L0, D = log_field(rng), [rng.gauss(0, 1) for _ in range(6)]
            logs = [[a + rng.uniform(-1, 1) * d for a, d in zip(L0, D)] for _ in range(4)]
        else:
            logs = [log_field(rng) for _ in range(4)]
        r = rng.random()
        if r < 0.6:
            b = [rng.random() for _ in range(4)]
            if np_ == 3:
                b[3] = 0.0
            s = sum(b)
            b = [x / s for x in b]
        elif r < 0.8:
            b = [rng.uniform(-0.3, 1.0) for _ in range(4)]      # slightly outside: clipped
        elif r < 0.9:
            b = [0.0] * 4
            b[rng.randrange(np_)] = 1.0
        elif r < 0.96:
            b = [rng.choice([0.0, -1.0, -1e-30]) for _ in range(4)]   # div_zero branch of the clip
        else:
            b = [rng.random() for _ in range(4)]
            b[rng.randrange(4)] = rng.choice(sm.SPECIAL)
        if rng.random() < 0.03:
            logs = [sm.nonfinite(rng, logs[0])] + logs[1:]
        ops.append(' '.join(['interp_kernel', str(np_)] + [hx(x) for x in b] + [hx(x) for l in logs for x in l]))
        if rng.random() < 0.3:
            w = rng.choice([0.5, rng.random(), 0.0, 1.0, 0.05, 0.95, rng.uniform(-0.5, 1.5)])
            ops.append(' '.join(['interp_edge'] + [hx(x) for x in logs[0]] + [hx(x) for x in logs[1]] + [hx(w)]))
        if rng.random() < 0.3:
            m = sm.spd(rng, -6, 8, 6) if rng.random() < 0.85 else sm.odd_matrix(rng)
            if rng.random() < 0.05:
                m = sm.nonfinite(rng, m)
            ops.append(sm.line('node_metric_set', *m))
        if rng.random() < 0.2:
            ops.append(sm.line('node_metric_set_log', *logs[2]))
    ops.append('interp_kernel 5 ' + ' '.join([hx(0.25)] * 28))
    ops.append('interp_kernel 4 0 1')
    return ops


def exp_of(L):
    e, _ = ref_exp(L)
    return tuple(e)


def gen_interp_grid(rng, tier):
    """real ref_metric_interpolate_node / _between on valid bricks whose background is cached as `ref adapt` does"""
    n = 200 if tier == 'quick' else 800
    ops = []
    for _ in range(n):
        twod = rng.random() < 0.4
        if twod:
            v, t, _e = meshgen.square_tris(rng.randint(1, 3), rng.randint(1, 3), rng, rng.choice([0.0, 0.2, 0.13, 0.07]))
            xyz = [tuple(p) + (0.0,) * (3 - len(p)) for p in v]
            cells = [('tri', list(c[:3])) for c in t]
        else:
            v, t, _s = meshgen.box_tets(rng.randint(1, 2), rng.randint(1, 2), rng.randint(1, 2), rng, rng.choice([0.0, 0.2, 0.13, 0.07]))
            xyz = [tuple(p) for p in v]
            cells = [('tet', list(c[:4])) for c in t]
        mesh = Mesh(twod, xyz, None, [True] * len(xyz), cells)
        k = rng.random()
        if k < 0.3:
            kind = 'u'
            m = spd_metric(rng, twod) if rng.random() < 0.5 else tuple(sm.spd(rng, -3, 6, 4))
            if twod:
                m = (m[0], m[1], 0.0, m[3], 0.0, 1.0)
            mesh.metric = [m] * len(xyz)
        elif k < 0.65:
            L0 = sm.build(sm.rotation(rng), [rng.uniform(-2, 5) for _ in range(3)])
            G = [[rng.uniform(-2, 2) for _ in range(6)] for _ in range(3)]
            if twod:
                L0 = [L0[0], L0[1], 0.0, L0[3], 0.0, 0.0]
                G = [[g[0], g[1], 0.0, g[3], 0.0, 0.0] for g in G]
                G[2] = [0.0] * 6
            kind = 'l,' + ','.join(hx(x) for x in list(L0) + G[0] + G[1] + G[2])
            mesh.metric = [exp_of([L0[c] + G[0][c] * p[0] + G[1][c] * p[1] + G[2][c] * p[2] for c in range(6)]) for p in xyz]
        else:
            kind = 'g'
            mesh.metric = [spd_metric(rng, twod) for _ in xyz]
        # a point strictly inside a random cell (convex combination with weights >= 0.05), or -- "out" -- pushed
        # through a boundary of the unit brick so that the best donor has negative barycentric weights (clipped)
        kc, ns = rng.choice(cells)
        wts = [0.05 + rng.random() for _ in ns]
        s = sum(wts)
        p = [sum(w / s * xyz[i][c] for w, i in zip(wts, ns)) for c in range(3)]
        where = 'in'
        if rng.random() < 0.2:
            where = 'ou'
            c = rng.randrange(2 if twod else 3)
            p[c] = rng.choice([-1.0, 1.0]) * rng.choice([0.002, 0.01, 0.03]) + (1.0 if rng.random() < 0.5 else 0.0)
        if twod:
            p[2] = 0.0
        if rng.random() < 0.5:
            node = rng.randrange(len(xyz))
            ops.append(' '.join([rng.choice(['interp_move', 'interp_move', 'interp_field']), where + kind, str(node)] + [hx(x) for x in p] + mesh.words()))
        else:
            a, b = ns[0], ns[1]
            tt = rng.choice([0.5, rng.uniform(0.05, 0.95), rng.uniform(0.05, 0.95)])
            if where == 'ou':
                tt = rng.choice([1.0 + rng.uniform(0.01, 0.3), -rng.uniform(0.01, 0.3)])   # beyond an end of the edge
            ops.append(' '.join(['interp_between', where + kind, str(a), str(b), hx(tt)] + mesh.words()))
    return ops


def nontrivial(op, out):
    return out.startswith('ok ') or out.startswith('gacdump') or out.startswith('interpdump') or out.startswith('interpfdump') or \
        out in ('div_zero', 'failure', 'invalid')


COMPLEXITY = Stream('metric_complexity', 'h_metric', 'metric', gen_complexity, oracle=oracle, nontrivial=nontrivial,
                    session='complexity')
EIG = Stream('metric_eig', 'h_metric', 'metric', gen_eig, oracle=oracle, nontrivial=nontrivial, session='abs_hessian')
GAC = Stream('metric_gradation_at_complexity', 'h_metric', 'metric', gen_gac, oracle=oracle, kind='validate',
             nontrivial=nontrivial, session='gac')
INTERP_KERNEL = Stream('metric_interp_kernel', 'h_metric', 'metric', gen_interp_kernel, oracle=oracle,
                       nontrivial=nontrivial, session='interp_kernel')
INTERP_GRID = Stream('metric_interp_grid', 'h_metric', 'metric', gen_interp_grid, oracle=oracle, kind='validate',
                     nontrivial=nontrivial, session='interp_move')
