"""streams of work package `phys` (C12 / C07): the PARALLEL wall distance of ref_phys.c, the wall selection and the
bc-tag parsers.

  physdist_par[np]    walldist_par / walldist_static on generated distributed grids: the REAL
                      ref_phys_wall_distance[_static] on k = 1 .. np ranks of one run, bit-compared with the Lean model
                      `Refine.Model.PhysDist.wallDistPar` (Float).  Oracles on the C output alone:
                        C12  every stored vertex holds the brute-force minimum over the selected wall elements of the
                             WHOLE mesh (exact rational point-segment / point-triangle, 1e-12 L; a planar convex quad is
                             a surface whatever diagonal splits it, a warped one is taken as the two coded triangles);
                        C07  the k-rank result equals the 1-rank result of the same mesh bit for bit, and all copies
                             of a vertex (owner, ghosts) carry the same bits.
  physdist_bc         local_wall (REAL static ref_phys_local_wall), mapbc / mapbc_token / viscous_tags / wall_bc.
                      Oracles: the listed elements are exactly the selected tri/qua (3-D) or edg (2-D) cells, quads as
                      (0,1,2)+(0,2,3); a well-formed mapbc file yields exactly its (id, type) pairs, the last one
                      winning; a well-formed tag list yields id -> 4000; wall_bc = the FUN3D viscous-wall codes.
  cli_distance_tags   `ref distance` / `refmpi distance` with --fun3d-mapbc and/or --viscous-tags on boxes whose six
                      faces carry different ids, only some of them walls; oracle: brute force over exactly the
                      selected faces; the np = 2, 3 runs must reproduce the serial file bit for bit.
"""
import math
import os
from fractions import Fraction

from . import cli, pyio, oracles
from .common import Stream
from .streams_search import (REF_DBL_MAX, Scaler, elements, element_queries, fh, hf, seg_d2, tol_of, tri_d2,
                             wall_quads, within, _planar_convex)

# the FUN3D boundary-condition codes that are viscous walls (the property's reference list, NOT read from the C)
VISCOUS = (4000, -4000, 4075, 4100, 4110, -4110, -4100, 6200, 6210)
OTHER_BC = (3000, 5000, 5026, 5050, 6662, 6661, 7011, 0, -1, 1, 4001, 3999, 40000, -6200, 6100, 4010, -4075)

NPS = [1, 2, 3, 4, 5]


# ---------------------------------------------------------------------------------------------------------
# global scenario -> per-rank groups
# ---------------------------------------------------------------------------------------------------------
class Mesh:
    """global mesh: verts (xyz per global id), cells {'tri': [(g..., id)], 'qua': ..., 'edg': ...}, dim, sel [(id, bc)]"""

    def __init__(self):
        self.verts = []
        self.index = {}
        self.cells = {'tri': [], 'qua': [], 'edg': []}
        self.dim = 3
        self.sel = []

    def vid(self, p, share=True):
        key = tuple(fh(c) for c in p)
        if share and key in self.index:
            return self.index[key]
        self.verts.append([float(c) for c in p])
        self.index.setdefault(key, len(self.verts) - 1)
        return len(self.verts) - 1

    def add(self, group, pts, cid, share=True):
        self.cells[group].append(tuple(self.vid(p, share) for p in pts) + (cid,))


def gen_selection(rng, ids):
    """dict entries: some ids viscous, some with other codes, some absent; sometimes nothing selected"""
    sel = []
    mode = rng.random()
    for i in ids:
        r = rng.random()
        if mode < 0.08:
            code = rng.choice(OTHER_BC) if r < 0.7 else None         # no wall at all
        elif r < 0.55:
            code = rng.choice(VISCOUS)
        elif r < 0.85:
            code = rng.choice(OTHER_BC)
        else:
            code = None
        if code is not None:
            sel.append((i, code))
    if rng.random() < 0.2:
        sel.append((rng.choice([77, -3, 0]), rng.choice(VISCOUS)))        # an id no cell carries
    rng.shuffle(sel)
    return sel


def gen_mesh(rng, tier, small=False):
    m = Mesh()
    m.dim = 2 if rng.random() < 0.3 else 3
    per = 2 if m.dim == 2 else 3
    kind = rng.choice(['patch', 'random', 'needle', 'degenerate', 'planar2d', 'lattice', 'strip', 'patch', 'strip'])
    r = rng.random()
    if small:
        n = rng.randint(0, 2)
    elif r < 0.25:
        n = rng.randint(1, 4)
    elif r < 0.9 or tier == 'quick':
        n = rng.randint(5, 30)
    else:
        n = rng.randint(60, 250)
    els = elements(rng, n, per, kind) if n else []
    if m.dim == 2 and rng.random() < 0.7:
        for e in els:
            for v in e:
                v[2] = 0.0
    share = rng.random() < 0.8
    ids = list(range(1, 7))
    for e in els:
        m.add('edg' if per == 2 else 'tri', e, rng.choice(ids), share)
    quads = []
    if m.dim == 3 and rng.random() < 0.6:
        quads, qq = wall_quads(rng, rng.randint(1, 5))
        for q in quads:
            m.add('qua', q, rng.choice(ids), share)
    else:
        qq = []
    # cells of the other dimension: must be ignored
    if rng.random() < 0.3:
        for e in elements(rng, rng.randint(1, 3), 3 if per == 2 else 2, 'random'):
            m.add('tri' if per == 2 else 'edg', e, rng.choice(ids), share)
        if per == 2:
            for q in wall_quads(rng, 1)[0]:
                m.add('qua', q, rng.choice(ids), share)
    if els and rng.random() < 0.3:
        grp = 'edg' if per == 2 else 'tri'
        m.cells[grp].append(rng.choice(m.cells[grp]))                  # a duplicated element
    nq = rng.randint(0, 3) if small else rng.randint(3, 25)
    base = els if els else [[[0.0, 0.0, 0.0]] * per]
    for x in element_queries(rng, base, per, nq) + qq:
        if m.dim == 2 and rng.random() < 0.7:
            x = [x[0], x[1], 0.0]
        m.vid(x, share=False)
    m.sel = gen_selection(rng, ids)
    return m


def partition(rng, m, k):
    """-> per-rank groups [(nodes [(g, part)], {'tri': [...local...], ...})]"""
    N = len(m.verts)
    kind = rng.choice(['random', 'random', 'one', 'block', 'two', 'cyclic'])
    if kind == 'one':
        r0 = rng.randrange(k)
        part = [r0] * N
    elif kind == 'block':
        per = max(1, (N + k - 1) // k)
        part = [min(k - 1, g // per) for g in range(N)]
    elif kind == 'two':
        a, b = rng.randrange(k), rng.randrange(k)
        part = [rng.choice([a, b]) for _ in range(N)]
    elif kind == 'cyclic':
        part = [g % k for g in range(N)]
    else:
        part = [rng.randrange(k) for _ in range(N)]
    rule = rng.choice(['storage', 'storage', 'anywhere', 'onerank', 'everywhere'])
    wall_rank = rng.randrange(k)
    stored = [{'tri': [], 'qua': [], 'edg': []} for _ in range(k)]
    for grp, cells in m.cells.items():
        for c in cells:
            if rule == 'storage':
                ranks = sorted({part[g] for g in c[:-1]})          # refine's rule: every rank owning a vertex
            elif rule == 'anywhere':
                ranks = sorted(rng.sample(range(k), rng.randint(1, k)))
            elif rule == 'onerank':
                ranks = [wall_rank]
            else:
                ranks = list(range(k))
            for q in ranks:
                stored[q][grp].append(c)
                if rng.random() < 0.03:
                    stored[q][grp].append(c)                        # stored twice on one rank
    groups = []
    for q in range(k):
        gl = {g for g in range(N) if part[g] == q}
        for cells in stored[q].values():
            for c in cells:
                gl.update(c[:-1])
        for g in range(N):
            if g not in gl and rng.random() < 0.05:
                gl.add(g)                                           # an extra ghost no stored cell needs
        order = sorted(gl)
        rng.shuffle(order)
        loc = {g: i for i, g in enumerate(order)}
        cells = {}
        for grp in ('tri', 'qua', 'edg'):
            cs = list(stored[q][grp])
            rng.shuffle(cs)
            cells[grp] = [tuple(loc[g] for g in c[:-1]) + (c[-1],) for c in cs]
        groups.append(([(g, part[g]) for g in order], cells))
    return groups


def op_line(op, m, groups):
    w = [op, str(len(groups)), str(m.dim), str(len(m.sel))]
    for i, c in m.sel:
        w += [str(i), str(c)]
    for nodes, cells in groups:
        w += ['|', str(len(nodes))]
        for g, p in nodes:
            w += [str(g), str(p)] + [fh(c) for c in m.verts[g]]
        for grp in ('tri', 'qua', 'edg'):
            w.append(str(len(cells[grp])))
            for c in cells[grp]:
                w += [str(x) for x in c]
    return ' '.join(w)


def gen_par(rng, tier, np):
    ops = []
    nscen = (7 if np > 1 else 10) if tier == 'quick' else 60
    for s in range(nscen):
        m = gen_mesh(rng, tier, small=(s % 5 == 4))
        op = 'walldist_static' if rng.random() < 0.15 else 'walldist_par'
        ks = [1, np] if np > 1 else [1]
        if np > 2 and rng.random() < 0.4:
            ks.insert(1, rng.randint(2, np - 1))
        if np > 1 and rng.random() < 0.3:
            ks.append(np)                                           # a second distribution on the same rank count
        for k in ks:
            ops.append(op_line(op, m, partition(rng, m, k)))
    # malformed share (every op line must be safe to execute)
    ops += ['walldist_par', 'walldist_par 1', 'walldist_par 1 3 0', 'walldist_par 1 3 0 | 0 0 0', 'walldist_par 1 4 0 | 0 0 0 0',
            'walldist_par 1 3 0 | 1 0 0 %s 1 0 0 0 4 0 0' % ' '.join([fh(0.0)] * 3),
            'walldist_par 1 3 0 | 2 5 0 %s 5 0 %s 0 0 0' % (' '.join([fh(0.0)] * 3), ' '.join([fh(1.0)] * 3)),
            'walldist_par 1 3 1 1 | 0 0 0 0', 'walldist_par 1 3 0 | 1 0 1 %s 0 0 0' % ' '.join([fh(0.0)] * 3),
            'walldist_par 1 3 1 1 4000 | 0 0 0 0', 'walldist_static 1 2 0 | 0 0 0 0', 'local_wall 3 0',
            'walldist_par 1 3 0 | 1 0 0 %s 0 0 0 |' % ' '.join([fh(0.0)] * 3)]
    if np > 1:
        z = ' '.join([fh(0.0)] * 3)
        # rank 1 holds a ghost of global 3 that rank 0 does not store: the C would hang -> refused
        ops.append('walldist_par 2 3 0 | 1 0 0 %s 0 0 0 | 1 3 0 %s 0 0 0' % (z, z))
    return ops


# ---------------------------------------------------------------------------------------------------------
# oracles for walldist
# ---------------------------------------------------------------------------------------------------------
def parse_world(o):
    w = o.split()
    k, dim, nsel = int(w[1]), int(w[2]), int(w[3])
    sel = [(int(w[4 + 2 * i]), int(w[5 + 2 * i])) for i in range(nsel)]
    rest = w[4 + 2 * nsel:]
    groups, cur = [], None
    for t in rest:
        if t == '|':
            cur = []
            groups.append(cur)
        else:
            cur.append(t)
    world = []
    for g in groups:
        p = 0
        K = int(g[p]); p += 1
        nodes = []
        for _ in range(K):
            nodes.append((int(g[p]), int(g[p + 1]), tuple(hf(x) for x in g[p + 2:p + 5]), tuple(g[p + 2:p + 5])))
            p += 5
        cells = {}
        for grp, width in (('tri', 4), ('qua', 5), ('edg', 3)):
            n = int(g[p]); p += 1
            cells[grp] = [tuple(int(x) for x in g[p + width * i:p + width * (i + 1)]) for i in range(n)]
            p += width * n
        if p != len(g):
            raise ValueError('group length')
        world.append((nodes, cells))
    if len(world) != k:
        raise ValueError('group count')
    return k, dim, sel, world


def selected_ids(sel):
    d = {}
    for i, c in sel:
        d[i] = c
    return {i for i, c in d.items() if c in VISCOUS}


def wall_elements(dim, sel, world):
    """(segments or triangles as coordinate tuples, quads) selected in the WHOLE mesh"""
    ids = selected_ids(sel)
    simple, quads = set(), set()
    for nodes, cells in world:
        xyz = [n[2] for n in nodes]
        if dim == 2:
            for c in cells['edg']:
                if c[2] in ids:
                    simple.add((xyz[c[0]], xyz[c[1]]))
        else:
            for c in cells['tri']:
                if c[3] in ids:
                    simple.add((xyz[c[0]], xyz[c[1]], xyz[c[2]]))
            for c in cells['qua']:
                if c[4] in ids:
                    quads.add((xyz[c[0]], xyz[c[1]], xyz[c[2]], xyz[c[3]]))
    return simple, quads


def brute2(dim, simple, quads, sc, x):
    X = sc.p(x)
    best = None
    for e in simple:
        vs = [sc.p(v) for v in e]
        t2 = seg_d2(vs[0], vs[1], X) if dim == 2 else tri_d2(vs[0], vs[1], vs[2], X)
        best = t2 if best is None or t2 < best else best
    for q in quads:
        vs = [sc.p(v) for v in q]
        if _planar_convex([list(v) for v in q]):
            splits = ((0, 1, 3), (1, 2, 3))              # the OTHER diagonal: the surface does not depend on it
        else:
            splits = ((0, 1, 2), (0, 2, 3))              # a warped quad IS the two coded triangles
        for (a, b, c) in splits:
            t2 = tri_d2(vs[a], vs[b], vs[c], X)
            best = t2 if best is None or t2 < best else best
    return best


def oracle_par(ops, impl):
    bad = []
    serial = {}     # mesh key -> {global: bits} of the first 1-rank run
    for i, (o, r) in enumerate(zip(ops, impl)):
        w = o.split()
        if not w or w[0] not in ('walldist_par', 'walldist_static') or r == 'bad-op':
            continue
        try:
            k, dim, sel, world = parse_world(o)
        except (ValueError, IndexError):
            continue
        if not r.startswith('ok'):
            bad.append((i, 'C12 %s on a well-formed %d-rank grid returned %r' % (w[0], k, r)))
            continue
        parts = r.split(' |')
        if len(parts) != k + 1:
            bad.append((i, 'C12 %d ranks but %d result groups' % (k, len(parts) - 1)))
            continue
        simple, quads = wall_elements(dim, sel, world)
        coords = [c for e in simple for v in e for c in v] + [c for e in quads for v in e for c in v] + \
                 [c for nodes, _ in world for n in nodes for c in n[2]]
        sc = Scaler(coords)
        bits, failed = {}, False
        for q in range(k):
            toks = parts[q + 1].split()
            nodes = world[q][0]
            if len(toks) != 2 * len(nodes):
                bad.append((i, 'C12 rank %d printed %d values for %d vertices' % (q, len(toks) // 2, len(nodes))))
                failed = True
                break
            for j, n in enumerate(nodes):
                g, d = int(toks[2 * j]), toks[2 * j + 1]
                if g != n[0]:
                    bad.append((i, 'rank %d vertex %d: global %d printed for %d' % (q, j, g, n[0])))
                    failed = True
                    break
                if d == 'nan':
                    bad.append((i, 'C12 wall distance of vertex %d is NaN' % g))
                    failed = True
                    break
                if g in bits and bits[g] != d:
                    bad.append((i, 'C07 vertex %d holds %s on one rank and %s on another (k=%d): owner and ghost copies '
                                   'differ' % (g, bits[g], d, k)))
                    failed = True
                    break
                bits[g] = d
                v = hf(d)
                if not simple and not quads:
                    if v != REF_DBL_MAX:
                        bad.append((i, 'C12 no wall element selected but vertex %d has distance %r' % (g, v)))
                        failed = True
                        break
                    continue
                if not sc.ok:
                    continue
                best = brute2(dim, simple, quads, sc, n[2])
                if not within(v, best, sc, tol_of(sc.L)):
                    bad.append((i, 'C12 vertex %d (rank %d of %d, part %d): distance %r but the brute-force minimum over '
                                   'the %d selected wall elements of the whole mesh is %r' %
                                (g, q, k, n[1], v, len(simple) + len(quads), math.sqrt(float(best)) / (1 << sc.k))))
                    failed = True
                    break
            if failed:
                break
        if failed:
            continue
        key = (w[0], dim, frozenset(simple), frozenset(quads), frozenset((n[0], n[3]) for nodes, _ in world for n in nodes))
        if k == 1 and key not in serial:
            serial[key] = bits
        elif key in serial:
            ref = serial[key]
            for g, d in bits.items():
                if ref.get(g) != d:
                    bad.append((i, 'C07 vertex %d: %d ranks give %s, 1 rank gives %s for the same mesh: wall distance '
                                   'depends on the rank count' % (g, k, d, ref.get(g))))
                    break
    return bad


# ---------------------------------------------------------------------------------------------------------
# bc selection and parsers
# ---------------------------------------------------------------------------------------------------------
def xhex(s):
    return 'x' + s.encode('latin-1').hex()


def gen_mapbc_text(rng, plain=False):
    """-> (text, expected list of (id, type) or None when the file is deliberately malformed); plain: single blanks
    between the fields (ref_phys_read_mapbc_token insists on exactly one space after the type)"""
    n = rng.choice([0, 1, 2, 3, 6, 6, 12, 30])
    names = ['viscous_solid', 'farfield_riem', 'symmetry_y', 'tangency', 'wall  with spaces', '', 'x', 'inflate_me', '4000',
             'name-7 9']
    recs = []
    for j in range(n):
        i = rng.choice([j + 1, j + 1, rng.randint(1, 8), rng.randint(-5, 100000)])
        t = rng.choice(VISCOUS + OTHER_BC)
        recs.append((i, t, rng.choice(names)))
    sep = (lambda: ' ') if plain else (lambda: rng.choice([' ', ' ', '  ', '\t', ' \t ']))
    head = rng.choice(['', '', ' ', '\t']) + str(n) + rng.choice(['', '', ' ', ' patches', '\r'])
    lines = [head]
    for (i, t, nm) in recs:
        lines.append(rng.choice(['', '', ' ', '   ']) + ('+' if rng.random() < 0.05 and i >= 0 else '') + str(i) + sep() + str(t) +
                     (sep() + nm if nm or rng.random() < 0.5 else ''))
    text = '\n'.join(lines) + rng.choice(['\n', '\n', '', '\n\n'])
    exp = [(i, t) for (i, t, _) in recs]
    m = rng.random()
    if m < 0.55:
        return text, exp
    if m < 0.6:
        return '', None
    if m < 0.65:
        return rng.choice(['\n', ' \n \n', 'abc\n1 4000 w\n', '\n2\n1 4000 a\n2 3000 b\n', '-\n', '+ 3\n']), None
    if m < 0.7:   # count larger than the records
        return '\n'.join([str(n + rng.randint(1, 3))] + lines[1:]) + '\n', None
    if m < 0.75 and n > 0:  # count smaller: only the first records count
        c = rng.randint(0, n - 1)
        return '\n'.join([str(c)] + lines[1:]) + '\n', exp[:c]
    if m < 0.8 and n > 0:   # a damaged number
        j = rng.randint(1, n)
        lines[j] = rng.choice(['x' + lines[j], lines[j].replace(str(recs[j - 1][1]), 'q', 1), '12abc 4000 w', '7 40x0 w', '7 4000.5 w',
                               '7', '7 -', '7 - 4000 w'])
        return '\n'.join(lines) + '\n', None
    if m < 0.85 and n > 0:  # a name longer than the 1023-character buffer: the tail is read as the next record
        j = rng.randint(1, n)
        lines[j] = lines[j] + ' ' + 'n' * rng.choice([1000, 1019, 1020, 1021, 1022, 1023, 1024, 1030]) + rng.choice(['', ' 9 4000 z'])
        return '\n'.join(lines) + '\n', None
    if m < 0.9:             # a first line longer than the buffer
        return str(n) + ' ' * rng.choice([1020, 1021, 1022, 1023, 1030]) + rng.choice(['', '5']) + '\n' + '\n'.join(lines[1:]) + '\n', None
    if m < 0.95 and n > 1:  # records split over lines / two on a line
        flat = []
        for (i, t, nm) in recs:
            flat.append('%d\n%d %s' % (i, t, nm))
        return str(n) + '\n' + '\n'.join(flat) + '\n', exp
    return text.replace('\n', '\r\n'), None


def gen_bc(rng, tier):
    ops = []
    n = 120 if tier == 'quick' else 1200
    for _ in range(n):
        r = rng.random()
        pre = []
        if rng.random() < 0.3:
            for _k in range(rng.randint(1, 3)):
                pre += [str(rng.randint(1, 8)), str(rng.choice(VISCOUS + OTHER_BC))]
        if r < 0.35:
            text, _ = gen_mapbc_text(rng)
            ops.append(' '.join(['mapbc', xhex(text)] + pre))
        elif r < 0.4:
            ops.append(' '.join(['mapbc', 'nofile'] + pre))
        elif r < 0.55:
            text, _ = gen_mapbc_text(rng, plain=rng.random() < 0.7)
            if not text.endswith('\n') or rng.random() < 0.02:
                text += rng.choice(['\n', ''])
            tok = rng.choice(['viscous', 'inflate', 'wall', '', 'x', 'farfield_riem', 'sym', ' '])
            ops.append(' '.join(['mapbc_token', xhex(text), xhex(tok)] + pre))
        elif r < 0.75:
            k = rng.randint(0, 6)
            toks = [str(rng.choice([rng.randint(1, 9), rng.randint(-3, 100000)])) for _ in range(k)]
            m = rng.random()
            if m < 0.6:
                text = ','.join(toks)
            elif m < 0.8:
                text = rng.choice([',', ',,', '']) + ', '.join(toks) + rng.choice([',', '', ',,'])
            else:
                toks += rng.choice([['x'], ['12abc'], ['-'], ['+5'], [' 7'], ['\t8 9'], ['4.5'], ['--3']])
                rng.shuffle(toks)
                text = ','.join(toks)
            ops.append(' '.join(['viscous_tags', xhex(text)] + pre))
        elif r < 0.8:
            codes = list(VISCOUS + OTHER_BC) + [rng.randint(-7000, 7000) for _ in range(6)]
            rng.shuffle(codes)
            ops.append('wall_bc ' + ' '.join(str(c) for c in codes))
        else:
            m = gen_mesh(rng, tier, small=rng.random() < 0.2)
            g = partition(rng, m, 1)
            ops.append(op_line('local_wall', m, g).replace('local_wall 1 ', 'local_wall ', 1))
    ops += ['mapbc', 'mapbc x3', 'mapbc xzz', 'mapbc x00', 'mapbc x313233343536373839300a', 'viscous_tags', 'mapbc_token x310a',
            'mapbc_token x31 x41', 'mapbc x310a 1', 'wall_bc', 'wall_bc x', 'local_wall', 'viscous_tags x 1 2 3',
            'mapbc_token nofile x41']
    return ops


def oracle_bc(ops, impl):
    bad = []
    for i, (o, r) in enumerate(zip(ops, impl)):
        w = o.split()
        if not w or r == 'bad-op':
            continue
        out = r.split()
        if w[0] == 'wall_bc':
            for c, v in zip(w[1:], out[1:]):
                if (int(c) in VISCOUS) != (v == '1'):
                    bad.append((i, 'C12 ref_phys_wall_distance_bc(%s) = %s but %s a viscous-wall code' %
                                (c, v, 'it is' if int(c) in VISCOUS else 'it is not')))
                    break
        elif w[0] == 'local_wall':
            try:
                k, dim, sel, world = parse_world(o.replace('local_wall ', 'local_wall 1 ', 1))
            except (ValueError, IndexError):
                continue
            if out[0] != 'ok':
                bad.append((i, 'ref_phys_local_wall returned %s' % out[0]))
                continue
            ids = selected_ids(sel)
            nodes, cells = world[0]
            xyz = [n[3] for n in nodes]
            exp = []
            if dim == 2:
                for c in cells['edg']:
                    if c[2] in ids:
                        exp.append((xyz[c[0]], xyz[c[1]]))
            else:
                for c in cells['tri']:
                    if c[3] in ids:
                        exp.append((xyz[c[0]], xyz[c[1]], xyz[c[2]]))
                for c in cells['qua']:
                    if c[4] in ids:
                        exp.append((xyz[c[0]], xyz[c[1]], xyz[c[2]]))
                        exp.append((xyz[c[0]], xyz[c[2]], xyz[c[3]]))
            per = 2 if dim == 2 else 3
            vals = out[3:]
            got = [tuple(tuple(vals[3 * per * e + 3 * v:3 * per * e + 3 * v + 3]) for v in range(per))
                   for e in range(len(vals) // (3 * per))]
            if int(out[1]) != per or int(out[2]) != len(got) or sorted(got) != sorted(exp):
                bad.append((i, 'C12 ref_phys_local_wall lists %d elements, the selected cells give %d (a wall quad is the '
                               'triangles (0,1,2) and (0,2,3)); first difference: %s' %
                            (len(got), len(exp), (sorted(set(got) ^ set(exp)) or ['multiplicity'])[0])))
        elif w[0] == 'viscous_tags':
            text = bytes.fromhex(w[1][1:]).decode('latin-1')
            pieces = [p for p in text.split(',') if p != '']
            if all(p.lstrip('-').isdigit() and len(p.lstrip('-')) == len(p) - (1 if p.startswith('-') else 0) and
                   p.count('-') <= 1 for p in pieces):
                d = {int(w[2 + 2 * j]): int(w[3 + 2 * j]) for j in range((len(w) - 2) // 2)}
                for p in pieces:
                    d[int(p)] = 4000
                got = {int(out[2 + 2 * j]): int(out[3 + 2 * j]) for j in range((len(out) - 2) // 2)}
                if out[0] != 'ok' or got != d or int(out[1]) != len(d):
                    bad.append((i, 'C12 --viscous-tags %r gives %s, expected every listed id with code 4000: %s' %
                                (text, got, d)))
    return bad


class MapbcOracle:
    """generates its own expectation: re-derives the text of well-formed files from the op (plain decimal records)"""

    def __call__(self, ops, impl):
        bad = oracle_bc(ops, impl)
        for i, (o, r) in enumerate(zip(ops, impl)):
            w = o.split()
            if len(w) < 2 or w[0] != 'mapbc' or r == 'bad-op' or w[1] == 'nofile':
                continue
            text = bytes.fromhex(w[1][1:]).decode('latin-1')
            exp = wellformed_mapbc(text)
            if exp is None:
                continue
            out = r.split()
            d = {int(w[2 + 2 * j]): int(w[3 + 2 * j]) for j in range((len(w) - 2) // 2)}
            for k_, v_ in exp:
                d[k_] = v_
            got = {int(out[2 + 2 * j]): int(out[3 + 2 * j]) for j in range((len(out) - 2) // 2)}
            if out[0] != 'ok' or got != d:
                bad.append((i, 'C12 ref_phys_read_mapbc on a well-formed file (%d records): status %s, dict %s, the file '
                               'says %s; selected ids %s vs %s' %
                            (len(exp), out[0], got, d, sorted(k_ for k_, v_ in got.items() if v_ in VISCOUS),
                             sorted(k_ for k_, v_ in d.items() if v_ in VISCOUS))))
        return bad


def wellformed_mapbc(text):
    """independent reading of a plainly well-formed mapbc file: first line = count n, then at least n lines
    `id type [name]` (each shorter than 1000 characters, plain decimal numbers); anything else: None (no expectation)"""
    lines = text.split('\n')
    if len(lines) < 2 or any(len(l) > 1000 for l in lines) or '\r' in text:
        return None
    h = lines[0].split()
    if not h or not h[0].isdigit():
        return None
    n = int(h[0])
    recs = []
    for l in lines[1:1 + n]:
        t = l.split()
        if len(t) < 2:
            return None
        for x in t[:2]:
            y = x[1:] if x[:1] == '-' else x
            if not y.isdigit():
                return None
        recs.append((int(t[0]), int(t[1])))
    if len(recs) != n:
        return None
    return recs


# ---------------------------------------------------------------------------------------------------------
# end to end: ref distance --fun3d-mapbc / --viscous-tags
# ---------------------------------------------------------------------------------------------------------
def tags_setup(d):
    """face id -> bc code from the scenario keys `mapbc=id:code,...` and `tags=id,id`; returns (dict, args builder)"""
    sel = {}
    if d.get('mapbc'):
        for x in d['mapbc'].split(','):
            i, _, c = x.partition(':')
            sel[int(i)] = int(c)
    if d.get('tags'):
        for x in d['tags'].split(','):
            sel[int(x)] = 4000
    return sel


def sc_distance_tags(ctx, d, case):
    dim, v, cells, mesh = cli.make_mesh(d, case)
    args = ['distance', mesh, os.path.join(case, 'dist.solb')]
    if d.get('mapbc'):
        recs = [x.partition(':') for x in d['mapbc'].split(',')]
        path = os.path.join(case, 'in.mapbc')
        with open(path, 'w') as f:
            f.write('%d\n' % len(recs))
            for k, (i, _, c) in enumerate(recs):
                f.write('%s %s patch_%d\n' % (i, c, k))
        args += ['--fun3d-mapbc', path]
    if d.get('tags'):
        args += ['--viscous-tags', d['tags']]
    rc, tail = cli.run_ref(ctx, 0, args, case)
    line = 'rc=%d dir=%s' % (rc, case)
    for k in [int(x) for x in d.get('nps', '').split(',') if x]:
        c2 = os.path.join(case, 'np%d' % k)
        os.makedirs(c2, exist_ok=True)
        a2 = list(args)
        a2[2] = os.path.join(c2, 'dist.solb')
        rc2, _ = cli.run_ref(ctx, k, a2, c2)
        line += ' rc%d=%d' % (k, rc2)
    return line


def tags_harness(ctx, stream, ops, np):
    from . import common
    lines = []
    for k, op in enumerate(common.real_ops(ops)):
        d = cli.kv(op)
        case = os.path.join(ctx.build, 'case_%s_%d_%s' % (stream.name, k, common.h16(op)))
        os.makedirs(case, exist_ok=True)
        try:
            if d['cmd'] != 'distance_tags':
                raise ValueError('unknown scenario')
            lines.append(sc_distance_tags(ctx, d, case))
        except common.BuildError:
            raise
        except Exception as ex:
            lines.append('bad-op %r' % (ex,))
    return 0, lines, ''


def oracle_tags(ops, impl):
    bad = []
    for i, (op, line) in enumerate(zip(ops, impl)):
        if line.startswith('bad-op'):
            continue
        d = cli.kv(op)
        o = cli.parse_out(line)
        sel = tags_setup(d)
        walls = {k for k, c in sel.items() if c in VISCOUS}
        if o.get('rc') != '0':
            bad.append((i, 'distance exited with status %s' % o.get('rc')))
            continue
        dim = int(d.get('dim', '3'))
        m = pyio.read_meshb(os.path.join(o['dir'], 'in.meshb'))
        s = pyio.read_solb(os.path.join(o['dir'], 'dist.solb'))
        v = [tuple(p) + (0.0,) * (3 - len(p)) for p in m['verts']]
        if len(s['values']) != len(v):
            bad.append((i, 'distance file has %d entries for %d vertices' % (len(s['values']), len(v))))
            continue
        L = max(max(p[k] for p in v) - min(p[k] for p in v) for k in range(3))
        if dim == 3:
            el = [t for t in m['cells'].get('tri', []) if t[3] in walls]
        else:
            el = [e for e in m['cells'].get('edg', []) if e[2] in walls]
        for n, p in enumerate(v):
            got = s['values'][n][0]
            if not el:
                if got != REF_DBL_MAX:
                    bad.append((i, 'C12 no face is a viscous wall (%s) but vertex %d has distance %.17g' % (sel, n, got)))
                    break
                continue
            if dim == 3:
                ref = min(oracles.dist_point_triangle(p, v[t[0]], v[t[1]], v[t[2]]) for t in el)
            else:
                ref = min(oracles.dist_point_segment(p, v[e[0]], v[e[1]]) for e in el)
            if abs(got - ref) > 1e-12 * L + 1e-9 * ref:
                bad.append((i, 'C12 vertex %d distance %.17g but the brute-force minimum over the faces with ids %s '
                               '(mapbc/tags: %s) is %.17g' % (n, got, sorted(walls), sel, ref)))
                break
        for k in [int(x) for x in d.get('nps', '').split(',') if x]:
            if o.get('rc%d' % k) != '0':
                bad.append((i, 'C07 refmpi -n %d distance exited with status %s' % (k, o.get('rc%d' % k))))
                continue
            s2 = pyio.read_solb(os.path.join(o['dir'], 'np%d' % k, 'dist.solb'))
            if [fh(r[0]) for r in s2['values']] != [fh(r[0]) for r in s['values']]:
                j = [fh(a[0]) == fh(b[0]) for a, b in zip(s2['values'], s['values'])]
                j = j.index(False) if False in j else -1
                bad.append((i, 'C07 wall distance with %d ranks differs from the serial run (first at vertex %d)' % (k, j)))
    return bad


def gen_tags(rng, tier, np=None):
    ops = []
    for s in range(6 if tier == 'quick' else 30):
        dim = 3 if rng.random() < 0.7 else 2
        nid = 6 if dim == 3 else 4
        n = [rng.randint(1, 4) for _ in range(dim)]
        ids = list(range(1, nid + 1))
        mode = s % 3
        mapbc, tags = '', ''
        if mode in (0, 2):
            recs = []
            for i in rng.sample(ids, rng.randint(2, nid)):
                recs.append('%d:%d' % (i, rng.choice(VISCOUS) if rng.random() < 0.45 else rng.choice(OTHER_BC)))
            mapbc = ','.join(recs)
        if mode in (1, 2):
            tags = ','.join(str(i) for i in sorted(rng.sample(ids, rng.randint(1, 2))))
        ops.append('distance_tags dim=%d n=%s jitter=%.2f mseed=%d len=%s%s%s nps=%s' %
                   (dim, ','.join(map(str, n)), rng.choice([0, 0.3]), rng.randint(1, 10 ** 6),
                    rng.choice(['1,1,1', '10,1,0.1', '1,5,1']) if dim == 3 else rng.choice(['1,1', '10,1']),
                    (' mapbc=' + mapbc) if mapbc else '', (' tags=' + tags) if tags else '',
                    rng.choice(['2', '3', '2,3'])))
    return ops


PAR = Stream('physdist_par', 'h_physdist', 'physdist', gen_par, oracle=oracle_par, np=NPS, whitebox=('ref_phys',),
             nontrivial=lambda op, out: out.startswith('ok |'), session='walldist_par', timeout=600)
PAR.ops_file = True
BC = Stream('physdist_bc', 'h_physdist', 'physdist', gen_bc, oracle=MapbcOracle(), whitebox=('ref_phys',),
            nontrivial=lambda op, out: not out.startswith('bad-op'), session='none', timeout=300)
TAGS = Stream('cli_distance_tags', tags_harness, None, gen_tags, oracle=oracle_tags, kind='oracle',
              nontrivial=lambda op, out: out.startswith('rc=0'), timeout=900)
