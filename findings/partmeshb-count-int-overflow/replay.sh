#!/bin/sh
# usage: ./replay.sh            (needs mpicc, mpiexec; reads /repo/src, writes under /tmp)
here=$(cd "$(dirname "$0")" && pwd)
verif=$(cd "$here/../.." && pwd)
repo=${VERIF_REPO:-/repo}
out=$(mktemp -d /tmp/partmeshb_finding_XXXXXX)
flags="-O1 -g -DNASA_REFINE_VERIF -DHAVE_MPI -fsanitize=address,undefined -fno-sanitize-recover=all -I$repo/src -I$verif/harness"
for f in $repo/src/ref_*.c; do
  b=$(basename $f .c)
  case $b in *_test|ref_subcommand|ref_acceptance|ref_part) continue;; esac
  mpicc $flags -c $f -o $out/$b.o &
done
wait
mpicc $flags $verif/harness/h_partmeshb.c $out/*.o -lm -o $out/h_partmeshb || exit 2
export ASAN_OPTIONS=detect_leaks=0:exitcode=99 UBSAN_OPTIONS=print_stacktrace=1:halt_on_error=1:exitcode=98
cd $out
for ops in $here/*.ops; do
  rm -f res.txt
  timeout 20 mpiexec --allow-run-as-root --oversubscribe -n 1 ./h_partmeshb --ops $ops --out res.txt 2> err.txt
  echo "$(basename $ops): exit status $? (124 = killed by timeout, 98 = UBSan), output: $(cat res.txt 2>/dev/null)"
  grep -m1 'runtime error' err.txt
done
rm -rf $out
