#!/bin/sh
# usage: run.sh /path/to/ref      (a `ref` built from /repo/src; refmpi -n 2 behaves the same: rank 0 returns the error)
# expected on the unchanged tree:  "ref_interp_geom_nodes: no geom node", exit status 1
# expected with repair.diff:       exit status 0, the linear field 1 + 2x + 3y is reproduced to round-off
cd "$(dirname "$0")" && "$1" interpolate donor.meshb donor.solb rec.meshb /tmp/rec_out.solb
