/-!
  Operations-only scalar class (DESIGN.md 3.2).  No laws: `Float` is an instance
  (compiled into `refdrv`, bit-compared with the C), `ℝ` is another
  (`Refine/Lemmas/ScalarReal.lean`, what the theorems are about).
  Core-only: this file must not import Mathlib.
-/
namespace Refine

class Scalar (α : Type) where
  add : α → α → α
  sub : α → α → α
  mul : α → α → α
  div : α → α → α
  neg : α → α
  abs : α → α
  sqrt : α → α
  exp : α → α
  log : α → α
  pow : α → α → α
  /-- integer literal -/
  ofInt : Int → α
  /-- decimal literal `m * 10^e` (e may be negative), e.g. `1.0e-8` is `ofDec 1 (-8)` -/
  ofDec : Int → Int → α
  le : α → α → Bool
  lt : α → α → Bool
  /-- `isfinite` of C -/
  isFinite : α → Bool

/-! Dotted operators keep the model vocabulary apart from `HAdd`/`HMul` …, so that at `α := ℝ`
    nothing competes with Mathlib's instances; the bridge lemmas `Scalar.add a b = a + b` (by `rfl`)
    in `Refine/Lemmas/ScalarReal.lean` move a goal into ordinary real arithmetic. -/
infixl:65 " +. " => Scalar.add
infixl:65 " -. " => Scalar.sub
infixl:70 " *. " => Scalar.mul
infixl:70 " /. " => Scalar.div
prefix:75 "-. " => Scalar.neg
infix:50 " <. " => Scalar.lt
infix:50 " <=. " => Scalar.le

namespace Scalar
variable {α : Type} [Scalar α]

instance (priority := low) instInhabited : Inhabited α := ⟨Scalar.ofInt 0⟩

/-- C `a < b` etc. as Bool (NaN compares false, as in C) -/
@[inline] def blt (a b : α) : Bool := Scalar.lt a b
@[inline] def ble (a b : α) : Bool := Scalar.le a b
@[inline] def bgt (a b : α) : Bool := Scalar.lt b a
@[inline] def bge (a b : α) : Bool := Scalar.le b a

@[inline] def zero : α := Scalar.ofInt 0
@[inline] def one : α := Scalar.ofInt 1
@[inline] def two : α := Scalar.ofInt 2

/-- C `MAX(a,b)` macro: `((a) > (b) ? (a) : (b))` -/
@[inline] def cmax (a b : α) : α := if Scalar.lt b a then a else b
/-- C `MIN(a,b)` macro: `((a) < (b) ? (a) : (b))` -/
@[inline] def cmin (a b : α) : α := if Scalar.lt a b then a else b
/-- C `ABS(a)` macro: `((a) > 0 ? (a) : -(a))` -/
@[inline] def cabs (a : α) : α := if Scalar.lt (Scalar.ofInt 0) a then a else Scalar.neg a

/-- `ref_math_divisible(n,d)`: `ABS(1e20*d) > ABS(n)` -/
@[inline] def divisible (n d : α) : Bool :=
  Scalar.lt (cabs n) (cabs (Scalar.mul (Scalar.ofDec 1 20) d))

end Scalar

/-- literal `m * 10^e` evaluated the way the C compiler rounds the decimal literal:
    `Float.ofScientific` is correctly rounded, as is gcc's literal conversion -/
def floatOfDec (m : Int) (e : Int) : Float :=
  let f : Float :=
    if e ≥ 0 then Float.ofScientific m.natAbs false e.toNat
    else Float.ofScientific m.natAbs true (-e).toNat
  if m < 0 then -f else f

instance : Scalar Float where
  add := Float.add
  sub := Float.sub
  mul := Float.mul
  div := Float.div
  neg := Float.neg
  abs := Float.abs
  sqrt := Float.sqrt
  exp := Float.exp
  log := Float.log
  pow := Float.pow
  ofInt := fun i => Float.ofInt i
  ofDec := floatOfDec
  le := fun a b => a ≤ b
  lt := fun a b => a < b
  isFinite := Float.isFinite

end Refine
