import Refine.Lemmas.NodeIds
import Refine.Lemmas.CellStore

/-!
  C14 part B (and the id-bookkeeping clause of C13): the vertex-id state machine of `ref_node.c` and the
  cell store of `ref_cell.c` behave like their abstract map / set models, for every operation sequence.

  Models: `Refine/Model/NodeIds.lean`, `Refine/Model/CellStore.lean` (tied to the C by the `nodecell`
  streams).  Invariants and helper lemmas: `Refine/Lemmas/NodeIds.lean`, `Refine/Lemmas/CellStore.lean`.
  Modelled and tied to the C by the `nodecell` streams (and checked by their oracles) but *without* a theorem
  here: `ref_node_compact/stable_compact/pack` ("packing renumbers without changing content":
  `pack_content : abs (pack o2n n2o s) = rename o2n (abs s)` is not proved), `ref_cell_compact/pack`,
  `ref_cell_has_side`, `ref_cell_node_list_around`, `ref_cell_id_list_around`.  The heap sort used by
  `rebuild_sorted_global` / `add_many` is the literal C loop passed through a proved checker
  (`sortIdx`, see the model); its own correctness is C14 part A.

  Every theorem below is unbounded (all states, all sequences) and fully proved (axioms ⊆ propext, Classical.choice, Quot.sound).
-/
namespace Refine.Props.C14NodeCell
open Refine.Model.NodeIds
open Refine.Model.NodeIds.NodeIds

/-! ## NodeIds: invariant -/

/-- `NodeInv` (free list acyclic and exactly the invalid slots, `n` = number of valid slots;
    `sorted_global` strictly increasing, `global[sorted_local[i]] = sorted_global[i]`, every valid slot
    listed, length `n`) holds after `ref_node_create` -/
theorem node_create_inv : NodeInv create := create_NodeInv

/-- `ref_node_add` of a non-negative global succeeds and preserves `NodeInv` (growth branch included) -/
theorem node_add_preserves {s : NodeIds} (h : NodeInv s) {g : Int} (hg : 0 ≤ g) :
    (s.add g).1 = .ok ∧ NodeInv (s.add g).2.2 := add_NodeInv h hg

/-- a negative global is rejected with `REF_INVALID` and the state is untouched -/
theorem node_add_negative_rejected (s : NodeIds) {g : Int} (hg : g < 0) : s.add g = (.invalid, 0, s) :=
  add_neg hg

/-- `ref_node_remove` of a valid slot succeeds and preserves `NodeInv` -/
theorem node_remove_preserves {s : NodeIds} (h : NodeInv s) {node : Int} (hv : s.validSlot node = true) :
    (s.remove node).1 = .ok ∧ NodeInv (s.remove node).2 := remove_NodeInv h hv

/-- an invalid slot is rejected with `REF_INVALID` and the state is untouched -/
theorem node_remove_invalid_rejected (s : NodeIds) {node : Int} (hv : s.validSlot node = false) :
    s.remove node = (.invalid, s) := remove_invalid hv

/-- `ref_node_remove_without_global` preserves `NodeInv` -/
theorem node_remove_without_global_preserves {s : NodeIds} (h : NodeInv s) {node : Int}
    (hv : s.validSlot node = true) :
    (s.removeWithoutGlobal node).1 = .ok ∧ NodeInv (s.removeWithoutGlobal node).2 :=
  removeWithoutGlobal_NodeInv h hv

/-- the two `*_invalidates_sorted` removals keep the free-list half of the invariant and the distinctness
    of live globals (`WeakInv`); the sorted arrays are stale until the next rebuild, as the names say -/
theorem node_remove_invalidates_sorted_weak {s : NodeIds} (h : WeakInv s) {node : Int}
    (hv : s.validSlot node = true) :
    ((s.removeInvalidatesSorted node).1 = .ok ∧ WeakInv (s.removeInvalidatesSorted node).2) ∧
    ((s.removeWithoutGlobalInvalidatesSorted node).1 = .ok ∧
      WeakInv (s.removeWithoutGlobalInvalidatesSorted node).2) :=
  ⟨removeInvalidatesSorted_WeakInv h hv, removeWithoutGlobalInvalidatesSorted_WeakInv h hv⟩

/-- `ref_node_rebuild_sorted_global` re-establishes the full `NodeInv` from `WeakInv` -/
theorem node_rebuild_restores {s : NodeIds} (h : WeakInv s) : NodeInv s.rebuild := rebuild_NodeInv h

/-- the pool operations do not touch the slot arrays -/
theorem node_pool_ops_preserve {s : NodeIds} (h : NodeInv s) (g k : Int) :
    NodeInv (s.pushUnused g) ∧ NodeInv s.popUnused.2.2 ∧ NodeInv (s.initNGlobal k) ∧
      NodeInv s.nextGlobal.2.2 := by
  refine ⟨h.congr rfl rfl rfl rfl, ?_, h.congr rfl rfl rfl rfl, ?_⟩
  · unfold popUnused; split
    · exact h
    · exact h.congr rfl rfl rfl rfl
  · obtain ⟨a, b, c, d⟩ := nextGlobal_keeps s
    exact h.congr a b c d

/-- `ref_node_add_many` on a list with no entry below `REF_EMPTY` (such an entry makes the C return
    `REF_INVALID` *before* `rebuild_sorted_global`, leaving uninitialised `sorted_*` entries): succeeds,
    re-establishes `NodeInv`, makes exactly `old ∪ {x ∈ list | 0 ≤ x}` live (duplicates in the list and
    globals that are already live are absorbed), moves no live slot, leaves the pool alone -/
theorem node_add_many_preserves_and_refines {s : NodeIds} (h : NodeInv s) {orig : List Int}
    (hge : ∀ x ∈ orig, -1 ≤ x) :
    (s.addMany orig).1 = .ok ∧ NodeInv (s.addMany orig).2 ∧
      (∀ x, (s.addMany orig).2.abs.live x ≠ none ↔ s.abs.live x ≠ none ∨ (x ∈ orig ∧ 0 ≤ x)) ∧
      (∀ v, 0 ≤ s.global.getD v (-1) → (s.addMany orig).2.global.getD v (-1) = s.global.getD v (-1)) ∧
      (∀ x, (s.addMany orig).2.abs.pool x ↔ (if s.newN = -1 then
          x ∈ s.unusedStk ∨ ((s.addMany orig).2.n : Int) ≤ x else s.abs.pool x)) := by
  obtain ⟨h1, h2, h3, h4, h5, h6, _⟩ := addMany_spec h hge
  refine ⟨h1, h2, ?_, h4, ?_⟩
  · intro x
    have e1 : (s.addMany orig).2.abs.live x = (s.addMany orig).2.liveSlot x := rfl
    have e2 : s.abs.live x = s.liveSlot x := rfl
    rw [e1, e2, ← liveSet_iff_liveSlot h2, ← liveSet_iff_liveSlot h, h3 x]
  · intro x
    simp only [NodeIds.abs, NodeIds.effNew, h5, h6]
    split <;> rfl

/-- counts exact: `n` is the number of valid slots (and the length of the sorted arrays) -/
theorem node_count_exact {s : NodeIds} (h : NodeInv s) :
    s.n = s.global.countP (fun x => decide (0 ≤ x)) ∧ s.sorted.length = s.n :=
  ⟨h.free.count, h.srt.len⟩

/-- operations of the state machine.  `invalidateThenRebuild` is the only sound way to use the
    `*_invalidates_sorted` removals: any number of them, then `rebuild_sorted_global`.  `addMany` carries the
    argument guard under which the C completes (no entry below `REF_EMPTY`). -/
inductive Op
  | add (g : Int) | addMany (gs : List Int) | remove (v : Int) | removeWithoutGlobal (v : Int)
  | nextGlobal | pushUnused (g : Int) | popUnused | initNGlobal (k : Int) | rebuild
  | invalidateThenRebuild (vs : List (Bool × Int))

def invalidateAll : NodeIds → List (Bool × Int) → NodeIds
  | s, [] => s
  | s, (wog, v) :: rest =>
    invalidateAll (if wog then (s.removeWithoutGlobalInvalidatesSorted v).2
                   else (s.removeInvalidatesSorted v).2) rest

def step (s : NodeIds) : Op → NodeIds
  | .add g => (s.add g).2.2
  | .addMany gs => if gs.all (fun x => decide (-1 ≤ x)) then (s.addMany gs).2 else s
  | .remove v => (s.remove v).2
  | .removeWithoutGlobal v => (s.removeWithoutGlobal v).2
  | .nextGlobal => s.nextGlobal.2.2
  | .pushUnused g => s.pushUnused g
  | .popUnused => s.popUnused.2.2
  | .initNGlobal k => s.initNGlobal k
  | .rebuild => s.rebuild
  | .invalidateThenRebuild vs => (invalidateAll s vs).rebuild

theorem invalidateAll_weak : ∀ (vs : List (Bool × Int)) {s : NodeIds}, WeakInv s → WeakInv (invalidateAll s vs)
  | [], _, h => h
  | (wog, v) :: rest, s, h => by
    unfold invalidateAll
    apply invalidateAll_weak rest
    cases hv : s.validSlot v with
    | true =>
      cases wog
      · exact (removeInvalidatesSorted_WeakInv h hv).2
      · exact (removeWithoutGlobalInvalidatesSorted_WeakInv h hv).2
    | false =>
      cases wog <;>
        simp [removeInvalidatesSorted, removeWithoutGlobalInvalidatesSorted, hv, h]

/-- every operation preserves `NodeInv` (error statuses leave the state unchanged) -/
theorem node_step_preserves {s : NodeIds} (h : NodeInv s) (o : Op) : NodeInv (step s o) := by
  cases o with
  | add g =>
    rcases Int.lt_or_le g 0 with hg | hg
    · simp only [step, add_neg hg]; exact h
    · exact (add_NodeInv h hg).2
  | addMany gs =>
    simp only [step]; split
    · rename_i hall
      exact (addMany_spec h (by simpa using hall)).2.1
    · exact h
  | remove v =>
    cases hv : s.validSlot v with
    | true => exact (remove_NodeInv h hv).2
    | false => simp only [step, remove_invalid hv]; exact h
  | removeWithoutGlobal v =>
    cases hv : s.validSlot v with
    | true => exact (removeWithoutGlobal_NodeInv h hv).2
    | false => simp only [step, removeWithoutGlobal, hv]; exact h
  | nextGlobal => exact (node_pool_ops_preserve h 0 0).2.2.2
  | pushUnused g => exact (node_pool_ops_preserve h g 0).1
  | popUnused => exact (node_pool_ops_preserve h 0 0).2.1
  | initNGlobal k => exact (node_pool_ops_preserve h 0 k).2.2.1
  | rebuild => exact rebuild_NodeInv h.weak
  | invalidateThenRebuild vs => exact rebuild_NodeInv (invalidateAll_weak vs h.weak)

/-- **NodeInv for every operation sequence**, by induction over the sequence -/
theorem node_inv_all_sequences (ops : List Op) : NodeInv (ops.foldl step create) := by
  suffices ∀ s, NodeInv s → NodeInv (ops.foldl step s) from this _ create_NodeInv
  induction ops with
  | nil => intro s h; exact h
  | cons o rest ih => intro s h; exact ih _ (node_step_preserves h o)

/-- operations that are safe on the weaker invariant (no use of the sorted arrays) -/
inductive WOp
  | remove (v : Int) | removeWithoutGlobal (v : Int) | removeInvalidatesSorted (v : Int)
  | removeWithoutGlobalInvalidatesSorted (v : Int)
  | nextGlobal | pushUnused (g : Int) | popUnused | initNGlobal (k : Int)

def wstep (s : NodeIds) : WOp → NodeIds
  | .remove v => (s.remove v).2
  | .removeWithoutGlobal v => (s.removeWithoutGlobal v).2
  | .removeInvalidatesSorted v => (s.removeInvalidatesSorted v).2
  | .removeWithoutGlobalInvalidatesSorted v => (s.removeWithoutGlobalInvalidatesSorted v).2
  | .nextGlobal => s.nextGlobal.2.2
  | .pushUnused g => s.pushUnused g
  | .popUnused => s.popUnused.2.2
  | .initNGlobal k => s.initNGlobal k

theorem WeakInv_congr {a b : NodeIds} (h : WeakInv a) (hg : b.global = a.global) (hb : b.blank = a.blank)
    (hn : b.n = a.n) : WeakInv b :=
  ⟨h.free.congr hg hb hn, by intro v w; rw [hg]; exact h.distinct v w⟩

/-- the free-list half of the invariant (and distinctness of live globals) survives **every** removal,
    also the ones that are applied while the sorted arrays are stale (`remove` then either fails with
    `REF_NOT_FOUND`, state unchanged, or frees the slot), and every pool operation -/
theorem node_weak_step_preserves {s : NodeIds} (h : WeakInv s) (o : WOp) : WeakInv (wstep s o) := by
  cases o with
  | remove v =>
    simp only [wstep, remove]
    cases hv : s.validSlot v with
    | false => exact h
    | true =>
      obtain ⟨_, hv2⟩ := validSlot_iff.1 hv
      simp only [Bool.not_true, Bool.false_eq_true, if_false]
      split
      · exact h
      · exact freeSlot_WeakInv h hv2 rfl rfl rfl
  | removeWithoutGlobal v =>
    simp only [wstep, removeWithoutGlobal]
    cases hv : s.validSlot v with
    | false => exact h
    | true =>
      obtain ⟨_, hv2⟩ := validSlot_iff.1 hv
      simp only [Bool.not_true, Bool.false_eq_true, if_false]
      split
      · exact h
      · exact freeSlot_WeakInv h hv2 rfl rfl rfl
  | removeInvalidatesSorted v =>
    cases hv : s.validSlot v with
    | true => exact (removeInvalidatesSorted_WeakInv h hv).2
    | false => simp [wstep, removeInvalidatesSorted, hv, h]
  | removeWithoutGlobalInvalidatesSorted v =>
    cases hv : s.validSlot v with
    | true => exact (removeWithoutGlobalInvalidatesSorted_WeakInv h hv).2
    | false => simp [wstep, removeWithoutGlobalInvalidatesSorted, hv, h]
  | nextGlobal =>
    obtain ⟨a, b, c, _⟩ := nextGlobal_keeps s
    exact WeakInv_congr h a b c
  | pushUnused g => exact WeakInv_congr h rfl rfl rfl
  | popUnused =>
    simp only [wstep, popUnused]; split
    · exact h
    · exact WeakInv_congr h rfl rfl rfl
  | initNGlobal k => exact WeakInv_congr h rfl rfl rfl

/-- `WeakInv` along every sequence of removals / pool operations starting from any `NodeInv` state;
    `rebuild_sorted_global` then restores `NodeInv` (`node_rebuild_restores`) -/
theorem node_weak_inv_all_sequences {s : NodeIds} (h : NodeInv s) (ops : List WOp) :
    WeakInv (ops.foldl wstep s) ∧ NodeInv (ops.foldl wstep s).rebuild := by
  suffices ∀ t, WeakInv t → WeakInv (ops.foldl wstep t) from
    ⟨this s h.weak, rebuild_NodeInv (this s h.weak)⟩
  induction ops with
  | nil => intro t ht; exact ht
  | cons o rest ih => intro t ht; exact ih _ (node_weak_step_preserves ht o)

/-! ## NodeIds: refinement to `abs s = (live : global ↦ slot, pool of reusable ids)` -/

/-- `ref_node_local g` returns the slot holding `g` iff `g` is live, `REF_NOT_FOUND` otherwise -/
theorem node_local_iff_live {s : NodeIds} (h : NodeInv s) (g : Int) :
    s.localOf g = match s.abs.live g with
      | some v => (.ok, (v : Int))
      | none => (.not_found, -1) := localOf_eq h g

/-- the live map is a map: the slot of a live global is the unique valid slot holding it -/
theorem node_live_spec {s : NodeIds} (h : NodeInv s) {g : Int} {v : Nat} :
    s.abs.live g = some v ↔ 0 ≤ g ∧ s.global.getD v (-1) = g := liveSlot_eq_some_iff h

/-- `add` refines map insert: `live' = live[g ↦ returned slot]` (the returned slot is the old one when `g`
    was already live), and no slot that was live is disturbed (frame) -/
theorem node_add_refines {s : NodeIds} (h : NodeInv s) {g : Int} (hg : 0 ≤ g) :
    (∀ x, (s.add g).2.2.abs.live x = if x = g then some (s.add g).2.1 else s.abs.live x) ∧
    (∀ v, 0 ≤ s.global.getD v (-1) → (s.add g).2.2.global.getD v (-1) = s.global.getD v (-1)) :=
  ⟨add_live h hg, fun _ hv => add_frame h hg hv⟩

/-- `remove` refines map erase, pushes the global id into the pool, and touches no other slot (frame) -/
theorem node_remove_refines {s : NodeIds} (h : NodeInv s) {node : Int} (hv : s.validSlot node = true) :
    (∀ x, (s.remove node).2.abs.live x =
        if x = s.global.getD node.toNat (-1) then none else s.abs.live x) ∧
    (s.newN ≠ -1 → ∀ x, (s.remove node).2.abs.pool x ↔ x = s.global.getD node.toNat (-1) ∨ s.abs.pool x) ∧
    (∀ w, w ≠ node.toNat → (s.remove node).2.global.getD w (-1) = s.global.getD w (-1)) := by
  refine ⟨remove_live h hv, ?_, fun w hw => remove_frame h hv hw⟩
  intro hnew x
  obtain ⟨_, _, _, hu, hn, _⟩ := remove_fields h hv
  simp only [NodeIds.abs, NodeIds.effNew, hu, hn, hnew, if_false, List.mem_cons, or_assoc]

/-- slot reuse: the slot freed by `remove` is the one the next `add` of a new global returns -/
theorem node_slot_reuse {s : NodeIds} (h : NodeInv s) {node : Int} (hv : s.validSlot node = true)
    {g : Int} (hg : 0 ≤ g) (hnew : (s.remove node).2.abs.live g = none) :
    ((s.remove node).2.add g).2.1 = node.toNat := by
  have h' := (remove_NodeInv h hv).2
  have hm := (search_none_iff h').2 hnew
  have hb := (remove_fields h hv).2.1
  rw [add_miss hg hm]
  simp only [grow_eq, hb, index2next_ne_empty, if_false, next2index_index2next]

/-- `ref_node_next_global` succeeds and returns an id from the pool; under `PoolInv` that id is not live -/
theorem node_next_global_not_live (s : NodeIds) :
    s.nextGlobal.1 = .ok ∧ s.abs.pool s.nextGlobal.2.1 ∧
      (PoolInv s → s.abs.live s.nextGlobal.2.1 = none) :=
  ⟨(nextGlobal_mem_pool s).1, (nextGlobal_mem_pool s).2, fun hp => hp.fresh _ (nextGlobal_mem_pool s).2⟩

/-- **trial_vertex_roundtrip** (C13: "a rejected attempt withdraws the trial vertex and its global id"):
    `abs (remove (add (next_global s))) = abs s`, all three calls succeed, and `NodeInv` still holds -/
theorem trial_vertex_roundtrip {s : NodeIds} (h : NodeInv s) (hp : PoolInv s) :
    let r1 := s.nextGlobal
    let r2 := r1.2.2.add r1.2.1
    let r3 := r2.2.2.remove (r2.2.1 : Int)
    r1.1 = .ok ∧ r2.1 = .ok ∧ r3.1 = .ok ∧ NodeInv r3.2 ∧ r3.2.abs = s.abs := trial_roundtrip h hp

/-- consequently the pool invariant itself survives the round trip -/
theorem trial_vertex_roundtrip_pool {s : NodeIds} (h : NodeInv s) (hp : PoolInv s) :
    PoolInv ((s.nextGlobal.2.2.add s.nextGlobal.2.1).2.2.remove
      ((s.nextGlobal.2.2.add s.nextGlobal.2.1).2.1 : Int)).2 := by
  have he := (trial_roundtrip h hp).2.2.2.2
  constructor
  · intro x hx; rw [he] at hx; exact hp.nonneg x hx
  · intro x hx
    rw [he] at hx
    have : ∀ t : NodeIds, t.liveSlot x = t.abs.live x := fun _ => rfl
    rw [this, he]; exact hp.fresh x hx

/-! ### non-vacuity -/

/-- a concrete non-trivial state: three vertices 0,1,2 then vertex 1 removed and `n_global` initialised -/
def exState : NodeIds := ((((((create.add 0).2.2.add 1).2.2.add 2).2.2).initNGlobal 3).remove 1).2

example : exState.n = 2 ∧ exState.keys = [0, 2] ∧ exState.unusedStk = [1] ∧ exState.blank = -3 := by decide

example : NodeInv exState :=
  node_inv_all_sequences [.add 0, .add 1, .add 2, .initNGlobal 3, .remove 1]

/-- `add_many` with duplicates, an already-live global and a `REF_EMPTY` entry: hypotheses met, 7 becomes live -/
example : (exState.addMany [7, 2, 7, -1, 5]).1 = .ok ∧ (exState.addMany [7, 2, 7, -1, 5]).2.abs.live 7 ≠ none ∧
    NodeInv ([Op.add 0, .add 1, .add 2, .initNGlobal 3, .remove 1, .addMany [7, 2, 7, -1, 5]].foldl step create) := by
  have h : NodeInv exState := node_inv_all_sequences [.add 0, .add 1, .add 2, .initNGlobal 3, .remove 1]
  have hs := node_add_many_preserves_and_refines h (orig := [7, 2, 7, -1, 5]) (by decide)
  exact ⟨hs.1, (hs.2.2.1 7).2 (Or.inr ⟨by decide, by decide⟩), node_inv_all_sequences _⟩

theorem exState_pool : PoolInv exState := by
  have hg : exState.global = [0, -5, 2, -6, -7, -8, -9, -10, -11, -12, -13, -14, -15, -16, -17, -18, -19, -20,
      -21, -1] := by decide
  have hpool : ∀ x, exState.abs.pool x ↔ x = 1 ∨ 3 ≤ x := by
    intro x
    have h1 : exState.unusedStk = [1] := by decide
    have h2 : exState.effNew = 3 := by decide
    simp [NodeIds.abs, h1, h2]
  constructor
  · intro x hx; rcases (hpool x).1 hx with h | h <;> omega
  · intro x hx
    have hx' := (hpool x).1 hx
    simp only [NodeIds.liveSlot, hg]
    split
    · rfl
    · rw [List.idxOf?_eq_none_iff]
      simp only [List.mem_cons, List.not_mem_nil, or_false]
      omega

/-- the hypotheses of `trial_vertex_roundtrip` are met by `exState`; here the round trip re-uses the
    pooled id 1 and the freed slot 1 -/
example : (exState.nextGlobal).2.1 = 1 ∧ (exState.nextGlobal.2.2.add 1).2.1 = 1 ∧
    ((exState.nextGlobal.2.2.add 1).2.2.remove 1).2 = exState := by decide

example : NodeInv exState ∧ PoolInv exState :=
  ⟨node_inv_all_sequences [.add 0, .add 1, .add 2, .initNGlobal 3, .remove 1], exState_pool⟩


/-! ## CellStore -/
section Cell
open Refine.Model.CellStore
open Refine.Model.CellStore.CellStore

/-- `CellInv` (rows of length `size_per`; free list through `c2n[1]` acyclic and exactly the invalid rows;
    `n` = number of valid rows; nodes of valid cells non-negative; adjacency exact) holds after
    `ref_cell_create` for each of the 16 cell types of the generated tables -/
theorem cell_create_inv : ∀ t ∈ Refine.Gen.CellTables.all, CellInv (CellStore.create t) := by
  intro t ht
  have hall : Refine.Gen.CellTables.all.all (fun t => decide (2 ≤ t.nodePer)) = true := by decide
  exact create_CellInv t (by simpa using List.all_eq_true.1 hall t ht)

/-- `ref_cell_add` of `size_per` entries with non-negative nodes preserves `CellInv`; it succeeds unless the
    store sits at the `REF_INT_MAX/4` growth limit, where the C returns `REF_FAILURE` and changes nothing -/
theorem cell_add_preserves {s : CellStore} (h : CellInv s) {nodes : List Int}
    (hlen : nodes.length = s.sizePer) (hnn : ∀ v ∈ nodes.take s.nodePer, 0 ≤ v) :
    CellInv (s.add nodes).2.2 ∧ (s.max < MAX_LIMIT → (s.add nodes).1 = .ok) := add_CellInv h hlen hnn

/-- `ref_cell_remove` of a valid cell succeeds and preserves `CellInv`; an invalid cell is rejected with
    `REF_INVALID` and the state is untouched -/
theorem cell_remove_preserves {s : CellStore} (h : CellInv s) (cell : Int) :
    (s.validCell cell = true → (s.remove cell).1 = .ok ∧ CellInv (s.remove cell).2) ∧
    (s.validCell cell = false → s.remove cell = (.invalid, s)) :=
  ⟨fun hv => remove_CellInv h hv, fun hv => CellStore.remove_invalid hv⟩

/-- `ref_cell_replace_whole`: succeeds on a valid cell, preserves `CellInv`, the row becomes `nodes`, every
    other row and the set of valid cells are unchanged -/
theorem cell_replace_whole_preserves {s : CellStore} (h : CellInv s) {cell : Int}
    (hv : s.validCell cell = true) {nodes : List Int} (hlen : nodes.length = s.sizePer)
    (hnn : ∀ v ∈ nodes.take s.nodePer, 0 ≤ v) :
    ∃ r, s.replaceWhole cell nodes = (.ok, r) ∧ CellInv r ∧ (∀ c, r.validCell c = s.validCell c) ∧
      (∀ c, c ≠ cell.toNat → r.row c = s.row c) ∧ r.row cell.toNat = nodes :=
  replaceWhole_spec h hv hlen hnn

/-- **`ref_cell_replace_node` terminates and equals substitution.**  The C loop
    `while (ref_adj_valid(first[old]))` has no bound; the model's loop carries the fuel
    `length (cells around old)` and returns `none` if it runs out.  Under `CellInv` it never does: every
    iteration unlinks at least one item of `old`'s list.  The result is `old ↦ new` substituted in the node
    entries of every valid cell (ids and free rows untouched), `CellInv` preserved. -/
theorem cell_replace_node_terminates_and_substitutes {s : CellStore} (h : CellInv s) (old : Int) {new : Int}
    (hnew : 0 ≤ new) :
    ∃ r, s.replaceNode old new = some (.ok, r) ∧ CellInv r ∧ (∀ c, r.validCell c = s.validCell c) ∧
      r.n = s.n ∧
      ∀ c : Nat, r.row c =
        if s.validCell (c : Int) = true then substRow s.nodePer old new (s.row c) else s.row c := by
  obtain ⟨r, h1, h2, h3, h4⟩ := replaceNode_spec h old hnew
  exact ⟨r, h1, h2, h3.valid, h3.n, h4⟩

/-- **derived adjacency exact**: the cells reported around a vertex (`each_ref_cell_having_node`) are exactly
    the valid cells containing it, as a multiset (one report per occurrence) -/
theorem cell_adjacency_exact {s : CellStore} (h : CellInv s) (v c : Int) :
    (s.adj.first v).count c = (if s.validCell c = true then (s.cellNodes c).count v else 0) ∧
    (c ∈ s.adj.first v ↔ s.validCell c = true ∧ v ∈ s.cellNodes c) :=
  ⟨h.adj v c, mem_first_iff h⟩

/-- **`ref_cell_with`** finds a valid cell with the same vertex set iff one exists (and never reports
    `REF_INVALID`) -/
theorem cell_with_finds_iff_exists {s : CellStore} (h : CellInv s) {nodes : List Int}
    (hlen : nodes.length = s.nodePer) :
    (∃ c, s.withNodes nodes = (.ok, c) ∧ s.validCell c = true ∧ ∀ x, x ∈ s.cellNodes c ↔ x ∈ nodes) ∨
    (s.withNodes nodes = (.not_found, -1) ∧
      ¬ ∃ c, s.validCell c = true ∧ ∀ x, x ∈ s.cellNodes c ↔ x ∈ nodes) := with_spec h hlen

/-- counts exact: `n` is the number of valid rows -/
theorem cell_count_exact {s : CellStore} (h : CellInv s) :
    s.n = ((s.c2n.countP liveRow : Nat) : Int) := h.count

/-- counts exact for `ref_cell_degree_with2` / `ref_cell_list_with2`: the cells reported for a node pair are
    the valid cells containing both, once per (occurrence of `node0`) × (occurrence of `node1`);
    `degree_with2` is the length of that report, `list_with2` returns it unless it exceeds `max_cell` -/
theorem cell_with2_counts_exact {s : CellStore} (h : CellInv s) (n0 n1 : Int) :
    (∀ c, (s.having2 n0 n1).count c =
      if s.validCell c = true then (s.cellNodes c).count n0 * (s.cellNodes c).count n1 else 0) ∧
    s.degreeWith2 n0 n1 = (s.having2 n0 n1).length ∧
    (∀ m : Int, ((s.having2 n0 n1).length : Int) ≤ m → s.listWith2 n0 n1 m = (.ok, s.having2 n0 n1)) ∧
    (∀ m : Int, m < ((s.having2 n0 n1).length : Int) → (s.listWith2 n0 n1 m).1 = .increase_limit) := by
  refine ⟨having2_count h n0 n1, rfl, ?_, ?_⟩
  · intro m hm
    have : ¬ (((s.having2 n0 n1).length : Int) > m) := by omega
    simp [listWith2, this]
  · intro m hm
    have : ((s.having2 n0 n1).length : Int) > m := by omega
    simp [listWith2, this]

/-- frame: `add` returns an id that was not valid, stores exactly `nodes` there and leaves every valid cell
    alone; `remove` leaves every other valid cell alone -/
theorem cell_frame {s : CellStore} (h : CellInv s) :
    (∀ nodes : List Int, nodes.length = s.sizePer → (∀ v ∈ nodes.take s.nodePer, 0 ≤ v) →
      (s.add nodes).1 = .ok →
      s.validCell (s.add nodes).2.1 = false ∧
      (s.add nodes).2.2.cellNodes (s.add nodes).2.1 = nodes.take s.nodePer ∧
      ∀ c, s.validCell c = true →
        (s.add nodes).2.2.validCell c = true ∧ (s.add nodes).2.2.cellNodes c = s.cellNodes c) ∧
    (∀ cell, s.validCell cell = true → ∀ c, c ≠ cell → s.validCell c = true →
      (s.remove cell).2.validCell c = true ∧ (s.remove cell).2.cellNodes c = s.cellNodes c) := by
  constructor
  · intro nodes hlen hnn hok
    obtain ⟨h1, _, h3, h4⟩ := add_frame h hlen hnn hok
    exact ⟨h1, h3, h4⟩
  · intro cell hv c hc hvc
    exact (remove_frame h hv).2.2 c hc hvc

/-- slot reuse: `remove` then `add` returns the freed cell id (and, by `cell_frame`, disturbs no other cell) -/
theorem cell_slot_reuse {s : CellStore} (h : CellInv s) {cell : Int} (hv : s.validCell cell = true)
    {nodes : List Int} (hlen : nodes.length = s.sizePer) (hnn : ∀ v ∈ nodes.take s.nodePer, 0 ≤ v) :
    ((s.remove cell).2.add nodes).1 = .ok ∧ ((s.remove cell).2.add nodes).2.1 = cell :=
  remove_add_reuses h hv hlen hnn

/-- operations of the cell store with the argument guards under which the C is defined
    (`size_per` entries, non-negative node ids) -/
inductive COp
  | add (nodes : List Int) | remove (cell : Int)
  | replaceWhole (cell : Int) (nodes : List Int) | replaceNode (old new : Int)

def goodNodes (s : CellStore) (nodes : List Int) : Bool :=
  decide (nodes.length = s.sizePer) && (nodes.take s.nodePer).all fun v => decide (0 ≤ v)

def cstep (s : CellStore) : COp → CellStore
  | .add nodes => if goodNodes s nodes then (s.add nodes).2.2 else s
  | .remove cell => (s.remove cell).2
  | .replaceWhole cell nodes =>
    if goodNodes s nodes && s.validCell cell then (s.replaceWhole cell nodes).2 else s
  | .replaceNode old new =>
    if 0 ≤ new then (match s.replaceNode old new with | some r => r.2 | none => s) else s

theorem goodNodes_iff {s : CellStore} {nodes : List Int} :
    goodNodes s nodes = true ↔ nodes.length = s.sizePer ∧ ∀ v ∈ nodes.take s.nodePer, 0 ≤ v := by
  simp [goodNodes]

theorem cell_step_preserves {s : CellStore} (h : CellInv s) (o : COp) : CellInv (cstep s o) := by
  cases o with
  | add nodes =>
    simp only [cstep]; split
    · rename_i hg; obtain ⟨h1, h2⟩ := goodNodes_iff.1 hg; exact (add_CellInv h h1 h2).1
    · exact h
  | remove cell =>
    simp only [cstep]
    cases hv : s.validCell cell with
    | true => exact (remove_CellInv h hv).2
    | false => rw [CellStore.remove_invalid hv]; exact h
  | replaceWhole cell nodes =>
    simp only [cstep]; split
    · rename_i hg
      simp only [Bool.and_eq_true] at hg
      obtain ⟨h1, h2⟩ := goodNodes_iff.1 hg.1
      obtain ⟨r, hr, hinv, _⟩ := replaceWhole_spec h hg.2 h1 h2
      rw [hr]; exact hinv
    · exact h
  | replaceNode old new =>
    simp only [cstep]; split
    · rename_i hnew
      obtain ⟨r, hr, hinv, _⟩ := replaceNode_spec h old hnew
      rw [hr]; exact hinv
    · exact h

/-- **CellInv for every operation sequence** on every cell type -/
theorem cell_inv_all_sequences (t : Refine.Gen.CellTables.CellType) (ht : t ∈ Refine.Gen.CellTables.all)
    (ops : List COp) : CellInv (ops.foldl cstep (CellStore.create t)) := by
  suffices ∀ s, CellInv s → CellInv (ops.foldl cstep s) from this _ (cell_create_inv t ht)
  induction ops with
  | nil => intro s h; exact h
  | cons o rest ih => intro s h; exact ih _ (cell_step_preserves h o)

/-! ### non-vacuity -/

/-- two triangles sharing the edge 2-3, then vertex 3 replaced by 7 -/
def exCells : CellStore :=
  [COp.add [1, 2, 3, 10], COp.add [3, 2, 4, 11], COp.replaceNode 3 7].foldl cstep
    (CellStore.create Refine.Gen.CellTables.tri)

example : exCells.n = 2 ∧ exCells.row 0 = [1, 2, 7, 10] ∧ exCells.row 1 = [7, 2, 4, 11] ∧
    exCells.adj.first 7 = [0, 1] ∧ exCells.adj.first 3 = [] ∧ exCells.adj.first 2 = [1, 0] ∧
    exCells.withNodes [2, 4, 7] = (.ok, 1) ∧ exCells.withNodes [1, 2, 3] = (.not_found, -1) := by decide

example : CellInv exCells :=
  cell_inv_all_sequences _ (by decide) [COp.add [1, 2, 3, 10], COp.add [3, 2, 4, 11], COp.replaceNode 3 7]

/-- remove then add re-uses slot 0 on the example -/
example : ((exCells.remove 0).2.add [5, 6, 7, 12]).2.1 = 0 := by decide

end Cell

end Refine.Props.C14NodeCell
