import Refine.Model.NodeIds
import Refine.Model.CellStore

namespace Refine.Props.C14NodeCell
open Refine.Model.NodeIds

theorem create_n : NodeIds.create.n = 0 := rfl

end Refine.Props.C14NodeCell
