import Refine.Lemmas.PartLemmas

/-!
  C07 — rank-count independence of non-adaptive commands.

  Part (a): the implicit block partition of `ref_part.h`.  Every theorem below is about the definitions
  *generated* from the header on each run (`Refine.Gen.PartMacros`; `Int`, `Int.tdiv` = C `/`).
-/
namespace Refine.Props.C07
open Refine.Gen.PartMacros Refine.Lemmas.Part

/-- `large = small + 1` and `nLarge = (N-1) % np + 1 ∈ [1, np]` — the two facts the block arithmetic rests on -/
theorem part_sizes (N np : Int) (hN : 1 ≤ N) (hp : 1 ≤ np) :
    ref_part_large_part_size N np = ref_part_small_part_size N np + 1 ∧
    ref_part_n_large_part N np = (N - 1) % np + 1 ∧
    1 ≤ ref_part_n_large_part N np ∧ ref_part_n_large_part N np ≤ np ∧
    0 ≤ ref_part_small_part_size N np :=
  ⟨large_eq N np hN hp, nLarge_eq N np hN, nLarge_pos N np hN hp, nLarge_le N np hN hp, small_nonneg N np hN hp⟩

/-- the first block starts at 0 -/
theorem first_zero (N np : Int) (hN : 1 ≤ N) (hp : 1 ≤ np) : ref_part_first N np 0 = 0 := by
  have h := first_eq N np 0 hN hp
  have hL := nLarge_pos N np hN hp
  unfold first at h
  rw [h, min_eq_left (by omega)]; ring

/-- `first np = N`: the blocks cover exactly `[0, N)` -/
theorem first_np (N np : Int) (hN : 1 ≤ N) (hp : 1 ≤ np) : ref_part_first N np np = N := by
  have h := first_eq N np np hN hp
  have hL := nLarge_le N np hN hp
  have ht := total_eq N np
  unfold first at h
  rw [h, min_eq_right hL]; linarith

/-- `first` is monotone in the part index -/
theorem first_mono (N np j k : Int) (hN : 1 ≤ N) (hp : 1 ≤ np) (hjk : j ≤ k) :
    ref_part_first N np j ≤ ref_part_first N np k := by
  have hj := first_eq N np j hN hp
  have hk := first_eq N np k hN hp
  have hs := small_nonneg N np hN hp
  unfold first at hj hk
  rw [hj, hk]
  have hm : min j (nLarge N np) ≤ min k (nLarge N np) := min_le_min_right _ hjk
  nlinarith

/-- block sizes are `small` or `small + 1`: they differ by at most one, larger blocks first -/
theorem block_size (N np k : Int) (hN : 1 ≤ N) (hp : 1 ≤ np) :
    ref_part_first N np (k + 1) - ref_part_first N np k =
      ref_part_small_part_size N np + (if k < ref_part_n_large_part N np then 1 else 0) := by
  have hj := first_eq N np (k + 1) hN hp
  have hk := first_eq N np k hN hp
  unfold first at hj hk
  rw [hj, hk]
  show _ = small N np + (if k < nLarge N np then 1 else 0)
  split
  · rw [min_eq_left (by omega), min_eq_left (by omega)]; ring
  · rw [min_eq_right (by omega), min_eq_right (by omega)]; ring

/-- any two block sizes differ by at most one -/
theorem block_sizes_differ_by_le_one (N np j k : Int) (hN : 1 ≤ N) (hp : 1 ≤ np) :
    (ref_part_first N np (j + 1) - ref_part_first N np j) -
      (ref_part_first N np (k + 1) - ref_part_first N np k) ≤ 1 := by
  rw [block_size N np j hN hp, block_size N np k hN hp]
  split <;> split <;> omega

/-- **implicit_spec**: for every `N ≥ 1`, `np ≥ 1`, `0 ≤ g < N` the owner `ref_part_implicit N np g` is a
    rank, and `g` lies in that rank's block `[first r, first (r+1))`. -/
theorem implicit_spec (N np g : Int) (hN : 1 ≤ N) (hp : 1 ≤ np) (hg0 : 0 ≤ g) (hg : g < N) :
    0 ≤ ref_part_implicit N np g ∧ ref_part_implicit N np g < np ∧
    ref_part_first N np (ref_part_implicit N np g) ≤ g ∧
    g < ref_part_first N np (ref_part_implicit N np g + 1) :=
  implicit_bracket N np g hN hp hg0 hg

/-- `implicit` is the *only* rank whose block contains `g` (so reader placement and gather agree) -/
theorem implicit_unique (N np g r : Int) (hN : 1 ≤ N) (hp : 1 ≤ np) (hg0 : 0 ≤ g) (hg : g < N)
    (h1 : ref_part_first N np r ≤ g) (h2 : g < ref_part_first N np (r + 1)) :
    r = ref_part_implicit N np g := by
  obtain ⟨_, _, i1, i2⟩ := implicit_spec N np g hN hp hg0 hg
  rcases lt_trichotomy r (ref_part_implicit N np g) with h | h | h
  · have := first_mono N np (r + 1) (ref_part_implicit N np g) hN hp (by omega); omega
  · exact h
  · have := first_mono N np (ref_part_implicit N np g + 1) r hN hp (by omega); omega

/-- the second arm of `ref_part_implicit` never divides by zero (C: no SIGFPE; Lean: `tdiv _ 0 = 0` unused) -/
theorem implicit_no_div_by_zero (N np g : Int) (hN : 1 ≤ N) (hp : 1 ≤ np) (hg : g < N)
    (hbr : ¬ Int.tdiv g (ref_part_large_part_size N np) < ref_part_n_large_part N np) :
    1 ≤ ref_part_small_part_size N np :=
  implicit_else_divisor_pos N np g hN hp hg hbr

/-- non-vacuity: 10 things on 4 parts → blocks 3,3,2,2; thing 7 lives on part 2 = [6,8) -/
example : [0, 1, 2, 3, 4].map (fun k => ref_part_first 10 4 k) = [0, 3, 6, 8, 10] ∧
    ref_part_implicit 10 4 7 = 2 := by decide
/-- non-vacuity with more parts than things (small = 0): 3 things on 5 parts, parts 3,4 empty -/
example : [0, 1, 2, 3, 4, 5].map (fun k => ref_part_first 3 5 k) = [0, 1, 2, 3, 3, 3] ∧
    [0, 1, 2].map (fun g => ref_part_implicit 3 5 g) = [0, 1, 2] := by decide

end Refine.Props.C07
