import Refine.Lemmas.GeomReal
import Refine.Props.C15

/-!
  C11: field interpolation is a bounded, linearly exact transfer.
  The receptor value is `Σ wᵢ fᵢ` over the vertices of ONE donor cell with `w = clip(bary)`
  (`ref_interp_scalar` → `ref_node_clip_bary4`): always a convex combination (never an extrapolation),
  exact for linear fields when the receptor lies inside the donor cell, identity at donor vertices.
  Exact real arithmetic; the model functions are bit-compared with the C (stream `geom_interp`).
  Not verified: that the search returns a nearby cell, the parallel blind-send plumbing.
-/
namespace Refine.Props.C11
open Refine Refine.Model.Geom Refine.ScalarReal Refine.GeomReal

/-! ### clipping -/

/-- `ref_node_clip_bary4`, success branch: the result is a point of the simplex -/
theorem clipBary4_simplex {o w : B4 ℝ} (h : clipBary4 o = (St.ok, w)) :
    0 ≤ w.b0 ∧ 0 ≤ w.b1 ∧ 0 ≤ w.b2 ∧ 0 ≤ w.b3 ∧ w.b0 + w.b1 + w.b2 + w.b3 = 1 := by
  unfold clipBary4 at h
  simp only [isFinite_eq, Bool.not_true, Bool.or_false, Bool.false_eq_true, if_false, cmax_eq, lit0_eq,
    add_eq, div_eq] at h
  split at h
  · rename_i hg
    simp only [Bool.and_eq_true] at hg
    have ht := divisible_ne_zero hg.2
    have h0 : 0 ≤ max 0 o.b0 := le_max_left _ _
    have h1 : 0 ≤ max 0 o.b1 := le_max_left _ _
    have h2 : 0 ≤ max 0 o.b2 := le_max_left _ _
    have h3 : 0 ≤ max 0 o.b3 := le_max_left _ _
    have hpos : 0 < max 0 o.b0 + max 0 o.b1 + max 0 o.b2 + max 0 o.b3 :=
      lt_of_le_of_ne (by positivity) (Ne.symm ht)
    split at h
    · simp at h
    · simp only [Prod.mk.injEq, true_and] at h
      subst h
      refine ⟨div_nonneg h0 hpos.le, div_nonneg h1 hpos.le, div_nonneg h2 hpos.le, div_nonneg h3 hpos.le, ?_⟩
      field_simp
  · simp at h

/-- `ref_node_clip_bary4`, `REF_DIV_ZERO` branch: the C returns a unit vector (a donor vertex):
    still a point of the simplex -/
theorem clipBary4_divZero {o w : B4 ℝ} (h : clipBary4 o = (St.divZero, w)) :
    w = ⟨1, 0, 0, 0⟩ ∨ w = ⟨0, 1, 0, 0⟩ ∨ w = ⟨0, 0, 1, 0⟩ ∨ w = ⟨0, 0, 0, 1⟩ := by
  unfold clipBary4 at h
  simp only [isFinite_eq, Bool.not_true, Bool.or_false, Bool.false_eq_true, if_false] at h
  split at h
  · split at h <;> simp at h
  · simp only [Prod.mk.injEq, true_and] at h
    subst h
    simp only [lit0_eq, lit1_eq]
    split_ifs <;> simp_all

/-- in exact arithmetic the `RAS` assertions of `ref_node_clip_bary4` cannot fire -/
theorem clipBary4_no_failure (o : B4 ℝ) : (clipBary4 o).1 = St.ok ∨ (clipBary4 o).1 = St.divZero := by
  unfold clipBary4
  simp only [isFinite_eq, Bool.not_true, Bool.or_false, Bool.false_eq_true, if_false, cmax_eq, lit0_eq,
    add_eq, div_eq]
  split
  · rename_i hg
    simp only [Bool.and_eq_true] at hg
    have ht := divisible_ne_zero hg.2
    have h0 : 0 ≤ max 0 o.b0 := le_max_left _ _
    have h1 : 0 ≤ max 0 o.b1 := le_max_left _ _
    have h2 : 0 ≤ max 0 o.b2 := le_max_left _ _
    have h3 : 0 ≤ max 0 o.b3 := le_max_left _ _
    have hpos : 0 < max 0 o.b0 + max 0 o.b1 + max 0 o.b2 + max 0 o.b3 :=
      lt_of_le_of_ne (by positivity) (Ne.symm ht)
    have e0 := (le_iff 0 _).mpr (div_nonneg h0 hpos.le)
    have e1 := (le_iff 0 _).mpr (div_nonneg h1 hpos.le)
    have e2 := (le_iff 0 _).mpr (div_nonneg h2 hpos.le)
    have e3 := (le_iff 0 _).mpr (div_nonneg h3 hpos.le)
    simp only [e0, e1, e2, e3, Bool.not_true, Bool.or_false, Bool.false_eq_true, if_false, true_or]
  · simp

/-- clipping is the identity on points that already lie in the simplex -/
theorem clipBary4_id {w : B4 ℝ} (h0 : 0 ≤ w.b0) (h1 : 0 ≤ w.b1) (h2 : 0 ≤ w.b2) (h3 : 0 ≤ w.b3)
    (hs : w.b0 + w.b1 + w.b2 + w.b3 = 1) : clipBary4 w = (St.ok, w) := by
  unfold clipBary4
  simp only [isFinite_eq, Bool.not_true, Bool.or_false, Bool.false_eq_true, if_false, cmax_eq, lit0_eq,
    add_eq, div_eq, max_eq_right h0, max_eq_right h1, max_eq_right h2, max_eq_right h3, hs, div_one]
  have big : (1 : ℝ) ≤ (10 : ℝ) ^ (20 : ℤ) := by norm_num
  have d : ∀ x : ℝ, 0 ≤ x → x ≤ 1 → Scalar.divisible x (1 : ℝ) = true := by
    intro x hx hx1
    rw [divisible_iff', abs_one, mul_one, abs_of_nonneg hx]
    exact lt_of_le_of_lt hx1 (by norm_num)
  rw [d _ h0 (by linarith), d _ h1 (by linarith), d _ h2 (by linarith), d _ h3 (by linarith)]
  have e0 := (le_iff 0 _).mpr h0
  have e1 := (le_iff 0 _).mpr h1
  have e2 := (le_iff 0 _).mpr h2
  have e3 := (le_iff 0 _).mpr h3
  simp only [e0, e1, e2, e3, Bool.and_self, Bool.not_true, Bool.or_false, Bool.false_eq_true, if_false, if_true]

/-- `ref_node_clip_bary3`: success ⇒ simplex; `div_zero` ⇒ unit vector -/
theorem clipBary3_simplex {o w : B3 ℝ} (h : clipBary3 o = (St.ok, w)) :
    0 ≤ w.b0 ∧ 0 ≤ w.b1 ∧ 0 ≤ w.b2 ∧ w.b0 + w.b1 + w.b2 = 1 := by
  unfold clipBary3 at h
  simp only [cmax_eq, lit0_eq, add_eq, div_eq] at h
  split at h
  · rename_i hg
    simp only [Bool.and_eq_true] at hg
    have ht := divisible_ne_zero hg.2
    have h0 : 0 ≤ max 0 o.b0 := le_max_left _ _
    have h1 : 0 ≤ max 0 o.b1 := le_max_left _ _
    have h2 : 0 ≤ max 0 o.b2 := le_max_left _ _
    have hpos : 0 < max 0 o.b0 + max 0 o.b1 + max 0 o.b2 := lt_of_le_of_ne (by positivity) (Ne.symm ht)
    split at h
    · simp at h
    · simp only [Prod.mk.injEq, true_and] at h
      subst h
      refine ⟨div_nonneg h0 hpos.le, div_nonneg h1 hpos.le, div_nonneg h2 hpos.le, ?_⟩
      field_simp
  · simp at h

theorem clipBary3_divZero {o w : B3 ℝ} (h : clipBary3 o = (St.divZero, w)) :
    w = ⟨1, 0, 0⟩ ∨ w = ⟨0, 1, 0⟩ ∨ w = ⟨0, 0, 1⟩ := by
  unfold clipBary3 at h
  simp only [] at h
  split at h
  · split at h <;> simp at h
  · simp only [Prod.mk.injEq, true_and] at h
    subst h
    simp only [lit0_eq, lit1_eq]
    split_ifs <;> simp_all

/-- `ref_node_clip_bary2` -/
theorem clipBary2_simplex {o w : B2 ℝ} (h : clipBary2 o = (St.ok, w)) :
    0 ≤ w.b0 ∧ 0 ≤ w.b1 ∧ w.b0 + w.b1 = 1 := by
  unfold clipBary2 at h
  simp only [cmax_eq, lit0_eq, add_eq, div_eq] at h
  split at h
  · rename_i hg
    simp only [Bool.and_eq_true] at hg
    have ht := divisible_ne_zero hg.2
    have h0 : 0 ≤ max 0 o.b0 := le_max_left _ _
    have h1 : 0 ≤ max 0 o.b1 := le_max_left _ _
    have hpos : 0 < max 0 o.b0 + max 0 o.b1 := lt_of_le_of_ne (by positivity) (Ne.symm ht)
    split at h
    · simp at h
    · simp only [Prod.mk.injEq, true_and] at h
      subst h
      refine ⟨div_nonneg h0 hpos.le, div_nonneg h1 hpos.le, ?_⟩
      field_simp
  · simp at h

theorem clipBary2_divZero {o w : B2 ℝ} (h : clipBary2 o = (St.divZero, w)) :
    w = ⟨1, 0⟩ ∨ w = ⟨0, 1⟩ := by
  unfold clipBary2 at h
  simp only [] at h
  split at h
  · split at h <;> simp at h
  · simp only [Prod.mk.injEq, true_and] at h
    subst h
    simp only [lit0_eq, lit1_eq]
    split_ifs <;> simp_all

/-! ### convex combinations -/

/-- a convex combination never leaves the range of the combined values -/
theorem convex_range (w0 w1 w2 w3 f0 f1 f2 f3 : ℝ) (h0 : 0 ≤ w0) (h1 : 0 ≤ w1) (h2 : 0 ≤ w2) (h3 : 0 ≤ w3)
    (hs : w0 + w1 + w2 + w3 = 1) :
    min (min f0 f1) (min f2 f3) ≤ w0 * f0 + w1 * f1 + w2 * f2 + w3 * f3 ∧
    w0 * f0 + w1 * f1 + w2 * f2 + w3 * f3 ≤ max (max f0 f1) (max f2 f3) := by
  set lo := min (min f0 f1) (min f2 f3) with hlo
  set hi := max (max f0 f1) (max f2 f3) with hhi
  have l0 : lo ≤ f0 := le_trans (min_le_left _ _) (min_le_left _ _)
  have l1 : lo ≤ f1 := le_trans (min_le_left _ _) (min_le_right _ _)
  have l2 : lo ≤ f2 := le_trans (min_le_right _ _) (min_le_left _ _)
  have l3 : lo ≤ f3 := le_trans (min_le_right _ _) (min_le_right _ _)
  have u0 : f0 ≤ hi := le_trans (le_max_left _ _) (le_max_left _ _)
  have u1 : f1 ≤ hi := le_trans (le_max_right _ _) (le_max_left _ _)
  have u2 : f2 ≤ hi := le_trans (le_max_left _ _) (le_max_right _ _)
  have u3 : f3 ≤ hi := le_trans (le_max_right _ _) (le_max_right _ _)
  constructor
  · have : lo = (w0 + w1 + w2 + w3) * lo := by rw [hs, one_mul]
    nlinarith [mul_le_mul_of_nonneg_left l0 h0, mul_le_mul_of_nonneg_left l1 h1,
      mul_le_mul_of_nonneg_left l2 h2, mul_le_mul_of_nonneg_left l3 h3]
  · have : hi = (w0 + w1 + w2 + w3) * hi := by rw [hs, one_mul]
    nlinarith [mul_le_mul_of_nonneg_left u0 h0, mul_le_mul_of_nonneg_left u1 h1,
      mul_le_mul_of_nonneg_left u2 h2, mul_le_mul_of_nonneg_left u3 h3]

/-- weights that reproduce a point reproduce every field that is linear in space -/
theorem convex_linear (w0 w1 w2 w3 α : ℝ) (g a b c d p : V3 ℝ) (hs : w0 + w1 + w2 + w3 = 1)
    (hp : vadd (vadd (vadd (vsmul w0 a) (vsmul w1 b)) (vsmul w2 c)) (vsmul w3 d) = p) :
    w0 * (α + vdot g a) + w1 * (α + vdot g b) + w2 * (α + vdot g c) + w3 * (α + vdot g d) = α + vdot g p := by
  subst hp
  simp only [vadd, vsmul, vdot]
  linear_combination α * hs

/-! ### the evaluation loop of `ref_interp_scalar` -/

/-- bounded transfer: whatever barycentric weights are stored (inside, slightly outside, garbage),
    a successful evaluation is a convex combination of the four donor values — never an extrapolation -/
theorem interp_range {bary f : B4 ℝ} {v : ℝ} (h : interpScalar 4 bary f = (St.ok, v)) :
    min (min f.b0 f.b1) (min f.b2 f.b3) ≤ v ∧ v ≤ max (max f.b0 f.b1) (max f.b2 f.b3) := by
  unfold interpScalar at h
  split at h
  · rename_i w hc
    obtain ⟨h0, h1, h2, h3, hs⟩ := clipBary4_simplex hc
    simp only [isFinite_eq, if_true, Prod.mk.injEq, true_and, lit0_eq, add_eq, mul_eq, zero_add] at h
    have : v = w.b0 * f.b0 + w.b1 * f.b1 + w.b2 * f.b2 + w.b3 * f.b3 := by
      rw [← h]; simp
    rw [this]
    exact convex_range _ _ _ _ _ _ _ _ h0 h1 h2 h3 hs
  · rename_i st w hne hc
    simp only [Prod.mk.injEq] at h
    exact absurd h.1 hne

/-- 2-D donors (3 nodes summed, the 4th stored weight is zero or negative): same bound over the
    three donor values -/
theorem interp_range3 {bary f : B4 ℝ} {v : ℝ} (hb3 : bary.b3 ≤ 0) (h : interpScalar 3 bary f = (St.ok, v)) :
    min (min f.b0 f.b1) f.b2 ≤ v ∧ v ≤ max (max f.b0 f.b1) f.b2 := by
  unfold interpScalar at h
  split at h
  · rename_i w hc
    obtain ⟨h0, h1, h2, h3, hs⟩ := clipBary4_simplex hc
    -- the clipped 4th weight is zero
    have hw3 : w.b3 = 0 := by
      unfold clipBary4 at hc
      simp only [isFinite_eq, Bool.not_true, Bool.or_false, Bool.false_eq_true, if_false, cmax_eq, lit0_eq,
        add_eq, div_eq, max_eq_left hb3] at hc
      split at hc
      · split at hc
        · simp at hc
        · simp only [Prod.mk.injEq, true_and] at hc
          rw [← hc]; simp
      · simp at hc
    simp only [isFinite_eq, if_true, Prod.mk.injEq, true_and, lit0_eq, add_eq, mul_eq, zero_add] at h
    have hv : v = w.b0 * f.b0 + w.b1 * f.b1 + w.b2 * f.b2 + w.b3 * f.b2 := by
      rw [← h, hw3]; simp
    rw [hv]
    have := convex_range _ _ _ _ f.b0 f.b1 f.b2 f.b2 h0 h1 h2 h3 hs
    simpa using this
  · rename_i st w hne hc
    simp only [Prod.mk.injEq] at h
    exact absurd h.1 hne

/-- identity on the donor mesh: a receptor that coincides with donor vertex `k` (unit weight) receives
    exactly the donor value -/
theorem interp_identity (f : B4 ℝ) :
    interpScalar 4 ⟨1, 0, 0, 0⟩ f = (St.ok, f.b0) ∧ interpScalar 4 ⟨0, 1, 0, 0⟩ f = (St.ok, f.b1) ∧
    interpScalar 4 ⟨0, 0, 1, 0⟩ f = (St.ok, f.b2) ∧ interpScalar 4 ⟨0, 0, 0, 1⟩ f = (St.ok, f.b3) := by
  refine ⟨?_, ?_, ?_, ?_⟩ <;>
  · unfold interpScalar
    rw [clipBary4_id (by norm_num) (by norm_num) (by norm_num) (by norm_num) (by norm_num)]
    simp only [isFinite_eq, if_true, lit0_eq, add_eq, mul_eq]
    norm_num

/-- linear exactness, composed as the code composes it: `ref_node_bary4` of a receptor point that lies
    inside the donor tet (all weights ≥ 0), then `ref_interp_scalar` (clip + weighted sum), reproduces
    every field that is linear in space exactly -/
theorem interp_linear_inside {a b c d p g : V3 ℝ} {w : B4 ℝ} (α : ℝ)
    (hb : bary4 a b c d p = (St.ok, w))
    (h0 : 0 ≤ w.b0) (h1 : 0 ≤ w.b1) (h2 : 0 ≤ w.b2) (h3 : 0 ≤ w.b3) :
    interpScalar 4 w ⟨α + vdot g a, α + vdot g b, α + vdot g c, α + vdot g d⟩ = (St.ok, α + vdot g p) := by
  have hs := Refine.Props.C15.bary4_sum hb
  have hp := Refine.Props.C15.bary4_reproduce hb
  unfold interpScalar
  rw [clipBary4_id h0 h1 h2 h3 hs]
  simp only [isFinite_eq, if_true, lit0_eq, add_eq, mul_eq, zero_add, Prod.mk.injEq, true_and]
  have := convex_linear w.b0 w.b1 w.b2 w.b3 α g a b c d p hs hp
  simpa using this

/-- slightly outside the donor cell (some weight negative): the result is the linear field evaluated
    at the clipped point `Σ clip(w)ᵢ xᵢ` of the donor cell — a point of the cell, not an extrapolation -/
theorem interp_linear_clipped {a b c d g : V3 ℝ} {o w : B4 ℝ} (α : ℝ) (hc : clipBary4 o = (St.ok, w)) :
    interpScalar 4 o ⟨α + vdot g a, α + vdot g b, α + vdot g c, α + vdot g d⟩ =
      (St.ok, α + vdot g (vadd (vadd (vadd (vsmul w.b0 a) (vsmul w.b1 b)) (vsmul w.b2 c)) (vsmul w.b3 d))) := by
  obtain ⟨_, _, _, _, hs⟩ := clipBary4_simplex hc
  unfold interpScalar
  rw [hc]
  simp only [isFinite_eq, if_true, lit0_eq, add_eq, mul_eq, zero_add, Prod.mk.injEq, true_and]
  have := convex_linear w.b0 w.b1 w.b2 w.b3 α g a b c d _ hs rfl
  simpa using this

/-! ### non-vacuity -/

example : clipBary4 (⟨1/2, 3/4, -1/4, 0⟩ : B4 ℝ) = (St.ok, ⟨2/5, 3/5, 0, 0⟩) := by
  unfold clipBary4
  simp only [isFinite_eq, cmax_eq, lit0_eq, add_eq, div_eq]
  norm_num [divisible_iff', le_false_iff]

/-- the `div_zero` branch is reachable: every weight non-positive -/
example : clipBary4 (⟨-1, -2, 0, -1/2⟩ : B4 ℝ) = (St.divZero, ⟨1, 0, 0, 0⟩) := by
  unfold clipBary4
  simp only [isFinite_eq, cmax_eq, lit0_eq, lit1_eq, add_eq, div_eq]
  norm_num [divisible_iff']

/-- hypotheses of `interp_linear_inside` hold for the centroid of the unit tet -/
example : ∃ w : B4 ℝ, bary4 (⟨0, 0, 0⟩ : V3 ℝ) ⟨1, 0, 0⟩ ⟨0, 1, 0⟩ ⟨0, 0, 1⟩ ⟨1/4, 1/4, 1/4⟩ = (St.ok, w) ∧
    0 ≤ w.b0 ∧ 0 ≤ w.b1 ∧ 0 ≤ w.b2 ∧ 0 ≤ w.b3 := by
  refine ⟨⟨1/4, 1/4, 1/4, 1/4⟩, ?_, by norm_num, by norm_num, by norm_num, by norm_num⟩
  unfold bary4
  simp only [tetDet, add_eq, sub_eq, mul_eq, div_eq]
  norm_num [divisible_iff']

example : interpScalar 4 (⟨1/2, 3/4, -1/4, 0⟩ : B4 ℝ) ⟨1, 2, 100, 3⟩ = (St.ok, 8/5) := by
  have hc : clipBary4 (⟨1/2, 3/4, -1/4, 0⟩ : B4 ℝ) = (St.ok, ⟨2/5, 3/5, 0, 0⟩) := by
    unfold clipBary4
    simp only [isFinite_eq, cmax_eq, lit0_eq, add_eq, div_eq]
    norm_num [divisible_iff', le_false_iff]
  unfold interpScalar
  rw [hc]
  simp only [isFinite_eq, lit0_eq, add_eq, mul_eq]
  norm_num

end Refine.Props.C11
