import Refine.Lemmas.ParGuards
import Refine.Props.C07Gather
import Refine.Gen.SideConds

/-!
  C04 — parallel adaptation is as safe as serial: the two mechanisms that are proved here.

  (a) Operators act only where all touched cells are fully owned.  The four guards of the C
      (ref_cell_local_gem, ref_swap_local_cell, ref_smooth_local_cell_about, ref_collapse_edge_local_cell; model
      `Refine.Model.Par`, tied by the diff stream `par_guards`) answer `true` exactly when every cell of the set the
      kernel touches has all its nodes owned by the calling rank; hence, with a partition `part` on which the ranks
      agree, what two different ranks modify in one sweep is disjoint, nothing a rank modifies is stored on another
      rank (no ghost copy goes stale) and no modified cell has a ghost vertex.
  (b) The gathered output contains every vertex and every cell exactly once (`Refine.Props.C07Gather`, restated).
  (c) Side condition generated from the sources: no wildcard / probing receive.

  Not proved here (see checks/c04.py ASSUMPTIONS): ref_subdiv's consistent split of edges spanning parts, the cavity
  PARTITION_CONSTRAINED transitions, ref_migrate_to_balance / ref_grid_pack (package "dist"), real deadlock freedom.
-/
namespace Refine.Props.C04
open Refine.Model.Comm Refine.Model.Par Refine.Lemmas.Par

/-- ref_cell_local_gem (split, cavity seed): `true` iff every cell containing both edge nodes is fully owned -/
theorem local_gem_sound (cells : List Cell) (part : Nat → Nat) (me n0 n1 : Nat) :
    cellLocalGem cells part me n0 n1 = true ↔ ∀ c ∈ cells, n0 ∈ c → n1 ∈ c → FullyOwned part me c :=
  cellLocalGem_iff cells part me n0 n1

/-- ref_swap_local_cell: `true` iff every triangle containing both edge nodes is fully owned -/
theorem swap_local_sound (tris : List Cell) (part : Nat → Nat) (me n0 n1 : Nat) :
    swapLocalCell tris part me n0 n1 = true ↔ ∀ c ∈ tris, n0 ∈ c → n1 ∈ c → FullyOwned part me c :=
  swapLocalCell_iff tris part me n0 n1

/-- ref_smooth_local_cell_about: `true` iff every cell of the node's ball is fully owned -/
theorem smooth_local_sound (cells : List Cell) (part : Nat → Nat) (me n : Nat) :
    smoothLocalCellAbout cells part me n = true ↔ ∀ c ∈ cells, n ∈ c → FullyOwned part me c :=
  smoothLocalCellAbout_iff cells part me n

/-- ref_collapse_edge_local_cell: `true` iff every tet and every triangle around the removed node `node1` AND around
    the kept node `node0` is fully owned (the C tests both balls; the `edg` group is not tested) -/
theorem collapse_local_sound (tets tris : List Cell) (part : Nat → Nat) (me n0 n1 : Nat) :
    collapseEdgeLocalCell tets tris part me n0 n1 = true ↔
      ∀ c, (c ∈ tets ∨ c ∈ tris) → (n0 ∈ c ∨ n1 ∈ c) → FullyOwned part me c :=
  collapseEdgeLocalCell_iff tets tris part me n0 n1

/-- **ownership_disjoint** — if every rank `r` modifies only (non-empty) cells all of whose vertices have
    `part = r`, then for `r ≠ q`: no cell is modified by both, no cell modified by `r` is stored on `q` at all under
    the storage rule "rank q stores c ⇔ some vertex of c has part q", and a modified cell has no ghost vertex. -/
theorem ownership_disjoint (part : Nat → Nat) (modified : Nat → List Cell)
    (hown : ∀ r, ∀ c ∈ modified r, FullyOwned part r c) (hne : ∀ r, ∀ c ∈ modified r, c ≠ [])
    (r q : Nat) (hrq : r ≠ q) :
    (∀ c ∈ modified r, c ∉ modified q) ∧ (∀ c ∈ modified r, ¬ StoredOn part q c) ∧
    (∀ c ∈ modified r, ∀ v ∈ c, part v = r) := by
  refine ⟨?_, ?_, fun c hc => hown r c hc⟩
  · intro c hc hcq
    have h1 := (fullyOwned_stored_iff part r r c (hne r c hc) (hown r c hc)).mpr rfl
    have h2 := (fullyOwned_stored_iff part q r c (hne q c hcq) (hown q c hcq)).mp h1
    exact hrq h2
  · intro c hc hs
    exact hrq ((fullyOwned_stored_iff part r q c (hne r c hc) (hown r c hc)).mp hs).symm

/-- the cells a rank may modify in one sweep, as selected by the guards: cells (named by global node ids, `part`
    agreed between the ranks) containing both nodes of an edge whose gem guard passed (split / swap), cells around
    either node of an edge whose collapse guard passed, cells around a node whose smoothing guard passed -/
def sweepModified (part : Nat → Nat) (cells : Nat → List Cell) (edges collapses : Nat → List (Nat × Nat))
    (smooths : Nat → List Nat) (r : Nat) (c : Cell) : Prop :=
  c ∈ cells r ∧
  ((∃ e ∈ edges r, cellLocalGem (cells r) part r e.1 e.2 = true ∧ e.1 ∈ c ∧ e.2 ∈ c) ∨
   (∃ e ∈ collapses r, collapseEdgeLocalCell (cells r) [] part r e.1 e.2 = true ∧ (e.1 ∈ c ∨ e.2 ∈ c)) ∨
   (∃ n ∈ smooths r, smoothLocalCellAbout (cells r) part r n = true ∧ n ∈ c))

/-- **sweep_disjoint** — guards ⇒ disjointness: whatever edges / nodes the ranks try, a cell selected on rank `r`
    through a passed guard is fully owned by `r`, is not stored on any other rank `q`, and is not selected there -/
theorem sweep_disjoint (part : Nat → Nat) (cells : Nat → List Cell) (edges collapses : Nat → List (Nat × Nat))
    (smooths : Nat → List Nat) (r q : Nat) (hrq : r ≠ q) (c : Cell)
    (hr : sweepModified part cells edges collapses smooths r c) :
    FullyOwned part r c ∧ ¬ StoredOn part q c ∧ ¬ sweepModified part cells edges collapses smooths q c := by
  have owned_of : ∀ s, sweepModified part cells edges collapses smooths s c → FullyOwned part s c ∧ c ≠ [] := by
    intro s hs
    obtain ⟨hc, h⟩ := hs
    rcases h with ⟨e, _, hg, h0, h1⟩ | ⟨e, _, hg, h01⟩ | ⟨n, _, hg, hn⟩
    · exact ⟨(local_gem_sound _ _ _ _ _).mp hg c hc h0 h1, List.ne_nil_of_mem h0⟩
    · refine ⟨(collapse_local_sound _ _ _ _ _ _).mp hg c (Or.inl hc) h01, ?_⟩
      rcases h01 with h | h <;> exact List.ne_nil_of_mem h
    · exact ⟨(smooth_local_sound _ _ _ _).mp hg c hc hn, List.ne_nil_of_mem hn⟩
  obtain ⟨ho, hne⟩ := owned_of r hr
  refine ⟨ho, ?_, ?_⟩
  · intro hs; exact hrq ((fullyOwned_stored_iff part r q c hne ho).mp hs).symm
  · intro hq
    obtain ⟨hoq, _⟩ := owned_of q hq
    have h1 := (fullyOwned_stored_iff part r r c hne ho).mpr rfl
    exact hrq ((fullyOwned_stored_iff part q r c hne hoq).mp h1)

/-- **gathered_vertices_once** (C04 "every vertex exactly once"): restatement of `C07Gather.gather_node_spec` -/
theorem gathered_vertices_once {α : Type} (add : α → α → α) (zero : α) (hz1 : ∀ x, add zero x = x)
    (hz2 : ∀ x, add x zero = x) (w : World (RankView α)) (hw : w ≠ []) (N : Nat) (rbl : Int)
    (hrbl : rbl ≤ 0 ∨ 32 ≤ rbl) (honce : ∀ g, g < N → ownerCount w g = 1) :
    gatherNode add zero rbl N w = .done Status.ok ((List.range N).map (payloadAt zero w)) :=
  Refine.Props.C07Gather.gather_node_spec add zero hz1 hz2 w hw N rbl hrbl honce

/-- a vertex owned twice or by nobody makes the gather fail ("node used more or less than once") -/
theorem gathered_vertices_checked {α : Type} (add : α → α → α) (zero : α) (w : World (RankView α)) (hw : w ≠ [])
    (N chunk : Nat) (hchunk : 1 ≤ chunk) :
    ∃ written bad, gatherNodeChunked add zero chunk N w = some (written, bad) ∧ written.length = N ∧
      (bad = true ↔ ∃ g, g < N ∧ ownerCount w g ≠ 1) :=
  Refine.Props.C07Gather.gather_node_fails_iff add zero w hw N chunk hchunk

/-- **gathered_cells_once** (C04 "every cell exactly once"): restatement of `C07Gather.gather_cell_once` -/
theorem gathered_cells_once {α : Type} (part : Nat → Nat) (G : List GCell) (w : World (RankView α))
    (hcons : ∀ r v, w[r]? = some v → Consistent part G r v)
    (hne : ∀ c ∈ G, c.nodes ≠ []) (hrange : ∀ c ∈ G, ∀ g ∈ c.nodes, part g < w.length) :
    (gatherCell w).Perm G ∧ ncell w = G.length :=
  let h := Refine.Props.C07Gather.gather_cell_once part G w hcons hne hrange
  ⟨h.1, h.2.2.1⟩

/-- **no_wildcard_receive** — the sources (src/*.c, src/*.h without *_test.c, comments stripped; counted by the
    translator on every run) contain no `MPI_ANY_SOURCE`, `MPI_ANY_TAG`, `MPI_Probe`, `MPI_Iprobe`, `MPI_Waitany`.
    This is what makes the L2 collective specifications (`Refine.Props.C17`) schedule-independent: every receive
    names its source and tag, MPI matches messages of one (source, tag, communicator) in order, so the data a rank
    receives is a function of what the ranks sent and not of the arrival order — there is no message race. -/
theorem no_wildcard_receive : Refine.Gen.SideConds.wildcardReceives = 0 := by decide

/-- the scan behind `no_wildcard_receive` did see the MPI layer (tagged sends/receives exist, > 50 files) -/
theorem scan_saw_mpi_layer :
    0 < Refine.Gen.SideConds.pointToPointCalls ∧ 50 < Refine.Gen.SideConds.filesScanned := by decide

/-! ### non-vacuity -/

/-- two tets sharing the face (1,2,3); vertex 4 belongs to rank 1 -/
def partEx : Nat → Nat := fun v => if v = 4 then 1 else 0
def cellsEx : List Cell := [[0, 1, 2, 3], [1, 2, 3, 4]]

example : cellLocalGem cellsEx partEx 0 0 1 = true := by decide      -- edge (0,1): only the owned tet
example : cellLocalGem cellsEx partEx 0 1 2 = false := by decide     -- edge (1,2): the second tet has a ghost
example : collapseEdgeLocalCell cellsEx [] partEx 0 0 1 = false := by decide  -- node 1's ball has the ghost tet
example : smoothLocalCellAbout cellsEx partEx 0 0 = true := by decide

example : sweepModified partEx (fun _ => cellsEx) (fun r => if r = 0 then [(0, 1)] else []) (fun _ => [])
    (fun _ => []) 0 [0, 1, 2, 3] :=
  ⟨by decide, Or.inl ⟨(0, 1), by decide, by decide, by decide, by decide⟩⟩

/-- hypotheses of `ownership_disjoint` on a 2-rank example: rank 0 modifies the tet it fully owns, rank 1 its own -/
example : let part : Nat → Nat := fun v => if v < 4 then 0 else 1
    let modified : Nat → List Cell := fun r => if r = 0 then [[0, 1, 2, 3]] else if r = 1 then [[4, 5, 6, 7]] else []
    (∀ r, ∀ c ∈ modified r, FullyOwned part r c) ∧ (∀ r, ∀ c ∈ modified r, c ≠ []) := by
  intro part modified
  constructor <;> intro r c hc <;> by_cases h0 : r = 0 <;> by_cases h1 : r = 1 <;>
    simp [modified, h0, h1] at hc <;> subst hc <;> simp_all [FullyOwned, part]

end Refine.Props.C04
