import Refine.Model.Guards
import Refine.Lemmas.GuardsRules
import Refine.Lemmas.GuardsReal
import Refine.Props.C15

/-!
  C02: adaptation without a CAD model never changes the computational domain.

  Theorems about the executable guard models of `Refine/Model/Guards.lean`; the same definitions, at the
  `Float` instance, are compared line by line with the real C functions by the streams `guards_*`
  (`checks/streams_guards.py`, `harness/h_guards.c`, `Drivers/Guards.lean`).  Numeric statements are over ℝ:
  they hold in exact arithmetic; IEEE rounding is modelled (bit-compared), not verified.

  (a) the face-id decision rule of `ref_collapse_edge_geometry`   (corner / ridge / patch / interior)
  (b) the mixed-element frames                                    (non-simplex cells are carried through)
  (c) exact conservation identities                               (split on the chord, volume, area, swap)
  (d) what the same-normal guard gives                            (bound, planarity, fan vector area)
-/
namespace Refine.Props.C02
open Refine Refine.Model Refine.Model.Guards Refine.GuardsRules

/-! ## (a) `collapseGeometry_rule` -/

/-- the triangle-id `switch (degree1)` of `ref_collapse_edge_geometry` -/
def triRule (g : Grid) (n0 n1 : Nat) : Status × Bool :=
  match (idListAround g.tri n1 3).2 with
  | [_, _, _] => (.ok, false)
  | [i0, i1] =>
    match listWith2 g.tri n0 n1 MAX_CELL_COLLAPSE with
    | (.ok, [c0, c1]) => (.ok, (c0.id == i0 && c1.id == i1) || (c1.id == i0 && c0.id == i1))
    | (.ok, _) => (.ok, false)
    | (st, _) => (st, false)
  | [_] => (.ok, hasSide e2nTri g.tri n0 n1)
  | [] => (.ok, true)
  | _ => (.ok, false)

/-- `degree1 > 1` after `ref_cell_id_list_around(ref_edg, node1, 2, ..)`: two different edg ids meet at node1
    (fix 285dd96) -/
def edgSeparator (g : Grid) (n1 : Nat) : Bool := (idListAround g.edg n1 2).2.length > 1

/-- without CAD the function is a pure function of the edg ids and the tri ids collected around node1 -/
theorem collapseGeometry_unfold (g : Grid) (n0 n1 : Nat) :
    collapseEdgeGeometry g false false n0 n1 =
      if edgSeparator g n1 then (.ok, false) else triRule g n0 n1 := by
  unfold collapseEdgeGeometry edgSeparator triRule
  simp only [Bool.false_eq_true, if_false, decide_eq_true_eq]
  rfl

/-- allowed ⇒ node1 does not separate edg ids and the triangle rule allows -/
theorem collapseGeometry_allowed (g : Grid) (n0 n1 : Nat)
    (h : collapseEdgeGeometry g false false n0 n1 = (.ok, true)) :
    edgSeparator g n1 = false ∧ triRule g n0 n1 = (.ok, true) := by
  rw [collapseGeometry_unfold] at h
  cases hs : edgSeparator g n1 <;> simp [hs] at h ⊢
  exact h

/-- the triangle rule refuses ⇒ refused -/
theorem collapseGeometry_refused (g : Grid) (n0 n1 : Nat) (h : triRule g n0 n1 = (.ok, false)) :
    collapseEdgeGeometry g false false n0 n1 = (.ok, false) := by
  rw [collapseGeometry_unfold, h]; simp

/-- **a vertex where two boundary-edge ids meet is never removed** (the 2-D analogue of the corner rule;
    fix 285dd96).  If two `edg` cells around node1 carry different ids the collapse is refused for every
    node0, whatever the triangles say. -/
theorem edg_separator_preserved (g : Grid) (n0 n1 : Nat) (e1 e2 : Cell)
    (h1 : e1 ∈ g.edg) (h2 : e2 ∈ g.edg) (m1 : n1 ∈ e1.nodes) (m2 : n1 ∈ e2.nodes) (d : e1.id ≠ e2.id) :
    collapseEdgeGeometry g false false n0 n1 = (.ok, false) := by
  rw [collapseGeometry_unfold]
  have : edgSeparator g n1 = true := by
    unfold edgSeparator
    obtain ⟨hnd, _, hall, _⟩ := idListAround_spec g.edg n1 2
    rcases hall with h | h
    · have a1 := h e1 h1 m1
      have a2 := h e2 h2 m2
      generalize (idListAround g.edg n1 2).2 = r at a1 a2 hnd
      match r, a1, a2, hnd with
      | [], a1, _, _ => simp at a1
      | [x], a1, a2, _ =>
        rw [List.mem_singleton] at a1 a2
        exact absurd (a1.trans a2.symm) d
      | _ :: _ :: _, _, _, _ => simp
    · simp only [gt_iff_lt, decide_eq_true_eq]; omega
  simp [this]

/-- **k ≥ 3: a corner is never removed.**  If three boundary triangles around node1 carry three pairwise
    different patch ids (this includes the case where `ref_cell_id_list_around` hits `REF_INCREASE_LIMIT`
    because there are more than three), the collapse is refused, for every node0. -/
theorem corner_preserved (g : Grid) (n0 n1 : Nat) (c1 c2 c3 : Cell)
    (h1 : c1 ∈ g.tri) (h2 : c2 ∈ g.tri) (h3 : c3 ∈ g.tri)
    (m1 : n1 ∈ c1.nodes) (m2 : n1 ∈ c2.nodes) (m3 : n1 ∈ c3.nodes)
    (d12 : c1.id ≠ c2.id) (d13 : c1.id ≠ c3.id) (d23 : c2.id ≠ c3.id) :
    collapseEdgeGeometry g false false n0 n1 = (.ok, false) := by
  apply collapseGeometry_refused
  unfold triRule
  obtain ⟨_, _, hall, hlen⟩ := idListAround_spec g.tri n1 3
  have h3' : 3 ≤ (idListAround g.tri n1 3).2.length := by
    rcases hall with h | h
    · exact length_ge_three (h c1 h1 m1) (h c2 h2 m2) (h c3 h3 m3) d12 d13 d23
    · exact h
  generalize (idListAround g.tri n1 3).2 = r at hlen h3'
  match r, hlen, h3' with
  | [_, _, _], _, _ => rfl
  | [], _, h => simp at h
  | [_], _, h => simp at h
  | [_, _], _, h => simp at h
  | _ :: _ :: _ :: _ :: _, h, _ => simp only [List.length_cons] at h; omega

/-- **k = 2: a ridge vertex moves only along the ridge.**  If node1 carries (at least) two different patch
    ids and the collapse is allowed, then exactly two boundary triangles contain the edge node0–node1
    (`ref_cell_list_with2` returns two entries), they carry two *different* ids, and every boundary triangle
    around node1 carries one of these two ids: the edge is the ridge between the two patches. -/
theorem ridge_rule (g : Grid) (n0 n1 : Nat) (a b : Cell)
    (ha : a ∈ g.tri) (hb : b ∈ g.tri) (ma : n1 ∈ a.nodes) (mb : n1 ∈ b.nodes) (hab : a.id ≠ b.id)
    (h : collapseEdgeGeometry g false false n0 n1 = (.ok, true)) :
    ∃ c0 c1, having2 g.tri n0 n1 = [c0, c1] ∧ c0.id ≠ c1.id ∧
      ∀ c ∈ g.tri, n1 ∈ c.nodes → c.id = c0.id ∨ c.id = c1.id := by
  replace h := (collapseGeometry_allowed g n0 n1 h).2
  unfold triRule at h
  obtain ⟨hnd, _, hall, _⟩ := idListAround_spec g.tri n1 3
  generalize (idListAround g.tri n1 3).2 = r at h hnd hall
  match r, h, hnd, hall with
  | [_, _, _], h, _, _ => simp at h
  | [], _, _, hall =>
    rcases hall with h' | h'
    · exact absurd (h' a ha ma) List.not_mem_nil
    · simp at h'
  | [x], _, _, hall =>
    rcases hall with h' | h'
    · have e1 := h' a ha ma
      have e2 := h' b hb mb
      rw [List.mem_singleton] at e1 e2
      exact absurd (e1.trans e2.symm) hab
    · simp at h'
  | [i0, i1], h, hnd, hall =>
    have hne : i0 ≠ i1 := by
      intro e; subst e; simp at hnd
    have hall' : ∀ c ∈ g.tri, n1 ∈ c.nodes → c.id = i0 ∨ c.id = i1 := by
      rcases hall with h' | h'
      · intro c hc hn
        have := h' c hc hn
        simpa using this
      · simp at h'
    unfold listWith2 at h
    simp only at h
    split at h
    · next c0 c1 heq =>
      split at heq
      · simp at heq
      · simp only [Prod.mk.injEq, true_and] at heq
        refine ⟨c0, c1, heq, ?_, ?_⟩
        · simp only [Prod.mk.injEq, true_and, Bool.or_eq_true, Bool.and_eq_true, beq_iff_eq] at h
          rcases h with ⟨e0, e1⟩ | ⟨e1, e0⟩
          · rw [e0, e1]; exact hne
          · rw [e0, e1]; exact hne.symm
        · simp only [Prod.mk.injEq, true_and, Bool.or_eq_true, Bool.and_eq_true, beq_iff_eq] at h
          intro c hc hn
          rcases h with ⟨e0, e1⟩ | ⟨e1, e0⟩
          · rw [e0, e1]; exact hall' c hc hn
          · rw [e0, e1]; exact (hall' c hc hn).symm
    · simp at h
    · simp at h
  | _ :: _ :: _ :: _ :: _, h, _, _ => simp at h

/-- **k = 1: a patch-interior vertex stays in its patch.**  If all boundary triangles around node1 carry the
    same id (and there is one), the answer is exactly `ref_cell_has_side(tri, node0, node1)`. -/
theorem patch_rule (g : Grid) (n0 n1 : Nat) (a : Cell) (ha : a ∈ g.tri) (ma : n1 ∈ a.nodes)
    (hsame : ∀ c ∈ g.tri, n1 ∈ c.nodes → c.id = a.id) (hedg : edgSeparator g n1 = false) :
    collapseEdgeGeometry g false false n0 n1 = (.ok, hasSide e2nTri g.tri n0 n1) := by
  rw [collapseGeometry_unfold, hedg]
  simp only [Bool.false_eq_true, if_false]
  unfold triRule
  obtain ⟨hnd, hsub, hall, _⟩ := idListAround_spec g.tri n1 3
  generalize (idListAround g.tri n1 3).2 = r at hnd hsub hall
  have hid : ∀ x ∈ r, x = a.id := by
    intro x hx
    obtain ⟨c, hc, hn, e⟩ := hsub x hx
    rw [← e]; exact hsame c hc hn
  match r, hnd, hall, hid with
  | [_], _, _, _ => rfl
  | [], _, hall, _ =>
    rcases hall with h' | h'
    · exact absurd (h' a ha ma) List.not_mem_nil
    · simp at h'
  | x :: y :: _, hnd, _, hid =>
    have e1 := hid x (by simp)
    have e2 := hid y (by simp)
    subst e1
    simp [e2] at hnd

/-- … and for well-formed triangles that is: some boundary triangle contains both ends of the edge -/
theorem patch_rule' (g : Grid) (n0 n1 : Nat) (a : Cell) (ha : a ∈ g.tri) (ma : n1 ∈ a.nodes)
    (hsame : ∀ c ∈ g.tri, n1 ∈ c.nodes → c.id = a.id) (hedg : edgSeparator g n1 = false)
    (hw : ∀ c ∈ g.tri, c.nodes.length = 3) (hne : n0 ≠ n1) :
    collapseEdgeGeometry g false false n0 n1 = (.ok, true) ↔ ∃ c ∈ g.tri, n0 ∈ c.nodes ∧ n1 ∈ c.nodes := by
  rw [patch_rule g n0 n1 a ha ma hsame hedg, ← hasSide_tri_iff hw hne]
  simp

/-- **k = 0: a vertex that is on no boundary triangle is free** (as far as this guard goes) -/
theorem interior_free (g : Grid) (n0 n1 : Nat) (h : ∀ c ∈ g.tri, n1 ∉ c.nodes)
    (hedg : edgSeparator g n1 = false) :
    collapseEdgeGeometry g false false n0 n1 = (.ok, true) := by
  rw [collapseGeometry_unfold, hedg]
  simp only [Bool.false_eq_true, if_false]
  unfold triRule
  obtain ⟨_, hsub, _, _⟩ := idListAround_spec g.tri n1 3
  generalize (idListAround g.tri n1 3).2 = r at hsub
  match r, hsub with
  | [], _ => rfl
  | x :: _, hsub =>
    obtain ⟨c, hc, hn, _⟩ := hsub x (by simp)
    exact absurd hn (h c hc)

/-- with CAD records: a CAD node never moves; a CAD-edge vertex moves only along an `edg` cell -/
theorem cad_rule (g : Grid) (ge : Bool) (n0 n1 : Nat) :
    collapseEdgeGeometry g true ge n0 n1 = (.ok, false) ∧
    collapseEdgeGeometry g false true n0 n1 = (.ok, hasSide e2nEdg g.edg n0 n1) := by
  simp [collapseEdgeGeometry]

/-- **`collapseGeometry_rule`**: the decision logic in one statement.  With `A` the boundary triangles
    around node1 (no CAD association):
    * three pairwise different ids in `A`  ⇒ refused;
    * two different ids in `A` and allowed ⇒ the triangles containing the edge are exactly two, with the
      two different ids, which are all the ids of `A`;
    * one id in `A` ⇒ allowed iff the edge is a side of a boundary triangle;
    * `A` empty ⇒ allowed;
    the last two when node1 does not separate two `edg` ids; if it does (two `edg` cells with different ids
    around node1) ⇒ refused. -/
theorem collapseGeometry_rule (g : Grid) (n0 n1 : Nat) :
    ((∃ c1 ∈ g.tri, ∃ c2 ∈ g.tri, ∃ c3 ∈ g.tri, n1 ∈ c1.nodes ∧ n1 ∈ c2.nodes ∧ n1 ∈ c3.nodes ∧
        c1.id ≠ c2.id ∧ c1.id ≠ c3.id ∧ c2.id ≠ c3.id) →
      collapseEdgeGeometry g false false n0 n1 = (.ok, false)) ∧
    ((∃ a ∈ g.tri, ∃ b ∈ g.tri, n1 ∈ a.nodes ∧ n1 ∈ b.nodes ∧ a.id ≠ b.id) →
      collapseEdgeGeometry g false false n0 n1 = (.ok, true) →
      ∃ c0 c1, having2 g.tri n0 n1 = [c0, c1] ∧ c0.id ≠ c1.id ∧
        ∀ c ∈ g.tri, n1 ∈ c.nodes → c.id = c0.id ∨ c.id = c1.id) ∧
    (∀ a ∈ g.tri, n1 ∈ a.nodes → (∀ c ∈ g.tri, n1 ∈ c.nodes → c.id = a.id) → edgSeparator g n1 = false →
      collapseEdgeGeometry g false false n0 n1 = (.ok, hasSide e2nTri g.tri n0 n1)) ∧
    ((∀ c ∈ g.tri, n1 ∉ c.nodes) → edgSeparator g n1 = false →
      collapseEdgeGeometry g false false n0 n1 = (.ok, true)) ∧
    ((∃ e1 ∈ g.edg, ∃ e2 ∈ g.edg, n1 ∈ e1.nodes ∧ n1 ∈ e2.nodes ∧ e1.id ≠ e2.id) →
      collapseEdgeGeometry g false false n0 n1 = (.ok, false)) := by
  refine ⟨?_, ?_, ?_, interior_free g n0 n1, ?_⟩
  · rintro ⟨c1, h1, c2, h2, c3, h3, m1, m2, m3, d12, d13, d23⟩
    exact corner_preserved g n0 n1 c1 c2 c3 h1 h2 h3 m1 m2 m3 d12 d13 d23
  · rintro ⟨a, ha, b, hb, ma, mb, hab⟩ h
    exact ridge_rule g n0 n1 a b ha hb ma mb hab h
  · intro a ha ma hsame hedg
    exact patch_rule g n0 n1 a ha ma hsame hedg
  · rintro ⟨e1, h1, e2, h2, m1, m2, d⟩
    exact edg_separator_preserved g n0 n1 e1 e2 h1 h2 m1 m2 d

/-- non-vacuity: a fan of four triangles around node 0 with ids 5,5,7,7 (ridge through nodes 1–0–3):
    collapsing 0 onto 1 or 3 (along the ridge) is allowed, onto 2 or 4 (into a patch) is refused; with a
    third id the vertex is a corner and nothing is allowed; with one id every fan edge is allowed -/
def fan (i0 i1 i2 i3 : Int) : Grid :=
  { tri := [⟨[0, 1, 2], i0⟩, ⟨[0, 2, 3], i1⟩, ⟨[0, 3, 4], i2⟩, ⟨[0, 4, 1], i3⟩] }

example : collapseEdgeGeometry (fan 5 5 7 7) false false 1 0 = (.ok, true) := by decide
example : collapseEdgeGeometry (fan 5 5 7 7) false false 3 0 = (.ok, true) := by decide
example : collapseEdgeGeometry (fan 5 5 7 7) false false 2 0 = (.ok, false) := by decide
example : collapseEdgeGeometry (fan 5 5 7 7) false false 4 0 = (.ok, false) := by decide
example : collapseEdgeGeometry (fan 5 6 7 7) false false 1 0 = (.ok, false) := by decide
example : collapseEdgeGeometry (fan 5 6 7 8) false false 1 0 = (.ok, false) := by decide
example : collapseEdgeGeometry (fan 5 5 5 5) false false 2 0 = (.ok, true) := by decide
example : collapseEdgeGeometry (fan 5 5 5 5) false false 9 0 = (.ok, false) := by decide
example : collapseEdgeGeometry (fan 5 5 7 7) false false 0 9 = (.ok, true) := by decide
/-- non-vacuity of `edg_separator_preserved`: a 2-D boundary vertex 0 on a straight side, one triangle id,
    edg ids 1 and 5 meeting at 0: refused in both directions along the side; with equal edg ids the collapse
    along the side is allowed (patch rule), into the interior node 2 as well (it is a triangle side) -/
def side2d (ia ib : Int) : Grid :=
  { tri := [⟨[0, 1, 2], 9⟩, ⟨[0, 2, 3], 9⟩], edg := [⟨[3, 0], ia⟩, ⟨[0, 1], ib⟩] }

example : collapseEdgeGeometry (side2d 1 5) false false 1 0 = (.ok, false) := by decide
example : collapseEdgeGeometry (side2d 1 5) false false 3 0 = (.ok, false) := by decide
example : collapseEdgeGeometry (side2d 1 1) false false 1 0 = (.ok, true) := by decide
example : edgSeparator (side2d 1 1) 0 = false := by decide
example : edgSeparator (side2d 1 5) 0 = true := by decide
/-- the hypotheses of `ridge_rule` are met by the fan -/
example : ∃ c0 c1, having2 (fan 5 5 7 7).tri 1 0 = [c0, c1] ∧ c0.id ≠ c1.id ∧
    ∀ c ∈ (fan 5 5 7 7).tri, 0 ∈ c.nodes → c.id = c0.id ∨ c.id = c1.id :=
  ridge_rule (fan 5 5 7 7) 1 0 ⟨[0, 1, 2], 5⟩ ⟨[0, 3, 4], 7⟩ (by decide) (by decide) (by decide) (by decide)
    (by decide) (by decide)

/-- **an allowed collapse gives node0 no new patch id**: every id around node1 is already an id around
    node0 (so a patch vertex cannot become a ridge vertex, a ridge vertex cannot become a corner) -/
theorem allowed_collapse_ids_subset (g : Grid) (n0 n1 : Nat) (hw : ∀ c ∈ g.tri, c.nodes.length = 3)
    (h : collapseEdgeGeometry g false false n0 n1 = (.ok, true)) :
    ∀ c ∈ g.tri, n1 ∈ c.nodes → ∃ c' ∈ g.tri, n0 ∈ c'.nodes ∧ c'.id = c.id := by
  intro c hc hn
  by_cases hall : ∀ d ∈ g.tri, n1 ∈ d.nodes → d.id = c.id
  · -- one id
    have hp := patch_rule g n0 n1 c hc hn hall (collapseGeometry_allowed g n0 n1 h).1
    rw [hp] at h
    simp only [Prod.mk.injEq, true_and] at h
    obtain ⟨c', hc', hn0, p, _, hs⟩ := hasSide_true h
    have hn1' : n1 ∈ c'.nodes := by
      have h3 := hw c' hc'
      have : e2nTri = [(0, 1), (1, 2), (2, 0)] := by decide
      rename_i hp'
      rw [this] at hp'
      simp only [List.mem_cons, List.not_mem_nil, or_false] at hp'
      rcases hp' with rfl | rfl | rfl <;> rcases hs with ⟨_, e⟩ | ⟨_, e⟩ <;> rw [e] <;> apply nd_mem <;> omega
    exact ⟨c', hc', hn0, hall c' hc' hn1'⟩
  · -- at least two ids
    have hall' : ∃ d ∈ g.tri, n1 ∈ d.nodes ∧ d.id ≠ c.id := by
      by_contra hcon
      apply hall
      intro d hd hdn
      by_contra hne
      exact hcon ⟨d, hd, hdn, hne⟩
    obtain ⟨d, hd, hdn, hne⟩ := hall'
    obtain ⟨c0, c1, hl, _, hids⟩ := ridge_rule g n0 n1 d c hd hc hdn hn hne h
    have m0 : c0 ∈ having2 g.tri n0 n1 := by rw [hl]; simp
    have m1 : c1 ∈ having2 g.tri n0 n1 := by rw [hl]; simp
    have m0' := mem_having2.mp m0
    have m1' := mem_having2.mp m1
    rcases hids c hc hn with e | e
    · exact ⟨c0, m0'.1, m0'.2.1, e.symm⟩
    · exact ⟨c1, m1'.1, m1'.2.1, e.symm⟩

/-- **`ids_preserved_by_allowed_collapse`**: under the kernel "remove the cells containing both nodes,
    substitute node1 ↦ node0 elsewhere" the set of patch ids present on the boundary triangles is unchanged,
    provided every id keeps a witness: a triangle that is not one of the removed ones (contains not both
    ends of the edge).  No new id can appear (unconditionally). -/
theorem ids_preserved_by_allowed_collapse (tris : List Cell) (n0 n1 : Nat)
    (hkeep : ∀ c ∈ tris, ∃ c' ∈ tris, c'.id = c.id ∧ ¬ (n0 ∈ c'.nodes ∧ n1 ∈ c'.nodes)) :
    ∀ i, i ∈ idsOf (collapseGroup tris n0 n1) ↔ i ∈ idsOf tris := by
  intro i
  unfold idsOf
  simp only [List.mem_map]
  constructor
  · rintro ⟨d, hd, rfl⟩
    obtain ⟨c, hc, _, rfl⟩ := mem_collapseGroup.mp hd
    exact ⟨c, hc, rfl⟩
  · rintro ⟨c, hc, rfl⟩
    obtain ⟨c', hc', hid, hk⟩ := hkeep c hc
    exact ⟨Cell.subst n1 n0 c', mem_collapseGroup.mpr ⟨c', hc', hk, rfl⟩, by rw [subst_id, hid]⟩

/-- no id appears that was not there (no hypothesis at all) -/
theorem collapse_creates_no_id (tris : List Cell) (n0 n1 : Nat) :
    ∀ i ∈ idsOf (collapseGroup tris n0 n1), i ∈ idsOf tris := by
  intro i hi
  unfold idsOf at *
  simp only [List.mem_map] at *
  obtain ⟨d, hd, rfl⟩ := hi
  obtain ⟨c, hc, _, rfl⟩ := mem_collapseGroup.mp hd
  exact ⟨c, hc, rfl⟩

example : idsOf (collapseGroup (fan 5 5 7 7).tri 1 0) = [5, 7] := by decide

/-- a split keeps the ids: both copies of a split triangle carry the id it had -/
theorem split_ids (tris : List Cell) (n0 n1 new : Nat) :
    ∀ i, i ∈ idsOf (splitGroup tris n0 n1 new) ↔ i ∈ idsOf tris := by
  intro i
  unfold idsOf splitGroup
  simp only [List.mem_map, List.mem_flatMap]
  constructor
  · rintro ⟨d, ⟨c, hc, hd⟩, rfl⟩
    refine ⟨c, hc, ?_⟩
    split at hd
    · simp only [List.mem_cons, List.not_mem_nil, or_false] at hd
      rcases hd with rfl | rfl <;> rfl
    · simp only [List.mem_singleton] at hd
      rw [hd]
  · rintro ⟨c, hc, rfl⟩
    by_cases hb : (c.nodes.contains n0 && c.nodes.contains n1) = true
    · exact ⟨Cell.subst n0 new c, ⟨c, hc, by rw [if_pos hb]; simp⟩, rfl⟩
    · exact ⟨c, ⟨c, hc, by rw [if_neg hb]; simp⟩, rfl⟩

/-- `ref_swap_same_faceid`: an allowed swap of a boundary edge joins two triangles of the *same* patch and
    never crosses an `edg` (ridge) cell -/
theorem swap_same_faceid_rule (g : Grid) (n0 n1 : Nat) (h : swapSameFaceid g n0 n1 = (.ok, true)) :
    hasSide e2nEdg g.edg n0 n1 = false ∧
    (having2 g.tri n0 n1 = [] ∨ ∃ c0 c1, having2 g.tri n0 n1 = [c0, c1] ∧ c0.id = c1.id) := by
  unfold swapSameFaceid at h
  simp only at h
  split at h
  · simp at h
  · next hcond =>
    have hedg : hasSide e2nEdg g.edg n0 n1 = false := by
      cases he : hasSide e2nEdg g.edg n0 n1
      · rfl
      · simp [he] at hcond
    refine ⟨hedg, ?_⟩
    unfold listWith2 at h
    simp only at h
    split at h
    · next heq =>
      split at heq
      · simp at heq
      · simp only [Prod.mk.injEq, true_and] at heq
        exact Or.inl heq
    · next c0 c1 heq =>
      split at heq
      · simp at heq
      · simp only [Prod.mk.injEq, true_and] at heq
        simp only [Prod.mk.injEq, true_and, beq_iff_eq] at h
        exact Or.inr ⟨c0, c1, heq, h⟩
    · simp at h
    · simp at h

example : swapSameFaceid (fan 5 5 7 7) 0 2 = (.ok, true) := by decide
example : swapSameFaceid (fan 5 5 7 7) 0 1 = (.ok, false) := by decide
example : swapSameFaceid { (fan 5 5 5 5) with edg := [⟨[0, 2], 1⟩] } 0 2 = (.ok, false) := by decide

section SmoothSep
open Refine.Model.Geom Refine.ScalarReal Refine.GeomReal Refine.GuardsReal

/-- **the no-geometry edge smoother never moves a vertex that separates two boundary-edge ids** (fix 36d5222):
    if two `edg` cells around the node carry different ids, `ref_smooth_no_geom_edge_improve` returns before it
    touches the coordinates (frozen), whatever the tangents are.  (`qua`/`pyr`/`pri`/`hex`/CAD exits come
    first and freeze as well.) -/
theorem smoothEdge_separator_frozen (g : Grid) (ge : Bool) (xyz : List (V3 ℝ)) (node : Nat) (e1 e2 : Cell)
    (h1 : e1 ∈ g.edg) (h2 : e2 ∈ g.edg) (m1 : node ∈ e1.nodes) (m2 : node ∈ e2.nodes) (d : e1.id ≠ e2.id) :
    smoothEdgeFrozen g ge xyz node = (.ok, true) := by
  have hs : (idListAround g.edg node 2).2.length > 1 := by
    obtain ⟨hnd, _, hall, _⟩ := idListAround_spec g.edg node 2
    rcases hall with h | h
    · have a1 := h e1 h1 m1
      have a2 := h e2 h2 m2
      generalize (idListAround g.edg node 2).2 = r at a1 a2 hnd
      match r, a1, a2, hnd with
      | [], a1, _, _ => simp at a1
      | [x], a1, a2, _ =>
        rw [List.mem_singleton] at a1 a2
        exact absurd (a1.trans a2.symm) d
      | _ :: _ :: _, _, _, _ => simp
    · omega
  unfold smoothEdgeFrozen
  repeat' split
  all_goals first | rfl | (exfalso; omega) | skip
  all_goals simp_all

/-- the triangle smoother: two patch ids around the node ⇒ frozen (the rule the edge smoother now mirrors) -/
theorem smoothTri_separator_frozen (g : Grid) (gf : Bool) (xyz : List (V3 ℝ)) (node : Nat) (c1 c2 : Cell)
    (h1 : c1 ∈ g.tri) (h2 : c2 ∈ g.tri) (m1 : node ∈ c1.nodes) (m2 : node ∈ c2.nodes) (d : c1.id ≠ c2.id) :
    smoothTriFrozen g gf xyz node = (.ok, true) := by
  have hs : (idListAround g.tri node 2).2.length > 1 := by
    obtain ⟨hnd, _, hall, _⟩ := idListAround_spec g.tri node 2
    rcases hall with h | h
    · have a1 := h c1 h1 m1
      have a2 := h c2 h2 m2
      generalize (idListAround g.tri node 2).2 = r at a1 a2 hnd
      match r, a1, a2, hnd with
      | [], a1, _, _ => simp at a1
      | [x], a1, a2, _ =>
        rw [List.mem_singleton] at a1 a2
        exact absurd (a1.trans a2.symm) d
      | _ :: _ :: _, _, _, _ => simp
    · omega
  unfold smoothTriFrozen
  repeat' split
  all_goals first | rfl | (exfalso; omega) | skip
  all_goals simp_all

end SmoothSep

/-! ## (b) `mixed_frame` -/

/-- `ref_collapse_edge_mixed` passed ⇒ no qua/pyr/pri/hex references the removed node, and the collapse
    kernel (were it applied to those groups) is the identity on them -/
theorem mixed_frame_collapse (g : Grid) (n0 n1 : Nat) (h : collapseEdgeMixed g n0 n1 = true) :
    (∀ c, c ∈ g.qua ∨ c ∈ g.pyr ∨ c ∈ g.pri ∨ c ∈ g.hex → n1 ∉ c.nodes) ∧
    collapseGroup g.qua n0 n1 = g.qua ∧ collapseGroup g.pyr n0 n1 = g.pyr ∧
    collapseGroup g.pri n0 n1 = g.pri ∧ collapseGroup g.hex n0 n1 = g.hex := by
  unfold collapseEdgeMixed at h
  simp only [Bool.and_eq_true] at h
  obtain ⟨⟨⟨hpyr, hpri⟩, hhex⟩, hqua⟩ := h
  rw [nodeEmpty_iff] at hpyr hpri hhex hqua
  refine ⟨?_, collapseGroup_eq_self hqua, collapseGroup_eq_self hpyr, collapseGroup_eq_self hpri,
    collapseGroup_eq_self hhex⟩
  rintro c (hc | hc | hc | hc)
  · exact hqua c hc
  · exact hpyr c hc
  · exact hpri c hc
  · exact hhex c hc

/-- `ref_cavity_mixed` passed ⇒ no non-simplex cell touches either end: node substitution, removal and
    edge split restricted to cells around the two nodes leave all four groups unchanged -/
theorem mixed_frame_cavity (g : Grid) (n0 n1 new : Nat) (h : cavityMixed g n0 n1 = true) :
    (∀ c, c ∈ g.qua ∨ c ∈ g.pyr ∨ c ∈ g.pri ∨ c ∈ g.hex → n0 ∉ c.nodes ∧ n1 ∉ c.nodes) ∧
    (collapseGroup g.qua n0 n1 = g.qua ∧ collapseGroup g.pyr n0 n1 = g.pyr ∧
      collapseGroup g.pri n0 n1 = g.pri ∧ collapseGroup g.hex n0 n1 = g.hex) ∧
    (splitGroup g.qua n0 n1 new = g.qua ∧ splitGroup g.pyr n0 n1 new = g.pyr ∧
      splitGroup g.pri n0 n1 new = g.pri ∧ splitGroup g.hex n0 n1 new = g.hex) := by
  unfold cavityMixed at h
  simp only [Bool.and_eq_true] at h
  obtain ⟨⟨⟨⟨⟨⟨⟨p0, r0⟩, x0⟩, q0⟩, p1⟩, r1⟩, x1⟩, q1⟩ := h
  rw [nodeEmpty_iff] at p0 r0 x0 q0 p1 r1 x1 q1
  refine ⟨?_, ⟨collapseGroup_eq_self q1, collapseGroup_eq_self p1, collapseGroup_eq_self r1,
    collapseGroup_eq_self x1⟩, ⟨splitGroup_eq_self fun c hc hh => q1 c hc hh.2,
    splitGroup_eq_self fun c hc hh => p1 c hc hh.2, splitGroup_eq_self fun c hc hh => r1 c hc hh.2,
    splitGroup_eq_self fun c hc hh => x1 c hc hh.2⟩⟩
  rintro c (hc | hc | hc | hc)
  · exact ⟨q0 c hc, q1 c hc⟩
  · exact ⟨p0 c hc, p1 c hc⟩
  · exact ⟨r0 c hc, r1 c hc⟩
  · exact ⟨x0 c hc, x1 c hc⟩

/-- the side predicate of `ref_cell_has_side` for one cell -/
def IsSide (e2n : List (Nat × Nat)) (c : Cell) (n0 n1 : Nat) : Prop :=
  ∃ p ∈ e2n, (n0 = c.nd p.1 ∧ n1 = c.nd p.2) ∨ (n0 = c.nd p.2 ∧ n1 = c.nd p.1)

/-- `ref_split_edge_mixed` / `ref_swap_edge_mixed` passed ⇒ the edge is not a side (table `e2n`) of any
    qua/pyr/pri/hex containing node0: every cell that has the edge as a side is a simplex, so splitting or
    swapping it leaves no hanging node on a non-simplex cell; the non-simplex groups are not among the cells
    the kernels rewrite (`ref_split_edge`, `ref_swap_*` only visit tet/tri/edg) -/
theorem mixed_frame_split (g : Grid) (n0 n1 : Nat) (h : splitEdgeMixed g n0 n1 = true) :
    (∀ c ∈ g.qua, n0 ∈ c.nodes → ¬ IsSide e2nQua c n0 n1) ∧ (∀ c ∈ g.pyr, n0 ∈ c.nodes → ¬ IsSide e2nPyr c n0 n1) ∧
    (∀ c ∈ g.pri, n0 ∈ c.nodes → ¬ IsSide e2nPri c n0 n1) ∧ (∀ c ∈ g.hex, n0 ∈ c.nodes → ¬ IsSide e2nHex c n0 n1) := by
  unfold splitEdgeMixed at h
  simp only [Bool.and_eq_true, Bool.not_eq_true'] at h
  obtain ⟨⟨⟨hpyr, hpri⟩, hhex⟩, hqua⟩ := h
  refine ⟨?_, ?_, ?_, ?_⟩ <;> intro c hc hn ⟨p, hp, hs⟩
  · exact hasSide_false hqua c hc hn p hp hs
  · exact hasSide_false hpyr c hc hn p hp hs
  · exact hasSide_false hpri c hc hn p hp hs
  · exact hasSide_false hhex c hc hn p hp hs

theorem mixed_frame_swap (g : Grid) (n0 n1 : Nat) (h : swapEdgeMixed g n0 n1 = true) :
    (∀ c ∈ g.qua, n0 ∈ c.nodes → ¬ IsSide e2nQua c n0 n1) ∧ (∀ c ∈ g.pyr, n0 ∈ c.nodes → ¬ IsSide e2nPyr c n0 n1) ∧
    (∀ c ∈ g.pri, n0 ∈ c.nodes → ¬ IsSide e2nPri c n0 n1) ∧ (∀ c ∈ g.hex, n0 ∈ c.nodes → ¬ IsSide e2nHex c n0 n1) := by
  unfold swapEdgeMixed at h
  simp only [Bool.and_eq_true, Bool.not_eq_true'] at h
  obtain ⟨⟨⟨hqua, hpri⟩, hpyr⟩, hhex⟩ := h
  refine ⟨?_, ?_, ?_, ?_⟩ <;> intro c hc hn ⟨p, hp, hs⟩
  · exact hasSide_false hqua c hc hn p hp hs
  · exact hasSide_false hpyr c hc hn p hp hs
  · exact hasSide_false hpri c hc hn p hp hs
  · exact hasSide_false hhex c hc hn p hp hs

/-- non-vacuity: a prism on nodes 0..5 next to the tet edge (0,6): the collapse of 6 onto 0 passes the mixed
    guard, the collapse of 0 onto 6 does not; the prism edge (0,1) may not be split, its quad-face diagonal
    (0,4) may (it is not a side) -/
def prismGrid : Grid := { pri := [⟨[0, 1, 2, 3, 4, 5], 0⟩], tet := [⟨[0, 1, 2, 6], 0⟩] }
example : collapseEdgeMixed prismGrid 0 6 = true ∧ collapseEdgeMixed prismGrid 6 0 = false := by decide
example : splitEdgeMixed prismGrid 0 1 = false ∧ splitEdgeMixed prismGrid 0 4 = true ∧
    splitEdgeMixed prismGrid 0 6 = true := by decide
example : swapEdgeMixed prismGrid 0 3 = false ∧ cavityMixed prismGrid 6 0 = false ∧
    cavityMixed prismGrid 6 7 = true := by decide

/-! ## (c) exact conservation identities (ℝ) -/
section Conservation
open Refine.Model.Geom Refine.ScalarReal Refine.GeomReal Refine.GuardsReal

/-- **`interpolateEdge_on_segment`**: the trial vertex of `ref_split_pass` is `(1-t)·a + t·b` with
    `t = MIN(0.95, MAX(0.05, w)) ∈ [0.05, 0.95]`, whatever raw weight `w` the metric produced -/
theorem interpolateEdge_on_segment (xyz : List (V3 ℝ)) (n0 n1 : Nat) (w : ℝ) :
    splitPoint xyz n0 n1 w = vadd (vsmul (1 - clampWeight w) (pt xyz n0)) (vsmul (clampWeight w) (pt xyz n1)) ∧
    (0.05 : ℝ) ≤ clampWeight w ∧ clampWeight w ≤ 0.95 := by
  refine ⟨?_, clampWeight_mem w⟩
  unfold splitPoint interpolateEdge
  rw [interpolateEdgeXyz_eq]

/-- a weight that already lies in `[0.05, 0.95]` is used unchanged -/
theorem clamp_identity {w : ℝ} (h0 : 0.05 ≤ w) (h1 : w ≤ 0.95) : clampWeight w = w := clampWeight_id h0 h1

/-- **planar meshes stay in their plane**: if both ends of the edge satisfy the plane equation
    `ν·p = d` so does the inserted vertex (any weight); in particular `z` is kept when both ends share `z` -/
theorem interpolateEdge_in_plane (a b ν : V3 ℝ) (d w : ℝ) (ha : vdot ν a = d) (hb : vdot ν b = d) :
    vdot ν (interpolateEdgeXyz a b w) = d := by
  rw [interpolateEdgeXyz_eq]
  simp only [vdot, vadd, vsmul] at *
  have : ν.x * ((1 - w) * a.x + w * b.x) + ν.y * ((1 - w) * a.y + w * b.y) + ν.z * ((1 - w) * a.z + w * b.z)
      = (1 - w) * (ν.x * a.x + ν.y * a.y + ν.z * a.z) + w * (ν.x * b.x + ν.y * b.y + ν.z * b.z) := by ring
  rw [this, ha, hb]; ring

theorem interpolateEdge_keeps_z (a b : V3 ℝ) (w : ℝ) (h : a.z = b.z) : (interpolateEdgeXyz a b w).z = a.z := by
  rw [interpolateEdgeXyz_eq]
  simp only [vadd, vsmul]
  rw [← h]; ring

/-- **`split_volume`**: splitting the edge `a–b` of a tet at `m = (1-t)a + t b` replaces it by two tets whose
    volumes add up to the original exactly, and for `0 < t < 1` both keep the sign of the original -/
theorem split_volume (a b c d : V3 ℝ) (t : ℝ) :
    tetVol (interpolateEdgeXyz a b t) b c d + tetVol a (interpolateEdgeXyz a b t) c d = tetVol a b c d ∧
    (0 < t → t < 1 → 0 < tetVol a b c d →
      0 < tetVol (interpolateEdgeXyz a b t) b c d ∧ 0 < tetVol a (interpolateEdgeXyz a b t) c d) := by
  rw [interpolateEdgeXyz_eq]
  obtain ⟨h1, h2⟩ := Refine.Props.C15.tetVol_split a b c d t
  rw [h1, h2]
  refine ⟨by ring, fun h0 h1' hv => ⟨?_, ?_⟩⟩
  · exact mul_pos (by linarith) hv
  · exact mul_pos h0 hv

/-- the two boundary triangles created by a split have normals `(1-t)·N` and `t·N` -/
theorem split_tri_normal (a b c : V3 ℝ) (t : ℝ) :
    triNormal (interpolateEdgeXyz a b t) b c = vsmul (1 - t) (triNormal a b c) ∧
    triNormal a (interpolateEdgeXyz a b t) c = vsmul t (triNormal a b c) := by
  rw [interpolateEdgeXyz_eq]
  constructor <;>
  · simp only [triNormal, cross, V3.sub, vadd, vsmul, sub_eq, mul_eq]
    apply v3ext <;> simp only [] <;> ring

theorem triArea_smul (s : ℝ) (hs : 0 ≤ s) (n : V3 ℝ) :
    Real.sqrt (vdot (vsmul s n) (vsmul s n)) = s * Real.sqrt (vdot n n) := by
  have : vdot (vsmul s n) (vsmul s n) = s ^ 2 * vdot n n := by simp only [vdot, vsmul]; ring
  rw [this, Real.sqrt_mul (sq_nonneg s), Real.sqrt_sq hs]

/-- **`split_tri_area`**: the patch area is conserved exactly by a split — the two new triangles have areas
    `(1-t)·A` and `t·A` (same plane, same orientation: their normals are positive multiples of the old one) -/
theorem split_tri_area (a b c : V3 ℝ) (t : ℝ) (h0 : 0 ≤ t) (h1 : t ≤ 1) :
    triArea (interpolateEdgeXyz a b t) b c = (1 - t) * triArea a b c ∧
    triArea a (interpolateEdgeXyz a b t) c = t * triArea a b c ∧
    triArea (interpolateEdgeXyz a b t) b c + triArea a (interpolateEdgeXyz a b t) c = triArea a b c := by
  obtain ⟨n1, n2⟩ := split_tri_normal a b c t
  have e1 : triArea (interpolateEdgeXyz a b t) b c = (1 - t) * triArea a b c := by
    rw [Refine.Props.C15.triArea_eq, Refine.Props.C15.triArea_eq, n1, triArea_smul _ (by linarith)]; ring
  have e2 : triArea a (interpolateEdgeXyz a b t) c = t * triArea a b c := by
    rw [Refine.Props.C15.triArea_eq, Refine.Props.C15.triArea_eq, n2, triArea_smul _ h0]; ring
  refine ⟨e1, e2, ?_⟩
  rw [e1, e2]; ring

/-- length of a boundary segment (2-D patch measure) -/
noncomputable def segLen (a b : V3 ℝ) : ℝ := Real.sqrt (vdot (V3.sub b a) (V3.sub b a))

/-- 2-D: a split conserves the length of the boundary segment it cuts -/
theorem split_edg_length (a b : V3 ℝ) (t : ℝ) (h0 : 0 ≤ t) (h1 : t ≤ 1) :
    segLen a (interpolateEdgeXyz a b t) + segLen (interpolateEdgeXyz a b t) b = segLen a b := by
  rw [interpolateEdgeXyz_eq]
  have e1 : V3.sub (vadd (vsmul (1 - t) a) (vsmul t b)) a = vsmul t (V3.sub b a) := by
    simp only [V3.sub, vadd, vsmul, sub_eq]; apply v3ext <;> simp only [] <;> ring
  have e2 : V3.sub b (vadd (vsmul (1 - t) a) (vsmul t b)) = vsmul (1 - t) (V3.sub b a) := by
    simp only [V3.sub, vadd, vsmul, sub_eq]; apply v3ext <;> simp only [] <;> ring
  unfold segLen
  rw [e1, e2, triArea_smul _ h0, triArea_smul _ (by linarith)]; ring

/-- **`swap_area`** (vector form, any four points): the two triangles before the swap of edge `a–b` with
    third nodes `c`, `d` and the two triangles after it have the same total vector area -/
theorem swap_vector_area (a b c d : V3 ℝ) :
    vadd (triNormal a b c) (triNormal b a d) = vadd (triNormal a d c) (triNormal b c d) := by
  simp only [triNormal, cross, V3.sub, vadd, sub_eq, mul_eq]
  apply v3ext <;> simp only [] <;> ring

/-- the area of a triangle in a plane `z = const`, counter-clockwise: half the z-component of its normal -/
theorem triArea_planar (a b c : V3 ℝ) (hx : (triNormal a b c).x = 0) (hy : (triNormal a b c).y = 0)
    (hz : 0 ≤ (triNormal a b c).z) : triArea a b c = (triNormal a b c).z / 2 := by
  rw [Refine.Props.C15.triArea_eq]
  have : vdot (triNormal a b c) (triNormal a b c) = (triNormal a b c).z ^ 2 := by
    simp only [vdot]; rw [hx, hy]; ring
  rw [this, Real.sqrt_sq hz]

/-- **`swap_area`**: for a planar quad (all four points share `z`) whose old and new triangles are all
    counter-clockwise, the swap leaves the area sum unchanged -/
theorem swap_area (a b c d : V3 ℝ) (hab : a.z = b.z) (hac : a.z = c.z) (had : a.z = d.z)
    (o1 : 0 ≤ (triNormal a b c).z) (o2 : 0 ≤ (triNormal b a d).z)
    (o3 : 0 ≤ (triNormal a d c).z) (o4 : 0 ≤ (triNormal b c d).z) :
    triArea a b c + triArea b a d = triArea a d c + triArea b c d := by
  have hv := swap_vector_area a b c d
  have hz : (triNormal a b c).z + (triNormal b a d).z = (triNormal a d c).z + (triNormal b c d).z := by
    have := congrArg V3.z hv
    simpa [vadd] using this
  have px : ∀ p q r : V3 ℝ, p.z = q.z → p.z = r.z → (triNormal p q r).x = 0 ∧ (triNormal p q r).y = 0 := by
    intro p q r h1 h2
    simp only [triNormal, cross, V3.sub, sub_eq, mul_eq]
    rw [← h1, ← h2]; constructor <;> ring
  rw [triArea_planar a b c (px a b c hab hac).1 (px a b c hab hac).2 o1,
    triArea_planar b a d (px b a d hab.symm (hab.symm.trans had)).1 (px b a d hab.symm (hab.symm.trans had)).2 o2,
    triArea_planar a d c (px a d c had hac).1 (px a d c had hac).2 o3,
    triArea_planar b c d (px b c d (hab.symm.trans hac) (hab.symm.trans had)).1
      (px b c d (hab.symm.trans hac) (hab.symm.trans had)).2 o4]
  linarith

/-- non-vacuity: the unit square split along one diagonal, swapped to the other -/
example : (triNormal (⟨0, 0, 0⟩ : V3 ℝ) ⟨1, 1, 0⟩ ⟨0, 1, 0⟩).z = 1 ∧
    (triNormal (⟨1, 1, 0⟩ : V3 ℝ) ⟨0, 0, 0⟩ ⟨1, 0, 0⟩).z = 1 ∧
    (triNormal (⟨0, 0, 0⟩ : V3 ℝ) ⟨1, 0, 0⟩ ⟨0, 1, 0⟩).z = 1 ∧
    (triNormal (⟨1, 1, 0⟩ : V3 ℝ) ⟨0, 1, 0⟩ ⟨1, 0, 0⟩).z = 1 := by
  simp only [triNormal, cross, V3.sub, sub_eq, mul_eq]; norm_num

example : (0.05 : ℝ) ≤ clampWeight (7 : ℝ) ∧ clampWeight (7 : ℝ) = 0.95 ∧ clampWeight (-3 : ℝ) = 0.05 ∧
    clampWeight (0.3 : ℝ) = 0.3 := by
  refine ⟨(clampWeight_mem 7).1, ?_, ?_, clampWeight_id (by norm_num) (by norm_num)⟩
  · rw [clampWeight_eq]; norm_num
  · rw [clampWeight_eq]; norm_num

end Conservation

/-! ## (d) what the same-normal guard gives -/
section SameNormal
open Refine.Model.Geom Refine.ScalarReal Refine.GeomReal Refine.GuardsReal

/-- **`sameNormal_bound`**: when `ref_collapse_edge_same_normal` passes, every boundary triangle around
    node1 that survives the collapse (does not contain node0) has a unit normal before (`u`) and after
    (`u'`) the substitution node1 ↦ node0, and `u·u' ≥ same_normal_tol = 1 - 1e-8` -/
theorem sameNormal_bound (g : Grid) (xyz : List (V3 ℝ)) (n0 n1 : Nat)
    (h : collapseEdgeSameNormal g xyz n0 n1 = (.ok, true)) :
    ∀ c ∈ g.tri, n1 ∈ c.nodes →
      (n0 = c.nd 0 ∨ n0 = c.nd 1 ∨ n0 = c.nd 2) ∨
      ∃ u u', normalize (cellNormal xyz c.nodes) = (St.ok, u) ∧
        normalize (cellNormal xyz (Guards.subst n1 n0 c.nodes)) = (St.ok, u') ∧
        (sameNormalTol : ℝ) ≤ vdot u u' := by
  intro c hc hn
  unfold collapseEdgeSameNormal at h
  have hall := firstSome_all_none _ _ _ (sameNormalStep_ne xyz n0 n1) h
  exact sameNormalStep_none (hall c (mem_having.mpr ⟨hc, hn⟩))

/-- … hence no surviving boundary triangle is inverted or flattened: the un-normalised normals before and
    after have a strictly positive dot product -/
theorem sameNormal_no_flip (g : Grid) (xyz : List (V3 ℝ)) (n0 n1 : Nat)
    (h : collapseEdgeSameNormal g xyz n0 n1 = (.ok, true)) (c : Cell) (hc : c ∈ g.tri) (hn : n1 ∈ c.nodes)
    (hs : ¬ (n0 = c.nd 0 ∨ n0 = c.nd 1 ∨ n0 = c.nd 2)) :
    0 < vdot (cellNormal xyz c.nodes) (cellNormal xyz (Guards.subst n1 n0 c.nodes)) := by
  rcases sameNormal_bound g xyz n0 n1 h c hc hn with h' | ⟨u, u', hu, hu', hb⟩
  · exact absurd h' hs
  · obtain ⟨l0, e0⟩ := normalize_ok hu
    obtain ⟨l1, e1⟩ := normalize_ok hu'
    generalize cellNormal xyz c.nodes = N at *
    generalize cellNormal xyz (Guards.subst n1 n0 c.nodes) = N' at *
    have p0 : 0 < Real.sqrt (vdot N N) := lt_of_le_of_ne (Real.sqrt_nonneg _) (Ne.symm l0)
    have p1 : 0 < Real.sqrt (vdot N' N') := lt_of_le_of_ne (Real.sqrt_nonneg _) (Ne.symm l1)
    have hpos : 0 < vdot u u' := lt_of_lt_of_le sameNormalTol_pos hb
    rw [e0, e1] at hpos
    simp only [vdot] at hpos ⊢
    have : N.x / Real.sqrt (vdot N N) * (N'.x / Real.sqrt (vdot N' N')) +
        N.y / Real.sqrt (vdot N N) * (N'.y / Real.sqrt (vdot N' N')) +
        N.z / Real.sqrt (vdot N N) * (N'.z / Real.sqrt (vdot N' N')) =
        (N.x * N'.x + N.y * N'.y + N.z * N'.z) / (Real.sqrt (vdot N N) * Real.sqrt (vdot N' N')) := by
      field_simp
    simp only [vdot] at this
    rw [this] at hpos
    have hden : 0 < Real.sqrt (N.x * N.x + N.y * N.y + N.z * N.z) * Real.sqrt (N'.x * N'.x + N'.y * N'.y + N'.z * N'.z) := by
      simp only [vdot] at p0 p1
      exact mul_pos p0 p1
    exact (div_pos_iff_of_pos_right hden).mp hpos

/-- **`planar_collapse_stays_planar`**: if every vertex of the boundary triangles of a patch lies in the
    plane `ν·p = d`, and node0 is a vertex of one of them (which is what the face-id rule demands of an
    allowed collapse of a patch vertex: `patch_rule'`), then every vertex of every triangle after the
    substitution node1 ↦ node0 lies in that plane: the patch is not lifted off its plane.
    (That the triangles also keep their orientation is `sameNormal_no_flip`.) -/
theorem planar_collapse_stays_planar (tris : List Cell) (xyz : List (V3 ℝ)) (ν : V3 ℝ) (d : ℝ) (n0 n1 : Nat)
    (hplane : ∀ c ∈ tris, ∀ n ∈ c.nodes, vdot ν (pt xyz n) = d)
    (h0 : ∃ c ∈ tris, n0 ∈ c.nodes) :
    ∀ c ∈ collapseGroup tris n0 n1, ∀ n ∈ c.nodes, vdot ν (pt xyz n) = d := by
  intro c hc n hn
  obtain ⟨c', hc', _, rfl⟩ := mem_collapseGroup.mp hc
  unfold Cell.subst at hn
  simp only [List.mem_map] at hn
  obtain ⟨m, hm, rfl⟩ := hn
  split
  · obtain ⟨c0, hc0, hn0⟩ := h0
    exact hplane c0 hc0 n0 hn0
  · exact hplane c' hc' m hm

/-- **vector area of a fan does not depend on its apex** when the ring is closed (`last = first`): the sum of
    the triangle normals over the star of an interior patch vertex is the same with apex node1 (before the
    collapse) and apex node0 (after it; the triangles that had node0 as ring node are the removed ones and
    contribute the zero vector).  With `sameNormal_no_flip` (all new normals on the old side) this is the
    conservation of the planar patch area under collapse.  For an open fan (ridge vertex) the difference is
    `(p - q) × (first - last)`, which vanishes iff node0, node1 and the far ridge neighbour are collinear. -/
theorem fan_vector_area_apex (p q a : V3 ℝ) (l : List (V3 ℝ)) (hclosed : (a :: l).getLast (by simp) = a) :
    fanSum p (a :: l) = fanSum q (a :: l) := by
  rw [fanSum_apex p q a l, hclosed]
  simp only [vadd, cross, V3.sub, sub_eq, mul_eq]
  apply v3ext <;> simp only [] <;> ring

theorem fan_vector_area_open (p q a : V3 ℝ) (l : List (V3 ℝ)) :
    fanSum p (a :: l) = vadd (fanSum q (a :: l)) (cross (V3.sub p q) (V3.sub a ((a :: l).getLast (by simp)))) :=
  fanSum_apex p q a l

/-- non-vacuity of `sameNormal_bound`: a flat fan in `z = 0`, collapse of the centre onto a ring node -/
example : (triNormal (⟨0, 0, 0⟩ : V3 ℝ) ⟨1, 0, 0⟩ ⟨0, 1, 0⟩).z = 1 := by
  simp only [triNormal, cross, V3.sub, sub_eq, mul_eq]; norm_num

end SameNormal

end Refine.Props.C02
