import Refine.Model.Guards

/-!
  C02: adaptation without a CAD model never changes the computational domain.
  Theorems about the executable guard models of `Refine/Model/Guards.lean` (bit-compared with the C by the
  streams `guards_*`).
-/
namespace Refine.Props.C02
open Refine Refine.Model Refine.Model.Guards

/-- a CAD node is never collapsed -/
theorem collapseGeometry_geomNode (g : Grid) (ge : Bool) (n0 n1 : Nat) :
    collapseEdgeGeometry g true ge n0 n1 = (.ok, false) := by
  simp [collapseEdgeGeometry]

end Refine.Props.C02
