import Refine.Lemmas.SmoothInterpBetween
import Refine.Lemmas.SmoothInterpEx
import Refine.Lemmas.SmoothInterpReal
import Refine.Props.C05

/-!
  C05 (smoothers and split insertion) — "after adaptation every vertex carries the metric obtained by log-Euclidean
  interpolation of the INPUT metric at the vertex's CURRENT position", for the bookkeeping state machine of
  `Refine/Model/SmoothInterp.lean` (tied to the C by `refdrv smoothinterp` / `harness/h_smoothinterp.c`).

  `D x cell bary` is the donor relation ("`bary` are the weights of position `x` in background cell `cell`"),
  `Bg.interp cell bary` the interpolation kernel of `Props/C05.lean`; the search outcomes are arbitrary subject to
  `Sound` (what is found is a donor of the position asked for).  Every statement quantifies over all search outcomes
  per try, all acceptance tests, all numbers of tries.

  `Fresh s`  : located on this rank, weights are weights of the CURRENT position, metric = interpolation there.
  `MetricAtPosition s` : the same under the premise "located on this rank" (unlocated vertices claim nothing).

  Headline: `improve_metricAtPosition` (serial, complete fall-back), its exact-hypothesis form
  `improve_metricAtPosition_partial`, the hazard `improve_unlocated_keeps_metric` / `improve_offpart_keeps_metric`
  (the class of /repo 2d4e510, 7d5a551 and of seeded/C05_smooth_tri_interp_guess_restore_late), split insertion
  `between_fresh`, histories `history_fresh`, `history_located_implies_fresh`.
-/
namespace Refine.Props.C05Smooth
open Refine.Model.SmoothInterp Refine.Lemmas.SmoothInterp

variable {P B M : Type}

/-! ### one improver call -/

/-- **MetricAtPosition with the exact hypothesis of the C as coded.**  A vertex that enters located on this rank:
    accepted at try `j` ⇒ it sits at `trial j` with a fresh record (metric = interpolate(locate(trial j))); all tries
    rejected ⇒ the coordinates are the original ones and the record is fresh again, EXCEPT when the final re-location
    at the original position, started from some located guess, reports `REF_NOT_FOUND` (tolerated by the `RXS`): then
    the vertex is left unlocated with whatever metric the last located try wrote. -/
theorem improve_metricAtPosition_partial {cfg : Cfg} (hl : Live cfg) {bg : Bg P B M} {D : P → Int → B → Prop}
    (hs : Sound bg D) (kind : Kind) (g : Guards P B M) (tries : Nat) (trial : Nat → P) (s0 : NodeSt P B M)
    (h0 : Local bg s0) :
    (∀ j, (improve kind cfg bg g tries trial s0).outcome = .accepted j →
      Fresh bg D (improve kind cfg bg g tries trial s0).st ∧ (improve kind cfg bg g tries trial s0).st.xyz = trial j ∧
      j < tries ∧ g.accept j (improve kind cfg bg g tries trial s0).st = true) ∧
    ((improve kind cfg bg g tries trial s0).outcome = .rolledBack →
      (improve kind cfg bg g tries trial s0).st.xyz = s0.xyz ∧
      (Fresh bg D (improve kind cfg bg g tries trial s0).st ∨
        ((improve kind cfg bg g tries trial s0).st.cell = EMPTY ∧
          ∃ s, Local bg s ∧ (metricInterpolateNode cfg bg { s with xyz := s0.xyz }).1 = .notFound))) := by
  apply improve_local_rule hl hs kind g tries trial s0 h0
    (fun r => r.xyz = s0.xyz ∧ (Fresh bg D r ∨ (r.cell = EMPTY ∧
      ∃ s, Local bg s ∧ (metricInterpolateNode cfg bg { s with xyz := s0.xyz }).1 = .notFound)))
  intro s hinv hnf
  have hloc := interpolate_local hl hs { s with xyz := s0.xyz } ⟨hinv.1, hinv.2⟩
  have hfr := interpolate_frame cfg bg { s with xyz := s0.xyz }
  rcases hloc with ⟨_, hf⟩ | ⟨hst, he⟩ | hst
  · exact ⟨hfr, Or.inl hf⟩
  · refine ⟨hfr, Or.inr ⟨?_, s, hinv, hst⟩⟩
    rw [he]
  · exact absurd hst hnf

/-- **MetricAtPosition.**  Serial run with a complete sequential fall-back (`Total`): if on entry the vertex has a
    fresh record, then after any improver call that returns it has a fresh record for its final position — the
    accepted trial position, or the original coordinates. -/
theorem improve_metricAtPosition {cfg : Cfg} (hl : Live cfg) {bg : Bg P B M} {D : P → Int → B → Prop}
    (hs : Sound bg D) (ht : Total bg D) (kind : Kind) (g : Guards P B M) (tries : Nat) (trial : Nat → P)
    (s0 : NodeSt P B M) (h0 : Fresh bg D s0) (hna : (improve kind cfg bg g tries trial s0).outcome ≠ .aborted) :
    Fresh bg D (improve kind cfg bg g tries trial s0).st ∧
    ((∃ j, j < tries ∧ (improve kind cfg bg g tries trial s0).outcome = .accepted j ∧
        (improve kind cfg bg g tries trial s0).st.xyz = trial j) ∨
     ((improve kind cfg bg g tries trial s0).outcome = .rolledBack ∧
        (improve kind cfg bg g tries trial s0).st.xyz = s0.xyz)) := by
  have h := improve_metricAtPosition_partial hl hs kind g tries trial s0 ⟨h0.1, h0.2.1⟩
  cases ho : (improve kind cfg bg g tries trial s0).outcome with
  | aborted => exact absurd ho hna
  | accepted j =>
    obtain ⟨a, b, c, _⟩ := h.1 j ho
    exact ⟨a, Or.inl ⟨j, c, rfl, b⟩⟩
  | rolledBack =>
    obtain ⟨a, b⟩ := h.2 ho
    rcases b with b | ⟨_, s, hls, hnf⟩
    · exact ⟨b, Or.inr ⟨rfl, a⟩⟩
    · exact absurd hnf (interpolate_total hl hs ht { s with xyz := s0.xyz } ⟨hls.1, hls.2⟩ ⟨s0.cell, s0.bary, h0.2.2.1⟩)

/-- whatever the entry state and the run (serial or not): after an improver call that returns, a vertex that is
    located on this rank has a fresh record for its current position -/
theorem improve_located_implies_fresh {cfg : Cfg} (hl : Live cfg) {bg : Bg P B M} {D : P → Int → B → Prop}
    (hs : Sound bg D) (kind : Kind) (g : Guards P B M) (tries : Nat) (trial : Nat → P) (s0 : NodeSt P B M)
    (hna : (improve kind cfg bg g tries trial s0).outcome ≠ .aborted) :
    MetricAtPosition bg D (improve kind cfg bg g tries trial s0).st := by
  have key := loop_rule kind.reinterp cfg bg g trial s0.xyz (interpGuess cfg s0) (fun _ => True)
    (fun _ s => MetricAtPosition bg D s) (MetricAtPosition bg D)
    (fun s x _ hnf => ⟨trivial, fun _ => interpolate_any hl hs _ hnf⟩)
    (fun x s2 _ hok => ⟨interpolate_any hl hs _ (by rw [hok]; simp), trivial⟩)
    (fun s _ hnf => interpolate_any hl hs _ hnf)
    tries 0 s0 [] trivial
  unfold improve at hna ⊢
  cases ho : (loop kind.reinterp cfg bg g trial s0.xyz (interpGuess cfg s0) tries 0 s0 []).outcome with
  | aborted => exact absurd ho hna
  | accepted j => exact (key.1 j ho).1
  | rolledBack => exact key.2 ho

/-- **the hazard, unlocated entry.**  A vertex that enters with `cell = REF_EMPTY` is never re-located by the
    improver: every interpolation is skipped with `REF_SUCCESS`, so an ACCEPTED try moves the vertex and keeps the
    metric of the old position (this is the path the three repaired defects and the seeded late-restore opened; on
    the unchanged tree it needs an unlocated vertex on entry) -/
theorem improve_unlocated_keeps_metric {cfg : Cfg} (hl : Live cfg) (bg : Bg P B M) (kind : Kind) (g : Guards P B M)
    (tries : Nat) (trial : Nat → P) (s0 : NodeSt P B M) (h0 : s0.cell = EMPTY) :
    (∀ j, (improve kind cfg bg g tries trial s0).outcome = .accepted j →
      (improve kind cfg bg g tries trial s0).st = { s0 with xyz := trial j }) ∧
    ((improve kind cfg bg g tries trial s0).outcome = .rolledBack → (improve kind cfg bg g tries trial s0).st = s0) := by
  have key := loop_const kind.reinterp cfg bg g trial s0.xyz (interpGuess cfg s0) s0
    (fun x => interpolate_empty hl bg _ h0) tries 0 s0.xyz []
  unfold improve
  exact ⟨fun j hj => (key.1 j hj).1, key.2⟩

/-- **the hazard, donor on another part** (`refmpi`): the first interpolation marks the vertex unlocated
    (/repo 2d4e510), the rest are skipped: the vertex moves or stays, keeps its metric, and waits for
    `ref_interp_locate_warm` + `ref_metric_interpolate` at the next `ref_metric_synchronize` -/
theorem improve_offpart_keeps_metric {cfg : Cfg} (hl : Live cfg) (bg : Bg P B M) (kind : Kind) (g : Guards P B M)
    (tries : Nat) (trial : Nat → P) (s0 : NodeSt P B M) (h0 : s0.cell ≠ EMPTY) (hp : s0.part ≠ bg.rank) :
    (∀ j, (improve kind cfg bg g tries trial s0).outcome = .accepted j →
      (improve kind cfg bg g tries trial s0).st = { s0 with xyz := trial j, cell := EMPTY }) ∧
    ((improve kind cfg bg g tries trial s0).outcome = .rolledBack →
      (improve kind cfg bg g tries trial s0).st = { s0 with cell := EMPTY }) := by
  have key := loop_forget kind.reinterp cfg bg g trial s0.xyz (interpGuess cfg s0) s0
    (fun x => interpolate_offpart hl bg _ h0 hp)
    (fun x => interpolate_empty hl bg _ rfl) tries 0 s0.xyz []
  unfold improve
  exact ⟨fun j hj => (key.1 j hj).1, key.2⟩

/-- exactly when an accepted position carries a fresh metric: iff the vertex entered located on this rank -/
theorem accepted_fresh_iff_entry_local {cfg : Cfg} (hl : Live cfg) {bg : Bg P B M} {D : P → Int → B → Prop}
    (hs : Sound bg D) (kind : Kind) (g : Guards P B M) (tries : Nat) (trial : Nat → P) (s0 : NodeSt P B M) (j : Nat)
    (hj : (improve kind cfg bg g tries trial s0).outcome = .accepted j) :
    Fresh bg D (improve kind cfg bg g tries trial s0).st ↔ Local bg s0 := by
  constructor
  · intro hf
    by_cases hc : s0.cell = EMPTY
    · have := (improve_unlocated_keeps_metric hl bg kind g tries trial s0 hc).1 j hj
      rw [this] at hf
      exact absurd hc hf.1
    · by_cases hp : s0.part = bg.rank
      · exact ⟨hc, hp⟩
      · have := (improve_offpart_keeps_metric hl bg kind g tries trial s0 hc hp).1 j hj
        rw [this] at hf
        exact absurd rfl hf.1
  · intro hloc
    exact ((improve_metricAtPosition_partial hl hs kind g tries trial s0 hloc).1 j hj).1

/-! ### split insertion -/

/-- an inserted vertex that comes out located (walk from an end node's donor, or sequential fall-back) has a fresh
    record; otherwise it is unlocated and keeps the edge-interpolated metric `ref_node_interpolate_edge` gave it -/
theorem between_located_fresh {cfg : Cfg} (hl : Live cfg) {bg : Bg P B M} {D : P → Int → B → Prop} (hs : Sound bg D)
    (n0 n1 : Option (Int × Int)) (s : NodeSt P B M) (hok : (metricInterpolateBetween cfg bg n0 n1 s).1 = .ok) :
    (metricInterpolateBetween cfg bg n0 n1 s).2.xyz = s.xyz ∧
    (Fresh bg D (metricInterpolateBetween cfg bg n0 n1 s).2 ∨
     ((metricInterpolateBetween cfg bg n0 n1 s).2.cell = EMPTY ∧ (metricInterpolateBetween cfg bg n0 n1 s).2.met = s.met)) := by
  refine ⟨between_frame cfg hs n0 n1 s, ?_⟩
  rcases between_spec hl hs n0 n1 s hok with h | h
  · exact Or.inl h.1
  · exact Or.inr ⟨h.1, h.2.1⟩

/-- serial, complete fall-back: an inserted vertex whose position has a donor comes out with a fresh record,
    whichever of the two walks or the sequential search found it (needs `part[new_node] = rank` on the fall-back
    path: /repo 7d5a551) -/
theorem between_fresh {cfg : Cfg} (hl : Live cfg) {bg : Bg P B M} {D : P → Int → B → Prop} (hs : Sound bg D)
    (ht : Total bg D) (n0 n1 : Option (Int × Int)) (s : NodeSt P B M) (hd : ∃ c b, D s.xyz c b)
    (hok : (metricInterpolateBetween cfg bg n0 n1 s).1 = .ok) :
    Fresh bg D (metricInterpolateBetween cfg bg n0 n1 s).2 ∧ (metricInterpolateBetween cfg bg n0 n1 s).2.xyz = s.xyz := by
  refine ⟨?_, between_frame cfg hs n0 n1 s⟩
  rcases between_spec hl hs n0 n1 s hok with h | h
  · exact h.1
  · exact absurd h.2.2.2 (locateBetween_total ht n0 n1 s hd h.2.2.1)

/-! ### histories -/

/-- **history, weak form**: along any sequence of improver calls (any kinds, any vertices, any acceptance tests that
    may look at the whole grid) and split insertions, every vertex that is located on this rank has a fresh record -/
theorem history_located_implies_fresh {cfg : Cfg} (hl : Live cfg) {bg : Bg P B M} {D : P → Int → B → Prop}
    (hs : Sound bg D) (ops : List (Op P B M)) :
    ∀ (G G' : GridSt P B M), GridWeak bg D G → runOps cfg bg G ops = some G' → GridWeak bg D G' := by
  induction ops with
  | nil => intro G G' hG h; simp only [runOps, Option.some.injEq] at h; subst h; exact hG
  | cons op rest ih =>
    intro G G' hG h
    unfold runOps at h
    cases hst : stepOp cfg bg G op with
    | none => rw [hst] at h; cases h
    | some G1 =>
      rw [hst] at h
      refine ih G1 G' ?_ h
      cases op with
      | improve kind node g tries trial =>
        unfold stepOp at hst
        simp only at hst
        cases ho : (improve kind cfg bg (g G) tries (trial G) (G node)).outcome with
        | aborted => rw [ho] at hst; cases hst
        | accepted j =>
          rw [ho] at hst
          simp only [Option.some.injEq] at hst
          subst hst
          intro n
          by_cases hn : n = node
          · subst hn
            rw [GridSt.set_same]
            exact improve_located_implies_fresh hl hs kind (g G) tries (trial G) (G n) (by rw [ho]; simp)
          · rw [GridSt.set_other _ _ _ _ hn]; exact hG n
        | rolledBack =>
          rw [ho] at hst
          simp only [Option.some.injEq] at hst
          subst hst
          intro n
          by_cases hn : n = node
          · subst hn
            rw [GridSt.set_same]
            exact improve_located_implies_fresh hl hs kind (g G) tries (trial G) (G n) (by rw [ho]; simp)
          · rw [GridSt.set_other _ _ _ _ hn]; exact hG n
      | between n0 n1 new xyz met =>
        unfold stepOp at hst
        simp only at hst
        rcases hr : metricInterpolateBetween cfg bg (endOf G n0) (endOf G n1) { (G new) with xyz := xyz, met := met }
          with ⟨st, s1⟩
        rw [hr] at hst
        cases st with
        | notFound => cases hst
        | failure => cases hst
        | ok =>
          simp only [Option.some.injEq] at hst
          subst hst
          intro n
          by_cases hn : n = new
          · subst hn
            rw [GridSt.set_same]
            have := between_located_fresh hl hs (endOf G n0) (endOf G n1) { (G n) with xyz := xyz, met := met }
              (by rw [hr])
            rw [hr] at this
            rcases this.2 with h | h
            · exact h.weak
            · exact metricAtPosition_of_empty h.1
          · rw [GridSt.set_other _ _ _ _ hn]; exact hG n

/-- **history, strong form** (serial, complete fall-back): if every vertex of `A` starts with a fresh record and
    every inserted position has a donor, then after any sequence of improver calls and insertions that runs through,
    every vertex of `A` and every inserted vertex has a fresh record for its CURRENT position -/
theorem history_fresh {cfg : Cfg} (hl : Live cfg) {bg : Bg P B M} {D : P → Int → B → Prop}
    (hs : Sound bg D) (ht : Total bg D) (ops : List (Op P B M)) :
    ∀ (A : Nat → Prop) (G G' : GridSt P B M), GridFresh bg D A G → (∀ op ∈ ops, OpOk D op) →
      runOps cfg bg G ops = some G' → GridFresh bg D (opsDom A ops) G' := by
  induction ops with
  | nil => intro A G G' hG _ h; simp only [runOps, Option.some.injEq] at h; subst h; exact hG
  | cons op rest ih =>
    intro A G G' hG hok h
    unfold runOps at h
    cases hst : stepOp cfg bg G op with
    | none => rw [hst] at h; cases h
    | some G1 =>
      rw [hst] at h
      refine ih (opDom A op) G1 G' ?_ (fun o ho => hok o (List.mem_cons_of_mem _ ho)) h
      have hop := hok op (List.mem_cons_self ..)
      cases op with
      | improve kind node g tries trial =>
        unfold stepOp at hst
        simp only at hst
        have hfresh : ∀ n, A n → (improve kind cfg bg (g G) tries (trial G) (G node)).outcome ≠ .aborted →
            Fresh bg D ((G.set node (improve kind cfg bg (g G) tries (trial G) (G node)).st) n) := by
          intro n hn hna
          by_cases he : n = node
          · subst he
            rw [GridSt.set_same]
            exact (improve_metricAtPosition hl hs ht kind (g G) tries (trial G) (G n) (hG n hn) hna).1
          · rw [GridSt.set_other _ _ _ _ he]; exact hG n hn
        cases ho : (improve kind cfg bg (g G) tries (trial G) (G node)).outcome with
        | aborted => rw [ho] at hst; cases hst
        | accepted j =>
          rw [ho] at hst
          simp only [Option.some.injEq] at hst
          subst hst
          exact fun n hn => hfresh n hn (by rw [ho]; simp)
        | rolledBack =>
          rw [ho] at hst
          simp only [Option.some.injEq] at hst
          subst hst
          exact fun n hn => hfresh n hn (by rw [ho]; simp)
      | between n0 n1 new xyz met =>
        unfold stepOp at hst
        simp only at hst
        rcases hr : metricInterpolateBetween cfg bg (endOf G n0) (endOf G n1) { (G new) with xyz := xyz, met := met }
          with ⟨st, s1⟩
        rw [hr] at hst
        cases st with
        | notFound => cases hst
        | failure => cases hst
        | ok =>
          simp only [Option.some.injEq] at hst
          subst hst
          intro n hn
          by_cases he : n = new
          · subst he
            rw [GridSt.set_same]
            have := between_fresh hl hs ht (endOf G n0) (endOf G n1) { (G n) with xyz := xyz, met := met } hop
              (by rw [hr])
            rw [hr] at this
            exact this.1
          · rw [GridSt.set_other _ _ _ _ he]
            rcases hn with hn | hn
            · exact hG n hn
            · exact absurd hn he

/-- the property's own sentence: if the interpolation kernel reproduces a field exactly at donors (`Props/C05`:
    `logCombine_loglinear` for a log-linear field and barycentric weights), a fresh vertex carries the field at its
    current position -/
theorem fresh_carries_field {bg : Bg P B M} {D : P → Int → B → Prop} (field : P → M)
    (hexact : ∀ x c b m, D x c b → bg.interp c b = some m → m = field x) (s : NodeSt P B M) (h : Fresh bg D s) :
    s.met = field s.xyz :=
  hexact s.xyz s.cell s.bary s.met h.2.2.1 h.2.2.2

/-- **C05 along a history** (serial, complete fall-back, exact kernel): every tracked vertex carries the background
    field evaluated at its current position after any sequence of smoothing calls and split insertions -/
theorem history_carries_field {cfg : Cfg} (hl : Live cfg) {bg : Bg P B M} {D : P → Int → B → Prop}
    (hs : Sound bg D) (ht : Total bg D) (field : P → M)
    (hexact : ∀ x c b m, D x c b → bg.interp c b = some m → m = field x)
    (ops : List (Op P B M)) (A : Nat → Prop) (G G' : GridSt P B M) (hG : GridFresh bg D A G)
    (hok : ∀ op ∈ ops, OpOk D op) (hrun : runOps cfg bg G ops = some G') :
    ∀ n, opsDom A ops n → (G' n).met = field (G' n).xyz :=
  fun n hn => fresh_carries_field field hexact (G' n) (history_fresh hl hs ht ops A G G' hG hok hrun n hn)

/-! ### the property's own sentence for a log-linear background (ties the bookkeeping to `Props/C05.lean`) -/

open Refine Refine.Model.Matrix Refine.Model.Metric in
open Refine.Model.Geom (V3 B4) in
/-- **metric(v) = exp(L(x_v))**: on a log-linear tetrahedral background a vertex with a fresh record stores exactly
    `L(x_v)` as its log metric and `exp_m(L(x_v))` as its metric (exact arithmetic) — the statement the stream
    oracles evaluate on the implementation's output -/
theorem fresh_loglinear (verts : Int → V3 ℝ × V3 ℝ × V3 ℝ × V3 ℝ) (L0 Lx Ly Lz : M6 ℝ)
    (bg : Bg (V3 ℝ) (B4 ℝ) (M6 ℝ × M6 ℝ)) (hbg : bg.interp = loglinInterp verts L0 Lx Ly Lz)
    (s : NodeSt (V3 ℝ) (B4 ℝ) (M6 ℝ × M6 ℝ)) (h : Fresh bg (BaryDonor verts) s) :
    s.met.2 = affM L0 Lx Ly Lz s.xyz ∧ expM (affM L0 Lx Ly Lz s.xyz) = .ok s.met.1 := by
  obtain ⟨_, _, ⟨h0, h1, h2, h3, hsum, hx, hy, hz⟩, hi⟩ := h
  rw [hbg] at hi
  unfold loglinInterp interpolateNode at hi
  rw [C11.clipBary4_id h0 h1 h2 h3 hsum] at hi
  simp only at hi
  rw [C05.logCombine_loglinear s.bary L0 Lx Ly Lz _ _ _ _ s.xyz hsum hx hy hz] at hi
  cases hn : nodeMetricSetLog (affM L0 Lx Ly Lz s.xyz) with
  | error e => rw [hn] at hi; cases hi
  | ok p =>
    rw [hn] at hi
    simp only [Option.some.injEq] at hi
    subst hi
    exact C05.nodeMetricSetLog_pair _ s.met hn

/-! ### non-vacuity -/

open Refine.Lemmas.SmoothInterp.Ex in
/-- the hypotheses of `improve_metricAtPosition` are met by a concrete background and vertex, with a try sequence
    [not-found, located-and-rejected, located-and-accepted] -/
example : Live live ∧ Sound bg D ∧ Total bg D ∧ Fresh bg D s0 ∧
    (improve .tri live bg guards cTries trial s0).outcome = .accepted 2 ∧
    (improve .tri live bg guards cTries trial s0).calls.map (·.1) = [.notFound, .ok, .ok] :=
  ⟨live_live, sound, total, s0_fresh, by decide, by decide⟩

open Refine.Lemmas.SmoothInterp.Ex in
/-- ... and its conclusion, computed: position 3, donor cell 3, weights 21, metric 24 = interp(3, 21) -/
example : (improve .tri live bg guards cTries trial s0).st = { xyz := 3, cell := 3, part := 0, bary := 21, met := 24 } ∧
    Fresh bg D (improve .tri live bg guards cTries trial s0).st :=
  ⟨rfl, (improve_metricAtPosition live_live sound total .tri guards cTries trial s0 s0_fresh (by decide)).1⟩

open Refine.Lemmas.SmoothInterp.Ex in
/-- the hazard is real in the model: the same call on the same vertex entered UNLOCATED accepts the same try and
    keeps metric 16 (the fresh value at position 3 is 24) -/
example : (improve .tri live bg guards cTries trial { s0 with cell := EMPTY }).outcome = .accepted 2 ∧
    (improve .tri live bg guards cTries trial { s0 with cell := EMPTY }).st =
      { xyz := 3, cell := EMPTY, part := 0, bary := 14, met := 16 } :=
  ⟨by decide, rfl⟩

open Refine.Lemmas.SmoothInterp.Ex in
/-- split insertion: located by the walk from the first end node's donor; and, with both end nodes unlocated, by
    the sequential fall-back, which records the local rank as the donor's part -/
example : metricInterpolateBetween live bg (some (2, 0)) (some (5, 0)) { xyz := 4, cell := 7, part := 3, bary := 0, met := 99 } =
      (.ok, { xyz := 4, cell := 4, part := 0, bary := 28, met := 32 }) ∧
    metricInterpolateBetween live bg (some (EMPTY, 0)) none { xyz := 4, cell := 7, part := EMPTY, bary := 0, met := 99 } =
      (.ok, { xyz := 4, cell := 4, part := 0, bary := 28, met := 32 }) ∧
    metricInterpolateBetween live bg (some (2, 0)) none { xyz := 40, cell := 7, part := 3, bary := 0, met := 99 } =
      (.ok, { xyz := 40, cell := EMPTY, part := 3, bary := 0, met := 99 }) :=
  ⟨rfl, rfl, rfl⟩

end Refine.Props.C05Smooth
