import Refine.Lemmas.PhysDistTree
import Refine.Lemmas.PhysDistGlobal

/-!
  C12 / C07 — the PARALLEL wall distance (`ref_phys_wall_distance` on any number of ranks), the selection of wall
  elements (`ref_phys_local_wall`, bc dict, `--fun3d-mapbc`, `--viscous-tags`).

  All theorems are about the executable model `Refine.Model.PhysDist` (tied to `ref_phys.c` by the `physdist_*`
  streams: Float instance bit-compared with the C for 1..5 ranks).  What the C does, as modelled: every rank spreads
  ITS OWNED vertices evenly over all ranks (`ref_part_implicit`), `ref_mpi_alltoallv` moves the coordinates, EVERY
  rank receives EVERY wall element (`ref_phys_bcast_parts`, in chunks of at most 10^6), builds a sphere tree per chunk
  in `rand()` order and answers the queries it was sent, a second `ref_mpi_alltoallv` returns the answers, which are
  read back through a second `a_next` prefix sum, and `ref_node_ghost_dbl` fills the ghosts.

  Vocabulary: `worldWalls twod dict w` all ranks' wall lists concatenated (`Model/PhysDist`); `elemDist twod x e` the
  kernel value `ref_search_distance2/3` (element, point); `wallMin twod dict w x` the fold of `MIN` over
  `worldWalls` from `REF_DBL_MAX`; `WorldOk w` (`Lemmas/PhysDistWorld`): per-rank distinct globals, every ghost's part
  is a rank that stores the vertex as its own, `nowned <= REF_INT_MAX / n`, three times the vertex count fits an int;
  `PermsOk perms chunks`: every insertion order is a permutation of its chunk; `SearchFolds search op kv chunks`:
  on every rank and chunk the search succeeds and folds `op` over the kernel values of the chunk;
  `Represents w G` (`Lemmas/PhysDistGlobal`): the ranks' cells are cells of the global mesh `G` and every cell of `G`
  is stored by at least one rank.
-/
namespace Refine.Props.C12Par
open Refine Refine.Model Refine.Model.Geom Refine.Model.Search Refine.Model.PhysDist Refine.ScalarReal
open Refine.Lemmas.PhysDist Refine.Lemmas.Search
open Refine.Model.Comm (World)

/-! ### the parallel routine, exact arithmetic -/

/-- the brute-force minimum: below `REF_DBL_MAX`, below the kernel distance of EVERY wall element of EVERY rank, and
    equal to one of them (or to `REF_DBL_MAX` when there is no wall) -/
theorem wallMin_spec (twod : Bool) (dict : RDict) (w : World (PRank ℝ)) (x : V3 ℝ) :
    wallMin twod dict w x ≤ dblMax ∧
    (∀ e ∈ worldWalls twod dict w, wallMin twod dict w x ≤ elemDist twod x e) ∧
    (wallMin twod dict w x = dblMax ∨ ∃ e ∈ worldWalls twod dict w, wallMin twod dict w x = elemDist twod x e) := by
  have hmin : wallMin twod dict w x = ((worldWalls twod dict w).map (elemDist twod x)).foldl min dblMax := by
    unfold wallMin
    congr 1
    funext a b
    exact cmin_eq a b
  rw [hmin]
  obtain ⟨m1, m2, m3⟩ := foldl_min_spec ((worldWalls twod dict w).map (elemDist twod x)) dblMax
  refine ⟨m1, fun e he => m2 _ (List.mem_map.mpr ⟨e, he, rfl⟩), ?_⟩
  rcases m3 with m3 | m3
  · exact Or.inl m3
  · obtain ⟨e, he, hv⟩ := List.mem_map.mp m3
    exact Or.inr ⟨e, he, hv.symm⟩

/-- **wallDistance_par_exact**: for every rank count, every distribution of vertices and wall cells over the ranks
    (ranks without wall elements or without vertices included), every `max_ncell` chunking and EVERY insertion order
    on every rank and chunk, `ref_phys_wall_distance` completes and stores at every vertex the minimum over ALL wall
    elements of ALL ranks of the exact kernel distance: at an owned vertex for its own coordinates, at a ghost for
    the coordinates of its owner's copy (the same when ghosts carry their owner's coordinates, next theorem). -/
theorem wallDistance_par_exact (perms : Nat → Nat → List Int) (twod : Bool) (dict : RDict) (w : World (PRank ℝ))
    (hw : WorldOk w)
    (hp : PermsOk perms (wallChunks Refine.Gen.PhysBc.maxNcell (w.map (@localWall ℝ Scalar.instInhabited twod dict)))) :
    ∃ res : World (List ℝ), wallDistPar perms twod dict w = some res ∧ res.length = w.length ∧
      ∀ r (hr : r < w.length), (res.getD r []).length = w[r].nodes.length ∧
        ∀ i (hi : i < w[r].nodes.length),
          (w[r].nodes[i].part = (r : Int) → (res.getD r [])[i]? = some (wallMin twod dict w w[r].nodes[i].xyz)) ∧
          (w[r].nodes[i].part ≠ (r : Int) →
            ∀ od ∈ (w.getD w[r].nodes[i].part.toNat ⟨[], [], [], []⟩).nodes, od.glob = w[r].nodes[i].glob →
              (res.getD r [])[i]? = some (wallMin twod dict w od.xyz)) :=
  wallDistPar_real perms twod dict w hw hp

/-- with consistent ghosts (a ghost copy has its owner's coordinates: clause (iv) of the distributed-mesh invariant,
    C06) EVERY stored vertex, owned or ghost, holds the brute-force minimum at its own coordinates -/
theorem wallDistance_par_exact_all (perms : Nat → Nat → List Int) (twod : Bool) (dict : RDict)
    (w : World (PRank ℝ)) (hw : WorldOk w)
    (hp : PermsOk perms (wallChunks Refine.Gen.PhysBc.maxNcell (w.map (@localWall ℝ Scalar.instInhabited twod dict))))
    (hg : ∀ r (hr : r < w.length), ∀ nd ∈ w[r].nodes, nd.part ≠ (r : Int) →
      ∀ od ∈ (w.getD nd.part.toNat ⟨[], [], [], []⟩).nodes, od.glob = nd.glob → od.xyz = nd.xyz) :
    ∃ res : World (List ℝ), wallDistPar perms twod dict w = some res ∧
      ∀ r (hr : r < w.length), ∀ i (hi : i < w[r].nodes.length),
        (res.getD r [])[i]? = some (wallMin twod dict w w[r].nodes[i].xyz) := by
  obtain ⟨res, h1, _, h3⟩ := wallDistance_par_exact perms twod dict w hw hp
  refine ⟨res, h1, ?_⟩
  intro r hr i hi
  obtain ⟨_, h4⟩ := h3 r hr
  obtain ⟨ho, hgh⟩ := h4 i hi
  by_cases hp' : w[r].nodes[i].part = (r : Int)
  · exact ho hp'
  · obtain ⟨_, _, od, hod, hgl, _⟩ := hw.ghost r hr _ (List.getElem_mem hi) hp'
    rw [hgh hp' od hod hgl, hg r hr _ (List.getElem_mem hi) hp' od hod hgl]

/-- **rank-count independence, exact arithmetic** (C07's clause): two distributions — any two rank counts, any
    partitions, any ghost layers, any multiplicities of the wall cells — with the same SET of wall elements give the
    same minimum at every point -/
theorem wallMin_np_independent (twod : Bool) (dict1 dict2 : RDict) (w1 w2 : World (PRank ℝ))
    (hs : ∀ e, e ∈ worldWalls twod dict1 w1 ↔ e ∈ worldWalls twod dict2 w2) (x : V3 ℝ) :
    wallMin twod dict1 w1 x = wallMin twod dict2 w2 x := by
  have hc : (Scalar.cmin : ℝ → ℝ → ℝ) = min := by funext a b; exact cmin_eq a b
  unfold wallMin
  rw [hc]
  exact foldl_map_eq_of_same_set semiLat_min (elemDist twod x) _ _ dblMax trivial (fun _ => trivial) hs

/-! ### bit-identity for every rank count (C07), any value type -/

/-- **the named hypothesis**: on every rank and for every chunk the tree search (a) succeeds and (b) returns the
    fold of `op` (the C's `MIN`) over the kernel values `kv x e` of the chunk's elements, started from the value it is
    handed.  In exact arithmetic this is `treeSearch_searchFolds` (from `C12.nearest_exact`, every insertion order).
    In floating point it says that the sphere pruning (radius inflated by `1 + 1e-8`) never drops an element whose
    kernel value would lower the running minimum; it is NOT proved for `Float` (no float-level analogue of
    `nearest_exact` exists) — the `physdist_par` stream checks its consequence, bit-identity across rank counts and
    with the index-order model, on every generated input. -/
abbrev TreeReturnsMinOfKernelValues {α : Type} (search : Nat → Nat → List (Elem α) → Option (V3 α → α → α))
    (op : α → α → α) (kv : V3 α → Elem α → α) (chunks : List (List (Elem α))) : Prop :=
  SearchFolds search op kv chunks

/-- **wallDistance_par_bits**: let the values live in any type (the 64-bit patterns of IEEE doubles), let `op` be
    commutative, associative and idempotent on a set `S` of values that is closed under it and contains
    `REF_DBL_MAX` and every kernel value (for `MIN(a,b) = a < b ? a : b` on doubles: everything except NaN and `-0.0`;
    the kernels return `sqrt` of a sum of squares), and let the kernel value be a function of (point, element) only.
    Then for ANY two runs — different rank counts, partitions, ghost layers, cell multiplicities, chunk limits,
    insertion orders — whose searches satisfy `TreeReturnsMinOfKernelValues` and whose wall elements form the same
    set, two owned vertices with the same coordinates receive the SAME value, bit for bit. -/
theorem wallDistance_par_bits {α : Type} [Inhabited α] (S : α → Prop) (op : α → α → α) (kv : V3 α → Elem α → α)
    (big : α) (hop : SemiLatOn S op) (hbig : S big) (hkv : ∀ x e, S (kv x e))
    (search1 search2 : Nat → Nat → List (Elem α) → Option (V3 α → α → α)) (maxN1 maxN2 : Int) (twod : Bool)
    (dict1 dict2 : RDict) (w1 w2 : World (PRank α)) (hw1 : WorldOk w1) (hw2 : WorldOk w2)
    (ht1 : TreeReturnsMinOfKernelValues search1 op kv (wallChunks maxN1 (w1.map (localWall twod dict1))))
    (ht2 : TreeReturnsMinOfKernelValues search2 op kv (wallChunks maxN2 (w2.map (localWall twod dict2))))
    (hs : ∀ e, e ∈ (w1.map (localWall twod dict1)).flatten ↔ e ∈ (w2.map (localWall twod dict2)).flatten) :
    ∃ res1 res2, wallDistParWith search1 big maxN1 twod dict1 w1 = some res1 ∧
      wallDistParWith search2 big maxN2 twod dict2 w2 = some res2 ∧
      ∀ r1 (h1 : r1 < w1.length) r2 (h2 : r2 < w2.length) i1 (hi1 : i1 < w1[r1].nodes.length)
        i2 (hi2 : i2 < w2[r2].nodes.length),
        w1[r1].nodes[i1].part = (r1 : Int) → w2[r2].nodes[i2].part = (r2 : Int) →
        w1[r1].nodes[i1].xyz = w2[r2].nodes[i2].xyz →
        (res1.getD r1 [])[i1]? = (res2.getD r2 [])[i2]? ∧ ((res1.getD r1 [])[i1]?).isSome = true := by
  obtain ⟨res1, e1, _, p1⟩ := wallDistParWith_spec big maxN1 twod dict1 w1 ht1 hw1
  obtain ⟨res2, e2, _, p2⟩ := wallDistParWith_spec big maxN2 twod dict2 w2 ht2 hw2
  refine ⟨res1, res2, e1, e2, ?_⟩
  intro r1 h1 r2 h2 i1 hi1 i2 hi2 o1 o2 hx
  rw [((p1 r1 h1).2 i1 hi1).1 o1, ((p2 r2 h2).2 i2 hi2).1 o2, hx]
  refine ⟨?_, rfl⟩
  congr 1
  unfold wallFold allWalls
  exact foldl_map_eq_of_same_set hop (kv _) _ _ big hbig (hkv _) hs

/-- the exact-arithmetic tree satisfies the named hypothesis for every permutation (so `wallDistance_par_bits` is
    not vacuous, and in exact arithmetic it needs no hypothesis on the search at all) -/
theorem tree_returns_min_exact (perms : Nat → Nat → List Int) (maxN : Int) (twod : Bool) (dict : RDict)
    (w : World (PRank ℝ))
    (hp : PermsOk perms (wallChunks maxN (w.map (@localWall ℝ Scalar.instInhabited twod dict)))) :
    TreeReturnsMinOfKernelValues (fun me c el => treeSearch twod (perms me c) el) min (elemDist twod)
      (wallChunks maxN (w.map (@localWall ℝ Scalar.instInhabited twod dict))) :=
  treeSearch_searchFolds perms maxN twod dict w hp

/-- every wall element of every part is in exactly one chunk of `ref_phys_bcast_parts`, for every `max_ncell` -/
theorem bcast_parts_partition {β : Type} (maxN : Int) (locals : List (List β)) :
    (wallChunks maxN locals).flatten = locals.flatten :=
  wallChunks_flatten maxN locals

/-! ### the selection of wall elements -/

/-- **localWall_spec**: an element is listed iff it comes from a stored edg cell (2-D) or a stored tri / qua cell
    (3-D) whose id the dict maps to a viscous code; a quad contributes the triangles `(0,1,2)` and `(0,2,3)` -/
theorem localWall_spec {α : Type} [Inhabited α] (twod : Bool) (dict : RDict) (r : PRank α) (e : Elem α) :
    e ∈ localWall twod dict r ↔
      if twod then ∃ c ∈ r.edg, isWallId dict c.id = true ∧ e = [cellXyz r.nodes c 0, cellXyz r.nodes c 1]
      else (∃ c ∈ r.tri, isWallId dict c.id = true ∧
              e = [cellXyz r.nodes c 0, cellXyz r.nodes c 1, cellXyz r.nodes c 2]) ∨
           (∃ c ∈ r.qua, isWallId dict c.id = true ∧
              (e = [cellXyz r.nodes c 0, cellXyz r.nodes c 1, cellXyz r.nodes c 2] ∨
               e = [cellXyz r.nodes c 0, cellXyz r.nodes c 2, cellXyz r.nodes c 3])) :=
  localWall_mem twod dict r e

/-- one element per wall edg / tri, exactly two per wall quad -/
theorem localWall_count {α : Type} [Inhabited α] (twod : Bool) (dict : RDict) (r : PRank α) :
    (localWall twod dict r).length =
      if twod then (r.edg.filter fun c => isWallId dict c.id).length
      else (r.tri.filter fun c => isWallId dict c.id).length
            + 2 * (r.qua.filter fun c => isWallId dict c.id).length :=
  localWall_length twod dict r

/-- the two triangles of a wall quad share the diagonal `0–2` and together have exactly the quad's four vertices -/
theorem quad_two_triangles {α : Type} [Inhabited α] (nodes : List (PNode α)) (c : PCell) :
    ∃ t1 t2, quadTris nodes c = [t1, t2] ∧
      cellXyz nodes c 0 ∈ t1 ∧ cellXyz nodes c 2 ∈ t1 ∧ cellXyz nodes c 0 ∈ t2 ∧ cellXyz nodes c 2 ∈ t2 ∧
      cellXyz nodes c 1 ∈ t1 ∧ cellXyz nodes c 3 ∈ t2 ∧
      (∀ v, v ∈ t1 ∨ v ∈ t2 ↔ ∃ k, k < 4 ∧ v = cellXyz nodes c k) :=
  quadTris_cover nodes c

/-- **every global wall element is listed, and only those**: when the world is a distribution of a global mesh in
    which every cell is stored by at least one rank, the union of the ranks' lists is the set of selected elements of
    the global mesh.  (`ref_phys_local_wall` has no ownership test: a cell stored by k ranks is listed k times — by
    `C06.cellOwner_unique` exactly one of them is its owner — and `wallMin_np_independent` shows the multiplicity is
    irrelevant.) -/
theorem localWall_covers_global {α : Type} [Inhabited α] (twod : Bool) (dict : RDict) (w : World (PRank α))
    (G : GMesh α) (h : Represents w G) (e : Elem α) :
    e ∈ (w.map (localWall twod dict)).flatten ↔ e ∈ globalWalls twod dict G :=
  worldWalls_iff_globalWalls twod dict w G h e

/-- hence the distance of every distribution of `G` is the minimum over the selected elements of `G` itself -/
theorem wallMin_global (twod : Bool) (dict : RDict) (w : World (PRank ℝ)) (G : GMesh ℝ)
    (h : Represents w G) (x : V3 ℝ) :
    wallMin twod dict w x = ((globalWalls twod dict G).map (elemDist twod x)).foldl min dblMax := by
  have hc : (Scalar.cmin : ℝ → ℝ → ℝ) = min := by funext a b; exact cmin_eq a b
  unfold wallMin worldWalls
  rw [hc]
  exact foldl_map_eq_of_same_set semiLat_min (elemDist twod x) _ _ dblMax trivial (fun _ => trivial)
    (fun e => @worldWalls_iff_globalWalls ℝ Scalar.instInhabited twod dict w G h e)

/-! ### bc codes, `--fun3d-mapbc`, `--viscous-tags` -/

/-- the codes `ref_phys_wall_distance_bc` accepts (GENERATED from the C on every run) are FUN3D's viscous-wall
    codes: viscous_solid, its trs twin, rough wall, wall function, weak wall, their trs twins, block interface, filter -/
theorem viscous_codes_fun3d :
    Refine.Gen.PhysBc.viscousCodes = [4000, -4000, 4075, 4100, 4110, -4110, -4100, 6200, 6210] := rfl

/-- the type `--viscous-tags` gives every listed id is one of them; `REF_EMPTY` (id absent from the dict) is not -/
theorem tags_type_viscous : Refine.Gen.PhysBc.tagsType ∈ Refine.Gen.PhysBc.viscousCodes ∧
    EMPTY ∉ Refine.Gen.PhysBc.viscousCodes := by decide

/-- an id selects wall cells iff the dict maps it to a viscous code -/
theorem isWall_iff_viscous {d : RDict} (h : RDict.Inv d) (id : Int) :
    isWallId d id = true ↔ ∃ bc, RDict.lookup d id = some bc ∧ bc ∈ Refine.Gen.PhysBc.viscousCodes :=
  isWallId_iff h id

/-- **mapbc_selects_viscous**: `ref_phys_read_mapbc` on a well-formed file (a first line that starts with the count
    `n`, then `n` lines that start with `id` and `type` in the sense of `fscanf("%d")`, each shorter than the
    1023-character buffer; anything may follow) returns `REF_SUCCESS`, and afterwards an id selects wall cells iff the
    LAST record with that id carries a viscous code -/
theorem mapbc_selects_viscous (header : List Char) (recs : List MapbcRec) (tail : List Char)
    (hnl : '\n' ∉ header) (hlen : header.length < 1023)
    (hn : ∃ r, scanInt header = some ((recs.length : Int), r)) (hr : ∀ r ∈ recs, RecOk r) :
    (readMapbc RDict.create (some (mapbcText header recs ++ tail))).2 = Model.Status.ok ∧
    ∀ id, isWallId (readMapbc RDict.create (some (mapbcText header recs ++ tail))).1 id = true ↔
      ∃ rc, recs.reverse.find? (fun rc => rc.id == id) = some rc ∧ rc.ty ∈ Refine.Gen.PhysBc.viscousCodes := by
  rw [readMapbc_wellformed RDict.create header recs tail hnl hlen hn hr]
  refine ⟨rfl, ?_⟩
  intro id
  have hfold : recs.foldl (fun d r => (d.store r.id r.ty).1) RDict.create
      = (recs.map fun r => (r.id, r.ty)).foldl (fun d kv => (d.store kv.1 kv.2).1) RDict.create := by
    rw [List.foldl_map]
  obtain ⟨hinv, hl⟩ := storeAll_spec RDict.create RDict.inv_create (recs.map fun r => (r.id, r.ty))
  simp only
  rw [hfold, isWallId_iff hinv id, hl id, updAll_eq]
  have hnone : RDict.lookup RDict.create id = none := rfl
  rw [hnone, ← List.map_reverse, List.find?_map]
  cases hf : recs.reverse.find? ((fun kv : Int × Int => kv.1 == id) ∘ fun r => (r.id, r.ty)) with
  | none =>
    have hf' : recs.reverse.find? (fun rc => rc.id == id) = none := hf
    simp [hf']
  | some rc =>
    have hf' : recs.reverse.find? (fun rc => rc.id == id) = some rc := hf
    simp [hf']

/-- the parser is total and safe on ANY input (any characters, any announced count, a missing file): it answers
    `REF_SUCCESS`, `REF_FAILURE` or `REF_NULL`, and the dict stays a well-formed dict (sorted distinct keys) -/
theorem mapbc_total (d : RDict) (h : RDict.Inv d) (file : Option (List Char)) :
    ((readMapbc d file).2 = Model.Status.ok ∨ (readMapbc d file).2 = Model.Status.failure ∨ (readMapbc d file).2 = Model.Status.null) ∧
    RDict.Inv (readMapbc d file).1 := by
  have loop : ∀ (n : Nat) (s : List Char) (d : RDict), RDict.Inv d →
      ((mapbcLoop n s d).2 = Model.Status.ok ∨ (mapbcLoop n s d).2 = Model.Status.failure) ∧ RDict.Inv (mapbcLoop n s d).1 := by
    intro n
    induction n with
    | zero => intro s d hd; exact ⟨Or.inl rfl, hd⟩
    | succ k ih =>
      intro s d hd
      unfold mapbcLoop
      cases scanInt s with
      | none => exact ⟨Or.inr rfl, hd⟩
      | some p =>
        obtain ⟨id, s1⟩ := p
        simp only
        cases scanInt s1 with
        | none => exact ⟨Or.inr rfl, hd⟩
        | some q =>
          obtain ⟨ty, s2⟩ := q
          exact ih _ _ (RDict.store_spec hd id ty).2.1
  unfold readMapbc
  cases file with
  | none => exact ⟨Or.inr (Or.inr rfl), h⟩
  | some s =>
    simp only
    cases fgets 1023 s with
    | none => exact ⟨Or.inr (Or.inl rfl), h⟩
    | some lr =>
      obtain ⟨line, rest⟩ := lr
      simp only
      cases scanInt line with
      | none => exact ⟨Or.inr (Or.inl rfl), h⟩
      | some p =>
        obtain ⟨n, r⟩ := p
        obtain ⟨h1, h2⟩ := loop n.toNat rest d h
        exact ⟨h1.elim Or.inl (fun x => Or.inr (Or.inl x)), h2⟩

/-- **viscousTags_parse**: a comma-separated list of non-empty pieces is stored piece by piece as
    `atoi(piece) -> 4000`, and every listed id then selects wall cells -/
theorem viscousTags_parse (d : RDict) (h : RDict.Inv d) (pieces : List (List Char))
    (hp : ∀ p ∈ pieces, ',' ∉ p ∧ p ≠ []) :
    parseTags d (joinComma pieces)
      = (pieces.foldl (fun d p => (d.store (atoi p) Refine.Gen.PhysBc.tagsType).1) d, Model.Status.ok) ∧
    ∀ p ∈ pieces, isWallId (parseTags d (joinComma pieces)).1 (atoi p) = true := by
  refine ⟨parseTags_join d pieces hp, ?_⟩
  intro p hpm
  rw [parseTags_join d pieces hp]
  simp only
  have hfold : pieces.foldl (fun d p => (d.store (atoi p) Refine.Gen.PhysBc.tagsType).1) d
      = (pieces.map fun p => (atoi p, Refine.Gen.PhysBc.tagsType)).foldl (fun d kv => (d.store kv.1 kv.2).1) d := by
    rw [List.foldl_map]
  obtain ⟨hinv, hl⟩ := storeAll_spec d h (pieces.map fun p => (atoi p, Refine.Gen.PhysBc.tagsType))
  rw [hfold, isWallId_iff hinv, hl, updAll_eq]
  have hex : ∃ kv, (pieces.map fun p => (atoi p, Refine.Gen.PhysBc.tagsType)).reverse.find?
      (fun kv => kv.1 == atoi p) = some kv := by
    have hm : (atoi p, Refine.Gen.PhysBc.tagsType) ∈ (pieces.map fun p => (atoi p, Refine.Gen.PhysBc.tagsType)).reverse :=
      List.mem_reverse.mpr (List.mem_map.mpr ⟨p, hpm, rfl⟩)
    cases hf : (pieces.map fun p => (atoi p, Refine.Gen.PhysBc.tagsType)).reverse.find? (fun kv => kv.1 == atoi p) with
    | none =>
      rw [List.find?_eq_none] at hf
      have := hf _ hm
      simp at this
    | some kv => exact ⟨kv, rfl⟩
  obtain ⟨kv, hkv⟩ := hex
  rw [hkv]
  have hmem := List.mem_of_find?_eq_some hkv
  rw [List.mem_reverse, List.mem_map] at hmem
  obtain ⟨q, _, rfl⟩ := hmem
  exact ⟨_, rfl, tags_type_viscous.1⟩

/-! ### non-vacuity -/

/-- the dict of the examples: id 7 is a viscous wall, id 8 a far field -/
def exDict : RDict := ((RDict.create.store 7 4000).1.store 8 5000).1

theorem exDict_sel : isWallId exDict 7 = true ∧ isWallId exDict 8 = false ∧ isWallId exDict 9 = false := by decide

/-- three ranks, 3-D: rank 0 owns two vertices and stores a wall QUAD (two of its vertices are ghosts owned by rank 1),
    rank 1 owns three vertices and stores a wall triangle and a non-wall triangle (one vertex is a ghost owned by
    rank 0), rank 2 has NOTHING (no vertex, no wall) -/
noncomputable def exW : World (PRank ℝ) :=
  [ { nodes := [⟨0, 0, ⟨0, 0, 0⟩⟩, ⟨1, 0, ⟨1, 0, 0⟩⟩, ⟨2, 1, ⟨1, 1, 0⟩⟩, ⟨3, 1, ⟨0, 1, 0⟩⟩],
      tri := [], qua := [⟨[0, 1, 2, 3], 7⟩], edg := [] },
    { nodes := [⟨2, 1, ⟨1, 1, 0⟩⟩, ⟨3, 1, ⟨0, 1, 0⟩⟩, ⟨4, 1, ⟨1 / 2, 1 / 2, 2⟩⟩, ⟨0, 0, ⟨0, 0, 0⟩⟩],
      tri := [⟨[0, 1, 3], 7⟩, ⟨[0, 1, 2], 8⟩], qua := [], edg := [] },
    { nodes := [], tri := [], qua := [], edg := [] } ]

theorem exW_ok : WorldOk exW := by
  refine ⟨?_, ?_, ?_, ?_⟩
  · intro r hr
    simp only [exW, List.mem_cons, List.not_mem_nil, or_false] at hr
    rcases hr with rfl | rfl | rfl <;> simp
  · intro r hr nd hnd hp
    have hr3 : r < 3 := hr
    match r, hr3 with
    | 0, _ =>
      simp only [exW, List.getElem_cons_zero, List.mem_cons, List.not_mem_nil, or_false] at hnd
      rcases hnd with rfl | rfl | rfl | rfl
      · simp at hp
      · simp at hp
      · exact ⟨by norm_num, by simp [exW], ⟨2, 1, ⟨1, 1, 0⟩⟩, by simp [exW], rfl, rfl⟩
      · exact ⟨by norm_num, by simp [exW], ⟨3, 1, ⟨0, 1, 0⟩⟩, by simp [exW], rfl, rfl⟩
    | 1, _ =>
      simp only [exW, List.getElem_cons_succ, List.getElem_cons_zero, List.mem_cons, List.not_mem_nil,
        or_false] at hnd
      rcases hnd with rfl | rfl | rfl | rfl
      · simp at hp
      · simp at hp
      · simp at hp
      · exact ⟨by norm_num, by simp [exW], ⟨0, 0, ⟨0, 0, 0⟩⟩, by simp [exW], rfl, rfl⟩
    | 2, _ => simp [exW] at hnd
  · intro r hr
    have hr3 : r < 3 := hr
    match r, hr3 with
    | 0, _ => simp [exW, ownedOf, Comm.INT_MAX]
    | 1, _ => simp [exW, ownedOf, Comm.INT_MAX]
    | 2, _ => simp [exW, ownedOf, Comm.INT_MAX]
  · simp [exW, Comm.INT_MAX]

/-- the wall lists of the three ranks: the quad as two triangles, one selected triangle (the id-8 one is not
    selected), nothing -/
theorem exW_walls : exW.map (@localWall ℝ Scalar.instInhabited false exDict)
    = [ [[⟨0, 0, 0⟩, ⟨1, 0, 0⟩, ⟨1, 1, 0⟩], [⟨0, 0, 0⟩, ⟨1, 1, 0⟩, ⟨0, 1, 0⟩]],
        [[⟨1, 1, 0⟩, ⟨0, 1, 0⟩, ⟨0, 0, 0⟩]], [] ] := by
  simp [exW, localWall, exDict_sel.1, exDict_sel.2.1, quadTris, cellXyz, nodeXyz]

/-- all three elements end up in one chunk, and `[2, 0, 1]` is a legitimate insertion order for it on every rank -/
theorem exW_perms : PermsOk (fun _ _ => [2, 0, 1])
    (wallChunks Refine.Gen.PhysBc.maxNcell (exW.map (@localWall ℝ Scalar.instInhabited false exDict))) := by
  rw [exW_walls]
  have hch : wallChunks Refine.Gen.PhysBc.maxNcell
      ([ [[⟨0, 0, 0⟩, ⟨1, 0, 0⟩, ⟨1, 1, 0⟩], [⟨0, 0, 0⟩, ⟨1, 1, 0⟩, ⟨0, 1, 0⟩]],
        [[⟨1, 1, 0⟩, ⟨0, 1, 0⟩, ⟨0, 0, 0⟩]], [] ] : List (List (Elem ℝ)))
      = [ [[⟨0, 0, 0⟩, ⟨1, 0, 0⟩, ⟨1, 1, 0⟩], [⟨0, 0, 0⟩, ⟨1, 1, 0⟩, ⟨0, 1, 0⟩], [⟨1, 1, 0⟩, ⟨0, 1, 0⟩, ⟨0, 0, 0⟩]] ] := by
    simp [wallChunks, chunksGo, moreParts, Refine.Gen.PhysBc.maxNcell]
  rw [hch]
  intro me c h
  have hc : c = 0 := by simpa using h
  subst hc
  simp only [List.getElem_cons_zero, List.length_cons, List.length_nil]
  decide

/-- **non-vacuity of `wallDistance_par_exact`**: on this 3-rank world (one rank empty, a wall quad, ghosts in both
    directions) the hypotheses hold, so the routine completes and e.g. vertex 4 = (1/2, 1/2, 2), owned by rank 1,
    receives the minimum over the three wall triangles of both other... of ALL ranks -/
example : ∃ res : World (List ℝ), wallDistPar (fun _ _ => [2, 0, 1]) false exDict exW = some res ∧
    (res.getD 1 [])[2]? = some (wallMin false exDict exW ⟨1 / 2, 1 / 2, 2⟩) ∧
    (res.getD 2 []) = [] := by
  obtain ⟨res, h1, h2, h3⟩ := wallDistance_par_exact (fun _ _ => [2, 0, 1]) false exDict exW exW_ok exW_perms
  refine ⟨res, h1, ?_, ?_⟩
  · have := ((h3 1 (by simp [exW])).2 2 (by simp [exW])).1 (by simp [exW])
    simpa [exW] using this
  · have := (h3 2 (by simp [exW])).1
    simpa [exW] using this

/-- 2-D: one rank, two wall edges and a non-wall edge; ranks = 1 is the serial run -/
noncomputable def exW2 : World (PRank ℝ) :=
  [ { nodes := [⟨0, 0, ⟨0, 0, 0⟩⟩, ⟨1, 0, ⟨1, 0, 0⟩⟩, ⟨2, 0, ⟨1, 1, 0⟩⟩, ⟨3, 0, ⟨0, 3, 0⟩⟩],
      tri := [⟨[0, 1, 2], 7⟩], qua := [], edg := [⟨[0, 1], 7⟩, ⟨[1, 2], 7⟩, ⟨[2, 0], 8⟩] } ]

example : exW2.map (@localWall ℝ Scalar.instInhabited true exDict)
    = [[[⟨0, 0, 0⟩, ⟨1, 0, 0⟩], [⟨1, 0, 0⟩, ⟨1, 1, 0⟩]]] := by
  simp [exW2, localWall, exDict_sel.1, exDict_sel.2.1, cellXyz, nodeXyz]

/-- the hypotheses of `wallDistance_par_bits` about `op` are satisfiable beyond `ℝ`: `min` on `Nat` -/
example : SemiLatOn (fun _ : Nat => True) (min : Nat → Nat → Nat) :=
  ⟨fun _ _ _ _ => trivial, fun a b _ _ => Nat.min_comm a b, fun a b c _ _ _ => Nat.min_assoc a b c,
   fun a _ => Nat.min_self a⟩

/-- a well-formed mapbc file: 3 records, the second with leading blanks and a tab, the id 7 re-declared last -/
def exRecs : List MapbcRec :=
  [⟨"7 5000 farfield_riem".toList, 7, 5000⟩, ⟨"  8\t3000 tangency".toList, 8, 3000⟩,
   ⟨"7 4000 viscous_solid".toList, 7, 4000⟩]

example : ∀ r ∈ exRecs, RecOk r := by
  intro r hr
  simp only [exRecs, List.mem_cons, List.not_mem_nil, or_false] at hr
  rcases hr with rfl | rfl | rfl
  · exact ⟨by decide, by decide, " 5000 farfield_riem".toList, " farfield_riem".toList, by decide, by decide⟩
  · exact ⟨by decide, by decide, "\t3000 tangency".toList, " tangency".toList, by decide, by decide⟩
  · exact ⟨by decide, by decide, " 4000 viscous_solid".toList, " viscous_solid".toList, by decide, by decide⟩

/-- the model evaluated on that text: id 7 ends up a wall (the LAST record wins), id 8 not -/
example : (readMapbc RDict.create (some (mapbcText "3 patches".toList exRecs))).2 = Model.Status.ok ∧
    isWallId (readMapbc RDict.create (some (mapbcText "3 patches".toList exRecs))).1 7 = true ∧
    isWallId (readMapbc RDict.create (some (mapbcText "3 patches".toList exRecs))).1 8 = false := by decide

/-- malformed inputs are answered, not crashed on: empty file, no count, a count larger than the file -/
example : (readMapbc RDict.create (some [])).2 = Model.Status.failure ∧
    (readMapbc RDict.create (some "abc\n1 4000 w\n".toList)).2 = Model.Status.failure ∧
    (readMapbc RDict.create (some "2\n1 4000 w\n".toList)).2 = Model.Status.failure ∧
    (readMapbc RDict.create none).2 = Model.Status.null := by decide

/-- `--viscous-tags 3,12,5` -/
example : parseTags RDict.create (joinComma ["3".toList, "12".toList, "5".toList])
    = ({ max := 10, key := [3, 5, 12], value := [4000, 4000, 4000] }, Model.Status.ok) := by decide

end Refine.Props.C12Par
