import Refine.Lemmas.MetricInterp
import Refine.Props.C11
import Refine.Props.C16

/-!
  C05 — every vertex carries the log-Euclidean interpolation of the background metric.

  The model (`Refine/Model/Metric.lean`, bit-compared with the C through `refdrv metric` / `h_metric.c`) of what
  `ref_metric_interpolate_node` / `_between` / `ref_metric_interpolate` do once the donor cell is known:
  clip the stored barycentric weights, `log = Σ wᵢ · log_i` over the donors' *stored* logs, store `log` and
  `exp_m(log)` (`ref_node_metric_set_log`).  Theorems at the real instance (exact arithmetic; rounding is
  modelled, not verified).  Where `exp_m` / `log_m` enter, the inner eigen decompositions are assumed exact
  (`IsEigSys`, as in `Props/C16`: the QL similarity invariant is not proved).

  (d) uniform field reproduced; (e) a field whose logarithm is affine in position is reproduced exactly;
  (f) the spectrum of the result lies between the smallest and largest eigenvalues of the donors.
-/
namespace Refine.Props.C05
open Refine Refine.Scalar Refine.ScalarReal Refine.Model.Matrix Refine.Model.Metric
open Refine.Model.Geom (V3 B4 clipBary4)

/-! ### the stored pair `(m, log m)` -/

/-- `ref_node_metric_set` stores the argument itself and its matrix logarithm -/
theorem nodeMetricSet_pair (m : M6 ℝ) (p : M6 ℝ × M6 ℝ) (h : nodeMetricSet m = .ok p) :
    p.1 = m ∧ logM m = .ok p.2 := by
  unfold nodeMetricSet at h
  cases hl : logM m with
  | error e => rw [hl] at h; cases h
  | ok lg => rw [hl] at h; injection h with h; subst h; exact ⟨rfl, rfl⟩

/-- `ref_node_metric_set_log` stores the argument itself and its matrix exponential -/
theorem nodeMetricSetLog_pair (lg : M6 ℝ) (p : M6 ℝ × M6 ℝ) (h : nodeMetricSetLog lg = .ok p) :
    p.2 = lg ∧ expM lg = .ok p.1 := by
  unfold nodeMetricSetLog at h
  cases hl : expM lg with
  | error e => rw [hl] at h; cases h
  | ok m => rw [hl] at h; injection h with h; subst h; exact ⟨rfl, rfl⟩

/-- the invariant of the pair after `ref_node_metric_set`: the stored metric is the exponential of the stored
    logarithm (given exact inner decompositions and positive eigenvalues) — so the two setters agree -/
theorem nodeMetricSet_consistent (m : M6 ℝ) (p : M6 ℝ × M6 ℝ) (d d' : Eig12 ℝ)
    (h : nodeMetricSet m = .ok p)
    (h1 : diagM m = .ok d) (he : IsEigSys d m) (hpos : 0 < d.l0 ∧ 0 < d.l1 ∧ 0 < d.l2)
    (h2 : diagM p.2 = .ok d') (he' : IsEigSys d' p.2) :
    nodeMetricSetLog p.2 = .ok p := by
  obtain ⟨hm, hl⟩ := nodeMetricSet_pair m p h
  have := C16.exp_log m p.2 d d' h1 he hpos hl h2 he'
  unfold nodeMetricSetLog
  rw [this, ← hm]

/-! ### (d) uniform reproduction -/

/-- the combination of four equal logs with weights summing to one is that log — componentwise identity -/
theorem logCombine_uniform (w : B4 ℝ) (L : M6 ℝ) (hs : w.b0 + w.b1 + w.b2 + w.b3 = 1) :
    logCombine 4 w L L L L = L := by
  rw [logCombine4_eq]
  cases L with
  | mk a b c d e f =>
  simp only [M6.mk.injEq]
  refine ⟨?_, ?_, ?_, ?_, ?_, ?_⟩
  · linear_combination a * hs
  · linear_combination b * hs
  · linear_combination c * hs
  · linear_combination d * hs
  · linear_combination e * hs
  · linear_combination f * hs

/-- three donors (2-D background), fourth slot unused -/
theorem logCombine_uniform3 (w : B4 ℝ) (L X : M6 ℝ) (hs : w.b0 + w.b1 + w.b2 = 1) :
    logCombine 3 w L L L X = L := by
  rw [logCombine3_eq]
  cases L with
  | mk a b c d e f =>
  simp only [M6.mk.injEq]
  refine ⟨?_, ?_, ?_, ?_, ?_, ?_⟩
  · linear_combination a * hs
  · linear_combination b * hs
  · linear_combination c * hs
  · linear_combination d * hs
  · linear_combination e * hs
  · linear_combination f * hs

/-- **uniform reproduction.**  If the four donors carry the same SPD metric `m` (stored log `lg = log_m m`) and
    the weights sum to one, the log-Euclidean interpolant is `m` itself. -/
theorem logEuclid_uniform (m lg : M6 ℝ) (w : B4 ℝ) (d d' : Eig12 ℝ)
    (hs : w.b0 + w.b1 + w.b2 + w.b3 = 1)
    (h1 : diagM m = .ok d) (he : IsEigSys d m) (hpos : 0 < d.l0 ∧ 0 < d.l1 ∧ 0 < d.l2)
    (hl : logM m = .ok lg) (h2 : diagM lg = .ok d') (he' : IsEigSys d' lg) :
    logEuclidInterp 4 w lg lg lg lg = .ok m := by
  unfold logEuclidInterp
  rw [logCombine_uniform w lg hs]
  exact C16.exp_log m lg d d' h1 he hpos hl h2 he'

/-- the same through the code path of `ref_metric_interpolate_node`: whatever barycentric weights are stored
    (inside, slightly outside — they are clipped and renormalised), a successful clip reproduces a uniform field
    and stores the pair `(m, log m)` -/
theorem interpolateNode_uniform (m lg : M6 ℝ) (bary w : B4 ℝ) (d d' : Eig12 ℝ)
    (hc : clipBary4 bary = (Refine.Model.Geom.St.ok, w))
    (h1 : diagM m = .ok d) (he : IsEigSys d m) (hpos : 0 < d.l0 ∧ 0 < d.l1 ∧ 0 < d.l2)
    (hl : logM m = .ok lg) (h2 : diagM lg = .ok d') (he' : IsEigSys d' lg) :
    interpolateNode 4 bary lg lg lg lg = .ok (m, lg) := by
  obtain ⟨_, _, _, _, hs⟩ := C11.clipBary4_simplex hc
  unfold interpolateNode
  rw [hc]
  simp only
  rw [logCombine_uniform w lg hs]
  unfold nodeMetricSetLog
  rw [C16.exp_log m lg d d' h1 he hpos hl h2 he']

/-! ### (e) log-linear fields -/

/-- **log-linear exactness**, the linear-algebra core: if the donors' logs are an affine function of position,
    `log_i = L0 + Lx·x_i + Ly·y_i + Lz·z_i` (all six components), the weights sum to one and reproduce the
    point `p = Σ wᵢ x_i` (barycentric coordinates of `p`), then the combined log is the affine function at `p` -/
theorem logCombine_loglinear (w : B4 ℝ) (L0 Lx Ly Lz : M6 ℝ) (a b c d p : V3 ℝ)
    (hs : w.b0 + w.b1 + w.b2 + w.b3 = 1)
    (hx : w.b0 * a.x + w.b1 * b.x + w.b2 * c.x + w.b3 * d.x = p.x)
    (hy : w.b0 * a.y + w.b1 * b.y + w.b2 * c.y + w.b3 * d.y = p.y)
    (hz : w.b0 * a.z + w.b1 * b.z + w.b2 * c.z + w.b3 * d.z = p.z) :
    logCombine 4 w (affM L0 Lx Ly Lz a) (affM L0 Lx Ly Lz b) (affM L0 Lx Ly Lz c) (affM L0 Lx Ly Lz d) =
      affM L0 Lx Ly Lz p := by
  rw [logCombine4_eq]
  unfold affM
  simp only [M6.mk.injEq]
  refine ⟨?_, ?_, ?_, ?_, ?_, ?_⟩
  · linear_combination L0.m11 * hs + Lx.m11 * hx + Ly.m11 * hy + Lz.m11 * hz
  · linear_combination L0.m12 * hs + Lx.m12 * hx + Ly.m12 * hy + Lz.m12 * hz
  · linear_combination L0.m13 * hs + Lx.m13 * hx + Ly.m13 * hy + Lz.m13 * hz
  · linear_combination L0.m22 * hs + Lx.m22 * hx + Ly.m22 * hy + Lz.m22 * hz
  · linear_combination L0.m23 * hs + Lx.m23 * hx + Ly.m23 * hy + Lz.m23 * hz
  · linear_combination L0.m33 * hs + Lx.m33 * hx + Ly.m33 * hy + Lz.m33 * hz

/-- 2-D background (three donors) -/
theorem logCombine_loglinear3 (w : B4 ℝ) (L0 Lx Ly Lz X : M6 ℝ) (a b c p : V3 ℝ)
    (hs : w.b0 + w.b1 + w.b2 = 1)
    (hx : w.b0 * a.x + w.b1 * b.x + w.b2 * c.x = p.x)
    (hy : w.b0 * a.y + w.b1 * b.y + w.b2 * c.y = p.y)
    (hz : w.b0 * a.z + w.b1 * b.z + w.b2 * c.z = p.z) :
    logCombine 3 w (affM L0 Lx Ly Lz a) (affM L0 Lx Ly Lz b) (affM L0 Lx Ly Lz c) X = affM L0 Lx Ly Lz p := by
  rw [logCombine3_eq]
  unfold affM
  simp only [M6.mk.injEq]
  refine ⟨?_, ?_, ?_, ?_, ?_, ?_⟩
  · linear_combination L0.m11 * hs + Lx.m11 * hx + Ly.m11 * hy + Lz.m11 * hz
  · linear_combination L0.m12 * hs + Lx.m12 * hx + Ly.m12 * hy + Lz.m12 * hz
  · linear_combination L0.m13 * hs + Lx.m13 * hx + Ly.m13 * hy + Lz.m13 * hz
  · linear_combination L0.m22 * hs + Lx.m22 * hx + Ly.m22 * hy + Lz.m22 * hz
  · linear_combination L0.m23 * hs + Lx.m23 * hx + Ly.m23 * hy + Lz.m23 * hz
  · linear_combination L0.m33 * hs + Lx.m33 * hx + Ly.m33 * hy + Lz.m33 * hz

/-- **log-linear exactness.**  Under the hypotheses of `logCombine_loglinear` the interpolated metric is the
    exponential of the exact logarithm at `p`: the stored pair is `(exp_m(L(p)), L(p))`. -/
theorem logEuclid_loglinear (w : B4 ℝ) (L0 Lx Ly Lz : M6 ℝ) (a b c d p : V3 ℝ)
    (hs : w.b0 + w.b1 + w.b2 + w.b3 = 1)
    (hx : w.b0 * a.x + w.b1 * b.x + w.b2 * c.x + w.b3 * d.x = p.x)
    (hy : w.b0 * a.y + w.b1 * b.y + w.b2 * c.y + w.b3 * d.y = p.y)
    (hz : w.b0 * a.z + w.b1 * b.z + w.b2 * c.z + w.b3 * d.z = p.z) :
    logEuclidInterp 4 w (affM L0 Lx Ly Lz a) (affM L0 Lx Ly Lz b) (affM L0 Lx Ly Lz c) (affM L0 Lx Ly Lz d) =
      expM (affM L0 Lx Ly Lz p) ∧
    nodeMetricSetLog (logCombine 4 w (affM L0 Lx Ly Lz a) (affM L0 Lx Ly Lz b) (affM L0 Lx Ly Lz c)
      (affM L0 Lx Ly Lz d)) = nodeMetricSetLog (affM L0 Lx Ly Lz p) := by
  unfold logEuclidInterp
  rw [logCombine_loglinear w L0 Lx Ly Lz a b c d p hs hx hy hz]
  exact ⟨rfl, rfl⟩

/-! ### (f) spectrum bounds -/

/-- the quadratic form of the combined log is the same convex combination of the donors' quadratic forms, hence
    lies between their minimum and maximum (Rayleigh-quotient statement, any `v`) -/
theorem interp_quadratic_form_range (w : B4 ℝ) (l0 l1 l2 l3 : M6 ℝ) (v : Vec3 ℝ)
    (h0 : 0 ≤ w.b0) (h1 : 0 ≤ w.b1) (h2 : 0 ≤ w.b2) (h3 : 0 ≤ w.b3) (hs : w.b0 + w.b1 + w.b2 + w.b3 = 1) :
    min (min (vtMv l0 v) (vtMv l1 v)) (min (vtMv l2 v) (vtMv l3 v)) ≤ vtMv (logCombine 4 w l0 l1 l2 l3) v ∧
    vtMv (logCombine 4 w l0 l1 l2 l3) v ≤ max (max (vtMv l0 v) (vtMv l1 v)) (max (vtMv l2 v) (vtMv l3 v)) := by
  rw [vtMv_logCombine4]
  exact C11.convex_range _ _ _ _ _ _ _ _ h0 h1 h2 h3 hs

/-- Loewner form: if every donor log has its spectrum in `[lo, hi]` so has the combination -/
theorem logCombine_between (w : B4 ℝ) (l0 l1 l2 l3 : M6 ℝ) (lo hi : ℝ)
    (h0 : 0 ≤ w.b0) (h1 : 0 ≤ w.b1) (h2 : 0 ≤ w.b2) (h3 : 0 ≤ w.b3) (hs : w.b0 + w.b1 + w.b2 + w.b3 = 1)
    (b0 : Between lo hi l0) (b1 : Between lo hi l1) (b2 : Between lo hi l2) (b3 : Between lo hi l3) :
    Between lo hi (logCombine 4 w l0 l1 l2 l3) := by
  intro x
  rw [vtMv_logCombine4]
  have e : ∀ t : ℝ, t * normSq x = w.b0 * (t * normSq x) + w.b1 * (t * normSq x) + w.b2 * (t * normSq x) +
      w.b3 * (t * normSq x) := by intro t; linear_combination (-(t * normSq x)) * hs
  constructor
  · rw [e lo]
    have := mul_le_mul_of_nonneg_left (b0 x).1 h0
    have := mul_le_mul_of_nonneg_left (b1 x).1 h1
    have := mul_le_mul_of_nonneg_left (b2 x).1 h2
    have := mul_le_mul_of_nonneg_left (b3 x).1 h3
    linarith
  · rw [e hi]
    have := mul_le_mul_of_nonneg_left (b0 x).2 h0
    have := mul_le_mul_of_nonneg_left (b1 x).2 h1
    have := mul_le_mul_of_nonneg_left (b2 x).2 h2
    have := mul_le_mul_of_nonneg_left (b3 x).2 h3
    linarith

/-- three donors (2-D background) -/
theorem logCombine_between3 (w : B4 ℝ) (l0 l1 l2 X : M6 ℝ) (lo hi : ℝ)
    (h0 : 0 ≤ w.b0) (h1 : 0 ≤ w.b1) (h2 : 0 ≤ w.b2) (hs : w.b0 + w.b1 + w.b2 = 1)
    (b0 : Between lo hi l0) (b1 : Between lo hi l1) (b2 : Between lo hi l2) :
    Between lo hi (logCombine 3 w l0 l1 l2 X) := by
  intro x
  rw [vtMv_logCombine3]
  have e : ∀ t : ℝ, t * normSq x = w.b0 * (t * normSq x) + w.b1 * (t * normSq x) + w.b2 * (t * normSq x) := by
    intro t; linear_combination (-(t * normSq x)) * hs
  constructor
  · rw [e lo]
    have := mul_le_mul_of_nonneg_left (b0 x).1 h0
    have := mul_le_mul_of_nonneg_left (b1 x).1 h1
    have := mul_le_mul_of_nonneg_left (b2 x).1 h2
    linarith
  · rw [e hi]
    have := mul_le_mul_of_nonneg_left (b0 x).2 h0
    have := mul_le_mul_of_nonneg_left (b1 x).2 h1
    have := mul_le_mul_of_nonneg_left (b2 x).2 h2
    linarith

/-- passage through the exponential: if the combined log has its spectrum in `[lo, hi]` (and its eigen
    decomposition inside `exp_m` is exact) the interpolated metric has its spectrum in `[exp lo, exp hi]` -/
theorem expM_between (lg m : M6 ℝ) (d : Eig12 ℝ) (lo hi : ℝ)
    (h1 : diagM lg = .ok d) (he : IsEigSys d lg) (hb : Between lo hi lg) (hx : expM lg = .ok m) :
    Between (Real.exp lo) (Real.exp hi) m := by
  unfold expM at hx
  rw [h1] at hx
  injection hx with hx
  rw [← hx]
  exact between_fun he hb Real.exp (fun a b _ hab _ => Real.exp_le_exp.mpr hab)

/-- the donors' side: a metric with an exact eigen system whose eigenvalues lie in `[λlo, λhi]`, `λlo > 0`, has a
    stored logarithm with spectrum in `[log λlo, log λhi]` -/
theorem logM_between (m lg : M6 ℝ) (d : Eig12 ℝ) (llo lhi : ℝ) (hlo : 0 < llo)
    (h1 : diagM m = .ok d) (he : IsEigSys d m) (hb : Between llo lhi m) (hl : logM m = .ok lg) :
    Between (Real.log llo) (Real.log lhi) lg := by
  unfold logM at hl
  rw [h1] at hl
  injection hl with hl
  rw [← hl]
  exact between_fun he hb Real.log (fun a b ha hab _ => Real.log_le_log (lt_of_lt_of_le hlo ha) hab)

/-- **spectrum bound.**  Four donors whose metrics have their eigenvalues in `[λlo, λhi]` (`λlo > 0`), convex
    weights: every eigenvalue of the interpolated metric lies in `[λlo, λhi]`, stated as
    `λlo |x|² ≤ xᵀ M x ≤ λhi |x|²` for all x.  Exact arithmetic; the inner eigen decompositions of the four
    `log_m` calls and of the final `exp_m` are assumed exact (`IsEigSys`). -/
theorem interp_spectrum (w : B4 ℝ) (m0 m1 m2 m3 l0 l1 l2 l3 out : M6 ℝ) (d0 d1 d2 d3 dl : Eig12 ℝ)
    (llo lhi : ℝ) (hlo : 0 < llo) (hlh : llo ≤ lhi)
    (w0 : 0 ≤ w.b0) (w1 : 0 ≤ w.b1) (w2 : 0 ≤ w.b2) (w3 : 0 ≤ w.b3) (hs : w.b0 + w.b1 + w.b2 + w.b3 = 1)
    (hd0 : diagM m0 = .ok d0) (he0 : IsEigSys d0 m0) (hb0 : Between llo lhi m0) (hl0 : logM m0 = .ok l0)
    (hd1 : diagM m1 = .ok d1) (he1 : IsEigSys d1 m1) (hb1 : Between llo lhi m1) (hl1 : logM m1 = .ok l1)
    (hd2 : diagM m2 = .ok d2) (he2 : IsEigSys d2 m2) (hb2 : Between llo lhi m2) (hl2 : logM m2 = .ok l2)
    (hd3 : diagM m3 = .ok d3) (he3 : IsEigSys d3 m3) (hb3 : Between llo lhi m3) (hl3 : logM m3 = .ok l3)
    (hdl : diagM (logCombine 4 w l0 l1 l2 l3) = .ok dl) (hel : IsEigSys dl (logCombine 4 w l0 l1 l2 l3))
    (hout : logEuclidInterp 4 w l0 l1 l2 l3 = .ok out) :
    Between llo lhi out := by
  have c := logCombine_between w l0 l1 l2 l3 (Real.log llo) (Real.log lhi) w0 w1 w2 w3 hs
    (logM_between m0 l0 d0 llo lhi hlo hd0 he0 hb0 hl0) (logM_between m1 l1 d1 llo lhi hlo hd1 he1 hb1 hl1)
    (logM_between m2 l2 d2 llo lhi hlo hd2 he2 hb2 hl2) (logM_between m3 l3 d3 llo lhi hlo hd3 he3 hb3 hl3)
  have := expM_between _ out dl _ _ hdl hel c hout
  rwa [Real.exp_log hlo, Real.exp_log (lt_of_lt_of_le hlo hlh)] at this

/-- the interpolated metric is positive definite (lower bound of `interp_spectrum` with `λlo > 0`) -/
theorem between_pos_spd {m : M6 ℝ} {lo hi : ℝ} (hlo : 0 < lo) (hb : Between lo hi m) (x : Vec3 ℝ)
    (hx : x.x ≠ 0 ∨ x.y ≠ 0 ∨ x.z ≠ 0) : 0 < vtMv m x := by
  have hn : 0 < normSq x := by
    unfold normSq
    rcases hx with h | h | h
    · nlinarith [mul_self_pos.mpr h, mul_self_nonneg x.y, mul_self_nonneg x.z]
    · nlinarith [mul_self_pos.mpr h, mul_self_nonneg x.x, mul_self_nonneg x.z]
    · nlinarith [mul_self_pos.mpr h, mul_self_nonneg x.x, mul_self_nonneg x.y]
  exact lt_of_lt_of_le (mul_pos hlo hn) (hb x).1

/-! ### the code path: clipped weights are convex weights; edge split is the same kernel -/

/-- whatever barycentric weights the search left behind, a successful `ref_metric_interpolate_node` stores
    `log = Σ wᵢ log_i` for weights `w ≥ 0`, `Σ w = 1` (never an extrapolation), and `m = exp_m(log)` -/
theorem interpolateNode_convex (bary : B4 ℝ) (l0 l1 l2 l3 : M6 ℝ) (p : M6 ℝ × M6 ℝ)
    (h : interpolateNode 4 bary l0 l1 l2 l3 = .ok p) :
    ∃ w : B4 ℝ, 0 ≤ w.b0 ∧ 0 ≤ w.b1 ∧ 0 ≤ w.b2 ∧ 0 ≤ w.b3 ∧ w.b0 + w.b1 + w.b2 + w.b3 = 1 ∧
      p.2 = logCombine 4 w l0 l1 l2 l3 ∧ expM p.2 = .ok p.1 := by
  unfold interpolateNode at h
  split at h
  · rename_i w hc
    obtain ⟨a0, a1, a2, a3, hs⟩ := C11.clipBary4_simplex hc
    obtain ⟨e1, e2⟩ := nodeMetricSetLog_pair _ p h
    exact ⟨w, a0, a1, a2, a3, hs, e1, by rw [e1]; exact e2⟩
  · cases h

/-- edge split (`ref_node_interpolate_edge`): the metric of the new vertex is the same log-Euclidean kernel
    with weights `(1 - t, t, 0, 0)` -/
theorem interpolateEdge_is_interp (l0 l1 X Y : M6 ℝ) (t : ℝ) :
    interpolateEdgeMetric l0 l1 t = nodeMetricSetLog (logCombine 4 ⟨1 - t, t, 0, 0⟩ l0 l1 X Y) := by
  unfold interpolateEdgeMetric
  congr 1
  rw [logCombine4_eq]
  unfold weightM
  simp only [one_eq, sub_eq, mul_eq, add_eq, M6.mk.injEq]
  refine ⟨?_, ?_, ?_, ?_, ?_, ?_⟩ <;> ring

/-- **serial and parallel paths agree.**  The donor-side loop of `ref_metric_interpolate` (whole-field transfer used
    by `refmpi`: four zero-initialised rows, always four weights) computes exactly the interpolant of
    `ref_metric_interpolate_node` (per-vertex path: `node_per` donors), for tet (4) and triangle (3) backgrounds -/
theorem interpolateDonor_eq_node (bary : B4 ℝ) (l0 l1 l2 l3 : M6 ℝ) :
    interpolateDonor 4 bary l0 l1 l2 l3 = interpolateNode 4 bary l0 l1 l2 l3 ∧
    interpolateDonor 3 bary l0 l1 l2 l3 = interpolateNode 3 bary l0 l1 l2 l3 := by
  constructor
  · unfold interpolateDonor interpolateNode
    split <;> simp
  · unfold interpolateDonor interpolateNode
    split
    · rename_i w hc
      simp only [beq_self_eq_true, if_true]
      rw [logCombine4_eq, logCombine3_eq]
      simp only [zero_eq, mul_zero, add_zero]
    · rfl

/-! ### non-vacuity -/

/-- `logEuclid_uniform` on a concrete SPD metric diag(2,3,5) with weights (1/2, 1/4, 1/8, 1/8) -/
example : logEuclidInterp 4 (⟨1 / 2, 1 / 4, 1 / 8, 1 / 8⟩ : B4 ℝ)
    ⟨Real.log 2, 0, 0, Real.log 3, 0, Real.log 5⟩ ⟨Real.log 2, 0, 0, Real.log 3, 0, Real.log 5⟩
    ⟨Real.log 2, 0, 0, Real.log 3, 0, Real.log 5⟩ ⟨Real.log 2, 0, 0, Real.log 3, 0, Real.log 5⟩ =
    .ok ⟨2, 0, 0, 3, 0, 5⟩ :=
  logEuclid_uniform ⟨2, 0, 0, 3, 0, 5⟩ _ _ _ _ (by norm_num)
    (C16.diagM_diagonal 2 3 5).1 (C16.diagM_diagonal 2 3 5).2 ⟨by norm_num, by norm_num, by norm_num⟩
    (C16.logM_diag 2 3 5)
    (C16.diagM_diagonal (Real.log 2) (Real.log 3) (Real.log 5)).1
    (C16.diagM_diagonal (Real.log 2) (Real.log 3) (Real.log 5)).2

/-- `logCombine_loglinear` on the unit tet at the centroid: `L(x) = diag(x, 2y, 1+z)` -/
example : logCombine 4 (⟨1 / 4, 1 / 4, 1 / 4, 1 / 4⟩ : B4 ℝ)
    (affM ⟨0, 0, 0, 0, 0, 1⟩ ⟨1, 0, 0, 0, 0, 0⟩ ⟨0, 0, 0, 2, 0, 0⟩ ⟨0, 0, 0, 0, 0, 1⟩ ⟨0, 0, 0⟩)
    (affM ⟨0, 0, 0, 0, 0, 1⟩ ⟨1, 0, 0, 0, 0, 0⟩ ⟨0, 0, 0, 2, 0, 0⟩ ⟨0, 0, 0, 0, 0, 1⟩ ⟨1, 0, 0⟩)
    (affM ⟨0, 0, 0, 0, 0, 1⟩ ⟨1, 0, 0, 0, 0, 0⟩ ⟨0, 0, 0, 2, 0, 0⟩ ⟨0, 0, 0, 0, 0, 1⟩ ⟨0, 1, 0⟩)
    (affM ⟨0, 0, 0, 0, 0, 1⟩ ⟨1, 0, 0, 0, 0, 0⟩ ⟨0, 0, 0, 2, 0, 0⟩ ⟨0, 0, 0, 0, 0, 1⟩ ⟨0, 0, 1⟩) =
    affM ⟨0, 0, 0, 0, 0, 1⟩ ⟨1, 0, 0, 0, 0, 0⟩ ⟨0, 0, 0, 2, 0, 0⟩ ⟨0, 0, 0, 0, 0, 1⟩ ⟨1 / 4, 1 / 4, 1 / 4⟩ :=
  logCombine_loglinear _ _ _ _ _ _ _ _ _ _ (by norm_num) (by norm_num) (by norm_num) (by norm_num)

/-- `Between` is inhabited non-trivially: diag(2,3,5) has its spectrum in [2, 5] -/
example : Between 2 5 (⟨2, 0, 0, 3, 0, 5⟩ : M6 ℝ) := by
  intro x
  simp only [vtMv, normSq, mul_eq, add_eq]
  constructor <;> nlinarith [mul_self_nonneg x.x, mul_self_nonneg x.y, mul_self_nonneg x.z]

theorem between_diag235 : Between 2 5 (⟨2, 0, 0, 3, 0, 5⟩ : M6 ℝ) := by
  intro x
  simp only [vtMv, normSq, mul_eq, add_eq]
  constructor <;> nlinarith [mul_self_nonneg x.x, mul_self_nonneg x.y, mul_self_nonneg x.z]

/-- `interp_spectrum` is not vacuous: four donors carrying diag(2,3,5), weights (1/2,1/4,1/8,1/8), bounds [2,5] —
    every hypothesis (exact decompositions of the four `log_m` calls and of the final `exp_m`) holds -/
example : ∃ out, logEuclidInterp 4 (⟨1 / 2, 1 / 4, 1 / 8, 1 / 8⟩ : B4 ℝ)
    ⟨Real.log 2, 0, 0, Real.log 3, 0, Real.log 5⟩ ⟨Real.log 2, 0, 0, Real.log 3, 0, Real.log 5⟩
    ⟨Real.log 2, 0, 0, Real.log 3, 0, Real.log 5⟩ ⟨Real.log 2, 0, 0, Real.log 3, 0, Real.log 5⟩ = .ok out ∧
    Between 2 5 out := by
  have hw : (1 / 2 : ℝ) + 1 / 4 + 1 / 8 + 1 / 8 = 1 := by norm_num
  have hu := logCombine_uniform (⟨1 / 2, 1 / 4, 1 / 8, 1 / 8⟩ : B4 ℝ) ⟨Real.log 2, 0, 0, Real.log 3, 0, Real.log 5⟩ hw
  have hout : logEuclidInterp 4 (⟨1 / 2, 1 / 4, 1 / 8, 1 / 8⟩ : B4 ℝ)
      ⟨Real.log 2, 0, 0, Real.log 3, 0, Real.log 5⟩ ⟨Real.log 2, 0, 0, Real.log 3, 0, Real.log 5⟩
      ⟨Real.log 2, 0, 0, Real.log 3, 0, Real.log 5⟩ ⟨Real.log 2, 0, 0, Real.log 3, 0, Real.log 5⟩ =
      .ok ⟨2, 0, 0, 3, 0, 5⟩ := by
    exact logEuclid_uniform ⟨2, 0, 0, 3, 0, 5⟩ _ _ _ _ hw
      (C16.diagM_diagonal 2 3 5).1 (C16.diagM_diagonal 2 3 5).2 ⟨by norm_num, by norm_num, by norm_num⟩
      (C16.logM_diag 2 3 5)
      (C16.diagM_diagonal (Real.log 2) (Real.log 3) (Real.log 5)).1
      (C16.diagM_diagonal (Real.log 2) (Real.log 3) (Real.log 5)).2
  refine ⟨_, hout, ?_⟩
  have hD := C16.diagM_diagonal 2 3 5
  have hL := C16.diagM_diagonal (Real.log 2) (Real.log 3) (Real.log 5)
  exact interp_spectrum (⟨1 / 2, 1 / 4, 1 / 8, 1 / 8⟩ : B4 ℝ) ⟨2, 0, 0, 3, 0, 5⟩ ⟨2, 0, 0, 3, 0, 5⟩ ⟨2, 0, 0, 3, 0, 5⟩
    ⟨2, 0, 0, 3, 0, 5⟩ _ _ _ _ _ _ _ _ _ _ 2 5 (by norm_num) (by norm_num) (by norm_num) (by norm_num) (by norm_num)
    (by norm_num) hw
    hD.1 hD.2 between_diag235 (C16.logM_diag 2 3 5) hD.1 hD.2 between_diag235 (C16.logM_diag 2 3 5)
    hD.1 hD.2 between_diag235 (C16.logM_diag 2 3 5) hD.1 hD.2 between_diag235 (C16.logM_diag 2 3 5)
    (by rw [hu]; exact hL.1) (by rw [hu]; exact hL.2) hout

/-- `interp_quadratic_form_range` at a concrete point -/
example (v : Vec3 ℝ) :
    vtMv (logCombine 4 (⟨1 / 2, 1 / 2, 0, 0⟩ : B4 ℝ) ⟨1, 0, 0, 1, 0, 1⟩ ⟨3, 0, 0, 3, 0, 3⟩ ⟨0, 0, 0, 0, 0, 0⟩
      ⟨0, 0, 0, 0, 0, 0⟩) v = 2 * normSq v := by
  rw [vtMv_logCombine4]
  simp only [vtMv, normSq, mul_eq, add_eq]; ring

end Refine.Props.C05
