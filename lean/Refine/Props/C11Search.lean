import Refine.Lemmas.InterpSearch
import Refine.Props.C11
import Refine.Props.C12

/-!
  C11, donor-cell search (`ref_interp.c`: `ref_interp_create_search`, `ref_interp_enclosing_tet/tri_in_list`,
  `ref_interp_tree`, `ref_interp_walk_agent`).  All theorems are about the executable model
  `Refine.Model.Interp` at `ℝ` (exact arithmetic); the same definitions at `Float` are bit-compared with the C by the
  stream `interp_search`.

  Vocabulary (`Refine.Lemmas.Interp`): `Encloses d n x` — `x` lies in the closed donor cell with node ids `n` (triangle for
  a 2-D donor, tetrahedron otherwise); `OkMin d x c m` — candidate `c` is a valid cell whose weights at `x` were computed
  with `REF_SUCCESS` and have minimum `m`; `CellSphere` — a tree entry carries the scaled bounding sphere of a cell.

  Proved: the search sphere of a cell (all `node_per` vertices, radius times `donor_scale ≥ 1`) contains the closed cell;
  the candidate list of `ref_search_touching` contains every cell that encloses the query; the selected candidate has the
  largest min weight, so if a candidate encloses the query the selected one does too, and then the interpolant of a
  linear field is exact (end to end for the tree path, tets); a walk that ends `ENCLOSING` holds a cell whose weights are
  all `≥ inside`.
  NOT proved: walk completeness (that the walk reaches the enclosing cell of a point of the domain: it may stop at the
  boundary of a non-convex domain or after 215 steps — then the tree path takes over, which IS covered); the agent queue /
  seeding order of `ref_interp_locate` with geometry nodes; the parallel exchange; the 2-D end-to-end statement needs the
  query in the donor plane (`ref_node_bary3` ignores z, the search sphere does not).
-/
namespace Refine.Props.C11Search
open Refine Refine.Model.Geom Refine.Model.Search Refine.Model.Interp Refine.ScalarReal Refine.Lemmas.Search
open Refine.Lemmas.Interp Refine.GeomReal

/-! ### the search sphere of a donor cell -/

/-- `ref_interp_create_search`, one cell: the sphere computed by `ref_node_bounding_sphere` from ALL `node_per` vertices
    (3 for a 2-D donor, 4 for a tet), radius multiplied by `donor_scale ≥ 1`, contains every vertex and hence (convexity
    of balls) every point of the closed cell -/
theorem boundingSphere_contains_all (d : Donor ℝ) (scale : ℝ) (hs : 1 ≤ scale) (n : CellN) :
    (∀ p ∈ d.cellPts n, edist (cellSphere d scale n).1 p ≤ (cellSphere d scale n).2) ∧
    (∀ x, Encloses d n x → edist (cellSphere d scale n).1 x ≤ (cellSphere d scale n).2) := by
  have hv : ∀ p ∈ d.cellPts n, edist (cellSphere d scale n).1 p ≤ (cellSphere d scale n).2 := by
    intro p hp
    simp only [cellSphere, mul_eq]
    have h1 := Refine.Props.C12.boundingSphere_contains (d.cellPts n) p hp
    have h2 : 0 ≤ (boundingSphere (d.cellPts n)).2 := sphereRadius_nonneg _ _
    nlinarith
  exact ⟨hv, fun x hx => encloses_in_ball d n _ _ hv x hx⟩

/-- weights from `ref_node_bary4` that are all non-negative put the query in the closed tet -/
theorem bary4_nonneg_encloses (d : Donor ℝ) (h3 : d.twod = false) (n : CellN) (x : V3 ℝ) (w : B4 ℝ)
    (hb : baryOf d n x = (St.ok, w)) (h0 : 0 ≤ w.b0) (h1 : 0 ≤ w.b1) (h2 : 0 ≤ w.b2) (h3' : 0 ≤ w.b3) :
    Encloses d n x := by
  rw [baryOf_3d h3] at hb
  have hsum := Refine.Props.C15.bary4_sum hb
  have hrep := Refine.Props.C15.bary4_reproduce hb
  unfold Encloses
  simp only [h3, Bool.false_eq_true, if_false]
  refine ⟨w.b0, w.b1, w.b2, w.b3, h0, h1, h2, h3', hsum, ?_⟩
  rw [← hrep]
  simp only [comb4, vadd, vsmul]

/-- 2-D: `ref_node_bary3` only looks at x and y; for a query in the donor plane (its z is the same combination of the
    vertices' z, e.g. everything at z = 0) non-negative weights put the query in the closed triangle -/
theorem bary3_nonneg_encloses (d : Donor ℝ) (h2d : d.twod = true) (n : CellN) (x : V3 ℝ) (w : B4 ℝ)
    (hb : baryOf d n x = (St.ok, w)) (h0 : 0 ≤ w.b0) (h1 : 0 ≤ w.b1) (h2 : 0 ≤ w.b2)
    (hz : w.b0 * (d.pt n.n0).z + w.b1 * (d.pt n.n1).z + w.b2 * (d.pt n.n2).z = x.z) :
    Encloses d n x := by
  rw [baryOf_twod h2d] at hb
  simp only [Prod.mk.injEq] at hb
  obtain ⟨hst, hw⟩ := hb
  have hb3 : bary3 (d.pt n.n0) (d.pt n.n1) (d.pt n.n2) x =
      (St.ok, (bary3 (d.pt n.n0) (d.pt n.n1) (d.pt n.n2) x).2) := by
    rw [← hst]
  have hsum := Refine.Props.C15.bary3_sum hb3
  have hrep := Refine.Props.C15.bary3_reproduce hb3
  subst hw
  simp only at h0 h1 h2 hz
  unfold Encloses
  simp only [h2d, if_true]
  refine ⟨_, _, _, h0, h1, h2, hsum, ?_⟩
  apply V3.eq_of
  · simp only [comb3]; exact hrep.1.symm
  · simp only [comb3]; exact hrep.2.symm
  · simp only [comb3]; exact hz.symm

/-! ### candidate gathering -/

/-- `ref_search_touching` on the tree of `ref_interp_create_search`: if the query lies in the closed donor cell `c` then
    `c` is in the candidate list — for every `donor_scale ≥ 1` and every `search_fuzz ≥ 0`, whatever the tree shape -/
theorem tree_candidates_complete (d : Donor ℝ) (scale fuzz : ℝ) (hs : 1 ≤ scale) (hf : 0 ≤ fuzz) (s : Search ℝ)
    (hc : createSearch d scale = (.ok, some s)) (c : Int) (n : CellN) (hmem : (c, n) ∈ d.cells) (x : V3 ℝ)
    (hx : Encloses d n x) : c ∈ s.touching x fuzz := by
  obtain ⟨hinv, _, hall⟩ := createSearch_spec d scale .ok s hc
  obtain ⟨e, he, hsp⟩ := hall rfl (c, n) hmem
  rw [Refine.Props.C12.touching_exact s hinv]
  have hin := cellSphere_contains hsp hs x hx
  refine List.mem_map.mpr ⟨e, List.mem_filter.mpr ⟨he, ?_⟩, hsp.1⟩
  simp only [decide_eq_true_eq]
  linarith

/-- and every candidate is a valid donor cell id -/
theorem tree_candidates_valid (d : Donor ℝ) (scale fuzz : ℝ) (s : Search ℝ) (st : Refine.Model.Search.Status)
    (hc : createSearch d scale = (st, some s)) (x : V3 ℝ) (c : Int) (hcand : c ∈ s.touching x fuzz) :
    d.cellAt c ≠ none := by
  obtain ⟨hinv, hent, _⟩ := createSearch_spec d scale st s hc
  obtain ⟨e, he, hitem, _⟩ := Refine.Props.C12.touching_only_overlaps s hinv x fuzz c hcand
  obtain ⟨p, hp, hsp⟩ := hent e he
  have := cellAt_isSome_of_mem hp
  rw [← hsp.1, hitem] at this
  exact this

/-! ### best candidate -/

/-- `ref_interp_enclosing_tet_in_list` / `_tri_in_list`, success: the returned cell is a member of the list, the returned
    weights are its weights at the query, and its min weight is the maximum over all candidates whose weights could be
    computed (`REF_DIV_ZERO` candidates are skipped) -/
theorem inList_max_min (d : Donor ℝ) (l : List Int) (x : V3 ℝ) (c : Int) (b : B4 ℝ)
    (hne : ∀ c ∈ l, c ≠ refEmpty) (h : enclosingInList d l x = (.ok, c, b)) :
    c ∈ l ∧ (∃ n, d.cellAt c = some n ∧ baryOf d n x = (St.ok, b)) ∧
    ∀ c' ∈ l, ∀ m, OkMin d x c' m → m ≤ minBary d.twod b := by
  unfold enclosingInList at h
  cases hfold : inListFold d x l bestInit with
  | error e =>
    simp only [hfold, Prod.mk.injEq] at h
    exact absurd h.1 (inListFold_error d x l bestInit e hfold)
  | ok r =>
    simp only [hfold] at h
    by_cases hr : (r.1 == refEmpty) = true
    · simp [hr] at h
    · rw [if_neg hr] at h
      simp only [beq_iff_eq] at hr
      obtain ⟨a1, _, a3⟩ := inListFold_spec d x l bestInit r hfold hne
      cases hca : d.cellAt r.1 with
      | none => simp [hca] at h
      | some n =>
        simp only [hca] at h
        rcases hb : baryOf d n x with ⟨st, b'⟩
        rw [hb] at h
        cases st with
        | ok =>
          simp only [Prod.mk.injEq, true_and] at h
          obtain ⟨rfl, rfl⟩ := h
          rcases a1 with hbest | ⟨hm, hok⟩
          · exact absurd (by rw [hbest]; rfl) hr
          · have : r.2 = minBary d.twod b' := okMin_unique hok ⟨n, b', hca, hb, rfl⟩
            refine ⟨hm, ⟨n, hca, hb⟩, ?_⟩
            intro c' hc' m hm'
            rw [← this]
            exact (a3 c' hc' m hm').2
        | divZero => simp [ISt.ofGeom] at h
        | failure => simp [ISt.ofGeom] at h
        | invalid => simp [ISt.ofGeom] at h
        | implement => simp [ISt.ofGeom] at h

/-- if some candidate encloses the query (all its weights `≥ 0`), the selected cell has min weight `≥ 0`: it encloses the
    query too, every returned weight is non-negative -/
theorem inList_picks_enclosing (d : Donor ℝ) (l : List Int) (x : V3 ℝ) (c : Int) (b : B4 ℝ)
    (hne : ∀ c ∈ l, c ≠ refEmpty) (h : enclosingInList d l x = (.ok, c, b))
    (c' : Int) (hc' : c' ∈ l) (n' : CellN) (w' : B4 ℝ) (hcell : d.cellAt c' = some n')
    (hw : baryOf d n' x = (St.ok, w')) (h0 : 0 ≤ w'.b0) (h1 : 0 ≤ w'.b1) (h2 : 0 ≤ w'.b2) (h3 : 0 ≤ w'.b3) :
    0 ≤ minBary d.twod b ∧ 0 ≤ b.b0 ∧ 0 ≤ b.b1 ∧ 0 ≤ b.b2 ∧ (d.twod = false → 0 ≤ b.b3) := by
  obtain ⟨_, _, hmax⟩ := inList_max_min d l x c b hne h
  have hm := hmax c' hc' _ ⟨n', w', hcell, hw, rfl⟩
  have hpos : 0 ≤ minBary d.twod w' := le_minBary d.twod w' 0 h0 h1 h2 h3
  have hb := le_trans hpos hm
  obtain ⟨m0, m1, m2, m3⟩ := minBary_le d.twod b
  exact ⟨hb, le_trans hb m0, le_trans hb m1, le_trans hb m2, fun ht => le_trans hb (m3 ht)⟩

/-- the selection cannot fail when every candidate is a valid cell and at least one has computable weights -/
theorem inList_succeeds (d : Donor ℝ) (l : List Int) (x : V3 ℝ) (hne : ∀ c ∈ l, c ≠ refEmpty)
    (hv : ∀ c ∈ l, d.cellAt c ≠ none) (c' : Int) (hc' : c' ∈ l) (m : ℝ) (hok : OkMin d x c' m) :
    ∃ c b, enclosingInList d l x = (.ok, c, b) := by
  obtain ⟨r, hfold⟩ := inListFold_noerr d x l bestInit hv
  obtain ⟨a1, _, a3⟩ := inListFold_spec d x l bestInit r hfold hne
  have hr := (a3 c' hc' m hok).1
  rcases a1 with hbest | ⟨_, n, b, hca, hb, _⟩
  · exact absurd (by rw [hbest]; rfl) hr
  · refine ⟨r.1, b, ?_⟩
    unfold enclosingInList
    simp only [hfold]
    have : (r.1 == refEmpty) = false := by simpa using hr
    simp only [this, Bool.false_eq_true, if_false, hca, hb]

/-! ### the tree path, end to end -/

/-- `ref_interp_tree` for one receptor vertex of a tet donor, followed by `ref_interp_scalar`: if the vertex lies in some
    donor tet `c₀` (all weights of `ref_node_bary4` non-negative) then, for every `donor_scale ≥ 1` and `search_fuzz ≥ 0`,
    the tree path succeeds, stores a cell whose weights are all non-negative, and the interpolant of every field that is
    linear in space is EXACT at the vertex -/
theorem tree_linear_exact_inside (d : Donor ℝ) (h3d : d.twod = false) (hid : ∀ p ∈ d.cells, 0 ≤ p.1)
    (scale fuzz : ℝ) (hs : 1 ≤ scale) (hf : 0 ≤ fuzz) (s : Search ℝ) (hc : createSearch d scale = (.ok, some s))
    (x : V3 ℝ) (c0 : Int) (n0 : CellN) (w0 : B4 ℝ) (hcell : d.cellAt c0 = some n0)
    (hw : baryOf d n0 x = (St.ok, w0)) (h0 : 0 ≤ w0.b0) (h1 : 0 ≤ w0.b1) (h2 : 0 ≤ w0.b2) (h3 : 0 ≤ w0.b3)
    (α : ℝ) (g : V3 ℝ) :
    ∃ c n b, treeOne d s fuzz x = (.ok, c, b) ∧ d.cellAt c = some n ∧
      0 ≤ b.b0 ∧ 0 ≤ b.b1 ∧ 0 ≤ b.b2 ∧ 0 ≤ b.b3 ∧
      interpScalar 4 b ⟨α + vdot g (d.pt n.n0), α + vdot g (d.pt n.n1), α + vdot g (d.pt n.n2), α + vdot g (d.pt n.n3)⟩ =
        (St.ok, α + vdot g x) := by
  have henc := bary4_nonneg_encloses d h3d n0 x w0 hw h0 h1 h2 h3
  have hcand := tree_candidates_complete d scale fuzz hs hf s hc c0 n0 (cellAt_mem hcell) x henc
  have hvalid : ∀ c ∈ s.touching x fuzz, d.cellAt c ≠ none :=
    fun c hcd => tree_candidates_valid d scale fuzz s .ok hc x c hcd
  have hne : ∀ c ∈ s.touching x fuzz, c ≠ refEmpty := by
    intro c hcd hce
    cases hca : d.cellAt c with
    | none => exact hvalid c hcd hca
    | some n =>
      have := hid _ (cellAt_mem hca)
      rw [hce] at this
      simp [refEmpty] at this
  obtain ⟨c, b, hsel⟩ := inList_succeeds d _ x hne hvalid c0 hcand _ ⟨n0, w0, hcell, hw, rfl⟩
  obtain ⟨_, ⟨n, hca, hb⟩, _⟩ := inList_max_min d _ x c b hne hsel
  obtain ⟨_, p0, p1, p2, p3⟩ := inList_picks_enclosing d _ x c b hne hsel c0 hcand n0 w0 hcell hw h0 h1 h2 h3
  refine ⟨c, n, b, ?_, hca, p0, p1, p2, p3 h3d, ?_⟩
  · unfold treeOne
    have hnon : (s.touching x fuzz).isEmpty = false := by
      cases hl : s.touching x fuzz with
      | nil => rw [hl] at hcand; simp at hcand
      | cons _ _ => rfl
    simp only [hnon, Bool.false_eq_true, if_false]
    exact hsel
  · rw [baryOf_3d h3d] at hb
    exact Refine.Props.C11.interp_linear_inside α hb p0 p1 p2 (p3 h3d)

/-! ### the neighbour walk -/

/-- `ref_interp_walk_agent` is sound: whenever a walking agent comes back `ENCLOSING` (the only mode in which the callers
    use its cell), the status is `REF_SUCCESS`, the seed is a valid donor cell, the stored weights are that cell's weights
    at the query, and each of the four is `≥ inside` (-1e-12).  Every other outcome (boundary, step limit, error) claims no
    cell: the loop has at most `215 - step` iterations (it is structurally recursive on that number) and leaving it by
    the bound sets `TERMINATED`. -/
theorem walk_sound (d : Donor ℝ) (inside : ℝ) (x : V3 ℝ) (a a' : Agent ℝ) (st : ISt) (hw : a.mode = .walking)
    (h : walkAgent d inside x a = (st, a')) (he : a'.mode = .enclosing) :
    st = .ok ∧ ∃ n, d.cellAt a'.seed = some n ∧ a'.bary = (baryOf d n x).2 ∧
      inside ≤ a'.bary.b0 ∧ inside ≤ a'.bary.b1 ∧ inside ≤ a'.bary.b2 ∧ inside ≤ a'.bary.b3 := by
  unfold walkAgent at h
  obtain ⟨h1, n, h2, h3, h4⟩ := walkLoop_sound d inside x _ a a' st h (by rw [hw]; simp) he
  refine ⟨h1, n, h2, h3, ?_⟩
  simp only [baryInside, Scalar.bge, Bool.and_eq_true, le_iff] at h4
  exact ⟨h4.1.1.1, h4.1.1.2, h4.1.2, h4.2⟩

/-- an agent past the step limit is terminated at once, without looking at any cell -/
theorem walk_limit (d : Donor ℝ) (inside : ℝ) (x : V3 ℝ) (a : Agent ℝ) (h : walkLimit ≤ a.step) :
    walkAgent d inside x a = (.ok, { a with mode := .terminated }) := by
  unfold walkAgent
  have : walkLimit - a.step = 0 := by omega
  rw [this]
  rfl

/-- `ref_interp_locate_node` (serial): a located node either comes from the walk (weights `≥ inside`) or from the tree
    candidates (largest min weight among the candidates) -/
theorem locateNode_sound (d : Donor ℝ) (s : Search ℝ) (inside fuzz : ℝ) (seed : Int) (x : V3 ℝ) (c : Int) (b : B4 ℝ)
    (hne : ∀ c ∈ s.touching x fuzz, c ≠ refEmpty) (h : locateNode d s inside fuzz seed x = (.ok, c, b)) :
    (∃ n, d.cellAt c = some n ∧ b = (baryOf d n x).2 ∧
        inside ≤ b.b0 ∧ inside ≤ b.b1 ∧ inside ≤ b.b2 ∧ inside ≤ b.b3) ∨
    (c ∈ s.touching x fuzz ∧ (∃ n, d.cellAt c = some n ∧ baryOf d n x = (St.ok, b)) ∧
        ∀ c' ∈ s.touching x fuzz, ∀ m, OkMin d x c' m → m ≤ minBary d.twod b) := by
  unfold locateNode at h
  rcases hwalk : walkAgent d inside x ⟨.walking, seed, 0, zeroB4⟩ with ⟨st, a⟩
  rw [hwalk] at h
  cases st with
  | ok =>
    simp only at h
    by_cases hm : (a.mode == Mode.enclosing) = true
    · rw [if_pos hm] at h
      simp only [Prod.mk.injEq, true_and] at h
      obtain ⟨rfl, rfl⟩ := h
      left
      exact (walk_sound d inside x _ a .ok rfl hwalk (by simpa using hm)).2
    · rw [if_neg hm] at h
      right
      by_cases hl : (s.touching x fuzz).isEmpty = true
      · simp [hl] at h
      · simp only [hl, Bool.false_eq_true, if_false] at h
        rcases hsel : enclosingInList d (s.touching x fuzz) x with ⟨st2, c2, b2⟩
        rw [hsel] at h
        cases st2 with
        | ok =>
          simp only [Prod.mk.injEq, true_and] at h
          obtain ⟨rfl, rfl⟩ := h
          exact inList_max_min d _ x _ _ hne hsel
        | failure => simp at h
        | invalid => simp at h
        | divZero => simp at h
        | notFound => simp at h
        | increaseLimit => simp at h
        | implement => simp at h
  | failure => simp at h
  | invalid => simp at h
  | divZero => simp at h
  | notFound => simp at h
  | increaseLimit => simp at h
  | implement => simp at h

/-! ### non-vacuity: the hypotheses above are met by a concrete donor -/

/-- the unit tet as a one-cell donor grid -/
def unitDonor : Donor ℝ := ⟨false, [⟨0, 0, 0⟩, ⟨1, 0, 0⟩, ⟨0, 1, 0⟩, ⟨0, 0, 1⟩], [(0, ⟨0, 1, 2, 3⟩)], []⟩

example : unitDonor.cellAt 0 = some ⟨0, 1, 2, 3⟩ := by simp [Donor.cellAt, unitDonor]

/-- `ref_interp_create_search` succeeds on it with the default `donor_scale = 2` -/
example : ∃ s : Search ℝ, createSearch unitDonor 2 = (.ok, some s) := by
  simp [createSearch, createSearchGo, Search.create, Search.insert, unitDonor]

theorem unitDonor_centroid :
    baryOf unitDonor ⟨0, 1, 2, 3⟩ ⟨1 / 4, 1 / 4, 1 / 4⟩ = (St.ok, ⟨1 / 4, 1 / 4, 1 / 4, 1 / 4⟩) := by
  rw [baryOf_3d rfl]
  simp only [Donor.pt, unitDonor, List.getD_cons_zero, List.getD_cons_succ]
  unfold bary4
  simp only [tetDet, add_eq, sub_eq, mul_eq, div_eq]
  norm_num [divisible_iff']

/-- every hypothesis of `tree_linear_exact_inside` holds for the centroid of the unit tet: the conclusion is then a
    statement about a concrete successful tree search -/
example (s : Search ℝ) (hc : createSearch unitDonor 2 = (.ok, some s)) (α : ℝ) (g : V3 ℝ) :
    ∃ c n b, treeOne unitDonor s (fuzzDefault : ℝ) ⟨1 / 4, 1 / 4, 1 / 4⟩ = (.ok, c, b) ∧ unitDonor.cellAt c = some n ∧
      0 ≤ b.b0 ∧ 0 ≤ b.b1 ∧ 0 ≤ b.b2 ∧ 0 ≤ b.b3 ∧
      interpScalar 4 b ⟨α + vdot g (unitDonor.pt n.n0), α + vdot g (unitDonor.pt n.n1), α + vdot g (unitDonor.pt n.n2),
        α + vdot g (unitDonor.pt n.n3)⟩ = (St.ok, α + vdot g ⟨1 / 4, 1 / 4, 1 / 4⟩) := by
  refine tree_linear_exact_inside unitDonor rfl ?_ 2 fuzzDefault (by norm_num) ?_ s hc _ 0 ⟨0, 1, 2, 3⟩ _ ?_
    unitDonor_centroid (by norm_num) (by norm_num) (by norm_num) (by norm_num) α g
  · intro p hp
    simp only [unitDonor, List.mem_singleton] at hp
    subst hp
    simp
  · simp only [fuzzDefault, ofDec_eq]
    positivity
  · simp [Donor.cellAt, unitDonor]

/-- the walk started in that cell for the centroid comes back `ENCLOSING` at once: the hypothesis of `walk_sound` is met -/
example : (walkAgent unitDonor (insideDefault : ℝ) ⟨1 / 4, 1 / 4, 1 / 4⟩ ⟨.walking, 0, 0, zeroB4⟩).2.mode = .enclosing := by
  have hca : unitDonor.cellAt 0 = some ⟨0, 1, 2, 3⟩ := by simp [Donor.cellAt, unitDonor]
  have hin : baryInside (insideDefault : ℝ) (⟨1 / 4, 1 / 4, 1 / 4, 1 / 4⟩ : B4 ℝ) = true := by
    simp only [baryInside, Scalar.bge, Bool.and_eq_true, le_iff, insideDefault, ofDec_eq]
    norm_num
  have hit : walkIter unitDonor (insideDefault : ℝ) ⟨1 / 4, 1 / 4, 1 / 4⟩ ⟨.walking, 0, 0, zeroB4⟩ =
      .done ⟨.enclosing, 0, 0, ⟨1 / 4, 1 / 4, 1 / 4, 1 / 4⟩⟩ := by
    unfold walkIter
    simp only [hca, unitDonor_centroid, hin, if_true]
  show (walkLoop unitDonor _ _ (214 + 1) _).2.mode = _
  simp only [walkLoop, hit]
  simp

/-- a point outside the unit tet (negative first weight) does not satisfy the enclosure hypothesis: the walk steps on, and
    with no neighbour across that face it ends at the boundary check (here: no boundary triangle stored, `REF_NOT_FOUND`) -/
example : (0 : ℝ) ≤ minBary false (⟨1 / 4, 1 / 4, 1 / 4, 1 / 4⟩ : B4 ℝ) ∧
    ¬ (0 : ℝ) ≤ minBary false (⟨-1 / 2, 1 / 2, 1 / 2, 1 / 2⟩ : B4 ℝ) := by
  simp only [minBary, Bool.false_eq_true, if_false, cmin_eq]
  constructor <;> norm_num

end Refine.Props.C11Search
