import Refine.Model.Shufflin
import Refine.Lemmas.ShufflinSpec
import Refine.Lemmas.ShufflinPre
import Refine.Props.C06

/-!
  C06 — `ref_migrate_shufflin`.

  Theorems about the executable model `Refine.Model.Shufflin.shufflin` (tied to `ref_migrate.c`, `ref_cell.c`
  (`ref_cell_add_many_global`, `ref_cell_with`), `ref_node.c` (`ref_node_add_many`, `ref_node_ghost_real`) by the
  `dist2_shufflin` stream: the same per-rank vertex tables and cell lists through the real `ref_migrate_shufflin` under
  mpiexec and through the model, identical canonical dumps required).

  Vocabulary (`Refine/Lemmas/ShufflinSpec.lean`), all read off the world `w` the function is entered with (its `part`
  fields hold the NEW partition, the layout is still the old one):
  * `Vw w g`      — `g` is a vertex of the mesh: some rank stores it;
  * `partW w g`   — the new part of `g` (the part field of a stored copy), `payW w g` its payload;
  * `AllC w c`    — `c` is a cell of the mesh: some rank stores it;
  * `ShufHyp ldim N w` — the hypotheses: ids synchronised; per rank distinct globals; parts in `[0, np)`, globals in
    `[0, N)`, payloads of `ldim` values; all copies of a vertex agree on part and payload (the new part is known
    consistently for owned and ghost copies; ghosts are refreshed); every cell has a group below `REF_CELL_N_TYPE`
    and all its vertices stored on the rank that stores it; a rank stores a cell once; two stored cells of one group
    with the same vertex set are the same cell (what `ref_cell_with` relies on); `max(1,ldim)·np·N ≤ INT_MAX` (the
    guards of `ref_mpi_alltoallv` inside the ghost refresh).
  * `IsLayout w w'` — `w'` is THE state determined by the mesh and the new partition: on rank `q` the cells are
    exactly `{c ∣ AllC w c ∧ ∃ v ∈ c, partW w v = q}` (each once), the vertices exactly the canonical copies
    `⟨g, partW w g, payW w g⟩` of `{g ∣ Vw w g ∧ (partW w g = q ∨ g ∈ a stored cell)}` (each once), the id counters
    untouched.
-/
namespace Refine.Props.C06Shufflin
open Refine.Model.Dist Refine.Model.Shufflin Refine.Lemmas.Shufflin Refine.Lemmas.ShufflinWorld
open Refine.Lemmas.ShufflinSpec Refine.Lemmas.ShufflinPre
open Refine.Model.Comm (World INT_MAX)

/-- **shufflin_spec**.  For every rank count `≥ 2`, every payload length and every world satisfying `ShufHyp` — in
    particular for every layout of a mesh under ANY old partition, no old partition is even needed: cells may sit on
    any ranks as long as their vertices sit with them — the model of `ref_migrate_shufflin` (node exchange with
    `ref_node_add_many` and the payload loop, the sixteen cell exchanges with `ref_cell_add_many_global` /
    `ref_cell_with` and the removal of cells without a local vertex, removal of unreferenced ghost vertices,
    `ref_node_ghost_real` through the literal `ghost` model, i.e. through `C17.alltoallv_spec`) completes on every
    rank and returns the layout of the mesh for the new partition: `⊇` because every rank storing a cell sends it to
    every other part of its vertices and every stored copy of a vertex is sent to its new owner, `⊆` by the two drop
    steps, no duplicates because receipt is insert-if-absent by vertex set / by global, payload preserved because all
    copies agree and ghosts are refreshed from the new owner. -/
theorem shufflin_spec (ldim N : Nat) (w : World RankState) (H : ShufHyp ldim N w) (hnp : 2 ≤ w.length) :
    ∃ w', shufflin ldim w = some w' ∧ IsLayout w w' :=
  shufflin_main H hnp

/-- with fewer than two ranks `ref_migrate_shufflin` returns at once (`!ref_mpi_para`) -/
theorem shufflin_serial (ldim : Nat) (w : World RankState) (h : w.length ≤ 1) : shufflin ldim w = some w := by
  unfold shufflin; simp [h]

/-- what the layout says about cells, in the words of the property: rank `q` stores cell `c` iff `c` is a cell of the
    mesh and one of its vertices has new part `q` -/
theorem shufflin_cells (ldim N : Nat) (w : World RankState) (H : ShufHyp ldim N w) (hnp : 2 ≤ w.length) :
    ∃ w', shufflin ldim w = some w' ∧ w'.length = w.length ∧
      ∀ (q : Nat) (s' : RankState), w'[q]? = some s' →
        ∀ c, c ∈ s'.cells ↔ AllC w c ∧ ∃ v ∈ c.nodes, partW w v = (q : Int) := by
  obtain ⟨w', h1, h2⟩ := shufflin_main H hnp
  refine ⟨w', h1, h2.len, fun q s' hs' => ?_⟩
  have hq : q < w.length := by
    rw [← h2.len]
    by_contra hc
    rw [List.getElem?_eq_none (by omega)] at hs'; cases hs'
  exact (h2.rank q w[q] s' (List.getElem?_eq_getElem hq) hs').2.2.2.2.2.1

/-- **shufflin_spec, in the words of the property.**  Take any world `w0` satisfying the distributed-mesh invariant
    `distInv` (for the OLD partition, ids synchronised) and any new partition `f` with values in `[0, np)`; let every
    stored copy — owned or ghost — take the new part of its global (`setParts f`: what `ref_migrate_to_balance` does
    with `node_part` after `ref_node_ghost_int`).  Then `ref_migrate_shufflin` completes and returns the layout of the
    mesh for `f`: rank `q` stores exactly the cells of the mesh with a vertex `v`, `f v = q`; exactly the vertices it
    owns or its cells need, each with part `f g` and the payload all copies agreed on; counters untouched.
    Side hypotheses that `distInv` does not contain: the globals are below `N` and the payloads have `ldim` values
    (`hN`), cell groups are below `REF_CELL_N_TYPE` (`hgrp`), two stored cells of one group with the same vertex set
    are the same cell (`hU`: the duplicate search `ref_cell_with` compares vertex sets only), and the `int` range of
    the ghost exchange (`hsize`). -/
theorem shufflin_spec_distInv (ldim N : Nat) (w0 : World RankState) (f : Int → Int)
    (h0 : distInv w0 = true) (hs : synced w0 = true) (hnp : 2 ≤ w0.length)
    (hf : ∀ s ∈ w0, ∀ nd ∈ s.nodes, 0 ≤ f nd.glob ∧ f nd.glob < (w0.length : Int))
    (hN : ∀ s ∈ w0, ∀ nd ∈ s.nodes, nd.glob < (N : Int) ∧ nd.payload.length = ldim)
    (hgrp : ∀ s ∈ w0, ∀ c ∈ s.cells, c.group < NGROUP)
    (hU : ∀ s ∈ w0, ∀ t ∈ w0, ∀ c ∈ s.cells, ∀ c' ∈ t.cells, c.group = c'.group → sameVerts c c' = true → c = c')
    (hsize : ((max 1 ldim : Nat) : Int) * ((w0.length : Int) * (N : Int)) ≤ INT_MAX) :
    ∃ w', shufflin ldim (setParts f w0) = some w' ∧ IsLayout (setParts f w0) w' ∧ w'.length = w0.length ∧
      ∀ (q : Nat) (s' : RankState), w'[q]? = some s' →
        (∀ c, c ∈ s'.cells ↔ AllC w0 c ∧ ∃ v ∈ c.nodes, f v = (q : Int)) ∧
        (∀ nd ∈ s'.nodes, nd.part = f nd.glob ∧ (nd.part = (q : Int) ∨ ∃ c ∈ s'.cells, nd.glob ∈ c.nodes)) ∧
        (∀ g, (∃ s ∈ w0, g ∈ s.nodes.map (·.glob)) → (f g = (q : Int) ∨ ∃ c ∈ s'.cells, g ∈ c.nodes) →
          g ∈ s'.nodes.map (·.glob)) := by
  have H := shufHyp_of_distInv ldim N w0 f h0 hs hf hN hgrp hU hsize
  have hlen : (setParts f w0).length = w0.length := by unfold setParts; simp
  obtain ⟨w', h1, h2⟩ := shufflin_main H (by rw [hlen]; exact hnp)
  -- the relabelled world has the same cells and the same globals; its part function is `f`
  have hAll : ∀ c, AllC (setParts f w0) c ↔ AllC w0 c := by
    intro c
    unfold AllC setParts
    constructor
    · rintro ⟨r, s', hs', hc⟩
      rw [List.getElem?_map] at hs'
      cases hq : w0[r]? with
      | none => rw [hq] at hs'; cases hs'
      | some s => rw [hq] at hs'; simp only [Option.map_some, Option.some.injEq] at hs'; subst hs'; exact ⟨r, s, hq, hc⟩
    · rintro ⟨r, s, hs', hc⟩
      exact ⟨r, { s with nodes := s.nodes.map fun nd => ({ nd with part := f nd.glob } : DNode) },
        by rw [List.getElem?_map, hs']; rfl, hc⟩
  have hP : ∀ s ∈ w0, ∀ g ∈ s.nodes.map (·.glob), partW (setParts f w0) g = f g ∧ Vw (setParts f w0) g := by
    intro s hs' g hg
    obtain ⟨nd, hnd, rfl⟩ := List.mem_map.mp hg
    have hmem : ({ s with nodes := s.nodes.map fun nd => ({ nd with part := f nd.glob } : DNode) } : RankState)
        ∈ setParts f w0 := List.mem_map.mpr ⟨s, hs', rfl⟩
    have hnd' : ({ nd with part := f nd.glob } : DNode) ∈
        ({ s with nodes := s.nodes.map fun nd => ({ nd with part := f nd.glob } : DNode) } : RankState).nodes :=
      List.mem_map.mpr ⟨nd, hnd, rfl⟩
    have := (canon_all H _ hmem _ hnd').1
    exact ⟨this.symm, List.mem_map.mpr ⟨_, (mem_allNodes _ _).mpr ⟨_, hmem, hnd'⟩, rfl⟩⟩
  have hVw : ∀ g, Vw (setParts f w0) g → ∃ s ∈ w0, g ∈ s.nodes.map (·.glob) := by
    intro g hg
    obtain ⟨nd', hnd', rfl⟩ := List.mem_map.mp hg
    obtain ⟨s', hs', hn⟩ := (mem_allNodes _ _).mp hnd'
    obtain ⟨s, hs0, rfl⟩ := mem_setParts f w0 s' hs'
    obtain ⟨nd, hnd, rfl⟩ := List.mem_map.mp hn
    exact ⟨s, hs0, List.mem_map.mpr ⟨nd, hnd, rfl⟩⟩
  refine ⟨w', h1, h2, by rw [h2.len, hlen], fun q s' hs' => ?_⟩
  have hq : q < (setParts f w0).length := by
    rw [← h2.len]
    by_contra hc
    rw [List.getElem?_eq_none (by omega)] at hs'; cases hs'
  obtain ⟨_, _, _, _, _, hc, hn⟩ := h2.rank q _ s' (List.getElem?_eq_getElem hq) hs'
  have hcell : ∀ c, c ∈ s'.cells ↔ AllC w0 c ∧ ∃ v ∈ c.nodes, f v = (q : Int) := by
    intro c
    rw [hc c, hAll c]
    constructor
    · rintro ⟨⟨r, s, hr, hcs⟩, v, hv, hp⟩
      have F := invFacts_of_distInv w0 h0
      have := (hP s (List.mem_of_getElem? hr) v (F.cellStored s (List.mem_of_getElem? hr) c hcs v hv)).1
      exact ⟨⟨r, s, hr, hcs⟩, v, hv, by rw [← this]; exact hp⟩
    · rintro ⟨⟨r, s, hr, hcs⟩, v, hv, hp⟩
      have F := invFacts_of_distInv w0 h0
      have := (hP s (List.mem_of_getElem? hr) v (F.cellStored s (List.mem_of_getElem? hr) c hcs v hv)).1
      exact ⟨⟨r, s, hr, hcs⟩, v, hv, by rw [this]; exact hp⟩
  refine ⟨hcell, ?_, ?_⟩
  · intro nd hnd
    obtain ⟨hv, hp, _, hk⟩ := (hn nd).mp hnd
    obtain ⟨s, hs0, hg⟩ := hVw nd.glob hv
    exact ⟨by rw [hp]; exact (hP s hs0 nd.glob hg).1, hk⟩
  · rintro g ⟨s, hs0, hg⟩ hk
    obtain ⟨hp, hv⟩ := hP s hs0 g hg
    have : (⟨g, partW (setParts f w0) g, payW (setParts f w0) g⟩ : DNode) ∈ s'.nodes := by
      rw [hn]
      refine ⟨hv, rfl, rfl, ?_⟩
      simp only
      rcases hk with hk | hk
      · left; rw [hp]; exact hk
      · right; exact hk
    exact List.mem_map.mpr ⟨_, this, rfl⟩

/-! ## non-vacuity: two tets sharing a face and a boundary triangle on 2 ranks, every vertex moving to the other
    rank (old partition: 0,1 ↦ rank 0; 2,3,4 ↦ rank 1; new partition: the opposite) -/

def exW : World RankState :=
  [{ nodes := [⟨0, 1, [10]⟩, ⟨1, 1, [11]⟩, ⟨2, 0, [12]⟩, ⟨3, 0, [13]⟩, ⟨4, 0, [14]⟩],
     cells := [⟨8, [0, 1, 2, 3], 0⟩, ⟨8, [1, 2, 4, 3], 0⟩], oldN := 5, newN := 5, nUnused := 0 },
   { nodes := [⟨2, 0, [12]⟩, ⟨3, 0, [13]⟩, ⟨4, 0, [14]⟩, ⟨0, 1, [10]⟩, ⟨1, 1, [11]⟩],
     cells := [⟨8, [0, 1, 2, 3], 0⟩, ⟨8, [1, 2, 4, 3], 0⟩, ⟨3, [2, 3, 4], 7⟩], oldN := 5, newN := 5, nUnused := 0 }]

theorem exW_hyp : ShufHyp 1 5 exW := by
  refine ⟨by decide, ?_, ?_, ?_, ?_, ?_, ?_, by decide⟩
  · intro s hs; simp only [exW, List.mem_cons, List.not_mem_nil, or_false] at hs; rcases hs with rfl | rfl <;> decide
  · intro s hs; simp only [exW, List.mem_cons, List.not_mem_nil, or_false] at hs; rcases hs with rfl | rfl <;> decide
  · intro s hs t ht
    simp only [exW, List.mem_cons, List.not_mem_nil, or_false] at hs ht
    rcases hs with rfl | rfl <;> rcases ht with rfl | rfl <;> decide
  · intro s hs; simp only [exW, List.mem_cons, List.not_mem_nil, or_false] at hs; rcases hs with rfl | rfl <;> decide
  · intro s hs; simp only [exW, List.mem_cons, List.not_mem_nil, or_false] at hs; rcases hs with rfl | rfl <;> decide
  · intro s hs t ht
    simp only [exW, List.mem_cons, List.not_mem_nil, or_false] at hs ht
    rcases hs with rfl | rfl <;> rcases ht with rfl | rfl <;> decide

/-- the literal model on that world: rank 0 now owns 2,3,4 and keeps both tets and gains the triangle, rank 1 owns
    0,1, keeps both tets (and 2,3,4 as their ghosts) and drops the triangle, none of whose vertices is its own now -/
example : shufflin 1 exW = some
  [{ nodes := [⟨0, 1, [10]⟩, ⟨1, 1, [11]⟩, ⟨2, 0, [12]⟩, ⟨3, 0, [13]⟩, ⟨4, 0, [14]⟩],
     cells := [⟨8, [0, 1, 2, 3], 0⟩, ⟨8, [1, 2, 4, 3], 0⟩, ⟨3, [2, 3, 4], 7⟩], oldN := 5, newN := 5, nUnused := 0 },
   { nodes := [⟨2, 0, [12]⟩, ⟨3, 0, [13]⟩, ⟨4, 0, [14]⟩, ⟨0, 1, [10]⟩, ⟨1, 1, [11]⟩],
     cells := [⟨8, [0, 1, 2, 3], 0⟩, ⟨8, [1, 2, 4, 3], 0⟩], oldN := 5, newN := 5, nUnused := 0 }] := by
  decide +kernel

/-- the same world as `setParts f exDist` for the 2-rank world `exDist` of `Props/C06.lean` (which satisfies
    `distInv`): the hypotheses of `shufflin_spec_distInv` are met with `ldim = 1`, `N = 5` -/
example : setParts (fun g => if g ≤ 1 then 1 else 0) Refine.Props.C06.exDist = exW ∧
    distInv Refine.Props.C06.exDist = true ∧ synced Refine.Props.C06.exDist = true := by decide +kernel

end Refine.Props.C06Shufflin
