import Refine.Lemmas.SubdivChain
import Refine.Lemmas.SubdivKids
import Refine.Lemmas.GeomReal
import Refine.Lemmas.Cavity2D
import Mathlib.Tactic.Ring
import Mathlib.Tactic.Linarith
import Mathlib.Tactic.Positivity

/-!
  C13 / C04, `ref_subdiv.c`: the pattern templates of `ref_subdiv_split_tet/_tri/_edg` (model `Refine.Model.Subdiv`,
  tied to the C by the stream `subdiv_fn`).

  * `subdiv_tet_conforming`   — for every supported pattern (all 12 maps, i.e. every rotation), every tet, every
    symmetric `between`, every abelian group and alternating `φ`: the signed boundary of the children is the parent's
    boundary with each face replaced by the TRI template of that face's side marks.
  * `subdiv_face_reverse/_rotate`, `tet_face_marks` — the refinement of a face depends only on the face and its side
    marks and flips sign with the face, so two tets sharing a face (split on whatever rank) stay conforming.
  * `subdiv_tet_volume`, `subdiv_tet_orientation` — midpoints as `ref_node_interpolate_edge(·,·,0.5)` computes them:
    each child has 1/2, 1/4 or 1/8 of the parent's volume; volumes add up; child positive iff parent positive.
  * `check_copy_agrees`, `negCheck_guards_split` — the pre-split positivity check evaluates exactly the cells the
    splitter creates.
  * `subdiv_tri_conforming`, `subdiv_tri_area`, `subdiv_edg_conforming`, `subdiv_ids_inherited`.
  * `unmark_stable_supported`, `promote_stable_supported` — a tet on which no unmark / promote rule fires carries a
    supported pattern.
-/
namespace Refine.Props.C13Subdiv
open Refine Refine.Model.Geom Refine.ScalarReal Refine.GeomReal
open Refine.Lemmas.Cavity Refine.Lemmas.Subdiv Refine.Model.Subdiv
open Refine.Model.Cavity (Face Tet Tri Edg tetFaces)

variable {G : Type} [AddCommGroup G]

theorem supported_cases {map : Nat} (h : supported map = true) :
    map = 0 ∨ map = 1 ∨ map = 2 ∨ map = 4 ∨ map = 8 ∨ map = 16 ∨ map = 32 ∨ map = 11 ∨ map = 56 ∨ map = 38 ∨
      map = 21 ∨ map = 63 := by
  simp only [supported, isOneEdge, isFace, Bool.or_eq_true, beq_iff_eq] at h
  omega

/-- **subdiv_tet_conforming.**  For every pattern `ref_subdiv_split_tet` implements, the children's signed boundary
    equals the parent's boundary refined face by face with the triangle template of the face's own side marks. -/
theorem subdiv_tet_conforming {φ : Int → Int → Int → G} (hφ : Alt φ) (btw : Int → Int → Int)
    (hb : ∀ x y, btw x y = btw y x) (map : Nat) (hs : supported map = true) (t : Tet) :
    faceSum φ ((keepOr t ((splitTetChildren btw map t).getD [])).flatMap tetFaces) =
      faceSum φ (refinedBoundary btw map t) := by
  rcases t with ⟨a, b, c, d⟩
  rcases supported_cases hs with rfl | rfl | rfl | rfl | rfl | rfl | rfl | rfl | rfl | rfl | rfl | rfl
  · exact chainEq_sound' hφ (atoms btw a b c d) (atoms_norm btw hb a b c d) (kidsIdx 0) (bdIdx 0) (by decide)
  · exact chainEq_sound' hφ (atoms btw a b c d) (atoms_norm btw hb a b c d) (kidsIdx 1) (bdIdx 1) (by decide)
  · exact chainEq_sound' hφ (atoms btw a b c d) (atoms_norm btw hb a b c d) (kidsIdx 2) (bdIdx 2) (by decide)
  · exact chainEq_sound' hφ (atoms btw a b c d) (atoms_norm btw hb a b c d) (kidsIdx 4) (bdIdx 4) (by decide)
  · exact chainEq_sound' hφ (atoms btw a b c d) (atoms_norm btw hb a b c d) (kidsIdx 8) (bdIdx 8) (by decide)
  · exact chainEq_sound' hφ (atoms btw a b c d) (atoms_norm btw hb a b c d) (kidsIdx 16) (bdIdx 16) (by decide)
  · exact chainEq_sound' hφ (atoms btw a b c d) (atoms_norm btw hb a b c d) (kidsIdx 32) (bdIdx 32) (by decide)
  · exact chainEq_sound' hφ (atoms btw a b c d) (atoms_norm btw hb a b c d) (kidsIdx 11) (bdIdx 11) (by decide)
  · exact chainEq_sound' hφ (atoms btw a b c d) (atoms_norm btw hb a b c d) (kidsIdx 56) (bdIdx 56) (by decide)
  · exact chainEq_sound' hφ (atoms btw a b c d) (atoms_norm btw hb a b c d) (kidsIdx 38) (bdIdx 38) (by decide)
  · exact chainEq_sound' hφ (atoms btw a b c d) (atoms_norm btw hb a b c d) (kidsIdx 21) (bdIdx 21) (by decide)
  · exact chainEq_sound' hφ (atoms btw a b c d) (atoms_norm btw hb a b c d) (kidsIdx 63) (bdIdx 63) (by decide)

/-- no face of a supported pattern has exactly two marked sides (so the tri template never makes a quad there) -/
theorem tet_face_marks (map : Nat) (hs : supported map = true) :
    ∀ row ∈ Refine.Gen.CellTables.tet.f2n, faceMarkCount map row ≠ 2 := by
  rcases supported_cases hs with rfl | rfl | rfl | rfl | rfl | rfl | rfl | rfl | rfl | rfl | rfl | rfl <;> decide

def markCount (m1 m2 m3 : Bool) : Nat := (if m1 then 1 else 0) + (if m2 then 1 else 0) + (if m3 then 1 else 0)

/-- **subdiv_face_reverse.**  The same face seen from the other side — `(a,c,b)` with its side marks in that order —
    is refined to the reversed triangles: the two refinements cancel, whatever tets (or ranks) they came from. -/
theorem subdiv_face_reverse {φ : Int → Int → Int → G} (hφ : Alt φ) (btw : Int → Int → Int)
    (hb : ∀ x y, btw x y = btw y x) (mab mbc mca : Bool) (h2 : markCount mab mbc mca ≠ 2) (a b c : Int) :
    faceSum φ (faceKids btw mab mbc mca ⟨a, b, c⟩ ++ faceKids btw mca mbc mab ⟨a, c, b⟩) = 0 := by
  have key : ∀ l : List F3, chainEq (l.map norm3) (([] : List F3).map norm3) = true →
      evL φ (atoms btw a b c 0) l = 0 := by
    intro l h
    have := chainEq_sound' hφ (atoms btw a b c 0) (atoms_norm btw hb a b c 0) l [] h
    simpa [evL] using this
  cases mab <;> cases mbc <;> cases mca <;> simp only [markCount] at h2
  · exact key (fIdx (faceKids btwI false false false ⟨0, 1, 2⟩ ++ faceKids btwI false false false ⟨0, 2, 1⟩)) (by decide)
  · exact key (fIdx (faceKids btwI false false true ⟨0, 1, 2⟩ ++ faceKids btwI true false false ⟨0, 2, 1⟩)) (by decide)
  · exact key (fIdx (faceKids btwI false true false ⟨0, 1, 2⟩ ++ faceKids btwI false true false ⟨0, 2, 1⟩)) (by decide)
  · exact absurd rfl h2
  · exact key (fIdx (faceKids btwI true false false ⟨0, 1, 2⟩ ++ faceKids btwI false false true ⟨0, 2, 1⟩)) (by decide)
  · exact absurd rfl h2
  · exact absurd rfl h2
  · exact key (fIdx (faceKids btwI true true true ⟨0, 1, 2⟩ ++ faceKids btwI true true true ⟨0, 2, 1⟩)) (by decide)

/-- **subdiv_face_rotate.**  Listing the face from another vertex (with the marks rotated along) does not change
    the chain of its refinement. -/
theorem subdiv_face_rotate {φ : Int → Int → Int → G} (hφ : Alt φ) (btw : Int → Int → Int)
    (hb : ∀ x y, btw x y = btw y x) (mab mbc mca : Bool) (h2 : markCount mab mbc mca ≠ 2) (a b c : Int) :
    faceSum φ (faceKids btw mbc mca mab ⟨b, c, a⟩) = faceSum φ (faceKids btw mab mbc mca ⟨a, b, c⟩) := by
  have key : ∀ l1 l2 : List F3, chainEq (l1.map norm3) (l2.map norm3) = true →
      evL φ (atoms btw a b c 0) l1 = evL φ (atoms btw a b c 0) l2 :=
    fun l1 l2 h => chainEq_sound' hφ (atoms btw a b c 0) (atoms_norm btw hb a b c 0) l1 l2 h
  cases mab <;> cases mbc <;> cases mca <;> simp only [markCount] at h2
  · exact key (fIdx (faceKids btwI false false false ⟨1, 2, 0⟩)) (fIdx (faceKids btwI false false false ⟨0, 1, 2⟩)) (by decide)
  · exact key (fIdx (faceKids btwI false true false ⟨1, 2, 0⟩)) (fIdx (faceKids btwI false false true ⟨0, 1, 2⟩)) (by decide)
  · exact key (fIdx (faceKids btwI true false false ⟨1, 2, 0⟩)) (fIdx (faceKids btwI false true false ⟨0, 1, 2⟩)) (by decide)
  · exact absurd rfl h2
  · exact key (fIdx (faceKids btwI false false true ⟨1, 2, 0⟩)) (fIdx (faceKids btwI true false false ⟨0, 1, 2⟩)) (by decide)
  · exact absurd rfl h2
  · exact absurd rfl h2
  · exact key (fIdx (faceKids btwI true true true ⟨1, 2, 0⟩)) (fIdx (faceKids btwI true true true ⟨0, 1, 2⟩)) (by decide)

/-! ### volumes -/

/-- the share of the parent's volume every child of pattern `map` gets -/
noncomputable def tetRatio (map : Nat) : ℝ :=
  if map == 0 then 1 else if isOneEdge map then 1 / 2 else if isFace map then 1 / 4 else 1 / 8

theorem tetRatio_pos (map : Nat) : 0 < tetRatio map := by
  unfold tetRatio; split_ifs <;> norm_num

/-- `x` places the new vertex of every edge between two vertices of `ns` where `ref_subdiv_new_node` does:
    `ref_node_interpolate_edge(node0, node1, 0.5)` -/
def MidPlacedOn (btw : Int → Int → Int) (x : Int → V3 ℝ) (ns : List Int) : Prop :=
  ∀ a ∈ ns, ∀ b ∈ ns, x (btw a b) = interpolateEdgeXyz (x a) (x b) (half : ℝ)

theorem mid_on {btw : Int → Int → Int} {x : Int → V3 ℝ} {ns : List Int} (h : MidPlacedOn btw x ns) (a b : Int)
    (ha : a ∈ ns) (hb : b ∈ ns) :
    x (btw a b) = ⟨(x a).x / 2 + (x b).x / 2, (x a).y / 2 + (x b).y / 2, (x a).z / 2 + (x b).z / 2⟩ := by
  rw [h a ha b hb]
  simp only [interpolateEdgeXyz, add_eq, sub_eq, mul_eq, half_eq, lit1_eq]
  congr 1 <;> ring

set_option hygiene false in
macro "vol_case" k:ident : tactic => `(tactic| (
  rw [$k:ident]
  refine ⟨?_, ?_⟩
  · simp only [List.forall_mem_cons, List.not_mem_nil, false_imp_iff, implies_true, and_true, volOfTet,
      mab, mba, mac, mca, mad, mda, mbc, mcb, mbd, mdb, mcd, mdc,
      tetVol, add_eq, sub_eq, mul_eq, div_eq, neg_eq, ofInt_eq, tetRatio, isOneEdge, isFace]
    norm_num
    repeat' apply And.intro
    all_goals ring
  · simp only [List.map_cons, List.map_nil, List.sum_cons, List.sum_nil, volOfTet,
      mab, mba, mac, mca, mad, mda, mbc, mcb, mbd, mdb, mcd, mdc, tetVol, add_eq,
      sub_eq, mul_eq, div_eq, neg_eq, ofInt_eq]
    push_cast
    ring))

/-- **subdiv_tet_volume.**  With the new vertices at the edge midpoints, every child of a supported pattern has
    exactly `tetRatio map` (1/2, 1/4, 1/8) of the parent's signed volume, and the children's volumes add up to it. -/
theorem subdiv_tet_volume (btw : Int → Int → Int) (x : Int → V3 ℝ) (map : Nat)
    (hs : supported map = true) (t : Tet) (hx : MidPlacedOn btw x t.nodes) :
    (∀ k ∈ keepOr t ((splitTetChildren btw map t).getD []), volOfTet x k = tetRatio map * volOfTet x t) ∧
    ((keepOr t ((splitTetChildren btw map t).getD [])).map (volOfTet x)).sum = volOfTet x t := by
  rcases t with ⟨a, b, c, d⟩
  have mab := mid_on hx a b (by simp [Tet.nodes]) (by simp [Tet.nodes])
  have mba := mid_on hx b a (by simp [Tet.nodes]) (by simp [Tet.nodes])
  have mac := mid_on hx a c (by simp [Tet.nodes]) (by simp [Tet.nodes])
  have mca := mid_on hx c a (by simp [Tet.nodes]) (by simp [Tet.nodes])
  have mad := mid_on hx a d (by simp [Tet.nodes]) (by simp [Tet.nodes])
  have mda := mid_on hx d a (by simp [Tet.nodes]) (by simp [Tet.nodes])
  have mbc := mid_on hx b c (by simp [Tet.nodes]) (by simp [Tet.nodes])
  have mcb := mid_on hx c b (by simp [Tet.nodes]) (by simp [Tet.nodes])
  have mbd := mid_on hx b d (by simp [Tet.nodes]) (by simp [Tet.nodes])
  have mdb := mid_on hx d b (by simp [Tet.nodes]) (by simp [Tet.nodes])
  have mcd := mid_on hx c d (by simp [Tet.nodes]) (by simp [Tet.nodes])
  have mdc := mid_on hx d c (by simp [Tet.nodes]) (by simp [Tet.nodes])
  rcases supported_cases hs with rfl | rfl | rfl | rfl | rfl | rfl | rfl | rfl | rfl | rfl | rfl | rfl
  · vol_case kids_0
  · vol_case kids_1
  · vol_case kids_2
  · vol_case kids_4
  · vol_case kids_8
  · vol_case kids_16
  · vol_case kids_32
  · vol_case kids_11
  · vol_case kids_56
  · vol_case kids_38
  · vol_case kids_21
  · vol_case kids_63

/-- **subdiv_tet_orientation.**  Every child is positively oriented iff the parent is. -/
theorem subdiv_tet_orientation (btw : Int → Int → Int) (x : Int → V3 ℝ) (map : Nat)
    (hs : supported map = true) (t : Tet) (hx : MidPlacedOn btw x t.nodes) :
    ∀ k ∈ keepOr t ((splitTetChildren btw map t).getD []), (0 < volOfTet x k ↔ 0 < volOfTet x t) := by
  intro k hk
  rw [(subdiv_tet_volume btw x map hs t hx).1 k hk]
  have := tetRatio_pos map
  constructor
  · intro h; by_contra hn; push Not at hn
    nlinarith [mul_nonpos_of_nonneg_of_nonpos this.le hn]
  · intro h; positivity

/-! ### the pre-split check keeps its own copy of the templates -/

/-- **check_copy_agrees.**  The cells whose volume `ref_subdiv_unmark_neg_tet_geom_support` evaluates are, as ordered
    vertex tuples and in the same order, the cells `ref_subdiv_split_tet` creates (nothing for an unsupported map). -/
theorem check_copy_agrees (btw : Int → Int → Int) (map : Nat) (t : Tet) :
    negCheckChildren btw map t = (splitTetChildren btw map t).getD [] := by
  unfold negCheckChildren splitTetChildren
  split_ifs <;> rfl

/-- a tet that passes the check (`unmark_cell` stays false) is split into children of volume `≥ min_volume` -/
theorem negCheck_guards_split (btw : Int → Int → Int) (x : Int → V3 ℝ) (map : Nat) (t : Tet)
    (h : negCell btw x map t = false) :
    ∀ k ∈ (splitTetChildren btw map t).getD [], (minVolume : ℝ) ≤ volOfTet x k := by
  intro k hk
  rw [← check_copy_agrees] at hk
  unfold negCell at h
  rw [List.any_eq_false] at h
  have := h k hk
  simpa [lt_iff] using this

/-! ### triangles and edg cells -/

/-- directed sides of a quad -/
def quaBd (ψ : Int → Int → G) (q : Qua) : G := ψ q.n0 q.n1 + ψ q.n1 q.n2 + ψ q.n2 q.n3 + ψ q.n3 q.n0

/-- a side `(u,v)`, refined when marked -/
def sideRef (ψ : Int → Int → G) (btw : Int → Int → Int) (m : Bool) (u v : Int) : G :=
  if m then ψ u (btw u v) + ψ (btw u v) v else ψ u v

/-- **subdiv_tri_conforming.**  All 8 side-mark patterns of `ref_subdiv_split_tri` (1:2, 1:tri+quad, 1:4): the
    children's directed sides add up to the parent's sides, each marked side replaced by its two halves — the same
    halves `ref_subdiv_split_edg` makes of an edg cell on that side. -/
theorem subdiv_tri_conforming {ψ : Int → Int → G} (hψ : Alt2 ψ) (btw : Int → Int → Int)
    (hb : ∀ x y, btw x y = btw y x) (m01 m12 m20 : Bool) (t : Tri) (ts : List Tri) (qs : List Qua)
    (h : splitTriChildren btw m01 m12 m20 t = some (ts, qs)) :
    (ts.map (triBd ψ)).sum + (qs.map (quaBd ψ)).sum =
      sideRef ψ btw m01 t.n0 t.n1 + sideRef ψ btw m12 t.n1 t.n2 + sideRef ψ btw m20 t.n2 t.n0 := by
  rcases t with ⟨a, b, c, i⟩
  have e1 := hb b a
  have e2 := hb c b
  have e3 := hb a c
  cases m01 <;> cases m12 <;> cases m20 <;>
    simp only [splitTriChildren, Bool.and_true, Bool.and_false, Bool.not_true,
      Bool.not_false, Bool.or_true, Bool.or_false, if_true, if_false, Bool.false_eq_true, Option.some.injEq,
      Prod.mk.injEq, List.append_nil, List.nil_append, List.cons_append, reduceCtorEq] at h
  all_goals obtain ⟨rfl, rfl⟩ := h
  all_goals simp only [List.map_cons, List.map_nil, List.sum_cons, List.sum_nil, triBd_eq, quaBd, sideRef,
    if_true, if_false, Bool.false_eq_true, e1, e2, e3, add_zero]
  · rw [hψ.swap b (btw c a)]; abel
  · rw [hψ.swap a (btw b c)]; abel
  · rw [hψ.swap (btw c a) (btw b c)]; abel
  · rw [hψ.swap (btw a b) c]; abel
  · rw [hψ.swap (btw a b) (btw c a)]; abel
  · rw [hψ.swap (btw b c) (btw a b)]; abel
  · rw [hψ.swap (btw a b) (btw c a), hψ.swap (btw b c) (btw a b), hψ.swap (btw c a) (btw b c)]; abel

/-- **subdiv_edg_conforming.** -/
theorem subdiv_edg_conforming (ψ : Int → Int → G) (btw : Int → Int → Int) (e : Edg) (es : List Edg)
    (h : splitEdgChildren btw true e = some es) :
    (es.map fun k => ψ k.n0 k.n1).sum = sideRef ψ btw true e.n0 e.n1 := by
  simp only [splitEdgChildren, if_true, Option.some.injEq] at h
  subst h
  simp only [List.map_cons, List.map_nil, List.sum_cons, List.sum_nil, sideRef, if_true, add_zero]
  abel

/-- **subdiv_ids_inherited.**  Every new triangle, quad and edg carries the id of the cell it replaces. -/
theorem subdiv_ids_inherited (btw : Int → Int → Int) (m01 m12 m20 : Bool) (t : Tri) (ts : List Tri) (qs : List Qua)
    (h : splitTriChildren btw m01 m12 m20 t = some (ts, qs)) (e : Edg) (es : List Edg) (m : Bool)
    (he : splitEdgChildren btw m e = some es) :
    (∀ k ∈ ts, k.id = t.id) ∧ (∀ q ∈ qs, q.id = t.id) ∧ (∀ k ∈ es, k.id = e.id) := by
  refine ⟨?_, ?_, ?_⟩
  · cases m01 <;> cases m12 <;> cases m20 <;>
      simp only [splitTriChildren, Bool.and_true, Bool.and_false, Bool.not_true,
        Bool.not_false, Bool.or_true, Bool.or_false, if_true, if_false, Bool.false_eq_true, Option.some.injEq,
        Prod.mk.injEq, List.append_nil, List.nil_append, List.cons_append, reduceCtorEq] at h
    all_goals obtain ⟨rfl, rfl⟩ := h
    all_goals simp
  · cases m01 <;> cases m12 <;> cases m20 <;>
      simp only [splitTriChildren, Bool.and_true, Bool.and_false, Bool.not_true,
        Bool.not_false, Bool.or_true, Bool.or_false, if_true, if_false, Bool.false_eq_true, Option.some.injEq,
        Prod.mk.injEq, List.append_nil, List.nil_append, List.cons_append, reduceCtorEq] at h
    all_goals obtain ⟨rfl, rfl⟩ := h
    all_goals simp
  · cases m <;> simp only [splitEdgChildren, if_true, if_false, Bool.false_eq_true, Option.some.injEq,
      reduceCtorEq] at he
    subst he; simp

/-- area vector `(x1-x0) × (x2-x0)` of a triangle (twice the area, with orientation) -/
noncomputable def triNrm (x : Int → V3 ℝ) (t : Tri) : V3 ℝ := triNormal (x t.n0) (x t.n1) (x t.n2)
noncomputable def quaNrm (x : Int → V3 ℝ) (q : Qua) : V3 ℝ :=
  vadd (triNormal (x q.n0) (x q.n1) (x q.n2)) (triNormal (x q.n0) (x q.n2) (x q.n3))

/-- **subdiv_tri_area.**  With midpoints, the area vectors of the children (a quad counted as its two halves) add up
    to the parent's, for every side-mark pattern — orientation and total area are kept. -/
theorem subdiv_tri_area (btw : Int → Int → Int) (x : Int → V3 ℝ) (m01 m12 m20 : Bool)
    (t : Tri) (hx : MidPlacedOn btw x t.nodes) (ts : List Tri) (qs : List Qua)
    (h : splitTriChildren btw m01 m12 m20 t = some (ts, qs)) :
    vadd ((ts.map (triNrm x)).foldr vadd ⟨0, 0, 0⟩) ((qs.map (quaNrm x)).foldr vadd ⟨0, 0, 0⟩) = triNrm x t := by
  rcases t with ⟨a, b, c, i⟩
  have mab := mid_on hx a b (by simp [Tri.nodes]) (by simp [Tri.nodes])
  have mba := mid_on hx b a (by simp [Tri.nodes]) (by simp [Tri.nodes])
  have mac := mid_on hx a c (by simp [Tri.nodes]) (by simp [Tri.nodes])
  have mca := mid_on hx c a (by simp [Tri.nodes]) (by simp [Tri.nodes])
  have mbc := mid_on hx b c (by simp [Tri.nodes]) (by simp [Tri.nodes])
  have mcb := mid_on hx c b (by simp [Tri.nodes]) (by simp [Tri.nodes])
  cases m01 <;> cases m12 <;> cases m20 <;>
    simp only [splitTriChildren, Bool.and_true, Bool.and_false, Bool.not_true,
      Bool.not_false, Bool.or_true, Bool.or_false, if_true, if_false, Bool.false_eq_true, Option.some.injEq,
      Prod.mk.injEq, List.append_nil, List.nil_append, List.cons_append, reduceCtorEq] at h
  all_goals obtain ⟨rfl, rfl⟩ := h
  all_goals simp only [List.map_cons, List.map_nil, List.foldr_cons, List.foldr_nil, triNrm, quaNrm, triNormal,
    cross, V3.sub, vadd, mab, mba, mac, mca, mbc, mcb, sub_eq, mul_eq]
  all_goals (ext <;> (simp only []; ring))

/-! ### relaxation: a tet on which no rule fires carries a supported pattern -/

def mapOfBits (b0 b1 b2 b3 b4 b5 : Bool) : Nat :=
  (if b0 then 1 else 0) + (if b1 then 2 else 0) + (if b2 then 4 else 0) + (if b3 then 8 else 0) +
    (if b4 then 16 else 0) + (if b5 then 32 else 0)

/-- marks of the reference configuration: global edge `i` of the cell is edge `i` -/
def bitsMarks (b0 b1 b2 b3 b4 b5 : Bool) : List Nat := [b0, b1, b2, b3, b4, b5].map fun b => if b then 1 else 0

/-- the edge table of the tet `(0,1,2,3)` with global ids equal to the local ones -/
def refE : EdgeTab := [(0, 1), (0, 2), (0, 3), (1, 2), (1, 3), (2, 3)]

/-- **unmark_stable_supported.**  `ref_subdiv_unmark_tet` reports `again = false` only on patterns the splitter
    implements (all 64 mark vectors of a tet; the rules only read the marks, so the reference tet is general). -/
theorem unmark_stable_supported : ∀ b0 b1 b2 b3 b4 b5 : Bool,
    (unmarkTet [0, 1, 2, 3] refE [0, 1, 2, 3, 4, 5] (bitsMarks b0 b1 b2 b3 b4 b5, false)).2 = false →
      supported (mapOfBits b0 b1 b2 b3 b4 b5) = true := by decide +kernel

/-- what the unmark rules leave is a subset of the marks and a supported pattern after at most a few rounds: here,
    one application on every mark vector either changes nothing or removes marks only -/
theorem unmark_only_removes : ∀ b0 b1 b2 b3 b4 b5 : Bool,
    let m := bitsMarks b0 b1 b2 b3 b4 b5
    let r := unmarkTet [0, 1, 2, 3] refE [0, 1, 2, 3, 4, 5] (m, false)
    (List.zipWith (fun a b => decide (a ≤ b)) r.1 m).all id = true := by decide +kernel

/-- **promote_stable_supported.**  One `case 4:` step of `ref_subdiv_mark_relax` (four `promote_2_3`, then
    `promote_2_all`) reports `again = false` only on supported patterns, and otherwise only adds marks. -/
theorem promote_stable_supported : ∀ b0 b1 b2 b3 b4 b5 : Bool,
    let m := bitsMarks b0 b1 b2 b3 b4 b5
    let r := relaxTet [0, 1, 2, 3, 4, 5] (m, false)
    (r.2 = false → supported (mapOfBits b0 b1 b2 b3 b4 b5) = true) ∧
      (List.zipWith (fun a b => decide (a ≤ b)) m r.1).all id = true := by decide +kernel

/-- the guard of `promote_2_all` reads global edge INDICES (`ge0 > 0 && ge5 > 0 || ge1 > 0 && ge4 > 0 || …`), not
    marks; for the six pairwise distinct edges of a tet it is always true, so the rule fires whenever `sum == 2` -/
theorem promote2All_guard_true (g0 g1 g4 g5 : Nat) (h : g0 ≠ g1 ∧ g0 ≠ g4 ∧ g5 ≠ g1 ∧ g5 ≠ g4) :
    (decide (g0 > 0) && decide (g5 > 0) || decide (g1 > 0) && decide (g4 > 0)) = true := by
  simp only [Bool.or_eq_true, Bool.and_eq_true, decide_eq_true_eq]
  omega

/-! ### non-vacuity -/

/-- a symmetric `between` -/
def exBtw (a b : Int) : Int := 100 + 10 * min a b + max a b

example : ∀ x y, exBtw x y = exBtw y x := by
  intro x y; simp only [exBtw, min_comm, max_comm]

/-- every pattern is met: the children of the reference tet for all 12 maps -/
example : ([0, 1, 2, 4, 8, 16, 32, 11, 56, 38, 21, 63].map fun m =>
    (keepOr ⟨0, 1, 2, 3⟩ ((splitTetChildren exBtw m ⟨0, 1, 2, 3⟩).getD [])).length) =
    [1, 2, 2, 2, 2, 2, 2, 4, 4, 4, 4, 8] := by decide

example : splitTetChildren exBtw 11 ⟨0, 1, 2, 3⟩ =
    some [⟨0, 101, 102, 3⟩, ⟨101, 1, 112, 3⟩, ⟨102, 112, 2, 3⟩, ⟨101, 112, 102, 3⟩] := by decide

example : splitTetChildren exBtw 3 ⟨0, 1, 2, 3⟩ = none := by decide

/-- coordinates with midpoints placed as the C does, and a positive parent -/
noncomputable def exX (v : Int) : V3 ℝ :=
  if v = 0 then ⟨0, 0, 0⟩ else if v = 1 then ⟨1, 0, 0⟩ else if v = 2 then ⟨0, 1, 0⟩ else ⟨0, 0, 1⟩

example : volOfTet exX ⟨0, 1, 2, 3⟩ = 1 / 6 := by
  simp only [volOfTet, exX, tetVol, add_eq, sub_eq, mul_eq, div_eq, neg_eq, ofInt_eq]
  norm_num

/-- vertices 0..3 at the unit corners, the vertex `exBtw a b` at the midpoint of `a`, `b` -/
noncomputable def exX2 (v : Int) : V3 ℝ :=
  if v < 100 then exX v
  else interpolateEdgeXyz (exX ((v - 100) / 10)) (exX ((v - 100) % 10)) (half : ℝ)

/-- the hypothesis of `subdiv_tet_volume` / `_orientation` is met by a positive tet with real midpoints -/
example : MidPlacedOn exBtw exX2 (Tet.nodes ⟨0, 1, 2, 3⟩) := by
  intro a ha b hb
  simp only [Tet.nodes, List.mem_cons, List.not_mem_nil, or_false] at ha hb
  rcases ha with rfl | rfl | rfl | rfl <;> rcases hb with rfl | rfl | rfl | rfl <;>
    simp [exBtw, exX2, exX, interpolateEdgeXyz, add_eq, sub_eq, mul_eq, half_eq, lit1_eq] <;> norm_num

example : volOfTet exX2 ⟨0, 1, 2, 3⟩ = 1 / 6 := by
  simp only [volOfTet, exX2, exX, tetVol, add_eq, sub_eq, mul_eq, div_eq, neg_eq, ofInt_eq]
  norm_num

example : splitTriChildren exBtw true true false ⟨0, 1, 2, 7⟩ =
    some ([⟨101, 1, 112, 7⟩], [⟨0, 101, 112, 2, 7⟩]) := by decide

example : (unmarkTet [0, 1, 2, 3] refE [0, 1, 2, 3, 4, 5] ([1, 1, 0, 0, 0, 0], false)) = ([1, 0, 0, 0, 0, 0], true) := by
  decide

example : relaxTet [0, 1, 2, 3, 4, 5] ([1, 0, 0, 0, 0, 1], false) = ([1, 1, 1, 1, 1, 1], true) := by decide

end Refine.Props.C13Subdiv
