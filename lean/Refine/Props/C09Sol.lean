import Refine.Lemmas.SolChunk
import Refine.Lemmas.SolIndex

/-!
  C09, part 2 — text formats and the multi-rank chunk loops (`Refine/Model/Sol.lean`, tied by the streams
  `sol_read[_mpi]`, `sol_write[_mpi]`, `sol_rst` through harness/h_sol.c ↔ `refdrv sol`).

  Memory slots are (m11,m12,m13,m22,m23,m33) = (xx,xy,xz,yy,yz,zz).  The slot orders are `Refine.Gen.SolOrder`,
  regenerated from the C text of every reader/writer branch on every run.
-/
namespace Refine.Props.C09Sol
open Refine.Gen Refine.Model.Meshb Refine.Model.Sol Refine.Lemmas.Sol
open Refine.Model.Comm (World)

def memNames : List String := ["xx", "xy", "xz", "yy", "yz", "zz"]
def named (order : List Nat) : List String := order.map fun k => memNames.getD k ""

/-- the ASCII `.sol` 3-D branch of ref_part_metric reads libMeshb's order xx xy yy xz yz zz -/
theorem asciiSol3_order_is_libmeshb : named SolOrder.asciiSol3 = ["xx", "xy", "yy", "xz", "yz", "zz"] := by decide

/-- the ASCII `.sol` 2-D branch reads xx xy yy and fills m13 = m23 = 0, m33 = 1 -/
theorem asciiSol2_order :
    named SolOrder.asciiSol2 = ["xx", "xy", "yy"] ∧
    SolOrder.asciiSol2Fill = [(2, false), (4, false), (5, true)] := by decide

/-- the plain six-column reader and writer use the in-memory order m11 m12 m13 m22 m23 m33 -/
theorem plainMetric_order_is_natural :
    SolOrder.plainMetric = [0, 1, 2, 3, 4, 5] ∧ SolOrder.writePlain = [0, 1, 2, 3, 4, 5] := by decide

/-- the binary branches: libMeshb order, reader = writer, 2-D fills -/
theorem solb_orders :
    named SolOrder.solb3 = ["xx", "xy", "yy", "xz", "yz", "zz"] ∧ named SolOrder.solb2 = ["xx", "xy", "yy"] ∧
    SolOrder.writeSolb3 = SolOrder.solb3 ∧ SolOrder.writeSolb2 = SolOrder.solb2 ∧
    SolOrder.solb2Fill = [(2, false), (4, false), (5, true)] ∧
    SolOrder.solb3 = MetricOrder.read3 ∧ SolOrder.writeSolb3 = MetricOrder.write3 := by decide

/-- every reader/writer pair refine has uses one table: what ref_gather_metric writes as `.solb` is what the ASCII
    `.sol` reader and the `.solb` reader expect; `.met` (xx xy yy) is what the bamg reader stores as (xx,xy,0,yy,0,1) -/
theorem reader_writer_orders_agree :
    SolOrder.asciiSol3 = SolOrder.writeSolb3 ∧ SolOrder.asciiSol2 = SolOrder.writeSolb2 ∧
    SolOrder.plainMetric = SolOrder.writePlain ∧ named SolOrder.writeMet = ["xx", "xy", "yy"] ∧
    SolOrder.bamgRead = [0, 1, 2] ∧
    SolOrder.bamgForm = [(some 0, false), (some 1, false), (none, false), (some 2, false), (none, false), (none, true)] ∧
    SolOrder.asciiSol3.map (fun k => SolOrder.asciiSol3.getD k 0) = [0, 1, 2, 3, 4, 5] := by decide

/-- **read (independent write t) = t, per row, 3-D ASCII**: the six tokens of a libMeshb line land in the slots of
    the tensor they name; and what the `.solb` writer emits for that tensor is that line again -/
theorem asciiSol3_row (xx xy xz yy yz zz : UInt64) :
    storeRow SolOrder.asciiSol3 [] [xx, xy, yy, xz, yz, zz] = [xx, xy, xz, yy, yz, zz] ∧
    loadRow SolOrder.writeSolb3 [xx, xy, xz, yy, yz, zz] = [xx, xy, yy, xz, yz, zz] := ⟨rfl, rfl⟩

/-- 2-D ASCII: xx xy yy ↦ (xx, xy, 0, yy, 0, 1) -/
theorem asciiSol2_row (xx xy yy : UInt64) :
    storeRow SolOrder.asciiSol2 SolOrder.asciiSol2Fill [xx, xy, yy] = [xx, xy, 0, yy, 0, one] ∧
    loadRow SolOrder.writeSolb2 [xx, xy, 0, yy, 0, one] = [xx, xy, yy] ∧
    loadRow SolOrder.writeMet [xx, xy, 0, yy, 0, one] = [xx, xy, yy] ∧
    bamgRow [xx, xy, yy] = [xx, xy, 0, yy, 0, one] := ⟨rfl, rfl, rfl, rfl⟩

/-- plain six columns: identity both ways -/
theorem plainMetric_row (a b c d e f : UInt64) :
    storeRow SolOrder.plainMetric [] [a, b, c, d, e, f] = [a, b, c, d, e, f] ∧
    loadRow SolOrder.writePlain [a, b, c, d, e, f] = [a, b, c, d, e, f] := ⟨rfl, rfl⟩

/-- writer ∘ reader and reader ∘ writer are the identity for the pairs refine has (3-D) -/
theorem metric_row_roundtrip (a b c d e f : UInt64) :
    storeRow SolOrder.solb3 [] (loadRow SolOrder.writeSolb3 [a, b, c, d, e, f]) = [a, b, c, d, e, f] ∧
    loadRow SolOrder.writeSolb3 (storeRow SolOrder.asciiSol3 [] [a, b, c, d, e, f]) = [a, b, c, d, e, f] ∧
    storeRow SolOrder.plainMetric [] (loadRow SolOrder.writePlain [a, b, c, d, e, f]) = [a, b, c, d, e, f] :=
  ⟨rfl, rfl, rfl⟩

/-- **chunked_read_eq_whole**: for every chunk size ≥ 1 and every world of ranks (any rank count, any distribution of
    the globals) the `while (nnode_read < nnode)` loop of the readers — rank 0 reads a section, `ref_mpi_bcast`, every
    rank stores — ends with status ok and leaves on every rank exactly what ONE pass over rows `0 … nnode-1` leaves:
    row `g` of the file is offered to the local node of global `g` (and of `nnode + g` for 2-D files) once, in order.
    `rd`/`view`: any sequential row reader (`RowStream`). -/
theorem chunked_read_eq_whole {σ : Type} (rd : Nat → σ → Except Status (List Row × σ)) (view : σ → List Row)
    (hrd : RowStream rd view) (dup : Bool) (nnode chunk : Int) (hchunk : 1 ≤ chunk) (s : σ) (w : World Rank)
    (hn : 0 ≤ nnode) (hlen : nnode ≤ (view s).length) :
    ∃ w' s', readLoop dup nnode nnode chunk rd (nnode.toNat + 1) 0 s w = .ok (w', s') ∧
      w'.map (fun st => (st.globals, st.arr)) =
        w.map (fun st => (st.globals, scatterRows dup nnode st.globals 0 ((view s).take nnode.toNat) st.arr)) := by
  have := readLoop_eq rd view hrd dup nnode chunk hchunk (nnode.toNat + 1) 0 s w (by omega) (by omega) (by omega)
  simpa using this

/-- the chunk the readers compute is ≥ 1 whenever the file declares at least one vertex (so the loop advances) -/
theorem reader_chunk_pos (nnode : Int) (np : Nat) (h1 : 1 ≤ nnode) (h2 : nnode < 2 ^ 31) (hnp : 1 ≤ np) :
    1 ≤ chunkOfR SolOrder.readChunkFloor nnode np := by
  have hdiv : Int.tdiv nnode np ≤ nnode := by
    have := Int.tdiv_le_self (b := (np : Int)) (a := nnode) (by omega)
    exact this
  have hdiv0 : 0 ≤ Int.tdiv nnode np := Int.tdiv_nonneg (by omega) (by omega)
  unfold chunkOfR SolOrder.readChunkFloor wrap32 toSigned ofSigned
  simp only [Nat.reducePow]
  omega

/-- **field_index_is_vertex_index**: after the pass that the chunk loop equals (`chunked_read_eq_whole`), the local
    node `l` that `ref_node_local` returns for global `g` (and for no other global — the node-id invariant) holds
    entry `g` of the file if the file has one, and is untouched otherwise; no other entry is ever stored there -/
theorem field_index_is_vertex_index (nnode : Int) (gl : List Nat) (g : Int) (l : Nat)
    (hloc : refNodeLocal gl g = some l) (hinj : ∀ g', refNodeLocal gl g' = some l → g' = g)
    (rows : List Row) (arr : List Row) (hl : l < arr.length) (h0 : 0 ≤ g) :
    (scatterRows false nnode gl 0 rows arr)[l]? = if g < rows.length then rows[g.toNat]? else arr[l]? := by
  have := scatterRows_getElem? nnode gl g l hloc hinj rows 0 arr hl
  simpa [h0] using this

/-! ### non-vacuity: an anisotropic tensor whose six components all differ -/

example : refNodeLocal [2, 0, 1] 0 = some 1 ∧ ∀ g', refNodeLocal [2, 0, 1] g' = some 1 → g' = 0 := by
  refine ⟨by decide, ?_⟩
  intro g' h
  unfold refNodeLocal at h
  split at h
  · cases h
  · rename_i hg
    have e2 : (2 = g'.toNat) ↔ g'.toNat = 2 := eq_comm
    have e0 : (0 = g'.toNat) ↔ g'.toNat = 0 := eq_comm
    have e1 : (1 = g'.toNat) ↔ g'.toNat = 1 := eq_comm
    simp only [List.idxOf?, List.findIdx?_cons, List.findIdx?_nil, beq_iff_eq, e0, e1, e2] at h
    by_cases h2 : g'.toNat = 2
    · simp [h2] at h
    · by_cases h0 : g'.toNat = 0
      · omega
      · by_cases h1 : g'.toNat = 1
        · simp [h1] at h
        · simp [h2, h0, h1] at h

/-- the list reader: the stream is the list of remaining rows -/
def listRd (k : Nat) (s : List Row) : Except Status (List Row × List Row) := .ok (s.take k, s.drop k)

example : RowStream listRd id := fun k s _ => ⟨s.drop k, rfl, rfl⟩

def t0 : Row := [11, 12, 13, 22, 23, 33]
def t1 : Row := [111, 112, 113, 122, 123, 133]
def t2 : Row := [211, 212, 213, 222, 223, 233]

/-- three tensors, two ranks (rank 0 holds globals 2,0; rank 1 holds 1,2), chunk 2 (not a divisor of 3):
    every local node ends with the tensor of its global id -/
example :
    (readLoop false 3 3 2 listRd 4 0 [t0, t1, t2]
        [{ globals := [2, 0], buf := [[], []], arr := [[], []] }, { globals := [1, 2], buf := [[], []], arr := [[], []] }]).map
      (fun r => r.1.map (·.arr)) = .ok [[t2, t0], [t1, t2]] := by decide +kernel

/-- token level, 3-D ASCII `.sol` written in libMeshb order, one rank, chunk floor 1 (three passes) -/
example :
    partMetricText true 1 3 [[2, 0, 1]]
      ([Tok.word "MeshVersionFormatted", .int 2, .word "Dimension", .int 3, .word "SolAtVertices", .int 3, .int 1, .int 3] ++
       [11, 12, 22, 13, 23, 33].map Tok.num ++ [111, 112, 122, 113, 123, 133].map Tok.num ++
       [211, 212, 222, 213, 223, 233].map Tok.num ++ [Tok.word "End"]) = .ok [[t2, t0, t1]] := by decide +kernel

/-- 2-D ASCII `.sol`, two ranks -/
example :
    partMetricText true 1 2 [[1], [0, 1]]
      ([Tok.word "Dimension", .int 2, .word "SolAtVertices", .int 2, .int 1, .int 3] ++
       [11, 12, 22].map Tok.num ++ [111, 112, 122].map Tok.num) =
      .ok [[[111, 112, 0, 122, 0, one]], [[11, 12, 0, 22, 0, one], [111, 112, 0, 122, 0, one]]] := by decide +kernel

/-- the plain writer followed by the plain reader, two ranks each way -/
example :
    gatherMetric "h.metric" false 0 56 2
      [{ nodes := [{ global := 1, part := 0, payload := t1 }], cells := [] },
       { nodes := [{ global := 0, part := 1, payload := t0 }, { global := 1, part := 0, payload := t2 }], cells := [] }] =
      .done (.ok (.toks ((t0 ++ t1).map Tok.num))) := by decide +kernel

end Refine.Props.C09Sol
