import Refine.Model.Comm

namespace Refine.Props.C17
open Refine.Model.Comm

theorem stub : (1 : Nat) = 1 := rfl

end Refine.Props.C17
